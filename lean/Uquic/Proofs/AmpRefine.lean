/-
C14 ∘ C06: the anti-amplification SLICE model (Uquic/Model/Amp/Limit.lean) is a sound abstraction of the
FULL sent-packet-handler model (Uquic/Model/Ack/Sent.lean).

  * `amp : Sent.State → Amp.H` — the projection (perspective, bytesSent, bytesReceived, peerAddressValidated);
  * `absOp` — the slice operations one operation of the full model performs (`[]` = stutter);
  * histories of the full handler with `SendMode` consultations and coalesced datagrams (`FOp`, `FSt`, `frun`),
    carrying the same ghosts as the slice's run state, and their abstraction `absHist`;
  * `step_refines` / `run_refines`: the projection commutes with every step / every history.

Byte counts are Go int64 in the full model (`Int`) and `Nat` in the slice; the projection is faithful on
states whose two counters are non-negative (`NonNeg`), which every operation with non-negative sizes
preserves (`FOp.ok`: the caller contract already used by C06's `in_flight_balanced`).

The full model's steps are used for EVERY outcome (ok / error / panic: the model returns the partially
updated state), so nothing here assumes that the connection stops using the handler after an error.
-/
import Uquic.Proofs.AmpRefineFrame
import Uquic.Proofs.AmpWire

namespace Uquic.Proofs.AmpRefine
open Uquic.Model Uquic.Proofs.Amp

/-! ### the projection -/

def ampPersp (s : Sent.State) : Amp.Persp := if s.isClient then .client else .server

/-- the projection of the full handler state onto the amplification slice -/
def amp (s : Sent.State) : Amp.H :=
  { persp := ampPersp s, bytesSent := s.bytesSent.toNat, bytesReceived := s.bytesReceived.toNat,
    validated := s.peerValidated }

/-- the two byte counters are not negative (holds initially, preserved by every operation with non-negative sizes) -/
def NonNeg (s : Sent.State) : Prop := 0 ≤ s.bytesSent ∧ 0 ≤ s.bytesReceived

def ampLevel : Sent.Level → Option Amp.Level
  | .initial => some .initial
  | .handshake => some .handshake
  | .zeroRTT => some .zeroRTT
  | .oneRTT => some .oneRTT
  | .invalid => none

/-- caller contract: byte counts handed to the handler are not negative -/
def OpOK : Sent.Op → Prop
  | .send _ _ _ size _ _ _ _ => 0 ≤ size
  | .rcvBytes n _ => 0 ≤ n
  | _ => True

/-- the slice operations one operation of the full model performs in state `s` (`[]` = stutter):
    a `send` whose PopPacketNumber returned registers its size (SentPacket's first statement, also when
    SentPacket then panics); ReceivedBytes and ReceivedPacket map to themselves; ReceivedAck,
    OnLossDetectionTimeout, QueueProbePacket, DropPackets, ResetForRetry, MigratedPath stutter. -/
def absOp (s : Sent.State) (op : Sent.Op) (e : Sent.StepEnv) : List Amp.Op :=
  match op with
  | .send lvl _ _ size _ _ _ _ => if popOk s lvl e.nts then [.sent [size.toNat]] else []
  | .rcvBytes n _ => [.rcvBytes n.toNat]
  | .rcvPacket l _ =>
    match ampLevel l with
    | some l' => [.rcvPacket l']
    | none => []
  | _ => []

theorem amp_of_keeps {s' s : Sent.State} (k : Keeps s' s) : amp s' = amp s := by
  simp [amp, ampPersp, k.bs, k.br, k.pv, k.ic]

theorem factor_full : Sent.amplificationFactor = 3 := by decide

/-- both models compute the same `isAmplificationLimited` -/
theorem isLimited_amp {s : Sent.State} (hn : NonNeg s) : (amp s).isAmplificationLimited = s.isAmplificationLimited := by
  unfold Amp.H.isAmplificationLimited Sent.State.isAmplificationLimited
  rw [factor_is_three, factor_full]
  obtain ⟨h1, h2⟩ := hn
  cases hv : s.peerValidated with
  | true => simp [amp, hv]
  | false =>
    simp only [amp, hv, if_false, Bool.false_eq_true, decide_eq_decide]
    omega

theorem absOp_length (s : Sent.State) (op : Sent.Op) (e : Sent.StepEnv) : (absOp s op e).length ≤ 1 := by
  cases op <;> simp only [absOp] <;> (try split) <;> simp

/-- **one operation of the full model is the slice's run of `absOp`** (0 or 1 slice operations), for every
    outcome of the operation; and the counters stay non-negative -/
theorem amp_step {s : Sent.State} (hn : NonNeg s) (op : Sent.Op) (e : Sent.StepEnv) (hok : OpOK op) :
    amp (s.step op e).1 = (absOp s op e).foldl Amp.H.apply (amp s) ∧ NonNeg (s.step op e).1 := by
  have k := step_keeps s op e
  rw [amp_of_keeps k]
  have hnn : NonNeg (s.step op e).1 ↔ NonNeg (sliceAfter s op e) := by unfold NonNeg; rw [k.bs, k.br]
  rw [hnn]
  obtain ⟨h1, h2⟩ := hn
  cases op with
  | send lvl now la size mtu probe frames sframes =>
    simp only [OpOK] at hok
    simp only [sliceAfter, absOp]
    cases popOk s lvl e.nts with
    | false => exact ⟨rfl, h1, h2⟩
    | true =>
      simp only [if_true, List.foldl_cons, List.foldl_nil, Amp.H.apply]
      refine ⟨?_, by simp only []; omega, h2⟩
      simp only [amp, ampPersp, Amp.H.sentDatagram, List.foldl_cons, List.foldl_nil, Amp.H.sentPacket, Amp.H.mk.injEq,
        true_and, and_true]
      omega
  | rcvBytes n now =>
    simp only [OpOK] at hok
    simp only [sliceAfter, absOp, List.foldl_cons, List.foldl_nil, Amp.H.apply]
    refine ⟨?_, h1, by simp only []; omega⟩
    simp only [amp, ampPersp, Amp.H.receivedBytes, Amp.H.mk.injEq, true_and, and_true]
    omega
  | rcvPacket l now =>
    simp only [sliceAfter, absOp]
    refine ⟨?_, h1, h2⟩
    cases l <;> cases hv : s.peerValidated <;> cases hc : s.isClient <;>
      simp [ampLevel, amp, ampPersp, Amp.H.apply, Amp.H.receivedPacket, hv, hc]
  | ack lvl now ranges => exact ⟨rfl, h1, h2⟩
  | timeout now => exact ⟨rfl, h1, h2⟩
  | probe lvl => exact ⟨rfl, h1, h2⟩
  | drop lvl now => exact ⟨rfl, h1, h2⟩
  | retry => exact ⟨rfl, h1, h2⟩
  | migrate now => exact ⟨rfl, h1, h2⟩

/-! ### SendMode -/

/-- what `SendMode` answers once the amplification test is passed (the rest of the Go function) -/
def restMode (s : Sent.State) (canSend pacingBudget : Bool) : Int :=
  let numTracked := s.app.hist.len + Sent.optLen s.initial + Sent.optLen s.handshake
  if numTracked ≥ Sent.maxTrackedSentPackets then Sent.sendNone
  else if s.numProbesToSend > 0 then s.ptoMode
  else if !canSend then Sent.sendAck
  else if numTracked ≥ Sent.maxOutstandingSentPackets then Sent.sendAck
  else if !pacingBudget then Sent.sendPacingLimited
  else Sent.sendAny

theorem sendMode_split (s : Sent.State) (cs pb : Bool) :
    s.sendMode cs pb = if s.isAmplificationLimited then Sent.sendNone else restMode s cs pb := by
  unfold Sent.State.sendMode restMode
  simp only []

/-- numeric SendMode → the slice's enumeration (anything that is not a known code other than SendNone is
    read as "some permission") -/
def decode (c : Int) : Amp.Mode :=
  if c = Sent.sendNone then .none
  else if c = Sent.sendAck then .ack
  else if c = Sent.sendPTOInitial then .ptoInitial
  else if c = Sent.sendPTOHandshake then .ptoHandshake
  else if c = Sent.sendPTOAppData then .ptoAppData
  else if c = Sent.sendPacingLimited then .pacingLimited
  else .any

theorem decode_none (c : Int) : decode c = .none ↔ c = Sent.sendNone := by
  unfold decode
  constructor
  · intro h
    by_cases h0 : c = Sent.sendNone
    · exact h0
    · rw [if_neg h0] at h
      repeat' split at h
      all_goals cases h
  · intro h; simp [h]

/-- the seven SendMode codes -/
def ValidCode (c : Int) : Prop :=
  c = Sent.sendNone ∨ c = Sent.sendAck ∨ c = Sent.sendPTOInitial ∨ c = Sent.sendPTOHandshake ∨
  c = Sent.sendPTOAppData ∨ c = Sent.sendPacingLimited ∨ c = Sent.sendAny

theorem decode_code {c : Int} (h : ValidCode c) : (decode c).code = c := by
  rcases h with h | h | h | h | h | h | h <;> subst h <;> decide

/-- the slice's environment input `wants` for a consultation of the full model -/
def wantsOf (s : Sent.State) (cs pb : Bool) : Amp.Mode := decode (restMode s cs pb)

theorem restMode_valid {s : Sent.State} (hp : PtoOK s) (cs pb : Bool) : ValidCode (restMode s cs pb) := by
  unfold restMode
  simp only []
  split
  · exact Or.inl rfl
  · split
    · rcases hp with h | h | h | h <;> rw [h] <;> simp [ValidCode]
    · split
      · exact Or.inr (Or.inl rfl)
      · split
        · exact Or.inr (Or.inl rfl)
        · split
          · simp [ValidCode]
          · simp [ValidCode]

/-- **SendMode of the full model is the slice's SendMode** for the environment input `wantsOf`:
    the same answer (as SendMode code) whenever `ptoMode` is legal — which it is in every reachable state —
    and in any case the same "≠ SendNone" verdict -/
theorem sendMode_refines {s : Sent.State} (hn : NonNeg s) (cs pb : Bool) :
    (((amp s).sendMode (wantsOf s cs pb) != .none) = (s.sendMode cs pb != Sent.sendNone)) ∧
    (PtoOK s → ((amp s).sendMode (wantsOf s cs pb)).code = s.sendMode cs pb) := by
  rw [sendMode_split]
  unfold Amp.H.sendMode
  rw [isLimited_amp hn]
  cases hl : s.isAmplificationLimited with
  | true => exact ⟨by simp, fun _ => by simp; decide⟩
  | false =>
    simp only [Bool.false_eq_true, if_false]
    refine ⟨?_, fun hp => decode_code (restMode_valid hp cs pb)⟩
    unfold wantsOf
    by_cases h : restMode s cs pb = Sent.sendNone
    · simp [h, (decode_none _).2]
    · have : decode (restMode s cs pb) ≠ .none := fun hd => h ((decode_none _).1 hd)
      have e1 : (decode (restMode s cs pb) != Amp.Mode.none) = true := bne_iff_ne.mpr this
      have e2 : (restMode s cs pb != Sent.sendNone) = true := bne_iff_ne.mpr h
      rw [e1, e2]

/-- **the full model's SendMode answers SendNone whenever the slice says "amplification limited"** -/
theorem sendMode_none_of_slice_limited {s : Sent.State} (hn : NonNeg s) (cs pb : Bool)
    (hl : (amp s).isAmplificationLimited = true) : s.sendMode cs pb = Sent.sendNone := by
  rw [sendMode_split, ← isLimited_amp hn, hl]; rfl

/-! ### histories of the full handler: operations, SendMode consultations, coalesced datagrams -/

/-- one packet of a datagram: the arguments of a `send` step (PopPacketNumber + SentPacket) and its environment -/
structure Pkt where
  lvl : Sent.Level
  now : Int
  largestAcked : Int
  size : Int
  mtu : Bool := false
  probe : Bool := false
  frames : List Sent.Frame := []
  sframes : List Sent.Frame := []
  e : Sent.StepEnv := {}

def Pkt.op (p : Pkt) : Sent.Op := .send p.lvl p.now p.largestAcked p.size p.mtu p.probe p.frames p.sframes

inductive FOp
  /-- `SendMode()` consulted; the congestion controller's CanSend / HasPacingBudget answers are environment inputs -/
  | mode (canSend pacingBudget : Bool)
  /-- one datagram: its coalesced packets are registered one after the other -/
  | dgram (pkts : List Pkt)
  /-- any other call (ReceivedBytes, ReceivedPacket, ReceivedAck, OnLossDetectionTimeout, QueueProbePacket,
      DropPackets, ResetForRetry, MigratedPath); a `send` here is a datagram of one packet -/
  | call (op : Sent.Op) (e : Sent.StepEnv)

/-- a `call` of `send` is a one-packet datagram -/
def FOp.norm : FOp → FOp
  | .call (.send lvl now la size mtu probe frames sframes) e => .dgram [⟨lvl, now, la, size, mtu, probe, frames, sframes, e⟩]
  | x => x

/-- caller contract: sizes are not negative -/
def FOp.ok : FOp → Prop
  | .mode _ _ => True
  | .dgram pkts => ∀ p ∈ pkts, 0 ≤ p.size
  | .call op _ => OpOK op

/-- run state: the FULL handler plus the ghosts of the slice's run state (`Amp.St`) -/
structure FSt where
  s : Sent.State
  /-- ghost: the last `SendMode` answer was ≠ SendNone and no datagram was sent since -/
  permitted : Bool := false
  /-- ghost: bytes of the last datagram registered (0 if none) -/
  last : Nat := 0
  /-- ghost: every datagram so far was sent while `permitted` -/
  disciplined : Bool := true
  /-- ghost: bytes handed to SentPacket / ReceivedBytes so far -/
  out : Nat := 0
  inn : Nat := 0

/-- register the packets of one datagram one after the other: the final state, and the sizes that were
    registered (those whose PopPacketNumber returned, so that SentPacket ran) -/
def sendAll (s : Sent.State) : List Pkt → Sent.State × List Nat
  | [] => (s, [])
  | p :: rest =>
    ((sendAll (s.step p.op p.e).1 rest).1,
     if popOk s p.lvl p.e.nts then p.size.toNat :: (sendAll (s.step p.op p.e).1 rest).2
     else (sendAll (s.step p.op p.e).1 rest).2)

def rcvSize : Sent.Op → Nat
  | .rcvBytes n _ => n.toNat
  | _ => 0

def FSt.stepN (x : FSt) : FOp → FSt
  | .mode cs pb => { x with permitted := x.s.sendMode cs pb != Sent.sendNone }
  | .dgram pkts =>
    { x with s := (sendAll x.s pkts).1, permitted := false, last := Amp.sum (sendAll x.s pkts).2,
             disciplined := x.disciplined && x.permitted, out := x.out + Amp.sum (sendAll x.s pkts).2 }
  | .call op e => { x with s := (x.s.step op e).1, inn := x.inn + rcvSize op }

/-- one step of a history of the full handler -/
def FSt.step (x : FSt) (op : FOp) : FSt := x.stepN op.norm

def frun (x : FSt) (ops : List FOp) : FSt := ops.foldl FSt.step x

/-- `NewSentPacketHandler(initialPN, …, clientAddressValidated, …, pers, …)` with fresh ghosts -/
def FSt.init (pn : Int) (cav client : Bool) (nts : Int) : FSt := { s := Sent.State.new pn cav client nts }

/-- the slice operations of one step of a history -/
def absN (x : FSt) : FOp → List Amp.Op
  | .mode cs pb => [.mode (wantsOf x.s cs pb)]
  | .dgram pkts => [.sent (sendAll x.s pkts).2]
  | .call op e => absOp x.s op e

def absF (x : FSt) (op : FOp) : List Amp.Op := absN x op.norm

/-- the slice history of a history of the full handler -/
def absHist (x : FSt) : List FOp → List Amp.Op
  | [] => []
  | op :: rest => absF x op ++ absHist (x.step op) rest

/-- projection of run states -/
def ampSt (x : FSt) : Amp.St :=
  { h := amp x.s, permitted := x.permitted, last := x.last, disciplined := x.disciplined, wireOut := x.out, wireIn := x.inn }

theorem sendAll_refines (pkts : List Pkt) : ∀ (s : Sent.State), NonNeg s → (∀ p ∈ pkts, 0 ≤ p.size) →
    amp (sendAll s pkts).1 = (amp s).sentDatagram (sendAll s pkts).2 ∧ NonNeg (sendAll s pkts).1 := by
  induction pkts with
  | nil => intro s hn _; exact ⟨rfl, hn⟩
  | cons p rest ih =>
    intro s hn hs
    have hp : OpOK p.op := by simp only [Pkt.op, OpOK]; exact hs p (List.mem_cons_self ..)
    obtain ⟨a1, a2⟩ := amp_step hn p.op p.e hp
    obtain ⟨i1, i2⟩ := ih (s.step p.op p.e).1 a2 (fun q hq => hs q (List.mem_cons_of_mem _ hq))
    refine ⟨?_, i2⟩
    simp only [sendAll]
    rw [i1, a1]
    simp only [Pkt.op, absOp]
    cases popOk s p.lvl p.e.nts with
    | false => rfl
    | true => simp [Amp.H.sentDatagram, Amp.H.apply]

theorem stepN_refines {x : FSt} (hn : NonNeg x.s) (op : FOp) (hnorm : op.norm = op) (hok : op.ok) :
    ampSt (x.stepN op) = (absN x op).foldl Amp.St.step (ampSt x) ∧ NonNeg (x.stepN op).s ∧ (absN x op).length ≤ 1 := by
  cases op with
  | mode cs pb =>
    refine ⟨?_, hn, by simp [absN]⟩
    simp only [FSt.stepN, absN, List.foldl_cons, List.foldl_nil, Amp.St.step, ampSt]
    rw [(sendMode_refines hn cs pb).1]
  | dgram pkts =>
    obtain ⟨r1, r2⟩ := sendAll_refines pkts x.s hn hok
    refine ⟨?_, r2, by simp [absN]⟩
    simp only [FSt.stepN, absN, List.foldl_cons, List.foldl_nil, Amp.St.step, ampSt]
    rw [r1]
  | call op e =>
    obtain ⟨a1, a2⟩ := amp_step hn op e hok
    refine ⟨?_, a2, absOp_length _ _ _⟩
    simp only [FSt.stepN, absN, ampSt]
    rw [a1]
    cases op with
    | send lvl now la size mtu probe frames sframes => simp [FOp.norm] at hnorm
    | rcvBytes n now => simp [absOp, Amp.St.step, Amp.H.apply, rcvSize]
    | rcvPacket l now =>
      simp only [absOp, rcvSize]
      split <;> simp [Amp.St.step, Amp.H.apply]
    | ack lvl now ranges => simp [absOp, rcvSize]
    | timeout now => simp [absOp, rcvSize]
    | probe lvl => simp [absOp, rcvSize]
    | drop lvl now => simp [absOp, rcvSize]
    | retry => simp [absOp, rcvSize]
    | migrate now => simp [absOp, rcvSize]

theorem norm_norm (op : FOp) : op.norm.norm = op.norm := by
  cases op with
  | mode cs pb => rfl
  | dgram pkts => rfl
  | call op e => cases op <;> rfl

theorem norm_ok {op : FOp} (h : op.ok) : op.norm.ok := by
  cases op with
  | mode cs pb => exact h
  | dgram pkts => exact h
  | call op e =>
    cases op with
    | send lvl now la size mtu probe frames sframes =>
      simp only [FOp.norm, FOp.ok, List.mem_singleton]
      intro p hp; subst hp; exact h
    | _ => exact h

/-- **every step of a history of the full model is the slice's run of its abstraction** (exactly one slice
    operation for SendMode / a datagram / ReceivedBytes / ReceivedPacket, a stutter otherwise), ghosts included -/
theorem step_refines {x : FSt} (hn : NonNeg x.s) (op : FOp) (hok : op.ok) :
    ampSt (x.step op) = (absF x op).foldl Amp.St.step (ampSt x) ∧ NonNeg (x.step op).s ∧ (absF x op).length ≤ 1 :=
  stepN_refines hn op.norm (norm_norm op) (norm_ok hok)

theorem run_refines (ops : List FOp) : ∀ (x : FSt), NonNeg x.s → (∀ op ∈ ops, op.ok) →
    ampSt (frun x ops) = (absHist x ops).foldl Amp.St.step (ampSt x) ∧ NonNeg (frun x ops).s := by
  induction ops with
  | nil => intro x hn _; exact ⟨rfl, hn⟩
  | cons op rest ih =>
    intro x hn hok
    obtain ⟨s1, s2, _⟩ := step_refines hn op (hok op (List.mem_cons_self ..))
    obtain ⟨i1, i2⟩ := ih (x.step op) s2 (fun q hq => hok q (List.mem_cons_of_mem _ hq))
    refine ⟨?_, i2⟩
    simp only [frun, List.foldl_cons, absHist, List.foldl_append] at i1 ⊢
    rw [← s1]; exact i1

theorem frun_append (x : FSt) (a b : List FOp) : frun x (a ++ b) = frun (frun x a) b := by
  simp [frun, List.foldl_append]

theorem absHist_append (a b : List FOp) : ∀ (x : FSt), absHist x (a ++ b) = absHist x a ++ absHist (frun x a) b := by
  induction a with
  | nil => intro x; rfl
  | cons op rest ih => intro x; simp only [List.cons_append, absHist, ih, List.append_assoc]; rfl

theorem new_nonNeg (pn : Int) (cav client : Bool) (nts : Int) : NonNeg (Sent.State.new pn cav client nts) := by
  simp [NonNeg, Sent.State.new]

theorem ampSt_init (pn : Int) (cav client : Bool) (nts : Int) :
    ampSt (FSt.init pn cav client nts) = Amp.St.init (if client then .client else .server) cav := by
  cases client <;> cases cav <;> rfl

/-- history form of the refinement, from a fresh handler: the projection of the state reached by ANY history
    of the full handler is the state the slice reaches on the abstracted history -/
theorem run_refines_new (pn : Int) (cav client : Bool) (nts : Int) (ops : List FOp) (hok : ∀ op ∈ ops, op.ok) :
    ampSt (frun (FSt.init pn cav client nts) ops) =
      Amp.run (if client then .client else .server) cav (absHist (FSt.init pn cav client nts) ops) ∧
    NonNeg (frun (FSt.init pn cav client nts) ops).s := by
  obtain ⟨r1, r2⟩ := run_refines ops (FSt.init pn cav client nts) (new_nonNeg pn cav client nts) hok
  refine ⟨?_, r2⟩
  rw [r1, ampSt_init]; rfl

/-! ### validation (directly on the full model, no size hypotheses) -/

theorem step_validated {s : Sent.State} {op : Sent.Op} {e : Sent.StepEnv} (h : (s.step op e).1.peerValidated = true) :
    s.peerValidated = true ∨ (s.isClient = false ∧ ∃ now, op = .rcvPacket .handshake now) := by
  have k := step_keeps s op e
  rw [k.pv] at h
  cases op with
  | rcvPacket l now =>
    simp only [sliceAfter, Bool.or_eq_true, Bool.and_eq_true, Bool.not_eq_true', decide_eq_true_eq] at h
    rcases h with h | ⟨h1, h2⟩
    · exact Or.inl h
    · subst h2; exact Or.inr ⟨h1, now, rfl⟩
  | send lvl now la size mtu probe frames sframes =>
    simp only [sliceAfter] at h
    split at h <;> exact Or.inl h
  | _ => exact Or.inl h

theorem step_isClient (s : Sent.State) (op : Sent.Op) (e : Sent.StepEnv) : (s.step op e).1.isClient = s.isClient := by
  rw [(step_keeps s op e).ic]
  cases op <;> simp only [sliceAfter] <;> (try split) <;> rfl

theorem sendAll_validated (pkts : List Pkt) : ∀ (s : Sent.State), (sendAll s pkts).1.peerValidated = s.peerValidated := by
  induction pkts with
  | nil => intro s; rfl
  | cons p rest ih =>
    intro s
    simp only [sendAll]
    rw [ih, (step_keeps s p.op p.e).pv]
    simp only [Pkt.op, sliceAfter]
    split <;> rfl

/-- a step of a history validates the peer's address only if it is `ReceivedPacket` at Handshake level -/
theorem fstep_validated {x : FSt} {op : FOp} (h : (x.step op).s.peerValidated = true) :
    x.s.peerValidated = true ∨ ∃ now e, op = .call (.rcvPacket .handshake now) e := by
  cases op with
  | mode cs pb => exact Or.inl h
  | dgram pkts =>
    left
    simpa [FSt.step, FOp.norm, FSt.stepN, sendAll_validated] using h
  | call op e =>
    cases op with
    | send lvl now la size mtu probe frames sframes =>
      left
      simpa [FSt.step, FOp.norm, FSt.stepN, sendAll_validated] using h
    | rcvPacket l now =>
      rcases step_validated (s := x.s) (op := .rcvPacket l now) (e := e) h with h' | ⟨_, now', h'⟩
      · exact Or.inl h'
      · cases h'; exact Or.inr ⟨now, e, rfl⟩
    | ack lvl now ranges =>
      rcases step_validated (s := x.s) (op := .ack lvl now ranges) (e := e) h with h' | ⟨_, now', h'⟩
      · exact Or.inl h'
      · cases h'
    | timeout now =>
      rcases step_validated (s := x.s) (op := .timeout now) (e := e) h with h' | ⟨_, now', h'⟩
      · exact Or.inl h'
      · cases h'
    | probe lvl =>
      rcases step_validated (s := x.s) (op := .probe lvl) (e := e) h with h' | ⟨_, now', h'⟩
      · exact Or.inl h'
      · cases h'
    | drop lvl now =>
      rcases step_validated (s := x.s) (op := .drop lvl now) (e := e) h with h' | ⟨_, now', h'⟩
      · exact Or.inl h'
      · cases h'
    | retry =>
      rcases step_validated (s := x.s) (op := .retry) (e := e) h with h' | ⟨_, now', h'⟩
      · exact Or.inl h'
      · cases h'
    | migrate now =>
      rcases step_validated (s := x.s) (op := .migrate now) (e := e) h with h' | ⟨_, now', h'⟩
      · exact Or.inl h'
      · cases h'
    | rcvBytes n now =>
      rcases step_validated (s := x.s) (op := .rcvBytes n now) (e := e) h with h' | ⟨_, now', h'⟩
      · exact Or.inl h'
      · cases h'

theorem frun_validated (ops : List FOp) : ∀ (x : FSt), (frun x ops).s.peerValidated = true →
    x.s.peerValidated = true ∨ ∃ now e, FOp.call (.rcvPacket .handshake now) e ∈ ops := by
  induction ops with
  | nil => intro x h; exact Or.inl h
  | cons op rest ih =>
    intro x h
    rcases ih (x.step op) h with h1 | ⟨now, e, h1⟩
    · rcases fstep_validated h1 with h2 | ⟨now, e, h2⟩
      · exact Or.inl h2
      · exact Or.inr ⟨now, e, by rw [h2]; exact List.mem_cons_self ..⟩
    · exact Or.inr ⟨now, e, List.mem_cons_of_mem _ h1⟩

/-- validation is never undone -/
theorem fstep_validated_mono {x : FSt} (op : FOp) (h : x.s.peerValidated = true) : (x.step op).s.peerValidated = true := by
  cases op with
  | mode cs pb => exact h
  | dgram pkts => simpa [FSt.step, FOp.norm, FSt.stepN, sendAll_validated] using h
  | call op e =>
    cases op with
    | send lvl now la size mtu probe frames sframes => simpa [FSt.step, FOp.norm, FSt.stepN, sendAll_validated] using h
    | rcvPacket l now =>
      show (x.s.step (.rcvPacket l now) e).1.peerValidated = true
      rw [(step_keeps _ _ _).pv]; simp [sliceAfter, h]
    | _ =>
      simp only [FSt.step, FOp.norm, FSt.stepN]
      rw [(step_keeps _ _ _).pv]; exact h

theorem frun_validated_mono (ops : List FOp) : ∀ (x : FSt), x.s.peerValidated = true → (frun x ops).s.peerValidated = true := by
  induction ops with
  | nil => intro x h; exact h
  | cons op rest ih => intro x h; exact ih _ (fstep_validated_mono op h)

end Uquic.Proofs.AmpRefine
