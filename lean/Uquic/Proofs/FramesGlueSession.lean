/-
C09 helper lemmas (round 4): the per-datagram Initial path under loss recovery (model
Uquic/Model/UQuic/PerDatagram.lean). Whatever is packed, lost, retransmitted, split or written later:
every frame held anywhere is a true cut of the stream, and every byte written is accounted for — still
in the stream, in the retransmission queue, or registered with a packet that has not been lost.
-/
import Uquic.Model.UQuic.PerDatagram
import Uquic.Proofs.FramesStream
import Uquic.Proofs.FramesGlueMarshal

namespace Uquic.Proofs.Glue
open Uquic.Spec.Framing Uquic.Model.UQuic.Frames Uquic.Model.UQuic.Scrambler Uquic.Model.UQuic.PerDatagram
open Uquic.Model.UQuic.Planned (wireLen getFrames)
open Uquic.Proofs.Frames
open Uquic.Proofs.Stream (BaseInv basePop_spec)
open Uquic.Proofs.Planned (CovF CovF_append CovF_cons getFrames_cov)

/-- the frame is a non-empty true cut of the stream `W` -/
def Truth (W : List UInt8) (f : CF) : Prop :=
  0 < f.2.length ∧ f.1 + f.2.length ≤ W.length ∧ (W.drop f.1).take f.2.length = f.2

theorem Truth.mono {W : List UInt8} {f : CF} (h : Truth W f) (p : List UInt8) : Truth (W ++ p) f := by
  obtain ⟨h1, h2, h3⟩ := h
  refine ⟨h1, by simp; omega, ?_⟩
  rw [List.drop_append_of_le_length (by omega), List.take_append_of_le_length (by simp; omega)]
  exact h3

theorem framesOk_of_truth {W : List UInt8} {fs : List CF} (hW : W.length ≤ maxVarInt8)
    (h : ∀ f ∈ fs, Truth W f) : FramesOk fs := by
  intro f hf
  obtain ⟨a, b, _⟩ := h f hf
  exact ⟨a, by omega⟩

/-! ### varint lengths and MaybeSplitOffFrame -/

theorem varintLen_cases (v : Int) :
    (v ≤ 63 ∧ varintLen v = 1) ∨ (63 < v ∧ v ≤ 16383 ∧ varintLen v = 2) ∨ (16383 < v ∧ 4 ≤ varintLen v) := by
  unfold varintLen
  rw [maxVarInt1_eq, maxVarInt2_eq, maxVarInt4_eq]
  split
  · left; omega
  · split
    · right; left; omega
    · right; right
      split <;> omega

/-- a frame that does not fit the budget is split strictly inside its data (frames shorter than 16 KiB) -/
theorem maxDataLen_lt {off budget : Int} {len : Nat} (hlen : 0 < len) (h16 : len ≤ 16383)
    (hw : ¬ (1 + varintLen off + varintLen len + len ≤ budget)) : maxDataLen off budget < len := by
  unfold maxDataLen
  simp only []
  split
  · omega
  · rcases varintLen_cases (len : Int) with ⟨a, b⟩ | ⟨a, a', b⟩ | ⟨a, _⟩
    · rcases varintLen_cases (budget - (1 + varintLen off + 1)) with ⟨c, e⟩ | ⟨c, c', e⟩ | ⟨c, e⟩
      · rw [e]; simp only [ne_eq, not_true_eq_false, if_false]; omega
      · rw [e]; simp only [ne_eq]; rw [if_pos (by omega)]; omega
      · split <;> omega
    · rcases varintLen_cases (budget - (1 + varintLen off + 1)) with ⟨c, e⟩ | ⟨c, c', e⟩ | ⟨c, e⟩
      · rw [e]; simp only [ne_eq, not_true_eq_false, if_false]; omega
      · rw [e]; simp only [ne_eq]; rw [if_pos (by omega)]; omega
      · split <;> omega
    · omega

/-- the GetFrame loop keeps frames true cuts (split frames keep their offsets) -/
theorem getFrames_truth (W : List UInt8) (h16 : W.length ≤ 16383) :
    ∀ (fuel : Nat) (budget : Int) (q fs q' : List CF), (∀ f ∈ q, Truth W f) →
      getFrames fuel budget q = (fs, q') → (∀ f ∈ fs, Truth W f) ∧ (∀ f ∈ q', Truth W f) := by
  intro fuel
  induction fuel with
  | zero => intro budget q fs q' hq h; simp [getFrames] at h; obtain ⟨rfl, rfl⟩ := h; exact ⟨by simp, hq⟩
  | succ fuel ih =>
    intro budget q fs q' hq h
    cases q with
    | nil => simp [getFrames] at h; obtain ⟨rfl, rfl⟩ := h; exact ⟨by simp, by simp⟩
    | cons f q =>
      have hf := hq f (List.mem_cons_self ..)
      have hq' : ∀ g ∈ q, Truth W g := fun g hg => hq g (List.mem_cons_of_mem _ hg)
      simp only [getFrames] at h
      split at h
      · cases hr : getFrames fuel (budget - wireLen f) q with
        | mk fs0 q0 =>
          rw [hr] at h
          simp only [] at h
          obtain ⟨rfl, rfl⟩ := Prod.mk.inj h
          obtain ⟨a, b⟩ := ih _ _ _ _ hq' hr
          refine ⟨?_, b⟩
          intro g hg
          rcases List.mem_cons.mp hg with rfl | hg
          · exact hf
          · exact a g hg
      · rename_i hfit
        split at h
        · obtain ⟨rfl, rfl⟩ := Prod.mk.inj h; exact ⟨by simp, hq⟩
        · rename_i hn
          obtain ⟨t1, t2, t3⟩ := hf
          have hlt : maxDataLen f.1 budget < f.2.length := by
            apply maxDataLen_lt t1 (by omega)
            simpa [wireLen] using hfit
          generalize hk : (maxDataLen f.1 budget).toNat = k at h
          have hk1 : 0 < k := by omega
          have hk2 : k < f.2.length := by omega
          have thead : Truth W (f.1, f.2.take k) := by
            refine ⟨by simp; omega, by simp; omega, ?_⟩
            simp only [List.length_take]
            rw [Nat.min_eq_left (by omega), ← t3, List.take_take, Nat.min_eq_left (by omega)]
          have trest : Truth W (f.1 + k, f.2.drop k) := by
            refine ⟨by simp; omega, by simp; omega, ?_⟩
            simp only [List.length_drop]
            conv => rhs; rw [← t3]
            rw [List.drop_take, List.drop_drop]
          cases hr : getFrames fuel (budget - wireLen (f.1, f.2.take k)) ((f.1 + k, f.2.drop k) :: q) with
          | mk fs0 q0 =>
            rw [hr] at h
            simp only [] at h
            obtain ⟨rfl, rfl⟩ := Prod.mk.inj h
            obtain ⟨a, b⟩ := ih _ _ _ _ (by
              intro g hg
              rcases List.mem_cons.mp hg with rfl | hg
              · exact trest
              · exact hq' g hg) hr
            refine ⟨?_, b⟩
            intro g hg
            rcases List.mem_cons.mp hg with rfl | hg
            · exact thead
            · exact a g hg

/-! ### the PopCryptoFrame loop -/

theorem popLoop_spec (W : List UInt8) : ∀ (fuel : Nat) (cs : CS) (budget : Int) (cs' : CS) (fs : List CF),
    BaseInv cs W → popLoop fuel cs budget = (cs', fs) →
      BaseInv cs' W ∧ (∀ f ∈ fs, Truth W f) ∧
      (∀ i : Nat, cs.writeOffset ≤ (i : Int) → (i : Int) < cs'.writeOffset → CovF fs i) ∧
      cs.writeOffset ≤ cs'.writeOffset := by
  intro fuel
  induction fuel with
  | zero =>
    intro cs budget cs' fs hinv h
    simp only [popLoop] at h
    obtain ⟨rfl, rfl⟩ := Prod.mk.inj h
    exact ⟨hinv, by simp, fun i a b => by omega, Int.le_refl _⟩
  | succ fuel ih =>
    intro cs budget cs' fs hinv h
    simp only [popLoop] at h
    split at h
    · obtain ⟨rfl, rfl⟩ := Prod.mk.inj h
      exact ⟨hinv, by simp, fun i a b => by omega, Int.le_refl _⟩
    · rcases basePop_spec hinv budget with he | ⟨n, hn, he, hle⟩
      · rw [he] at h
        simp only [] at h
        obtain ⟨rfl, rfl⟩ := Prod.mk.inj h
        exact ⟨hinv, by simp, fun i a b => by omega, Int.le_refl _⟩
      · rw [he] at h
        simp only [] at h
        have hb := hinv.buf
        have h0 := hinv.woNonneg
        have hlen : (cs.buf.take n).length = n := by rw [hb]; simp; omega
        have hinv' : BaseInv { cs with buf := cs.buf.drop n, writeOffset := cs.writeOffset + n } W := by
          refine ⟨hinv.plain, by simp only []; omega, by simp only []; omega, ?_⟩
          simp only []
          rw [hb, List.drop_drop]
          congr 1; omega
        have tf : Truth W (cs.writeOffset.toNat, cs.buf.take n) := by
          refine ⟨by simp only [hlen]; exact hn, by simp only [hlen]; omega, ?_⟩
          simp only [hlen]; rw [hb]
        cases hr : popLoop fuel { cs with buf := cs.buf.drop n, writeOffset := cs.writeOffset + n }
            (budget - wireLen (cs.writeOffset.toNat, cs.buf.take n)) with
        | mk c1 f1 =>
          rw [hr] at h
          simp only [] at h
          obtain ⟨rfl, rfl⟩ := Prod.mk.inj h
          obtain ⟨a, b, c, e⟩ := ih _ _ _ _ hinv' hr
          simp only [] at c e
          refine ⟨a, ?_, ?_, by omega⟩
          · intro g hg
            rcases List.mem_cons.mp hg with rfl | hg
            · exact tf
            · exact b g hg
          · intro i h1 h2
            rw [CovF_cons]
            by_cases hi : (i : Int) < cs.writeOffset + n
            · left; simp only [hlen]; omega
            · right; exact c i (by omega) h2

/-! ### the session invariant -/

structure Inv (W : List UInt8) (s : PD) : Prop where
  stream : BaseInv s.cs W
  queue : ∀ f ∈ s.queue, Truth W f
  sent : ∀ fs, some fs ∈ s.sent → ∀ f ∈ fs, Truth W f
  acc : ∀ i, i < W.length →
    s.cs.writeOffset ≤ (i : Int) ∨ CovF s.queue i ∨ ∃ fs, some fs ∈ s.sent ∧ CovF fs i

/-- state after maybeGetCryptoPacket has taken `fs` out of the queue / the stream -/
structure Taken (W : List UInt8) (s : PD) (fs : List CF) : Prop where
  stream : BaseInv s.cs W
  queue : ∀ f ∈ s.queue, Truth W f
  sent : ∀ gs, some gs ∈ s.sent → ∀ f ∈ gs, Truth W f
  frames : ∀ f ∈ fs, Truth W f
  acc : ∀ i, i < W.length →
    s.cs.writeOffset ≤ (i : Int) ∨ CovF s.queue i ∨ CovF fs i ∨ ∃ gs, some gs ∈ s.sent ∧ CovF gs i

theorem takeFrames_spec {W : List UInt8} {s : PD} (h16 : W.length ≤ 16383) (h : Inv W s) :
    Taken W (takeFrames s).1 (takeFrames s).2 ∧ (takeFrames s).1.fb = s.fb ∧ (takeFrames s).1.idx = s.idx := by
  unfold takeFrames takeWith
  split
  · cases hg : getFrames (s.queue.length + (s.queue.map (·.2.length)).sum + 1) (cryptoBudget s) s.queue with
    | mk fs q' =>
      simp only []
      obtain ⟨a, b⟩ := getFrames_truth W h16 _ _ _ _ _ h.queue hg
      refine ⟨⟨h.stream, b, h.sent, a, ?_⟩, trivial, trivial⟩
      intro i hi
      rcases h.acc i hi with c | c | c
      · exact Or.inl c
      · rcases (getFrames_cov _ _ _ _ _ hg i).mp c with c | c
        · exact Or.inr (Or.inr (Or.inl c))
        · exact Or.inr (Or.inl c)
      · exact Or.inr (Or.inr (Or.inr c))
  · cases hp : popLoop (s.cs.buf.length + 1) s.cs (cryptoBudget s) with
    | mk cs' fs =>
      simp only []
      obtain ⟨a, b, c, e⟩ := popLoop_spec W _ _ _ _ _ h.stream hp
      refine ⟨⟨a, h.queue, h.sent, b, ?_⟩, trivial, trivial⟩
      intro i hi
      simp only []
      rcases h.acc i hi with c' | c' | c'
      · by_cases hlt : (i : Int) < cs'.writeOffset
        · exact Or.inr (Or.inr (Or.inl (c i c' hlt)))
        · exact Or.inl (by omega)
      · exact Or.inr (Or.inl c')
      · exact Or.inr (Or.inr (Or.inr c'))

theorem mem_append_single {α : Type} {l : List α} {x y : α} : y ∈ l ++ [x] ↔ y ∈ l ∨ y = x := by simp

theorem finish_inv {W : List UInt8} {s s' : PD} {fs : List CF} {d : Draws} {perm : List Nat} {out : PackOut}
    (h : Taken W s fs) (hfin : finish s fs d perm = (s', out))
    (hout : out = .none ∨ ∃ p reg, out = .pkt p reg) : Inv W s' := by
  unfold finish at hfin
  by_cases he : fs.isEmpty = true
  · rw [if_pos he] at hfin
    obtain ⟨rfl, rfl⟩ := Prod.mk.inj hfin
    have hnil : fs = [] := by simpa using he
    refine ⟨h.stream, h.queue, ?_, ?_⟩
    · intro gs hgs
      rcases mem_append_single.mp hgs with hgs | hgs
      · exact h.sent gs hgs
      · simp at hgs
    · intro i hi
      rcases h.acc i hi with c | c | c | ⟨gs, hgs, c⟩
      · exact Or.inl c
      · exact Or.inr (Or.inl c)
      · subst hnil; obtain ⟨f, hf, _⟩ := c; simp at hf
      · exact Or.inr (Or.inr ⟨gs, by simp [hgs], c⟩)
  · rw [if_neg he] at hfin
    cases hm : marshalInitial s.fb s.idx false fs d perm with
    | ok v =>
      obtain ⟨p, idx'⟩ := v
      rw [hm] at hfin
      simp only [] at hfin
      obtain ⟨rfl, rfl⟩ := Prod.mk.inj hfin
      refine ⟨h.stream, h.queue, ?_, ?_⟩
      · intro gs hgs
        rcases mem_append_single.mp hgs with hgs | hgs
        · exact h.sent gs hgs
        · obtain rfl := Option.some.inj hgs; exact h.frames
      · intro i hi
        rcases h.acc i hi with c | c | c | ⟨gs, hgs, c⟩
        · exact Or.inl c
        · exact Or.inr (Or.inl c)
        · exact Or.inr (Or.inr ⟨fs, by simp, c⟩)
        · exact Or.inr (Or.inr ⟨gs, by simp [hgs], c⟩)
    | err e =>
      rw [hm] at hfin
      simp only [] at hfin
      obtain ⟨_, rfl⟩ := Prod.mk.inj hfin
      rcases hout with h | ⟨_, _, h⟩ <;> simp at h
    | panic =>
      rw [hm] at hfin
      simp only [] at hfin
      obtain ⟨_, rfl⟩ := Prod.mk.inj hfin
      rcases hout with h | ⟨_, _, h⟩ <;> simp at h
    | wrap =>
      rw [hm] at hfin
      simp only [] at hfin
      obtain ⟨_, rfl⟩ := Prod.mk.inj hfin
      rcases hout with h | ⟨_, _, h⟩ <;> simp at h

theorem lose_inv {W : List UInt8} {s : PD} (k : Nat) (h : Inv W s) : Inv W (lose s k).1 := by
  unfold lose
  split
  · rename_i fs hk
    simp only []
    have hmem : some fs ∈ s.sent := List.mem_of_getElem? hk
    refine ⟨h.stream, ?_, ?_, ?_⟩
    · intro f hf
      rcases List.mem_append.mp hf with hf | hf
      · exact h.queue f hf
      · exact h.sent fs hmem f hf
    · intro gs hgs
      rcases List.mem_or_eq_of_mem_set hgs with hgs | hgs
      · exact h.sent gs hgs
      · simp at hgs
    · intro i hi
      rcases h.acc i hi with c | c | ⟨gs, hgs, c⟩
      · exact Or.inl c
      · exact Or.inr (Or.inl (CovF_append.mpr (Or.inl c)))
      · obtain ⟨j, hj, hget⟩ := List.getElem_of_mem hgs
        by_cases hjk : j = k
        · subst hjk
          have : s.sent[j]? = some (some gs) := by rw [List.getElem?_eq_getElem hj, hget]
          rw [this] at hk
          obtain rfl : gs = fs := by simpa using hk
          exact Or.inr (Or.inl (CovF_append.mpr (Or.inr c)))
        · refine Or.inr (Or.inr ⟨gs, ?_, c⟩)
          apply List.mem_iff_getElem.mpr
          refine ⟨j, by simpa using hj, ?_⟩
          rw [List.getElem_set_ne (by omega)]
          exact hget
  · exact h

theorem writeMore_inv {W : List UInt8} {s : PD} (p : List UInt8) (h : Inv W s) : Inv (W ++ p) (writeMore s p) := by
  unfold writeMore
  have hs := h.stream
  refine ⟨⟨hs.plain, hs.woNonneg, by have := hs.woLe; simp; omega, ?_⟩, fun f hf => (h.queue f hf).mono p,
    fun fs hfs f hf => (h.sent fs hfs f hf).mono p, ?_⟩
  · simp only []
    rw [hs.buf, List.drop_append_of_le_length (by have := hs.woLe; have := hs.woNonneg; omega)]
  · intro i hi
    simp only []
    by_cases hlt : i < W.length
    · exact h.acc i hlt
    · left; have := hs.woLe; omega

/-- one PackCoalescedPacket call that did not fail keeps the invariant -/
theorem pack_inv {W : List UInt8} {s s' : PD} {d : Draws} {perm : List Nat} {out : PackOut}
    (h16 : W.length ≤ 16383) (h : Inv W s) (hp : pack s d perm = (s', out))
    (hout : out = .none ∨ ∃ p reg, out = .pkt p reg) : Inv W s' := by
  unfold pack at hp
  exact finish_inv (takeFrames_spec h16 h).1 hp hout

/-! ### histories -/

inductive Op where
  | pack (d : Draws) (perm : List Nat)
  | lose (k : Nat)
  | write (p : List UInt8)

/-- run a history; `none`: a PackCoalescedPacket call failed (error or panic) — the connection is closed -/
def run : PD → List Op → Option PD
  | s, [] => some s
  | s, .pack d perm :: ops =>
    match (pack s d perm).2 with
    | .none => run (pack s d perm).1 ops
    | .pkt _ _ => run (pack s d perm).1 ops
    | _ => none
  | s, .lose k :: ops => run (lose s k).1 ops
  | s, .write p :: ops => run (writeMore s p) ops

/-- the handshake data written by a history -/
def writtenBy : List Op → List UInt8
  | [] => []
  | .write p :: ops => p ++ writtenBy ops
  | _ :: ops => writtenBy ops

theorem run_inv : ∀ (ops : List Op) (W : List UInt8) (s s' : PD), (W ++ writtenBy ops).length ≤ 16383 →
    Inv W s → run s ops = some s' → Inv (W ++ writtenBy ops) s' := by
  intro ops
  induction ops with
  | nil => intro W s s' _ h hr; simp only [run, Option.some.injEq] at hr; subst hr; simpa [writtenBy] using h
  | cons op ops ih =>
    intro W s s' h16 h hr
    cases op with
    | pack d perm =>
      simp only [run] at hr
      simp only [writtenBy] at h16 ⊢
      have hW : W.length ≤ 16383 := by simp at h16; omega
      split at hr
      · rename_i ho
        exact ih W _ s' h16 (pack_inv (s' := (pack s d perm).1) (out := (pack s d perm).2) hW h rfl (Or.inl ho)) hr
      · rename_i p reg ho
        exact ih W _ s' h16 (pack_inv (s' := (pack s d perm).1) (out := (pack s d perm).2) hW h rfl (Or.inr ⟨p, reg, ho⟩)) hr
      · simp at hr
    | lose k =>
      simp only [run] at hr
      simp only [writtenBy] at h16 ⊢
      exact ih W _ s' h16 (lose_inv k h) hr
    | write p =>
      simp only [run] at hr
      simp only [writtenBy] at h16 ⊢
      rw [← List.append_assoc] at h16 ⊢
      exact ih (W ++ p) _ s' h16 (writeMore_inv p h) hr

/-- a fresh session: the ClientHello has been written, nothing has been sent -/
def fresh (fb : Builder) (cls : List Int) (maxSize hdrLen : Int) (CH : List UInt8) : PD :=
  { fb := fb, cls := cls, maxSize := maxSize, hdrLen := hdrLen, cs := { initial := true, buf := CH } }

theorem fresh_inv (fb : Builder) (cls : List Int) (maxSize hdrLen : Int) (CH : List UInt8) :
    Inv CH (fresh fb cls maxSize hdrLen CH) := by
  refine ⟨⟨by simp [fresh], by simp [fresh], by simp [fresh], by simp [fresh]⟩, by simp [fresh], by simp [fresh], ?_⟩
  intro i _
  left; simp [fresh]

end Uquic.Proofs.Glue
