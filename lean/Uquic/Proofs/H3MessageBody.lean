/-
Helper lemmas for the C18 ∘ C19 composition: the receiving side's body reader (`newRequestBody` /
`newResponseBody`, i.e. C18's `Body` over the rest of the stream once the head has been consumed) on
the body part of a message laid out as DATA* ‖ HEADERS?: for every chunking and every read-size
sequence it returns the written bytes and a clean EOF and has then handed the trailer section to the
callback — provided the declared Content-Length is absent or not exceeded.
-/
import Uquic.Props.C18
import Uquic.Proofs.H3Message

namespace Uquic.Proofs.H3Msg
open Uquic.Model.H3 Uquic.Spec.H3Wire Uquic.Proofs.H3 Uquic.Props.C18

/-- the body reader of the receiving side over the rest of the stream; `cl < 0`: no declared length -/
def recvBody (mh : Nat) (cells : List (Nat × Bool)) (cl : Int) : Body := Body.new { m := streamOf mh cells } cl

theorem recvBody_nat (mh : Nat) (cells : List (Nat × Bool)) (c : Nat) : recvBody mh cells (c : Int) = bodyOf mh cells c := rfl

theorem body_exact (mh : Nat) (ws : List (List Nat)) (tsec : Option (List Nat))
    (hlen : ∀ w ∈ ws, w.length < 2 ^ 62) (ht62 : ∀ t, tsec = some t → t.length < 2 ^ 62)
    (htm : ∀ t, tsec = some t → t.length ≤ mh)
    (cells : List (Nat × Bool)) (hcells : cells.map (·.1) = encFrames (bodyFrames ws tsec))
    (cl : Int) (hcl : cl < 0 ∨ (ws.flatten.length : Int) ≤ cl) (ns : List Nat) :
    ((recvBody mh cells cl).readMany ns).2.1 <+: ws.flatten ∧
    (∀ e, ((recvBody mh cells cl).readMany ns).2.2 = some e →
       e = .eof ∧ ((recvBody mh cells cl).readMany ns).2.1 = ws.flatten ∧
       ((recvBody mh cells cl).readMany ns).1.str.m.trailer = tsec) ∧
    ((∀ n ∈ ns, 0 < n) → cells.length < ns.length → ((recvBody mh cells cl).readMany ns).2.2.isSome) := by
  have hok := bodyFrames_ok ws tsec hlen ht62
  have hctl := bodyFrames_ctl ws tsec
  have hexp := expect_bodyFrames mh ws tsec htm
  have hinv := streamOf_inv mh (bodyFrames ws tsec) hok hctl cells hcells
  have hTV : TV mh (streamOf mh cells) false (bodyFrames ws tsec) tsec :=
    ⟨fun h => (by cases h), fun _ => ⟨rfl, expectTrailer_bodyFrames mh ws tsec htm⟩⟩
  have hmeas : meas [] (bodyFrames ws tsec) = cells.length := by
    have := congrArg List.length hcells
    simp only [List.length_map] at this
    simp [meas, this]
  by_cases hneg : cl < 0
  · -- no declared length: the body is the stream
    have hb : (recvBody mh cells cl).hasCL = false := by
      have : ¬ cl ≥ 0 := by omega
      simp [recvBody, Body.new, this]
    have hm : (recvBody mh cells cl).str.m = streamOf mh cells := by
      have : ¬ cl ≥ 0 := by omega
      simp [recvBody, Body.new, this]
    obtain ⟨n1, n2, n3⟩ := body_nocl_readMany ns (recvBody mh cells cl) hb
    rw [hm] at n1 n2 n3
    obtain ⟨h1, h2, h3⟩ := readMany_spec (mh := mh) ns _ _ _ _ hinv
    rw [hexp] at h1 h2
    simp only [List.nil_append] at h1 h2
    refine ⟨by rw [n2]; exact h1, ?_, ?_⟩
    · intro e he
      rw [n3] at he
      cases hs : ((streamOf mh cells).readMany ns).2.2 with
      | none => rw [hs] at he; cases he
      | some e' =>
        rw [hs] at he
        simp only [Option.map_some, Option.some.injEq] at he
        obtain ⟨e1, e2, _, _⟩ := h2 e' hs
        subst e1
        have : e = .eof := by rw [← he]; rfl
        subst this
        refine ⟨rfl, by rw [n2]; exact e2, ?_⟩
        rw [n1]
        exact readMany_trailer ns _ _ _ _ _ hinv hTV hs
    · intro hpos hl
      rw [n3]
      have := h3 hpos (by rw [hmeas]; exact hl)
      simpa using this
  · obtain ⟨c, rfl⟩ := Int.eq_ofNat_of_zero_le (show 0 ≤ cl by omega)
    have hle : ws.flatten.length ≤ c := by
      rcases hcl with h | h
      · exact absurd h hneg
      · exact_mod_cast h
    rw [recvBody_nat]
    have hb : BInv mh c (bodyOf mh cells c) 0 [] false (bodyFrames ws tsec) :=
      { hasCL := by simp [bodyOf, Body.new], nv := by simp [bodyOf, Body.new],
        rem := by simp [bodyOf, Body.new], le := Nat.zero_le _,
        inv := by simpa [bodyOf, Body.new] using hinv }
    have hclean : (expect mh false (bodyFrames ws tsec)).2 = .eof := by rw [hexp]
    obtain ⟨h1, h2, h3, h4⟩ := body_readMany_spec (mh := mh) (cl := c) ns _ 0 [] false _ hb hclean
    rw [hexp] at h2 h3
    simp only [List.nil_append, Nat.zero_add] at h1 h2 h3 h4
    have hm : (bodyOf mh cells c).str.m = streamOf mh cells := by simp [bodyOf, Body.new]
    refine ⟨h2, ?_, ?_⟩
    · intro e he
      rcases h3 e he with ⟨_, e2⟩ | ⟨e1, _, e3⟩
      · omega
      · subst e1
        refine ⟨rfl, List.IsPrefix.eq_of_length h2 e3, ?_⟩
        exact body_readMany_trailer ns _ [] false _ tsec (by rw [hm]; exact hinv) (by rw [hm]; exact hTV) he
    · intro hpos hl
      exact h4 hpos (by rw [hmeas]; exact hl)

end Uquic.Proofs.H3Msg
