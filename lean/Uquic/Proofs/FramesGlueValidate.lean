/-
C09 helper lemmas (round 4): validateInitialFlight accepts only plans that can be sent as described —
every datagram, including datagrams beyond the end of the budget list (they are packed with the last
InitialPackets entry, so they are held against the last budget), fits the frame budget of its packet.
-/
import Uquic.Model.UQuic.Frames

namespace Uquic.Proofs.Glue
open Uquic.Model.UQuic.Frames

theorem validateLoop_fits (budgets : List Int) (n : Nat) :
    ∀ (ps : List (List UInt8)) (i : Nat) (acc rs : List (Nat × Nat)),
      validateLoop budgets n i ps acc = .ok rs →
      ∀ (j : Nat) (hj : j < ps.length) (b : Int), budgets[min (i + j) (budgets.length - 1)]? = some b →
        b > 0 → ((ps[j]).length : Int) ≤ b := by
  intro ps
  induction ps with
  | nil => intro i acc rs _ j hj; simp at hj
  | cons p ps ih =>
    intro i acc rs h j hj b hb hpos
    simp only [validateLoop] at h
    split at h
    · simp at h
    · rename_i budget hbud
      split at h
      · simp at h
      · rename_i hfit
        split at h
        · simp at h
        · simp at h
        · split at h
          · simp at h
          · cases j with
            | zero =>
              simp only [Nat.add_zero] at hb
              rw [hbud] at hb
              obtain rfl := Option.some.inj hb
              simp only [List.getElem_cons_zero]
              omega
            | succ j =>
              simp only [List.getElem_cons_succ]
              exact ih (i + 1) _ rs h j (by simpa using hj) b (by rw [← hb]; congr 2; omega) hpos

/-- an accepted plan fits: datagram `j` is at most as long as `budgets[min j last]` whenever that
    budget is known (positive) -/
theorem validate_fits {ps : List (List UInt8)} {budgets : List Int} {n : Int} {rs : List (Nat × Nat)}
    (h : validate ps budgets n = .ok rs) (j : Nat) (hj : j < ps.length) (b : Int)
    (hb : budgets[min j (budgets.length - 1)]? = some b) (hpos : b > 0) : ((ps[j]).length : Int) ≤ b := by
  unfold validate at h
  split at h
  · simp at h
  · split at h
    · simp at h
    · cases hv : validateLoop budgets n.toNat 0 ps [] with
      | ok rs' => exact validateLoop_fits budgets n.toNat ps 0 [] rs' hv j hj b (by simpa using hb) hpos
      | err e => rw [hv] at h; simp at h
      | panic => rw [hv] at h; simp at h
      | wrap => rw [hv] at h; simp at h

end Uquic.Proofs.Glue
