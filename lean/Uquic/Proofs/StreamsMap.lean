/-
`streamsMap` dispatch: direction errors, id classes handed to the sub-maps, ResetFor0RTT (C15).
-/
import Uquic.Model.Streams.Map
import Uquic.Proofs.StreamsIncoming
import Uquic.Proofs.StreamsOutgoingIds

set_option linter.unusedSimpArgs false
set_option linter.unusedVariables false

namespace Uquic.Proofs.Streams
open Uquic.Model.Streams

/-- ids of a given type and initiator are exactly `first, first+4, …` -/
theorem id_class (t : STyp) (p : Persp) (id : SID) (h0 : 0 ≤ id) :
    (typeOf id = t ∧ initiatedBy id = p) ↔ ∃ j : Nat, id = firstOutgoing t p + 4 * (j : Int) := by
  cases t <;> cases p <;>
    simp only [typeOf, initiatedBy, firstOutgoing,
      Uquic.Gen.Protocol.FirstOutgoingBidiStreamClient, Uquic.Gen.Protocol.FirstOutgoingBidiStreamServer,
      Uquic.Gen.Protocol.FirstOutgoingUniStreamClient, Uquic.Gen.Protocol.FirstOutgoingUniStreamServer] <;>
    constructor <;>
    first
    | (rintro ⟨h1, h2⟩
       refine ⟨(id / 4).toNat, ?_⟩
       split at h1 <;> split at h2 <;> simp at h1 h2 <;> omega)
    | (rintro ⟨j, rfl⟩
       constructor <;> split <;> simp <;> omega)

theorem firstIncoming_eq (t : STyp) (p : Persp) : firstIncoming t p = firstOutgoing t p.opposite := by
  cases t <;> cases p <;> rfl

/-- ids that the dispatch hands to the incoming map of type `t` -/
theorem incoming_class (t : STyp) (p : Persp) (id : SID) (h0 : 0 ≤ id) (ht : typeOf id = t)
    (hi : initiatedBy id ≠ p) : ∃ j : Nat, id = firstIncoming t p + 4 * (j : Int) := by
  rw [firstIncoming_eq]
  apply (id_class t p.opposite id h0).mp
  refine ⟨ht, ?_⟩
  cases p <;> simp only [Persp.opposite] <;> revert hi <;> cases initiatedBy id <;> simp

/-! ### direction errors (single steps of the map, any state) -/

theorem recv_wrong_direction (m : Map) (id : SID) (hd : m.dead = false) (ht : typeOf id = .uni)
    (hi : initiatedBy id = m.pers) :
    (m.step (.recvFrame id)).2.frameRes = some (.error .stateInvalidRecv) ∧ (m.step (.recvFrame id)).1 = m := by
  simp [Map.step, hd, Map.getReceiveStream, ht, hi]

theorem send_wrong_direction (m : Map) (id : SID) (hd : m.dead = false) (ht : typeOf id = .uni)
    (hi : initiatedBy id ≠ m.pers) :
    (m.step (.sendFrame id)).2.frameRes = some (.error .stateInvalidSend) ∧ (m.step (.sendFrame id)).1 = m := by
  simp [Map.step, hd, Map.getSendStream, ht, hi]

/-- a frame naming a locally initiated stream that was never opened (in the allowed direction) -/
theorem local_never_opened_recv (m : Map) (id : SID) (hd : m.dead = false) (ht : typeOf id = .bidi)
    (hi : initiatedBy id = m.pers) (hge : id ≥ m.outBidi.nextStream) :
    (m.step (.recvFrame id)).2.frameRes = some (.error .statePeerOpen) := by
  simp [Map.step, hd, Map.getReceiveStream, ht, hi, Outgoing.getStream, hge]

theorem local_never_opened_send (m : Map) (id : SID) (hd : m.dead = false)
    (hi : initiatedBy id = m.pers) (hge : id ≥ (m.out (typeOf id)).nextStream) :
    (m.step (.sendFrame id)).2.frameRes = some (.error .statePeerOpen) := by
  cases ht : typeOf id <;> simp [ht, Map.out] at hge <;>
    simp [Map.step, hd, Map.getSendStream, ht, hi, Outgoing.getStream, hge]

/-- a locally opened stream that was deleted yields `nil, nil` -/
theorem local_deleted_nil (m : Map) (id : SID) (hd : m.dead = false)
    (hi : initiatedBy id = m.pers) (hlt : id < (m.out (typeOf id)).nextStream)
    (hgone : (m.out (typeOf id)).streams.contains id = false) :
    (m.step (.sendFrame id)).2.frameRes = some (.ok none) := by
  have hnge : ¬ id ≥ (m.out (typeOf id)).nextStream := by omega
  cases ht : typeOf id <;> simp [ht, Map.out] at hnge hgone <;>
    simp [Map.step, hd, Map.getSendStream, ht, hi, Outgoing.getStream, hnge, hgone]

/-- a peer-initiated stream that was opened and deleted (or is queued for deletion) yields `nil, nil` -/
theorem incoming_deleted_nil (i : Incoming) (id : SID) (hle : ¬ id > i.maxStream) (hlt : id < i.nextOpen)
    (hgone : lookup i.streams id ≠ some false) : (i.getOrOpen id).2 = .nil ∧ (i.getOrOpen id).1 = i := by
  unfold Incoming.getOrOpen
  rw [if_neg hle, if_pos hlt]
  split
  · next h => exact absurd h hgone
  · exact ⟨rfl, rfl⟩

theorem getOrOpen_limit_iff (i : Incoming) (id : SID) : (i.getOrOpen id).2 = .err .limit ↔ id > i.maxStream := by
  constructor
  · intro h
    by_cases hgt : id > i.maxStream
    · exact hgt
    · exfalso
      revert h
      simp only [Incoming.getOrOpen, hgt, if_false]
      split
      · split <;> simp
      · split
        · simp
        · simp only; split <;> simp
  · intro h; simp [Incoming.getOrOpen, h]

/-! ### ResetFor0RTT -/

theorem closeWithError_out (o : Outgoing) (e : Err) :
    (o.closeWithError e).closeErr = some e ∧ (o.closeWithError e).openQueue = [] ∧
    ∀ p ∈ (o.closeWithError e).procs, ∀ q ∈ o.procs, q.wid = p.wid → o.openQueue.contains q.wid = true →
      (wids o).Nodup → p.closed = true := by
  refine ⟨rfl, rfl, ?_⟩
  intro p hp q hq hw hc hn
  simp only [Outgoing.closeWithError, List.mem_map] at hp
  obtain ⟨p0, hp0, rfl⟩ := hp
  have : p0 = q := by
    apply eq_of_wid_eq o.procs hn p0 q hp0 hq
    revert hw; split <;> intro hw <;> exact hw.symm
  subst this
  have hc' : p0.wid ∈ o.openQueue := by simpa using hc
  simp [hc']

/-- a blocked `OpenStreamSync` caller of a closed map returns the close error at its next locked step -/
theorem wake_after_close (o : Outgoing) (e : Err) (w : Nat) (p : Proc) (hc : o.closeErr = some e)
    (hf : o.findProc w = some p) (hp : p.phase = .woken) : (o.wakeLocked w).2 = some (.err e) := by
  simp [Outgoing.wakeLocked, hf, hp, hc]

/-- … and such a caller can always take that step: a closed wait channel is always ready -/
theorem recv_after_close (o : Outgoing) (w : Nat) (p : Proc) (hf : o.findProc w = some p)
    (hp : p.phase = .waiting) (hcl : p.closed = true) :
    ∃ p', (o.recv w).procs = (o.updProc w fun p => { p with phase := .woken }).procs ∧
      p' = ({ p with phase := .woken } : Proc) := by
  exact ⟨_, by simp [Outgoing.recv, hf, hp, hcl], rfl⟩

theorem acc_after_close (i : Incoming) (e : Err) (c : Nat) (p : Acc) (hd : i.dead = false)
    (hc : i.closeErr = some e) (hf : i.findAcc c = some p) (hr : p.ready = true) :
    (i.accLocked c).2.1 = some (.err e) := by
  simp [Incoming.accLocked, hf, hr, hc]

theorem reset_for_0rtt_maps (m : Map) (hc1 : m.inBidi.chanClosed = false) (hc2 : m.inUni.chanClosed = false) :
    m.resetFor0RTT.2 = false ∧ m.resetFor0RTT.1.reset = true ∧
    m.resetFor0RTT.1.outBidi = Outgoing.new .bidi m.pers ∧ m.resetFor0RTT.1.outUni = Outgoing.new .uni m.pers ∧
    m.resetFor0RTT.1.inBidi = Incoming.new .bidi m.maxInBidi m.pers ∧
    m.resetFor0RTT.1.inUni = Incoming.new .uni m.maxInUni m.pers ∧
    m.resetFor0RTT.1.pers = m.pers ∧ m.resetFor0RTT.1.maxInBidi = m.maxInBidi ∧ m.resetFor0RTT.1.maxInUni = m.maxInUni ∧
    (∀ o ∈ m.resetFor0RTT.1.oldOut, o ∈ m.oldOut ∨ o = m.outBidi.closeWithError .rejected0RTT ∨
      o = m.outUni.closeWithError .rejected0RTT) ∧
    (∀ i ∈ m.resetFor0RTT.1.oldIn, i ∈ m.oldIn ∨ (i.closeErr = some .rejected0RTT ∧ i.chanClosed = true ∧
      (i.accs = m.inBidi.accs ∨ i.accs = m.inUni.accs))) := by
  simp only [Map.resetFor0RTT, Map.closeWithError, Incoming.closeWithError, hc1, hc2, Bool.false_eq_true, if_false]
  refine ⟨trivial, trivial, trivial, trivial, trivial, trivial, trivial, trivial, trivial, ?_, ?_⟩
  · intro o ho
    simp only [List.mem_append, List.mem_filter, List.mem_cons, List.mem_nil_iff, or_false] at ho
    rcases ho with ho | ⟨ho | ho, _⟩
    · exact Or.inl ho
    · exact Or.inr (Or.inl ho)
    · exact Or.inr (Or.inr ho)
  · intro i hi
    simp only [List.mem_append, List.mem_filter, List.mem_cons, List.mem_nil_iff, or_false] at hi
    rcases hi with hi | ⟨hi | hi, _⟩
    · exact Or.inl hi
    · right; subst hi; exact ⟨rfl, rfl, Or.inl rfl⟩
    · right; subst hi; exact ⟨rfl, rfl, Or.inr rfl⟩

/-- while `reset` is set, every Open/Accept call is answered with Err0RTTRejected and changes nothing -/
theorem calls_while_reset (m : Map) (hd : m.dead = false) (hr : m.reset = true) (t : STyp) (c : Nat) (b : Bool) :
    (m.step (.openStream t)).2.opened = some (.err .rejected0RTT) ∧
    (m.step (.openSync t c b)).2.rets = [(c, .err .rejected0RTT)] ∧
    (m.step (.accept t c)).2.rets = [(c, .err .rejected0RTT)] ∧
    (m.step (.openStream t)).1 = m ∧ (m.step (.openSync t c b)).1 = m ∧ (m.step (.accept t c)).1 = m := by
  simp [Map.step, hd, hr]

end Uquic.Proofs.Streams
