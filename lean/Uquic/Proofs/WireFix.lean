import Uquic.Proofs.WireDomain2
import Uquic.Proofs.WireLength

/-! Re-encoding what parsed: fixpoint outside the named exceptions, and a kernel-checked
    counterexample for the full statement. -/

namespace Uquic.Proofs.Wire
open Uquic.Model.Wire Uquic.Model.Wire.Varint Uquic.Spec.WireMon

theorem encode_ok_inv (f : Frame) (bs : Bytes) (l : Nat) (h : encode f = .ok bs l) :
    f.panics = false ∧ f.appendErr = none ∧ bs = f.bytes ∧ l = f.length := by
  unfold encode at h
  by_cases hp : f.panics = true
  · simp [hp] at h
  · simp only [hp, Bool.false_eq_true, if_false] at h
    cases he : f.appendErr with
    | some e => simp [he] at h
    | none =>
      simp only [he, EncOut.ok.injEq] at h
      exact ⟨by simpa using hp, rfl, h.1.symm, h.2.symm⟩

theorem reencode_fixpoint_partial (c : Ctx) (b : Bytes) (f : Frame) (n : Nat) (hb : b.length < 2 ^ 62)
    (h : decode c b = .frame f n) (hfix : FixCond f) (hexp : f.isAck = true → effExp c = sendAckDelayExponent)
    (bs : Bytes) (l : Nat) (he : encode f = .ok bs l) :
    decode c bs = .frame f bs.length ∧ l = bs.length := by
  obtain ⟨t, l0, n', _, hacc, _, hbody, _⟩ := decode_inv c b f n h
  have hdom := body_domain c t (b.drop l0) (by simp; omega) f n' hbody
  obtain ⟨hpanic, herr, rfl, rfl⟩ := encode_ok_inv f bs l he
  have := decode_bytes c f [] (hdom.dom hfix herr) (hdom.typ hacc) hexp (fun _ => rfl)
  simp only [List.append_nil] at this
  exact ⟨this, (length_exact f hdom.wt hpanic).symm⟩

/-- the full statement of "re-encoding anything that parsed successfully parses to the same result
    again"; FALSE on the unchanged tree (see `reencode_fixpoint_witness`) -/
def reencode_fixpoint_full : Prop :=
  ∀ (c : Ctx) (b : Bytes) (f : Frame) (n : Nat), decode c b = .frame f n →
    ∀ (bs : Bytes) (l : Nat), encode f = .ok bs l → decode c bs = .frame f bs.length

def witnessCtx : Ctx :=
  { lvl := 4, supportsDatagrams := true, supportsResetStreamAt := true, supportsAckFrequency := true, ackDelayExponent := 3 }

/-- ACK, largest 10, ACK Delay 2^62-1 (with exponent 3: 2^62-1 · 8 µs does not fit an int64 of ns) -/
def witnessBytes : Bytes := [0x02, 0x0a, 0xcf, 0xff, 0xff, 0xff, 0xff, 0xff, 0xff, 0xff, 0x00, 0x00]

theorem witness_parses :
    decode witnessCtx witnessBytes = .frame (.ack [(10, 10)] (2 ^ 63 - 1) 0 0 0) 12 := by decide +kernel

theorem witness_reencodes :
    encode (.ack [(10, 10)] (2 ^ 63 - 1) 0 0 0) = .ok [0x02, 0x0a, 0xc0, 0x04, 0x18, 0x93, 0x74, 0xbc, 0x6a, 0x7e, 0x00, 0x00] 12 := by
  decide

theorem witness_reparses :
    decode witnessCtx [0x02, 0x0a, 0xc0, 0x04, 0x18, 0x93, 0x74, 0xbc, 0x6a, 0x7e, 0x00, 0x00] =
      .frame (.ack [(10, 10)] 9223372036854768000 0 0 0) 12 := by decide +kernel

theorem reencode_fixpoint_witness : ¬ reencode_fixpoint_full := by
  intro hfull
  have := hfull witnessCtx witnessBytes _ _ witness_parses _ _ witness_reencodes
  rw [witness_reparses] at this
  revert this
  decide

end Uquic.Proofs.Wire
