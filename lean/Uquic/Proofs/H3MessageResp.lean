/-
Helper lemmas for the C18 ∘ C19 composition: what C18's `responseWriter` model puts on the stream when
a body IS allowed (the complement of `head_and_nobody_status_suppress_body`).

For a writer whose final status has been set (`headerComplete`), that is not answering a HEAD request,
whose status allows a body, on a live stream, and for EVERY sequence of handler operations `ops`
(Header().Set/Del, WriteHeader, Write, Flush in any order) followed by the server's end-of-request
processing (`finish`), the records written to the QUIC stream are

    (earlier 1xx HEADERS)*  HEADERS  raw*  (HEADERS)?

where the raw writes, concatenated, are the encoding of DATA frames whose payloads, concatenated, are
exactly the bytes of the `Write` calls in order (small-response buffering only regroups them) —
provided the declared Content-Length, if any, is not exceeded (otherwise `Write` refuses with
http.ErrContentLength, see `RW.Write`).
-/
import Uquic.Props.C18
import Uquic.Proofs.H3Message

namespace Uquic.Proofs.H3Msg
open Uquic.Model.H3 Uquic.Spec.H3Wire Uquic.Proofs.H3 Uquic.Props.C18

theorem guard (fn m : String) : guardedAt fn m = true := guardedAt_of_all no_unguarded_optional_call fn m

theorem logCall_id (w : RW) (fn m : String) : w.logCall fn m = w := by simp [RW.logCall, guard]

theorem write_live (s : Str) (x : WriteRec) (hst : s.st = .ok) (hcc : s.m.p.cc = none) :
    s.write x = ({ s with writes := s.writes ++ [x] }, none) := by
  simp [Str.write, hst, hcc]

theorem declareTrailer_eq (w : RW) (k : String) :
    w.declareTrailer k = { w with trailers := (w.declareTrailer k).trailers } := by
  simp only [RW.declareTrailer, logCall_id]
  split
  · rfl
  · split <;> rfl

theorem declareAll_eq (ks : List String) :
    ∀ w : RW, w.declareAll ks = { w with trailers := (w.declareAll ks).trailers } := by
  induction ks with
  | nil => intro w; rfl
  | cons k ks ih =>
    intro w
    simp only [RW.declareAll, List.foldl_cons]
    generalize hX : (if w.panicked = true then w else w.declareTrailer k) = X
    have h1 : X = { w with trailers := X.trailers } := by
      rw [← hX]
      split
      · rfl
      · exact declareTrailer_eq w k
    have h2 := ih X
    simp only [RW.declareAll] at h2
    generalize (List.foldl (fun w k => if w.panicked = true then w else w.declareTrailer k) X ks).trailers = T at h2 ⊢
    rw [h2]
    conv => lhs; rw [h1]

/-- `writeHeader` on a live stream, no panic pending: one HEADERS record is appended -/
theorem writeHeader_live (w : RW) (status : Nat) (hnp : w.panicked = false) (hst : w.str.st = .ok)
    (hcc : w.str.m.p.cc = none) :
    ∃ T F, w.writeHeader status =
      ({ w with trailers := T, str := { w.str with writes := w.str.writes ++ [.hdr F] } }, none) := by
  have h := declareAll_eq (announcedTrailers w.header) w
  generalize (w.declareAll (announcedTrailers w.header)).trailers = T at h
  unfold RW.writeHeader
  rw [h]
  simp only [hnp, Bool.false_eq_true, ↓reduceIte]
  rw [write_live w.str _ hst hcc]
  exact ⟨T, _, rfl⟩

theorem sniff_eq (w : RW) (p : List Nat) : w.sniff p = { w with header := (w.sniff p).header } := by
  unfold RW.sniff; split <;> rfl

/-- the writer state that matters for framing -/
structure Live (w : RW) : Prop where
  hc : w.headerComplete = true
  head : w.isHead = false
  allowed : bodyAllowedForStatus w.status = true
  st : w.str.st = .ok
  cc : w.str.m.p.cc = none
  np : w.panicked = false
  tw : w.trailerWritten = false

/-- fields an operation leaves alone -/
structure Keep (a b : RW) : Prop where
  hc : b.headerComplete = a.headerComplete
  head : b.isHead = a.isHead
  status : b.status = a.status
  st : b.str.st = a.str.st
  m : b.str.m = a.str.m
  np : b.panicked = a.panicked
  tw : b.trailerWritten = a.trailerWritten
  nw : b.numWritten = a.numWritten
  cl : b.contentLen = a.contentLen

theorem Live.of_keep {a b : RW} (h : Live a) (k : Keep a b) : Live b :=
  ⟨k.hc.trans h.hc, k.head.trans h.head, by rw [k.status]; exact h.allowed, k.st.trans h.st, by rw [k.m]; exact h.cc,
    k.np.trans h.np, k.tw.trans h.tw⟩

/-- `ensureHeader`: writes the HEADERS record if it has not been written -/
theorem ensureHeader_live (w : RW) (hl : Live w) :
    ∃ H T app, w.ensureHeader = ({ w with header := H, trailers := T, str := { w.str with writes := w.str.writes ++ app }, headerWritten := true }, none) ∧
      ((w.headerWritten = true ∧ app = []) ∨ (w.headerWritten = false ∧ ∃ F, app = [.hdr F])) := by
  unfold RW.ensureHeader
  by_cases hw : w.headerWritten = true
  · refine ⟨w.header, w.trailers, [], ?_, Or.inl ⟨hw, rfl⟩⟩
    simp only [hw, Bool.not_true, Bool.false_eq_true, ↓reduceIte, List.append_nil]
    congr 1
    cases w
    simp_all
  · have hw' : w.headerWritten = false := by simpa using hw
    simp only [hw', Bool.not_false, ↓reduceIte]
    have hs := sniff_eq w w.small
    generalize (w.sniff w.small).header = H at hs
    rw [hs]
    obtain ⟨T, F, hwh⟩ := writeHeader_live { w with header := H } w.status hl.np hl.st hl.cc
    simp only at hwh
    rw [hwh]
    simp only [hl.np, Bool.false_eq_true, ↓reduceIte]
    exact ⟨H, T, [.hdr F], rfl, Or.inr ⟨by simp, F, rfl⟩⟩

theorem ensureHeader_facts (w : RW) (hl : Live w) :
    w.ensureHeader.2 = none ∧ Keep w w.ensureHeader.1 ∧ w.ensureHeader.1.small = w.small ∧
      w.ensureHeader.1.headerWritten = true ∧
      ∃ app, w.ensureHeader.1.str.writes = w.str.writes ++ app ∧
        ((w.headerWritten = true ∧ app = []) ∨ (w.headerWritten = false ∧ ∃ F, app = [.hdr F])) := by
  obtain ⟨H, T, app, he, happ⟩ := ensureHeader_live w hl
  rw [he]
  exact ⟨rfl, ⟨rfl, rfl, rfl, rfl, rfl, rfl, rfl, rfl, rfl⟩, rfl, rfl, app, rfl, happ⟩

/-- the raw records of one `doWrite`: DATA frame header, buffered small response, `p` -/
def bodyRecs (small p : List Nat) : List (List Nat) :=
  if small.length + p.length = 0 then []
  else [dataFrameHeader (small.length + p.length)] ++ (if small.isEmpty then [] else [small]) ++
    (if p.isEmpty then [] else [p])

theorem bodyRecs_flat (small p : List Nat) (h : (small ++ p).length < 2 ^ 62) :
    (bodyRecs small p).flatten = encFrames ((if small ++ p = [] then [] else [small ++ p]).map dataFrameOf) := by
  unfold bodyRecs
  by_cases h0 : small.length + p.length = 0
  · have : small ++ p = [] := by
      apply List.length_eq_zero_iff.mp; simp only [List.length_append]; exact h0
    simp [h0, this, encFrames]
  · have hne : small ++ p ≠ [] := by
      intro hc; apply h0; have := congrArg List.length hc; simpa using this
    simp only [h0, ↓reduceIte, hne, List.map_cons, List.map_nil, encFrames, List.append_nil]
    rw [dataFrameOf_enc _ h]
    simp only [List.length_append]
    cases small <;> cases p <;> simp

/-- the part of `doWrite` after the header, on a live stream -/
theorem writeBody_facts (w : RW) (p : List Nat) (hst : w.str.st = .ok) (hcc : w.str.m.p.cc = none) :
    (w.writeBody p).2.2 = none ∧ Keep w (w.writeBody p).1 ∧ (w.writeBody p).1.headerWritten = w.headerWritten ∧
      (w.writeBody p).1.small = (if w.small.length + p.length = 0 then w.small else []) ∧
      (w.writeBody p).1.str.writes = w.str.writes ++ (bodyRecs w.small p).map .raw := by
  obtain ⟨str, header, trailers, status, small, contentLen, numWritten, hc, hw, isHead, tw, ln, pn⟩ := w
  obtain ⟨m, st, writes, evs⟩ := str
  obtain ⟨pp, rem, pt, trl, mh⟩ := m
  obtain ⟨u, cc⟩ := pp
  simp only at hst hcc
  subst hst hcc
  cases small <;> cases p <;> simp [RW.writeBody, bodyRecs, Str.write] <;> exact ⟨rfl, rfl, rfl, rfl, rfl, rfl, rfl, rfl, rfl⟩

/-- `doWrite` on a live writer -/
theorem doWrite_live (w : RW) (p : List Nat) (hl : Live w) :
    ∃ w' app, (w.doWrite p).1 = w' ∧ (w.doWrite p).2.2 = none ∧ Live w' ∧ w'.headerWritten = true ∧ w'.small = [] ∧
      w'.numWritten = w.numWritten ∧ w'.contentLen = w.contentLen ∧
      w'.str.writes = w.str.writes ++ app ++ (bodyRecs w.small p).map .raw ∧
      ((w.headerWritten = true ∧ app = []) ∨ (w.headerWritten = false ∧ ∃ F, app = [.hdr F])) := by
  obtain ⟨e1, e2, e3, e4, app, e5, happ⟩ := ensureHeader_facts w hl
  unfold RW.doWrite
  rcases he : w.ensureHeader with ⟨w1, eo⟩
  rw [he] at e1 e2 e3 e4 e5
  simp only at e1 e2 e3 e4 e5
  subst e1
  have hl1 : Live w1 := hl.of_keep e2
  simp only [hl1.np, Bool.false_eq_true, ↓reduceIte]
  obtain ⟨b1, b2, b3, b4, b5⟩ := writeBody_facts w1 p hl1.st hl1.cc
  refine ⟨_, app, rfl, b1, hl1.of_keep b2, b3.trans e4, ?_, b2.nw.trans e2.nw, b2.cl.trans e2.cl, ?_, happ⟩
  · rw [b4]
    split
    · next h0 => apply List.length_eq_zero_iff.mp; omega
    · rfl
  · rw [b5, e5, e3]

/-! ### the framing invariant -/

def HdrOnly (l : List WriteRec) : Prop := ∀ x ∈ l, ∃ f, x = .hdr f

/-- `acc` = the bytes of the accepted `Write` calls so far: still in the small-response buffer, or on the
    stream as DATA frames behind the HEADERS record -/
def Fr (w : RW) (acc : List Nat) : Prop :=
  (w.headerWritten = false ∧ w.small = acc ∧ HdrOnly w.str.writes) ∨
  (w.headerWritten = true ∧ w.small = [] ∧ ∃ (pre : List WriteRec) (hf : List (String × String)) (raws cs : List (List Nat)), HdrOnly pre ∧
    w.str.writes = pre ++ .hdr hf :: raws.map .raw ∧ raws.flatten = encFrames (cs.map dataFrameOf) ∧
    cs.flatten = acc ∧ ∀ c ∈ cs, c.length < 2 ^ 62)

/-- `doWrite p` turns `Fr w acc` into `Fr w' (acc ++ p)` (written form) -/
theorem doWrite_fr (w : RW) (p acc : List Nat) (hl : Live w) (hf : Fr w acc) (hlen : (acc ++ p).length < 2 ^ 62) :
    (w.doWrite p).2.2 = none ∧ Live (w.doWrite p).1 ∧ Fr (w.doWrite p).1 (acc ++ p) ∧
      (w.doWrite p).1.numWritten = w.numWritten ∧ (w.doWrite p).1.contentLen = w.contentLen ∧
      (w.doWrite p).1.headerWritten = true := by
  obtain ⟨w', app, hw', hnone, hl', hhw, hsm, hnw, hcl, hwr, happ⟩ := doWrite_live w p hl
  rw [hw']
  refine ⟨hnone, hl', ?_, hnw, hcl, hhw⟩
  refine Or.inr ⟨hhw, hsm, ?_⟩
  rcases hf with ⟨f1, f2, f3⟩ | ⟨f1, f2, pre, hf0, raws, cs, g1, g2, g3, g4, g5⟩
  · -- nothing written yet: HEADERS now, then one DATA frame with the buffered bytes and `p`
    rcases happ with ⟨h1, _⟩ | ⟨_, F, rfl⟩
    · rw [f1] at h1; cases h1
    · refine ⟨w.str.writes, F, bodyRecs w.small p, (if w.small ++ p = [] then [] else [w.small ++ p]), f3, ?_, ?_, ?_, ?_⟩
      · rw [hwr]; simp
      · rw [f2]; exact bodyRecs_flat acc p hlen
      · rw [f2]; split
        · next h => simp [h]
        · simp
      · intro c hc
        rw [f2] at hc
        split at hc
        · simp at hc
        · simp only [List.mem_singleton] at hc; subst hc; exact hlen
  · rcases happ with ⟨_, rfl⟩ | ⟨h1, _⟩
    · refine ⟨pre, hf0, raws ++ bodyRecs w.small p, cs ++ (if w.small ++ p = [] then [] else [w.small ++ p]), g1, ?_, ?_, ?_, ?_⟩
      · rw [hwr, g2]; simp
      · rw [List.flatten_append, g3, List.map_append, encFrames_append, bodyRecs_flat]
        rw [f2]
        have : p.length ≤ (acc ++ p).length := by simp
        simp only [List.nil_append]; omega
      · rw [f2]; simp only [List.nil_append, List.flatten_append, g4]
        split
        · next h => simp [h]
        · simp
      · intro c hc
        rcases List.mem_append.mp hc with hc | hc
        · exact g5 c hc
        · rw [f2] at hc
          simp only [List.nil_append] at hc
          split at hc
          · simp at hc
          · simp only [List.mem_singleton] at hc; subst hc
            have : c.length ≤ (acc ++ c).length := by simp
            omega
    · rw [f1] at h1; cases h1

theorem Write_eq (w : RW) (p : List Nat) (hc : w.headerComplete = true) (hal : bodyAllowedForStatus w.status = true)
    (hh : w.isHead = false) (hover : ¬ (w.contentLen ≠ 0 ∧ w.numWritten + p.length > w.contentLen)) :
    w.Write p = if !w.headerWritten ∧ w.small.length + p.length < maxSmallResponseSize then
        ({ w with numWritten := w.numWritten + p.length, small := w.small ++ p }, p.length, none)
      else ({ w with numWritten := w.numWritten + p.length } : RW).doWrite p := by
  simp only [RW.Write, hc, Bool.not_true, Bool.false_eq_true, ↓reduceIte, hal, hover, hh]

/-- `Write(p)` on a live writer whose declared length is not exceeded -/
theorem Write_fr (w : RW) (p acc : List Nat) (hl : Live w) (hf : Fr w acc) (hnw : w.numWritten = acc.length)
    (hcl : w.contentLen = 0 ∨ acc.length + p.length ≤ w.contentLen) (hlen : (acc ++ p).length < 2 ^ 62) :
    Live (w.Write p).1 ∧ Fr (w.Write p).1 (acc ++ p) ∧ (w.Write p).1.numWritten = (acc ++ p).length ∧
      (w.Write p).1.contentLen = w.contentLen ∧ (w.Write p).2.2 = none := by
  have hover : ¬ (w.contentLen ≠ 0 ∧ w.numWritten + p.length > w.contentLen) := by
    rw [hnw]; omega
  rw [Write_eq w p hl.hc hl.allowed hl.head hover]
  split
  · -- buffered
    rename_i hb
    refine ⟨⟨hl.hc, hl.head, hl.allowed, hl.st, hl.cc, hl.np, hl.tw⟩, ?_, by simp [hnw], rfl, rfl⟩
    refine Or.inl ?_
    rcases hf with ⟨f1, f2, f3⟩ | ⟨f1, _, _⟩
    · exact ⟨f1, by simp [f2], f3⟩
    · simp [f1] at hb
  · have hl2 : Live { w with numWritten := w.numWritten + p.length } :=
      ⟨hl.hc, hl.head, hl.allowed, hl.st, hl.cc, hl.np, hl.tw⟩
    have hf2 : Fr { w with numWritten := w.numWritten + p.length } acc := hf
    obtain ⟨d1, d2, d3, d4, d5, _⟩ := doWrite_fr _ p acc hl2 hf2 hlen
    refine ⟨d2, d3, ?_, d5, d1⟩
    rw [d4]; simp [hnw]

theorem Flush_fr (w : RW) (acc : List Nat) (hl : Live w) (hf : Fr w acc) (hlen : acc.length < 2 ^ 62) :
    Live w.Flush ∧ Fr w.Flush acc ∧ w.Flush.numWritten = w.numWritten ∧ w.Flush.contentLen = w.contentLen ∧
      w.Flush.headerWritten = true := by
  obtain ⟨d1, d2, d3, d4, d5, d6⟩ := doWrite_fr w [] acc hl hf (by simpa using hlen)
  simp only [RW.Flush, RW.FlushError, hl.hc, Bool.not_true, Bool.false_eq_true, ↓reduceIte]
  rcases hr : w.doWrite [] with ⟨w1, n, eo⟩
  rw [hr] at d1 d2 d3 d4 d5 d6
  simp only at d1 d2 d3 d4 d5 d6
  subst d1
  simp only [List.append_nil] at d3
  exact ⟨d2, d3, d4, d5, d6⟩

/-- payloads of the `Write` calls of a handler script -/
def payloads : List HOp → List (List Nat)
  | [] => []
  | .write p :: ops => p :: payloads ops
  | _ :: ops => payloads ops

/-- any handler script on a live writer -/
theorem ops_fr (ops : List HOp) : ∀ (w : RW) (acc : List Nat), Live w → Fr w acc → w.numWritten = acc.length →
    (w.contentLen = 0 ∨ acc.length + (payloads ops).flatten.length ≤ w.contentLen) →
    acc.length + (payloads ops).flatten.length < 2 ^ 62 →
    Live (ops.foldl applyOp w) ∧ Fr (ops.foldl applyOp w) (acc ++ (payloads ops).flatten) := by
  induction ops with
  | nil => intro w acc hl hf _ _ _; simpa [payloads] using ⟨hl, hf⟩
  | cons op ops ih =>
    intro w acc hl hf hnw hcl hlen
    simp only [List.foldl_cons]
    cases op with
    | setHeader k vs =>
      exact ih _ acc ⟨hl.hc, hl.head, hl.allowed, hl.st, hl.cc, hl.np, hl.tw⟩ hf hnw hcl hlen
    | delHeader k =>
      exact ih _ acc ⟨hl.hc, hl.head, hl.allowed, hl.st, hl.cc, hl.np, hl.tw⟩ hf hnw hcl hlen
    | writeHeader st =>
      simp only [applyOp, WriteHeader_complete w st hl.hc]
      exact ih w acc hl hf hnw hcl hlen
    | write p =>
      simp only [payloads, List.flatten_cons, List.length_append] at hcl hlen ⊢
      obtain ⟨a1, a2, a3, a4, _⟩ := Write_fr w p acc hl hf hnw (by omega) (by simp only [List.length_append]; omega)
      have := ih (w.Write p).1 (acc ++ p) a1 a2 a3 (by rw [a4]; simp only [List.length_append]; omega)
        (by simp only [List.length_append]; omega)
      simpa [applyOp, List.append_assoc] using this
    | flush =>
      have hlen' : acc.length < 2 ^ 62 := by omega
      obtain ⟨a1, a2, a3, a4, _⟩ := Flush_fr w acc hl hf hlen'
      exact ih w.Flush acc a1 a2 (by rw [a3]; exact hnw) (by rw [a4]; exact hcl) hlen

/-! ### end-of-request processing -/

theorem writeTrailers_live (w : RW) (hl : Live w) :
    ∃ tl, w.writeTrailers.1.str.writes = w.str.writes ++ tl ∧ (tl = [] ∨ ∃ tf, tl = [.hdr tf]) := by
  unfold RW.writeTrailers
  have h := declareAll_eq ((w.header.map (·.1)).filter (·.startsWith trailerPrefix)) w
  generalize (w.declareAll ((w.header.map (·.1)).filter (·.startsWith trailerPrefix))).trailers = T at h
  dsimp only
  rw [h]
  simp only [hl.np, Bool.false_eq_true, ↓reduceIte]
  split
  · exact ⟨[], by simp, Or.inl rfl⟩
  · split
    · exact ⟨[], by simp, Or.inl rfl⟩
    · rw [write_live _ _ hl.st hl.cc]
      exact ⟨_, rfl, Or.inr ⟨_, rfl⟩⟩

theorem flushTrailers_live (w : RW) (hl : Live w) :
    ∃ tl, w.flushTrailers.str.writes = w.str.writes ++ tl ∧ (tl = [] ∨ ∃ tf, tl = [.hdr tf]) := by
  unfold RW.flushTrailers
  simp only [hl.tw, Bool.false_eq_true, ↓reduceIte]
  obtain ⟨tl, h1, h2⟩ := writeTrailers_live w hl
  rcases hr : w.writeTrailers with ⟨w1, eo⟩
  rw [hr] at h1
  cases eo with
  | none => exact ⟨tl, h1, h2⟩
  | some e =>
    dsimp only
    split
    · exact ⟨tl, h1, h2⟩
    · rw [logCall_id]; exact ⟨tl, h1, h2⟩

/-- the records on the stream once the server has finished the request -/
theorem finish_fr (w : RW) (acc : List Nat) (hl : Live w) (hf : Fr w acc) (hlen : acc.length < 2 ^ 62) :
    ∃ (pre : List WriteRec) (hf : List (String × String)) (raws cs : List (List Nat)) (tl : List WriteRec), HdrOnly pre ∧ w.finish.str.writes = pre ++ .hdr hf :: raws.map .raw ++ tl ∧
      (tl = [] ∨ ∃ tf, tl = [.hdr tf]) ∧ raws.flatten = encFrames (cs.map dataFrameOf) ∧ cs.flatten = acc ∧
      ∀ c ∈ cs, c.length < 2 ^ 62 := by
  unfold RW.finish
  dsimp only
  have key : ∀ w0 : RW, Live w0 → Fr w0 acc →
      ∃ (pre : List WriteRec) (hf : List (String × String)) (raws cs : List (List Nat)) (tl : List WriteRec), HdrOnly pre ∧
        (if w0.Flush.panicked = true then w0.Flush
          else if w0.Flush.flushTrailers.panicked = true then w0.Flush.flushTrailers
          else { w0.Flush.flushTrailers with str := (w0.Flush.flushTrailers.str.cancelRead errNoError).close }).str.writes
          = pre ++ .hdr hf :: raws.map .raw ++ tl ∧
        (tl = [] ∨ ∃ tf, tl = [.hdr tf]) ∧ raws.flatten = encFrames (cs.map dataFrameOf) ∧ cs.flatten = acc ∧
        ∀ c ∈ cs, c.length < 2 ^ 62 := by
    intro w0 hl0 hf0
    obtain ⟨a1, a2, _, _, a5⟩ := Flush_fr w0 acc hl0 hf0 hlen
    obtain ⟨tl, t1, t2⟩ := flushTrailers_live w0.Flush a1
    rcases a2 with ⟨f1, _, _⟩ | ⟨_, _, pre, hf', raws, cs, g1, g2, g3, g4, g5⟩
    · rw [a5] at f1; cases f1
    · refine ⟨pre, hf', raws, cs, tl, g1, ?_, t2, g3, g4, g5⟩
      simp only [a1.np, Bool.false_eq_true, ↓reduceIte]
      split
      · rw [t1, g2]
      · show w0.Flush.flushTrailers.str.writes = _
        rw [t1, g2]
  split
  · exact key _ ⟨hl.hc, hl.head, hl.allowed, hl.st, hl.cc, hl.np, hl.tw⟩ hf
  · exact key w hl hf

/-- bytes of the raw records -/
theorem sentBytes_shape (s : Str) (pre : List WriteRec) (hf : List (String × String)) (raws : List (List Nat))
    (tl : List WriteRec) (hpre : HdrOnly pre) (htl : tl = [] ∨ ∃ tf, tl = [.hdr tf])
    (h : s.writes = pre ++ .hdr hf :: raws.map .raw ++ tl) : sentBytes s = raws.flatten := by
  have hp : (pre.map rawBytes).flatten = [] := by
    apply List.flatten_eq_nil_iff.mpr
    intro l hl
    obtain ⟨x, hx, rfl⟩ := List.mem_map.mp hl
    obtain ⟨f, rfl⟩ := hpre x hx
    rfl
  have ht : (tl.map rawBytes).flatten = [] := by
    rcases htl with rfl | ⟨tf, rfl⟩ <;> rfl
  have hr : ((raws.map WriteRec.raw).map rawBytes) = raws := by
    rw [List.map_map]
    conv => rhs; rw [← List.map_id raws]
    rfl
  simp only [sentBytes, h, List.map_append, List.map_cons, List.flatten_append, List.flatten_cons, hp, ht, hr, rawBytes,
    List.nil_append, List.append_nil]

end Uquic.Proofs.H3Msg
