/-
Helper lemmas for the C18 ∘ C19 composition: what C18's `responseWriter` model puts on the stream when
a body IS allowed (the complement of `head_and_nobody_status_suppress_body`).

For a writer whose final status has been set (`headerComplete`), that is not answering a HEAD request,
whose status allows a body, on a live stream, and for EVERY sequence of handler operations `ops`
(Header().Set/Del, WriteHeader, Write, Flush in any order) followed by the server's end-of-request
processing (`finish`), the records written to the QUIC stream are

    (earlier 1xx HEADERS)*  HEADERS  raw*  (HEADERS)?

where the raw writes, concatenated, are the encoding of DATA frames whose payloads, concatenated, are
exactly the bytes of the `Write` calls in order (small-response buffering only regroups them) —
provided the declared Content-Length, if any, is not exceeded (otherwise `Write` refuses with
http.ErrContentLength, see `RW.Write`).
-/
import Uquic.Props.C18
import Uquic.Proofs.H3Message

namespace Uquic.Proofs.H3Msg
open Uquic.Model.H3 Uquic.Spec.H3Wire Uquic.Proofs.H3 Uquic.Props.C18

theorem guard (fn m : String) : guardedAt fn m = true := guardedAt_of_all no_unguarded_optional_call fn m

theorem logCall_id (w : RW) (fn m : String) : w.logCall fn m = w := by simp [RW.logCall, guard]

theorem write_live (s : Str) (x : WriteRec) (hst : s.st = .ok) (hcc : s.m.p.cc = none) :
    s.write x = ({ s with writes := s.writes ++ [x] }, none) := by
  simp [Str.write, hst, hcc]

theorem declareTrailer_eq (w : RW) (k : String) :
    w.declareTrailer k = { w with trailers := (w.declareTrailer k).trailers } := by
  simp only [RW.declareTrailer, logCall_id]
  split
  · rfl
  · split <;> rfl

theorem declareAll_eq (ks : List String) :
    ∀ w : RW, w.declareAll ks = { w with trailers := (w.declareAll ks).trailers } := by
  induction ks with
  | nil => intro w; rfl
  | cons k ks ih =>
    intro w
    simp only [RW.declareAll, List.foldl_cons]
    generalize hX : (if w.panicked = true then w else w.declareTrailer k) = X
    have h1 : X = { w with trailers := X.trailers } := by
      rw [← hX]
      split
      · rfl
      · exact declareTrailer_eq w k
    have h2 := ih X
    simp only [RW.declareAll] at h2
    generalize (List.foldl (fun w k => if w.panicked = true then w else w.declareTrailer k) X ks).trailers = T at h2 ⊢
    rw [h2]
    conv => lhs; rw [h1]

/-- `writeHeader` on a live stream, no panic pending: one HEADERS record is appended -/
theorem writeHeader_live (w : RW) (status : Nat) (hnp : w.panicked = false) (hst : w.str.st = .ok)
    (hcc : w.str.m.p.cc = none) :
    ∃ T F, w.writeHeader status =
      ({ w with trailers := T, str := { w.str with writes := w.str.writes ++ [.hdr F] } }, none) := by
  have h := declareAll_eq (announcedTrailers w.header) w
  generalize (w.declareAll (announcedTrailers w.header)).trailers = T at h
  unfold RW.writeHeader
  rw [h]
  simp only [hnp, Bool.false_eq_true, ↓reduceIte]
  rw [write_live w.str _ hst hcc]
  exact ⟨T, _, rfl⟩

theorem sniff_eq (w : RW) (p : List Nat) : w.sniff p = { w with header := (w.sniff p).header } := by
  unfold RW.sniff; split <;> rfl

/-- the writer state that matters for framing -/
structure Live (w : RW) : Prop where
  hc : w.headerComplete = true
  head : w.isHead = false
  allowed : bodyAllowedForStatus w.status = true
  st : w.str.st = .ok
  cc : w.str.m.p.cc = none
  np : w.panicked = false
  tw : w.trailerWritten = false

/-- fields an operation leaves alone -/
structure Keep (a b : RW) : Prop where
  hc : b.headerComplete = a.headerComplete
  head : b.isHead = a.isHead
  status : b.status = a.status
  st : b.str.st = a.str.st
  m : b.str.m = a.str.m
  np : b.panicked = a.panicked
  tw : b.trailerWritten = a.trailerWritten
  nw : b.numWritten = a.numWritten
  cl : b.contentLen = a.contentLen

theorem Live.of_keep {a b : RW} (h : Live a) (k : Keep a b) : Live b :=
  ⟨k.hc.trans h.hc, k.head.trans h.head, by rw [k.status]; exact h.allowed, k.st.trans h.st, by rw [k.m]; exact h.cc,
    k.np.trans h.np, k.tw.trans h.tw⟩

/-- `ensureHeader`: writes the HEADERS record if it has not been written -/
theorem ensureHeader_live (w : RW) (hl : Live w) :
    ∃ H T app, w.ensureHeader = ({ w with header := H, trailers := T, str := { w.str with writes := w.str.writes ++ app }, headerWritten := true }, none) ∧
      ((w.headerWritten = true ∧ app = []) ∨ (w.headerWritten = false ∧ ∃ F, app = [.hdr F])) := by
  unfold RW.ensureHeader
  by_cases hw : w.headerWritten = true
  · refine ⟨w.header, w.trailers, [], ?_, Or.inl ⟨hw, rfl⟩⟩
    simp only [hw, Bool.not_true, Bool.false_eq_true, ↓reduceIte, List.append_nil]
    congr 1
    cases w
    simp_all
  · have hw' : w.headerWritten = false := by simpa using hw
    simp only [hw', Bool.not_false, ↓reduceIte]
    have hs := sniff_eq w w.small
    generalize (w.sniff w.small).header = H at hs
    rw [hs]
    obtain ⟨T, F, hwh⟩ := writeHeader_live { w with header := H } w.status hl.np hl.st hl.cc
    simp only at hwh
    rw [hwh]
    simp only [hl.np, Bool.false_eq_true, ↓reduceIte]
    exact ⟨H, T, [.hdr F], rfl, Or.inr ⟨by simp, F, rfl⟩⟩

theorem ensureHeader_facts (w : RW) (hl : Live w) :
    w.ensureHeader.2 = none ∧ Keep w w.ensureHeader.1 ∧ w.ensureHeader.1.small = w.small ∧
      w.ensureHeader.1.headerWritten = true ∧
      ∃ app, w.ensureHeader.1.str.writes = w.str.writes ++ app ∧
        ((w.headerWritten = true ∧ app = []) ∨ (w.headerWritten = false ∧ ∃ F, app = [.hdr F])) := by
  obtain ⟨H, T, app, he, happ⟩ := ensureHeader_live w hl
  rw [he]
  exact ⟨rfl, ⟨rfl, rfl, rfl, rfl, rfl, rfl, rfl, rfl, rfl⟩, rfl, rfl, app, rfl, happ⟩

/-- the raw records of one `doWrite`: DATA frame header, buffered small response, `p` -/
def bodyRecs (small p : List Nat) : List (List Nat) :=
  if small.length + p.length = 0 then []
  else [dataFrameHeader (small.length + p.length)] ++ (if small.isEmpty then [] else [small]) ++
    (if p.isEmpty then [] else [p])

theorem bodyRecs_flat (small p : List Nat) (h : (small ++ p).length < 2 ^ 62) :
    (bodyRecs small p).flatten = encFrames ((if small ++ p = [] then [] else [small ++ p]).map dataFrameOf) := by
  unfold bodyRecs
  by_cases h0 : small.length + p.length = 0
  · have : small ++ p = [] := by
      apply List.length_eq_zero_iff.mp; simp only [List.length_append]; exact h0
    simp [h0, this, encFrames]
  · have hne : small ++ p ≠ [] := by
      intro hc; apply h0; have := congrArg List.length hc; simpa using this
    simp only [h0, ↓reduceIte, hne, List.map_cons, List.map_nil, encFrames, List.append_nil]
    rw [dataFrameOf_enc _ h]
    simp only [List.length_append]
    cases small <;> cases p <;> simp

/-- the part of `doWrite` after the header, on a live stream -/
theorem writeBody_facts (w : RW) (p : List Nat) (hst : w.str.st = .ok) (hcc : w.str.m.p.cc = none) :
    (w.writeBody p).2.2 = none ∧ Keep w (w.writeBody p).1 ∧ (w.writeBody p).1.headerWritten = w.headerWritten ∧
      (w.writeBody p).1.small = (if w.small.length + p.length = 0 then w.small else []) ∧
      (w.writeBody p).1.str.writes = w.str.writes ++ (bodyRecs w.small p).map .raw := by
  obtain ⟨str, header, trailers, status, small, contentLen, numWritten, hc, hw, isHead, tw, ln, pn⟩ := w
  obtain ⟨m, st, writes, evs⟩ := str
  obtain ⟨pp, rem, pt, trl, mh⟩ := m
  obtain ⟨u, cc⟩ := pp
  simp only at hst hcc
  subst hst hcc
  cases small <;> cases p <;> simp [RW.writeBody, bodyRecs, Str.write] <;> exact ⟨rfl, rfl, rfl, rfl, rfl, rfl, rfl, rfl, rfl⟩

/-- `doWrite` on a live writer -/
theorem doWrite_live (w : RW) (p : List Nat) (hl : Live w) :
    ∃ w' app, (w.doWrite p).1 = w' ∧ (w.doWrite p).2.2 = none ∧ Live w' ∧ w'.headerWritten = true ∧ w'.small = [] ∧
      w'.numWritten = w.numWritten ∧ w'.contentLen = w.contentLen ∧
      w'.str.writes = w.str.writes ++ app ++ (bodyRecs w.small p).map .raw ∧
      ((w.headerWritten = true ∧ app = []) ∨ (w.headerWritten = false ∧ ∃ F, app = [.hdr F])) := by
  obtain ⟨e1, e2, e3, e4, app, e5, happ⟩ := ensureHeader_facts w hl
  unfold RW.doWrite
  rcases he : w.ensureHeader with ⟨w1, eo⟩
  rw [he] at e1 e2 e3 e4 e5
  simp only at e1 e2 e3 e4 e5
  subst e1
  have hl1 : Live w1 := hl.of_keep e2
  simp only [hl1.np, Bool.false_eq_true, ↓reduceIte]
  obtain ⟨b1, b2, b3, b4, b5⟩ := writeBody_facts w1 p hl1.st hl1.cc
  refine ⟨_, app, rfl, b1, hl1.of_keep b2, b3.trans e4, ?_, b2.nw.trans e2.nw, b2.cl.trans e2.cl, ?_, happ⟩
  · rw [b4]
    split
    · next h0 => apply List.length_eq_zero_iff.mp; omega
    · rfl
  · rw [b5, e5, e3]

/-! ### the framing invariant -/

/-- `pre` = the records on the stream before the final header (interim 1xx responses);
    `acc` = the bytes of the accepted `Write` calls so far: still in the small-response buffer, or on the
    stream as DATA frames behind the HEADERS record -/
def Fr (pre : List WriteRec) (w : RW) (acc : List Nat) : Prop :=
  (w.headerWritten = false ∧ w.small = acc ∧ w.str.writes = pre) ∨
  (w.headerWritten = true ∧ w.small = [] ∧ ∃ (hf : List (String × String)) (raws cs : List (List Nat)),
    w.str.writes = pre ++ .hdr hf :: raws.map .raw ∧ raws.flatten = encFrames (cs.map dataFrameOf) ∧
    cs.flatten = acc ∧ ∀ c ∈ cs, c.length < 2 ^ 62)

/-- `doWrite p` turns `Fr w acc` into `Fr w' (acc ++ p)` (written form) -/
theorem doWrite_fr (pre : List WriteRec) (w : RW) (p acc : List Nat) (hl : Live w) (hf : Fr pre w acc) (hlen : (acc ++ p).length < 2 ^ 62) :
    (w.doWrite p).2.2 = none ∧ Live (w.doWrite p).1 ∧ Fr pre (w.doWrite p).1 (acc ++ p) ∧
      (w.doWrite p).1.numWritten = w.numWritten ∧ (w.doWrite p).1.contentLen = w.contentLen ∧
      (w.doWrite p).1.headerWritten = true := by
  obtain ⟨w', app, hw', hnone, hl', hhw, hsm, hnw, hcl, hwr, happ⟩ := doWrite_live w p hl
  rw [hw']
  refine ⟨hnone, hl', ?_, hnw, hcl, hhw⟩
  refine Or.inr ⟨hhw, hsm, ?_⟩
  rcases hf with ⟨f1, f2, f3⟩ | ⟨f1, f2, hf0, raws, cs, g2, g3, g4, g5⟩
  · -- nothing written yet: HEADERS now, then one DATA frame with the buffered bytes and `p`
    rcases happ with ⟨h1, _⟩ | ⟨_, F, rfl⟩
    · rw [f1] at h1; cases h1
    · refine ⟨F, bodyRecs w.small p, (if w.small ++ p = [] then [] else [w.small ++ p]), ?_, ?_, ?_, ?_⟩
      · rw [hwr, f3]; simp
      · rw [f2]; exact bodyRecs_flat acc p hlen
      · rw [f2]; split
        · next h => simp [h]
        · simp
      · intro c hc
        rw [f2] at hc
        split at hc
        · simp at hc
        · simp only [List.mem_singleton] at hc; subst hc; exact hlen
  · rcases happ with ⟨_, rfl⟩ | ⟨h1, _⟩
    · refine ⟨hf0, raws ++ bodyRecs w.small p, cs ++ (if w.small ++ p = [] then [] else [w.small ++ p]), ?_, ?_, ?_, ?_⟩
      · rw [hwr, g2]; simp
      · rw [List.flatten_append, g3, List.map_append, encFrames_append, bodyRecs_flat]
        rw [f2]
        have : p.length ≤ (acc ++ p).length := by simp
        simp only [List.nil_append]; omega
      · rw [f2]; simp only [List.nil_append, List.flatten_append, g4]
        split
        · next h => simp [h]
        · simp
      · intro c hc
        rcases List.mem_append.mp hc with hc | hc
        · exact g5 c hc
        · rw [f2] at hc
          simp only [List.nil_append] at hc
          split at hc
          · simp at hc
          · simp only [List.mem_singleton] at hc; subst hc
            have : c.length ≤ (acc ++ c).length := by simp
            omega
    · rw [f1] at h1; cases h1

theorem Write_eq (w : RW) (p : List Nat) (hc : w.headerComplete = true) (hal : bodyAllowedForStatus w.status = true)
    (hh : w.isHead = false) (hover : ¬ (w.contentLen ≠ 0 ∧ w.numWritten + p.length > w.contentLen)) :
    w.Write p = if !w.headerWritten ∧ w.small.length + p.length < maxSmallResponseSize then
        ({ w with numWritten := w.numWritten + p.length, small := w.small ++ p }, p.length, none)
      else ({ w with numWritten := w.numWritten + p.length } : RW).doWrite p := by
  simp only [RW.Write, hc, Bool.not_true, Bool.false_eq_true, ↓reduceIte, hal, hover, hh]

/-- `Write(p)` on a live writer whose declared length is not exceeded -/
theorem Write_fr (pre : List WriteRec) (w : RW) (p acc : List Nat) (hl : Live w) (hf : Fr pre w acc) (hnw : w.numWritten = acc.length)
    (hcl : w.contentLen = 0 ∨ acc.length + p.length ≤ w.contentLen) (hlen : (acc ++ p).length < 2 ^ 62) :
    Live (w.Write p).1 ∧ Fr pre (w.Write p).1 (acc ++ p) ∧ (w.Write p).1.numWritten = (acc ++ p).length ∧
      (w.Write p).1.contentLen = w.contentLen ∧ (w.Write p).2.2 = none := by
  have hover : ¬ (w.contentLen ≠ 0 ∧ w.numWritten + p.length > w.contentLen) := by
    rw [hnw]; omega
  rw [Write_eq w p hl.hc hl.allowed hl.head hover]
  split
  · -- buffered
    rename_i hb
    refine ⟨⟨hl.hc, hl.head, hl.allowed, hl.st, hl.cc, hl.np, hl.tw⟩, ?_, by simp [hnw], rfl, rfl⟩
    refine Or.inl ?_
    rcases hf with ⟨f1, f2, f3⟩ | ⟨f1, _, _⟩
    · exact ⟨f1, by simp [f2], f3⟩
    · simp [f1] at hb
  · have hl2 : Live { w with numWritten := w.numWritten + p.length } :=
      ⟨hl.hc, hl.head, hl.allowed, hl.st, hl.cc, hl.np, hl.tw⟩
    have hf2 : Fr pre { w with numWritten := w.numWritten + p.length } acc := hf
    obtain ⟨d1, d2, d3, d4, d5, _⟩ := doWrite_fr pre _ p acc hl2 hf2 hlen
    refine ⟨d2, d3, ?_, d5, d1⟩
    rw [d4]; simp [hnw]

theorem Flush_fr (pre : List WriteRec) (w : RW) (acc : List Nat) (hl : Live w) (hf : Fr pre w acc) (hlen : acc.length < 2 ^ 62) :
    Live w.Flush ∧ Fr pre w.Flush acc ∧ w.Flush.numWritten = w.numWritten ∧ w.Flush.contentLen = w.contentLen ∧
      w.Flush.headerWritten = true := by
  obtain ⟨d1, d2, d3, d4, d5, d6⟩ := doWrite_fr pre w [] acc hl hf (by simpa using hlen)
  simp only [RW.Flush, RW.FlushError, hl.hc, Bool.not_true, Bool.false_eq_true, ↓reduceIte]
  rcases hr : w.doWrite [] with ⟨w1, n, eo⟩
  rw [hr] at d1 d2 d3 d4 d5 d6
  simp only at d1 d2 d3 d4 d5 d6
  subst d1
  simp only [List.append_nil] at d3
  exact ⟨d2, d3, d4, d5, d6⟩

/-- payloads of the `Write` calls of a handler script -/
def payloads : List HOp → List (List Nat)
  | [] => []
  | .write p :: ops => p :: payloads ops
  | _ :: ops => payloads ops

/-- any handler script on a live writer -/
theorem ops_fr (pre : List WriteRec) (ops : List HOp) : ∀ (w : RW) (acc : List Nat), Live w → Fr pre w acc → w.numWritten = acc.length →
    (w.contentLen = 0 ∨ acc.length + (payloads ops).flatten.length ≤ w.contentLen) →
    acc.length + (payloads ops).flatten.length < 2 ^ 62 →
    Live (ops.foldl applyOp w) ∧ Fr pre (ops.foldl applyOp w) (acc ++ (payloads ops).flatten) := by
  induction ops with
  | nil => intro w acc hl hf _ _ _; simpa [payloads] using ⟨hl, hf⟩
  | cons op ops ih =>
    intro w acc hl hf hnw hcl hlen
    simp only [List.foldl_cons]
    cases op with
    | setHeader k vs =>
      exact ih _ acc ⟨hl.hc, hl.head, hl.allowed, hl.st, hl.cc, hl.np, hl.tw⟩ hf hnw hcl hlen
    | delHeader k =>
      exact ih _ acc ⟨hl.hc, hl.head, hl.allowed, hl.st, hl.cc, hl.np, hl.tw⟩ hf hnw hcl hlen
    | writeHeader st =>
      simp only [applyOp, WriteHeader_complete w st hl.hc]
      exact ih w acc hl hf hnw hcl hlen
    | write p =>
      simp only [payloads, List.flatten_cons, List.length_append] at hcl hlen ⊢
      obtain ⟨a1, a2, a3, a4, _⟩ := Write_fr pre w p acc hl hf hnw (by omega) (by simp only [List.length_append]; omega)
      have := ih (w.Write p).1 (acc ++ p) a1 a2 a3 (by rw [a4]; simp only [List.length_append]; omega)
        (by simp only [List.length_append]; omega)
      simpa [applyOp, List.append_assoc] using this
    | flush =>
      have hlen' : acc.length < 2 ^ 62 := by omega
      obtain ⟨a1, a2, a3, a4, _⟩ := Flush_fr pre w acc hl hf hlen'
      exact ih w.Flush acc a1 a2 (by rw [a3]; exact hnw) (by rw [a4]; exact hcl) hlen

/-! ### end-of-request processing -/

theorem writeTrailers_live (w : RW) (hl : Live w) :
    ∃ tl, w.writeTrailers.1.str.writes = w.str.writes ++ tl ∧ (tl = [] ∨ ∃ tf, tl = [.hdr tf]) := by
  unfold RW.writeTrailers
  have h := declareAll_eq ((w.header.map (·.1)).filter (·.startsWith trailerPrefix)) w
  generalize (w.declareAll ((w.header.map (·.1)).filter (·.startsWith trailerPrefix))).trailers = T at h
  dsimp only
  rw [h]
  simp only [hl.np, Bool.false_eq_true, ↓reduceIte]
  split
  · exact ⟨[], by simp, Or.inl rfl⟩
  · split
    · exact ⟨[], by simp, Or.inl rfl⟩
    · rw [write_live _ _ hl.st hl.cc]
      exact ⟨_, rfl, Or.inr ⟨_, rfl⟩⟩

theorem flushTrailers_live (w : RW) (hl : Live w) :
    ∃ tl, w.flushTrailers.str.writes = w.str.writes ++ tl ∧ (tl = [] ∨ ∃ tf, tl = [.hdr tf]) := by
  unfold RW.flushTrailers
  simp only [hl.tw, Bool.false_eq_true, ↓reduceIte]
  obtain ⟨tl, h1, h2⟩ := writeTrailers_live w hl
  rcases hr : w.writeTrailers with ⟨w1, eo⟩
  rw [hr] at h1
  cases eo with
  | none => exact ⟨tl, h1, h2⟩
  | some e =>
    dsimp only
    split
    · exact ⟨tl, h1, h2⟩
    · rw [logCall_id]; exact ⟨tl, h1, h2⟩

/-- the records on the stream once the server has finished the request -/
theorem finish_fr (pre : List WriteRec) (w : RW) (acc : List Nat) (hl : Live w) (hf : Fr pre w acc) (hlen : acc.length < 2 ^ 62) :
    ∃ (hf : List (String × String)) (raws cs : List (List Nat)) (tl : List WriteRec),
      w.finish.str.writes = pre ++ .hdr hf :: raws.map .raw ++ tl ∧
      (tl = [] ∨ ∃ tf, tl = [.hdr tf]) ∧ raws.flatten = encFrames (cs.map dataFrameOf) ∧ cs.flatten = acc ∧
      ∀ c ∈ cs, c.length < 2 ^ 62 := by
  unfold RW.finish
  dsimp only
  have key : ∀ w0 : RW, Live w0 → Fr pre w0 acc →
      ∃ (hf : List (String × String)) (raws cs : List (List Nat)) (tl : List WriteRec),
        (if w0.Flush.panicked = true then w0.Flush
          else if w0.Flush.flushTrailers.panicked = true then w0.Flush.flushTrailers
          else { w0.Flush.flushTrailers with str := (w0.Flush.flushTrailers.str.cancelRead errNoError).close }).str.writes
          = pre ++ .hdr hf :: raws.map .raw ++ tl ∧
        (tl = [] ∨ ∃ tf, tl = [.hdr tf]) ∧ raws.flatten = encFrames (cs.map dataFrameOf) ∧ cs.flatten = acc ∧
        ∀ c ∈ cs, c.length < 2 ^ 62 := by
    intro w0 hl0 hf0
    obtain ⟨a1, a2, _, _, a5⟩ := Flush_fr pre w0 acc hl0 hf0 hlen
    obtain ⟨tl, t1, t2⟩ := flushTrailers_live w0.Flush a1
    rcases a2 with ⟨f1, _, _⟩ | ⟨_, _, hf', raws, cs, g2, g3, g4, g5⟩
    · rw [a5] at f1; cases f1
    · refine ⟨hf', raws, cs, tl, ?_, t2, g3, g4, g5⟩
      simp only [a1.np, Bool.false_eq_true, ↓reduceIte]
      split
      · rw [t1, g2]
      · show w0.Flush.flushTrailers.str.writes = _
        rw [t1, g2]
  split
  · exact key _ ⟨hl.hc, hl.head, hl.allowed, hl.st, hl.cc, hl.np, hl.tw⟩ hf
  · exact key w hl hf

/-! ### a writer whose final status has just been set -/

/-- final status set, a body is allowed, nothing on the stream yet (no interim 1xx response either) -/
structure Ready (w : RW) : Prop where
  live : Live w
  hw : w.headerWritten = false
  small : w.small = []
  nw : w.numWritten = 0
  nowrites : w.str.writes = []

theorem Ready.fr {w : RW} (h : Ready w) : Fr [] w [] := Or.inl ⟨h.hw, h.small, h.nowrites⟩

/-- how a writer gets there: `WriteHeader(st)`, 200 ≤ st ≤ 999 and not 204 / 304, as the first thing a
    handler does with the response writer of a non-HEAD request on a live stream -/
theorem ready_established (w : RW) (st : Nat) (h0 : w.headerComplete = false) (hh : w.isHead = false)
    (hw : w.headerWritten = false) (hs : w.small = []) (hn : w.numWritten = 0) (hwr : w.str.writes = [])
    (hst : w.str.st = .ok) (hcc : w.str.m.p.cc = none) (hnp : w.panicked = false) (htw : w.trailerWritten = false)
    (hr : 200 ≤ st ∧ st ≤ 999) (hal : bodyAllowedForStatus st = true) : Ready ((w.WriteHeader st).getD w) := by
  have hr' : ¬ (st < 100 ∨ st > 999) := by omega
  have h200 : ¬ st < 200 := by omega
  simp only [RW.WriteHeader, h0, Bool.false_eq_true, ↓reduceIte, hr', h200]
  split <;> (try split) <;> (try split) <;> exact ⟨⟨rfl, hh, hal, hst, hcc, hnp, htw⟩, hw, hs, hn, hwr⟩

/-- every handler script on a ready writer, then the end of the request: HEADERS, DATA frames whose
    payloads are the written bytes, at most one more HEADERS record -/
theorem ready_run (w : RW) (ops : List HOp) (h : Ready w)
    (hcl : w.contentLen = 0 ∨ (payloads ops).flatten.length ≤ w.contentLen)
    (hlen : (payloads ops).flatten.length < 2 ^ 62) :
    ∃ (hf : List (String × String)) (raws cs : List (List Nat)) (tl : List WriteRec),
      ((ops.foldl applyOp w).finish).str.writes = .hdr hf :: raws.map .raw ++ tl ∧
      (tl = [] ∨ ∃ tf, tl = [.hdr tf]) ∧ raws.flatten = encFrames (cs.map dataFrameOf) ∧
      cs.flatten = (payloads ops).flatten ∧ ∀ c ∈ cs, c.length < 2 ^ 62 := by
  obtain ⟨l1, f1⟩ := ops_fr [] ops w [] h.live h.fr (by rw [h.nw]; rfl) (by simpa using hcl) (by simpa using hlen)
  simp only [List.nil_append] at f1
  obtain ⟨hf, raws, cs, tl, e1, e2, e3, e4, e5⟩ := finish_fr [] _ _ l1 f1 hlen
  exact ⟨hf, raws, cs, tl, by simpa using e1, e2, e3, e4, e5⟩

/-! ### from write records to bytes -/

/-- The bytes of the stream: every raw write as it is; the k-th HEADERS record as a HEADERS frame that
    carries the k-th field section of `secs` (C18's record keeps the decoded field list, the section
    bytes come from the field-section side). -/
def layoutRecs : List WriteRec → List (List Nat) → List Nat
  | [], _ => []
  | .raw bs :: rs, secs => bs ++ layoutRecs rs secs
  | .hdr _ :: rs, sec :: secs => (hdrFrameOf sec).enc ++ layoutRecs rs secs
  | .hdr _ :: rs, [] => layoutRecs rs []

/-- number of HEADERS records -/
def hdrCount : List WriteRec → Nat
  | [] => 0
  | .raw _ :: rs => hdrCount rs
  | .hdr _ :: rs => hdrCount rs + 1

theorem layoutRecs_raws (raws : List (List Nat)) (rest : List WriteRec) (secs : List (List Nat)) :
    layoutRecs (raws.map .raw ++ rest) secs = raws.flatten ++ layoutRecs rest secs := by
  induction raws with
  | nil => rfl
  | cons r raws ih => simp [layoutRecs, ih, List.append_assoc]

theorem hdrCount_raws (raws : List (List Nat)) (rest : List WriteRec) :
    hdrCount (raws.map .raw ++ rest) = hdrCount rest := by
  induction raws with
  | nil => rfl
  | cons r raws ih => simpa [hdrCount] using ih

/-- HEADERS, raw writes, at most one more HEADERS — laid out with one section per HEADERS record -/
theorem layout_shape (hf : List (String × String)) (raws : List (List Nat)) (tl : List WriteRec)
    (htl : tl = [] ∨ ∃ tf, tl = [.hdr tf]) (hsec : List Nat) (tsec : Option (List Nat))
    (hcount : hdrCount (.hdr hf :: raws.map .raw ++ tl) = (hsec :: tsec.toList).length) :
    layoutRecs (.hdr hf :: raws.map .raw ++ tl) (hsec :: tsec.toList) =
      (hdrFrameOf hsec).enc ++ raws.flatten ++ encFrames (tsec.map hdrFrameOf).toList := by
  simp only [List.cons_append, layoutRecs, layoutRecs_raws, hdrCount, hdrCount_raws, List.length_cons] at hcount ⊢
  rcases htl with rfl | ⟨tf, rfl⟩
  · cases tsec with
    | none => simp [layoutRecs, encFrames]
    | some t => simp [hdrCount] at hcount
  · cases tsec with
    | none => simp [hdrCount] at hcount
    | some t => simp [layoutRecs, encFrames, List.append_assoc]

/-- only HEADERS records (no body byte was written) -/
theorem layout_hdrs_only (recs : List WriteRec) (hraw : ∀ x ∈ recs, ∃ f, x = .hdr f) :
    ∀ secs : List (List Nat), hdrCount recs = secs.length → layoutRecs recs secs = encFrames (secs.map hdrFrameOf) := by
  induction recs with
  | nil => intro secs h; cases secs with
    | nil => rfl
    | cons _ _ => simp [hdrCount] at h
  | cons x recs ih =>
    intro secs h
    obtain ⟨f, rfl⟩ := hraw x (by simp)
    cases secs with
    | nil => simp [hdrCount] at h
    | cons sec secs =>
      simp only [hdrCount, List.length_cons, Nat.add_right_cancel_iff] at h
      simp only [layoutRecs, List.map_cons, encFrames]
      rw [ih (fun y hy => hraw y (by simp [hy])) secs h]

theorem rawOf_nil_hdrs (s : Str) (h : rawOf s = []) : ∀ x ∈ s.writes, ∃ f, x = .hdr f := by
  intro x hx
  cases x with
  | hdr f => exact ⟨f, rfl⟩
  | raw bs =>
    have : bs ∈ rawOf s := by
      simp only [rawOf, List.mem_filterMap]
      exact ⟨.raw bs, hx, rfl⟩
    rw [h] at this; cases this

end Uquic.Proofs.H3Msg
