import Uquic.Model.Conn.Idle
/-! Helper lemmas about `Uquic.Model.Conn.Idle.run` for `Uquic.Props.C01Idle`. -/
namespace Uquic.Proofs.ConnIdle
open Uquic.Model.Conn Uquic.Model.Conn.Idle

theorem run_append (s : St) (a b : List Op) : run s (a ++ b) = run (run s a) b := by
  simp [run, List.foldl_append]

/-- ops that are neither a receive nor an ack-eliciting send do not touch the bookkeeping -/
theorem run_inert (s : St) (ops : List Op) (h : ∀ op ∈ ops, op.isRecv = false ∧ op.isAESent = false) :
    run s ops = s := by
  induction ops generalizing s with
  | nil => rfl
  | cons op rest ih =>
    have h1 := h op (by simp)
    have hs : step s op = s := by
      cases op with
      | recv t => simp [Op.isRecv] at h1
      | sent t ae =>
        have : ae = false := by simpa [Op.isAESent] using h1.2
        subst this; simp [step]
    have : run s (op :: rest) = run (step s op) rest := rfl
    rw [this, hs]
    exact ih s (fun o ho => h o (by simp [ho]))

/-- once an ack-eliciting packet was sent after the last receive, further sends do not move the marker -/
theorem run_no_recv (s : St) (ops : List Op) (t : Int) (hs : s.firstAE = some t)
    (h : ∀ op ∈ ops, op.isRecv = false) : run s ops = s := by
  induction ops generalizing s with
  | nil => rfl
  | cons op rest ih =>
    have h1 := h op (by simp)
    have hstep : step s op = s := by
      cases op with
      | recv t' => simp [Op.isRecv] at h1
      | sent t' ae => simp [step, hs]
    have : run s (op :: rest) = run (step s op) rest := rfl
    rw [this, hstep]
    exact ih s hs (fun o ho => h o (by simp [ho]))

end Uquic.Proofs.ConnIdle
