/-
Completion logic of the stream objects (C15, model `Uquic.Model.Streams.Life`): invariants of one receive
half and of the collection of stream objects.
-/
import Uquic.Model.Streams.Life

set_option linter.unusedSimpArgs false
set_option linter.unusedVariables false

namespace Uquic.Proofs.Streams
open Uquic.Model.Streams

/-- a completed receive half knows its final size, and the application is done with it -/
def HInv (h : RHalf) : Prop :=
  h.completed = true → h.finalKnown = true ∧ (h.cancelledLocally = true ∨ h.errorRead = true)

theorem hinv_fresh : HInv {} := by intro h; simp at h

/-- everything one method call can do to a receive half -/
structure ApplyFacts (h : RHalf) (op : ROp) : Prop where
  inv : HInv h → HInv (h.apply RHalf.isNewlyCompleted op).1
  fire : (h.apply RHalf.isNewlyCompleted op).2.1 = true →
    h.completed = false ∧ (h.apply RHalf.isNewlyCompleted op).1.completed = true
  monoC : h.completed = true → (h.apply RHalf.isNewlyCompleted op).1.completed = true
  monoF : h.finalKnown = true → (h.apply RHalf.isNewlyCompleted op).1.finalKnown = true
  /-- the final size becomes known only through a FIN or a RESET_STREAM of the peer -/
  finalBy : (h.apply RHalf.isNewlyCompleted op).1.finalKnown = true → h.finalKnown = true ∨ op = .frame true ∨ op = .reset
  /-- once completed, nothing is reported again -/
  once : h.completed = true → (h.apply RHalf.isNewlyCompleted op).2.1 = false

theorem apply_facts (h : RHalf) (op : ROp) : ApplyFacts h op := by
  obtain ⟨a, b, c, d, e, f⟩ := h
  cases op with
  | frame fin =>
    cases fin <;> cases a <;> cases b <;> cases c <;> cases d <;> cases e <;> cases f <;>
      constructor <;> simp [HInv, RHalf.apply, RHalf.pre, RHalf.isNewlyCompleted]
  | reset =>
    cases a <;> cases b <;> cases c <;> cases d <;> cases e <;> cases f <;>
      constructor <;> simp [HInv, RHalf.apply, RHalf.pre, RHalf.isNewlyCompleted]
  | cancelRead =>
    cases a <;> cases b <;> cases c <;> cases d <;> cases e <;> cases f <;>
      constructor <;> simp [HInv, RHalf.apply, RHalf.pre, RHalf.isNewlyCompleted]
  | read =>
    cases a <;> cases b <;> cases c <;> cases d <;> cases e <;> cases f <;>
      constructor <;> simp [HInv, RHalf.apply, RHalf.pre, RHalf.isNewlyCompleted, RHalf.readEnds]

/-- run a list of method calls on one receive half, collecting the completion reports -/
def runHalf (h : RHalf) : List ROp → RHalf × List Bool
  | [] => (h, [])
  | o :: os =>
    let r := h.apply RHalf.isNewlyCompleted o
    let r' := runHalf r.1 os
    (r'.1, r.2.1 :: r'.2)

theorem runHalf_inv (ops : List ROp) : ∀ h, HInv h → HInv (runHalf h ops).1 := by
  induction ops with
  | nil => intro h hi; exact hi
  | cons o os ih => intro h hi; exact ih _ ((apply_facts h o).inv hi)

theorem runHalf_completed_silent (ops : List ROp) : ∀ h, h.completed = true → ∀ b ∈ (runHalf h ops).2, b = false := by
  induction ops with
  | nil => intro h _ b hb; simp [runHalf] at hb
  | cons o os ih =>
    intro h hc b hb
    simp only [runHalf, List.mem_cons] at hb
    rcases hb with hb | hb
    · rw [hb]; exact (apply_facts h o).once hc
    · exact ih _ ((apply_facts h o).monoC hc) b hb

theorem runHalf_once (ops : List ROp) : ∀ h, (runHalf h ops).2.count true ≤ 1 := by
  induction ops with
  | nil => intro h; simp [runHalf]
  | cons o os ih =>
    intro h
    simp only [runHalf]
    by_cases hf : (h.apply RHalf.isNewlyCompleted o).2.1 = true
    · have hc := ((apply_facts h o).fire hf).2
      have hs := runHalf_completed_silent os _ hc
      have : (runHalf (h.apply RHalf.isNewlyCompleted o).1 os).2.count true = 0 := by
        rw [List.count_eq_zero]; intro hm; have := hs true hm; simp at this
      rw [List.count_cons, this, hf]; simp
    · have := ih (h.apply RHalf.isNewlyCompleted o).1
      have hf' : (h.apply RHalf.isNewlyCompleted o).2.1 = false := by simpa using hf
      rw [List.count_cons, hf']; simpa using this

/-! ### all stream objects -/

theorem upd_same {β} (f : SID → β) (k : SID) (v : β) : upd f k v k = v := by simp [upd]
theorem upd_other {β} (f : SID → β) (k x : SID) (v : β) (h : x ≠ k) : upd f k v x = f x := by simp [upd, h]

structure CInv (c : Core) : Prop where
  half : ∀ id, HInv (c.half id)
  rd : ∀ id, c.recvDone id = true → (c.half id).completed = true

theorem cinv_init : CInv {} := ⟨fun _ => hinv_fresh, fun _ h => by simp at h⟩

/-- stream `k` is fully complete: its receive half is, and so is its send half if it has one -/
def Done (c : Core) (k : SID) : Prop :=
  (c.half k).completed = true ∧ (typeOf k = .bidi → c.sendDone k = true ∧ c.recvDone k = true)

structure RecvFacts (c : Core) (id : SID) (op : ROp) : Prop where
  inv : CInv c → CInv (c.recv RHalf.isNewlyCompleted id op).1
  fire : CInv c → (c.recv RHalf.isNewlyCompleted id op).2.1 = true → Done (c.recv RHalf.isNewlyCompleted id op).1 id
  /-- a completion is reported to the connection only when the receive half had not completed before -/
  fresh : (c.recv RHalf.isNewlyCompleted id op).2.1 = true → (c.half id).completed = false
  mono : ∀ k, Done c k → Done (c.recv RHalf.isNewlyCompleted id op).1 k
  monoF : ∀ k, (c.half k).finalKnown = true → ((c.recv RHalf.isNewlyCompleted id op).1.half k).finalKnown = true
  other : ∀ k, k ≠ id → (c.recv RHalf.isNewlyCompleted id op).1.half k = c.half k
  self : ((c.recv RHalf.isNewlyCompleted id op).1.half id) = ((c.half id).apply RHalf.isNewlyCompleted op).1

theorem recv_facts (c : Core) (id : SID) (op : ROp) : RecvFacts c id op := by
  have af := apply_facts (c.half id) op
  constructor
  · intro ci
    unfold Core.recv
    simp only
    split
    · refine ⟨fun k => ?_, fun k hk => ?_⟩
      · by_cases hk : k = id
        · subst hk; simp only [upd_same]; exact af.inv (ci.half k)
        · simp only [upd_other _ _ _ _ hk]; exact ci.half k
      · by_cases hki : k = id
        · subst hki; simp only [upd_same]; exact af.monoC (ci.rd k hk)
        · simp only [upd_other _ _ _ _ hki]; exact ci.rd k hk
    · rename_i hf
      have hf' : ((c.half id).apply RHalf.isNewlyCompleted op).2.1 = true := by simpa using hf
      split
      · refine ⟨fun k => ?_, fun k hk => ?_⟩
        · by_cases hk : k = id
          · subst hk; simp only [upd_same]; exact af.inv (ci.half k)
          · simp only [upd_other _ _ _ _ hk]; exact ci.half k
        · by_cases hki : k = id
          · subst hki; simp only [upd_same]; exact af.monoC (ci.rd k hk)
          · simp only [upd_other _ _ _ _ hki]; exact ci.rd k hk
      · refine ⟨fun k => ?_, fun k hk => ?_⟩
        · by_cases hk : k = id
          · subst hk; simp only [upd_same]; exact af.inv (ci.half k)
          · simp only [upd_other _ _ _ _ hk]; exact ci.half k
        · by_cases hki : k = id
          · subst hki; simp only [upd_same]; exact (af.fire hf').2
          · simp only [upd_other _ _ _ _ hki] at hk ⊢; exact ci.rd k hk
  · intro ci
    unfold Core.recv
    simp only
    split
    · intro h; simp at h
    · rename_i hf
      have hf' : ((c.half id).apply RHalf.isNewlyCompleted op).2.1 = true := by simpa using hf
      split
      · rename_i hu
        intro _
        refine ⟨by simp only [upd_same]; exact (af.fire hf').2, fun hb => ?_⟩
        rw [hu] at hb; cases hb
      · intro hs
        refine ⟨by simp only [upd_same]; exact (af.fire hf').2, fun _ => ⟨hs, by simp only [upd_same]⟩⟩
  · unfold Core.recv
    simp only
    split
    · intro h; simp at h
    · rename_i hf
      have hf' : ((c.half id).apply RHalf.isNewlyCompleted op).2.1 = true := by simpa using hf
      intro _; exact (af.fire hf').1
  · intro k ⟨h1, h2⟩
    have hh : ((c.recv RHalf.isNewlyCompleted id op).1.half k).completed = true := by
      unfold Core.recv; simp only
      by_cases hk : k = id
      · subst hk
        split
        · simp only [upd_same]; exact af.monoC h1
        · split <;> (simp only [upd_same]; exact af.monoC h1)
      · split
        · simp only [upd_other _ _ _ _ hk]; exact h1
        · split <;> (simp only [upd_other _ _ _ _ hk]; exact h1)
    refine ⟨hh, fun hb => ?_⟩
    obtain ⟨s1, s2⟩ := h2 hb
    unfold Core.recv; simp only
    split
    · exact ⟨s1, s2⟩
    · split
      · exact ⟨s1, s2⟩
      · refine ⟨s1, ?_⟩
        by_cases hk : k = id
        · subst hk; simp only [upd_same]
        · simp only [upd_other _ _ _ _ hk]; exact s2
  · intro k hk
    unfold Core.recv; simp only
    by_cases hki : k = id
    · subst hki
      split
      · simp only [upd_same]; exact af.monoF hk
      · split <;> (simp only [upd_same]; exact af.monoF hk)
    · split
      · simp only [upd_other _ _ _ _ hki]; exact hk
      · split <;> (simp only [upd_other _ _ _ _ hki]; exact hk)
  · intro k hk
    unfold Core.recv; simp only
    split
    · simp only [upd_other _ _ _ _ hk]
    · split <;> simp only [upd_other _ _ _ _ hk]
  · unfold Core.recv; simp only
    split
    · simp only [upd_same]
    · split <;> simp only [upd_same]

structure SendFacts (c : Core) (id : SID) : Prop where
  inv : CInv c → CInv (c.sendCompleted id).1
  fire : CInv c → (c.sendCompleted id).2 = true → Done (c.sendCompleted id).1 id
  mono : ∀ k, Done c k → Done (c.sendCompleted id).1 k
  half : (c.sendCompleted id).1.half = c.half
  fresh : (c.sendCompleted id).2 = true → c.sendDone id = false

theorem send_facts (c : Core) (id : SID) : SendFacts c id := by
  constructor
  · intro ci
    unfold Core.sendCompleted
    split
    · exact ci
    · exact ⟨ci.half, ci.rd⟩
  · intro ci
    unfold Core.sendCompleted
    split
    · intro h; simp at h
    · intro h
      simp only at h
      exact ⟨ci.rd id h, fun _ => ⟨by simp only [upd_same], h⟩⟩
  · intro k ⟨h1, h2⟩
    unfold Core.sendCompleted
    split
    · exact ⟨h1, h2⟩
    · refine ⟨h1, fun hb => ?_⟩
      obtain ⟨s1, s2⟩ := h2 hb
      refine ⟨?_, s2⟩
      by_cases hk : k = id
      · subst hk; simp only [upd_same]
      · simp only [upd_other _ _ _ _ hk]; exact s1
  · unfold Core.sendCompleted
    split <;> rfl
  · unfold Core.sendCompleted
    split
    · intro h; simp at h
    · rename_i h; intro _; simpa using h

end Uquic.Proofs.Streams
