/-
Trace-level lift (C15), part 2: `CompTr pers m m' ev` — a change of the whole map from `m` to `m'` that shows the
event `ev`, seen from each of the four sub-maps: the sub-map made a (possibly empty) list of its own steps, and what
those steps emitted is exactly the projection of `ev` to that (stream type, direction).  Builders for changes that
come from one outgoing / one incoming sub-map step, silent changes, and sequential composition.
-/
import Uquic.Proofs.StreamsTraceBasic

set_option linter.unusedSimpArgs false
set_option linter.unusedVariables false

namespace Uquic.Proofs.Streams
open Uquic.Model.Streams

structure CompTr (pers : Persp) (m m' : Map) (ev : MapEv) : Prop where
  out : ∀ t, ∃ os : List OutOp, (∀ o ∈ os, o.wf) ∧ m'.out t = ((m.out t).run os).1 ∧
      evOpened t pers ev = openedIds ((m.out t).run os).2 ∧ evBlocked t ev = sbVals ((m.out t).run os).2
  inc : ∀ t, ∃ is : List InOp, (∀ o ∈ is, o.wf (firstIncoming t pers)) ∧ m'.inc t = ((m.inc t).run is).1 ∧
      evAccepted t pers ev = acceptedIds ((m.inc t).run is).2 ∧ evCredit t ev = msVals ((m.inc t).run is).2

theorem ev_silent (t : STyp) (pers : Persp) (ev : MapEv) (hids : evIds ev = []) (hfr : ev.frames = []) :
    evOpened t pers ev = [] ∧ evAccepted t pers ev = [] ∧ evBlocked t ev = [] ∧ evCredit t ev = [] := by
  simp [evOpened, evAccepted, evBlocked, evCredit, hids, hfr, sbOfT, msOfT]

/-- nothing observable, no current sub-map changed -/
theorem CompTr.silent (pers : Persp) (m m' : Map) (ev : MapEv) (ho : ∀ t, m'.out t = m.out t)
    (hi : ∀ t, m'.inc t = m.inc t) (hids : evIds ev = []) (hfr : ev.frames = []) : CompTr pers m m' ev := by
  refine ⟨fun t => ⟨[], by simp, ho t, ?_, ?_⟩, fun t => ⟨[], by simp, hi t, ?_, ?_⟩⟩
  · rw [(ev_silent t pers ev hids hfr).1]; rfl
  · rw [(ev_silent t pers ev hids hfr).2.2.1]; rfl
  · rw [(ev_silent t pers ev hids hfr).2.1]; rfl
  · rw [(ev_silent t pers ev hids hfr).2.2.2]; rfl

/-- one step of the outgoing sub-map of type `t0`, whose event is what the map shows -/
theorem CompTr.of_out (pers : Persp) (m m' : Map) (ev : MapEv) (t0 : STyp) (oop : OutOp) (hw : oop.wf) (k : Nat)
    (hf : FifoInv (m.out t0)) (hi : IdInv (m.out t0) k) (hty : (m.out t0).typ = t0) (hpe : (m.out t0).pers = pers)
    (ho0 : m'.out t0 = ((m.out t0).step oop).1) (ho : ∀ t, t ≠ t0 → m'.out t = m.out t) (hin : ∀ t, m'.inc t = m.inc t)
    (hids : evIds ev = openedOf ((m.out t0).step oop).2) (hfr : ev.frames = ((m.out t0).step oop).2.frames) :
    CompTr pers m m' ev := by
  have hcls : ∀ id ∈ evIds ev, typeOf id = t0 ∧ initiatedBy id = pers := by
    intro id hid
    rw [hids] at hid
    have := out_step_ids (m.out t0) oop k hf hi hw id hid
    rw [hty, hpe] at this; exact this
  have hfrs : ∀ f ∈ ev.frames, ∃ l, f = Frame.streamsBlocked t0 l := by
    intro f hf'
    rw [hfr] at hf'
    have := out_step_frames (m.out t0) oop f hf'
    rw [hty] at this; exact this
  refine ⟨fun t => ?_, fun t => ⟨[], by simp, hin t, ?_, ?_⟩⟩
  · by_cases ht : t = t0
    · subst ht
      refine ⟨[oop], by simpa using hw, by rw [ho0]; rfl, ?_, ?_⟩
      · have := (filter_out_class t t pers (evIds ev) hcls).1
        simp only [if_true] at this
        unfold evOpened; rw [this, hids]; simp [orun_cons, orun_nil, openedIds]
      · have := (sb_frames_proj t t ev.frames hfrs).1
        simp only [if_true] at this
        unfold evBlocked; rw [this, hfr]; simp [orun_cons, orun_nil, sbVals]
    · refine ⟨[], by simp, ho t ht, ?_, ?_⟩
      · have := (filter_out_class t0 t pers (evIds ev) hcls).1
        simp only [ht, if_false] at this
        simp only [evOpened, this, orun_nil, openedIds, List.flatMap_nil]
      · have := (sb_frames_proj t0 t ev.frames hfrs).1
        simp only [ht, if_false] at this
        simp only [evBlocked, this, orun_nil, sbVals, List.flatMap_nil]
  · simp only [evAccepted, (filter_out_class t0 t pers (evIds ev) hcls).2, run_nil, acceptedIds, List.flatMap_nil]
  · simp only [evCredit, (sb_frames_proj t0 t ev.frames hfrs).2, run_nil, msVals, List.flatMap_nil]

/-- one step of the incoming sub-map of type `t0`, whose event is what the map shows -/
theorem CompTr.of_in (pers : Persp) (m m' : Map) (ev : MapEv) (t0 : STyp) (iop : InOp)
    (hw : iop.wf (firstIncoming t0 pers)) (hinv : InInv (firstIncoming t0 pers) (m.inc t0)) (hd : (m.inc t0).dead = false)
    (hty : (m.inc t0).typ = t0)
    (hi0 : m'.inc t0 = ((m.inc t0).step iop).1) (hi : ∀ t, t ≠ t0 → m'.inc t = m.inc t) (hout : ∀ t, m'.out t = m.out t)
    (hids : evIds ev = streamsOfRets ((m.inc t0).step iop).2.rets) (hfr : ev.frames = ((m.inc t0).step iop).2.frames) :
    CompTr pers m m' ev := by
  have hcls : ∀ id ∈ evIds ev, typeOf id = t0 ∧ initiatedBy id = pers.opposite := by
    intro id hid
    rw [hids] at hid
    exact in_step_ids t0 pers (m.inc t0) iop hinv hd hw id hid
  have hfrs : ∀ f ∈ ev.frames, ∃ n, f = Frame.maxStreams t0 n := by
    intro f hf'
    rw [hfr] at hf'
    have := in_step_frames (m.inc t0) iop f hf'
    rw [hty] at this; exact this
  refine ⟨fun t => ⟨[], by simp, hout t, ?_, ?_⟩, fun t => ?_⟩
  · simp only [evOpened, (filter_in_class t0 t pers (evIds ev) hcls).2, orun_nil, openedIds, List.flatMap_nil]
  · simp only [evBlocked, (ms_frames_proj t0 t ev.frames hfrs).2, orun_nil, sbVals, List.flatMap_nil]
  · by_cases ht : t = t0
    · subst ht
      refine ⟨[iop], by simpa using hw, by rw [hi0]; rfl, ?_, ?_⟩
      · have := (filter_in_class t t pers (evIds ev) hcls).1
        simp only [if_true] at this
        unfold evAccepted; rw [this, hids]; simp [run_cons, run_nil, acceptedIds]
      · have := (ms_frames_proj t t ev.frames hfrs).1
        simp only [if_true] at this
        unfold evCredit; rw [this, hfr]; simp [run_cons, run_nil, msVals]
    · refine ⟨[], by simp, hi t ht, ?_, ?_⟩
      · have := (filter_in_class t0 t pers (evIds ev) hcls).1
        simp only [ht, if_false] at this
        simp only [evAccepted, this, run_nil, acceptedIds, List.flatMap_nil]
      · have := (ms_frames_proj t0 t ev.frames hfrs).1
        simp only [ht, if_false] at this
        simp only [evCredit, this, run_nil, msVals, List.flatMap_nil]

/-- one change after the other -/
theorem CompTr.comp {pers : Persp} {a b c : Map} {e1 e2 e : MapEv} (x : CompTr pers a b e1) (y : CompTr pers b c e2)
    (hids : evIds e = evIds e1 ++ evIds e2) (hfr : e.frames = e1.frames ++ e2.frames) : CompTr pers a c e := by
  refine ⟨fun t => ?_, fun t => ?_⟩
  · obtain ⟨os1, w1, s1, o1, b1⟩ := x.out t
    obtain ⟨os2, w2, s2, o2, b2⟩ := y.out t
    refine ⟨os1 ++ os2, ?_, ?_, ?_, ?_⟩
    · intro o ho; rcases List.mem_append.mp ho with h | h
      · exact w1 o h
      · exact w2 o h
    · rw [orun_append, s2, s1]
    · rw [orun_append]
      simp only [openedIds_append]
      rw [← o1, ← s1, ← o2]
      simp [evOpened, hids, List.filter_append]
    · rw [orun_append]
      simp only [sbVals_append]
      rw [← b1, ← s1, ← b2]
      simp [evBlocked, hfr, sbOfT_append]
  · obtain ⟨is1, w1, s1, o1, b1⟩ := x.inc t
    obtain ⟨is2, w2, s2, o2, b2⟩ := y.inc t
    refine ⟨is1 ++ is2, ?_, ?_, ?_, ?_⟩
    · intro o ho; rcases List.mem_append.mp ho with h | h
      · exact w1 o h
      · exact w2 o h
    · rw [irun_append, s2, s1]
    · rw [irun_append]
      simp only [acceptedIds_append]
      rw [← o1, ← s1, ← o2]
      simp [evAccepted, hids, List.filter_append]
    · rw [irun_append]
      simp only [msVals_append]
      rw [← b1, ← s1, ← b2]
      simp [evCredit, hfr, msOfT_append]

/-- the same change with another event that shows the same ids and frames -/
theorem CompTr.congr_ev {pers : Persp} {a b : Map} {e e' : MapEv} (x : CompTr pers a b e)
    (hids : evIds e' = evIds e) (hfr : e'.frames = e.frames) : CompTr pers a b e' := by
  refine ⟨fun t => ?_, fun t => ?_⟩
  · obtain ⟨os, w, s, o, bl⟩ := x.out t
    exact ⟨os, w, s, by rw [← o]; simp [evOpened, hids], by rw [← bl]; simp [evBlocked, hfr]⟩
  · obtain ⟨is, w, s, o, bl⟩ := x.inc t
    exact ⟨is, w, s, by rw [← o]; simp [evAccepted, hids], by rw [← bl]; simp [evCredit, hfr]⟩

/-! ### the invariant of the whole map -/

structure MInv (pers : Persp) (nb nu : Int) (m : Map) : Prop where
  reach : Reach pers nb nu m
  oldOut : ∀ o ∈ m.oldOut, o.closeErr ≠ none
  oldIn : ∀ i ∈ m.oldIn, i.closeErr ≠ none

theorem limOf_nonneg (nb nu : Int) (hnb : 0 ≤ nb) (hnu : 0 ≤ nu) (t : STyp) : 0 ≤ limOf nb nu t := by
  cases t <;> simpa [limOf]

/-- what the invariant says about the current outgoing sub-maps -/
theorem MInv.outFacts {pers : Persp} {nb nu : Int} {m : Map} (h : MInv pers nb nu m) (t : STyp) :
    FifoInv (m.out t) ∧ (∃ k, IdInv (m.out t) k) ∧ (m.out t).typ = t ∧ (m.out t).pers = pers := by
  obtain ⟨os, hos, he⟩ := h.reach.out t
  rw [he]
  obtain ⟨h1, h2, _, h4, h5⟩ := orun_inv os _ 0 (fifo_new t pers) (idinv_new t pers) hos
  exact ⟨h1, h2, h4, h5⟩

/-- … and about the current incoming sub-maps -/
theorem MInv.incFacts {pers : Persp} {nb nu : Int} {m : Map} (hnb : 0 ≤ nb) (hnu : 0 ≤ nu) (h : MInv pers nb nu m)
    (t : STyp) : InInv (firstIncoming t pers) (m.inc t) ∧ (m.inc t).typ = t := by
  obtain ⟨is, his, he⟩ := h.reach.inc t
  rw [he]
  have hfr := firstIncoming_range t pers
  have hn := inv_new t pers (limOf nb nu t) (limOf_nonneg nb nu hnb hnu t)
  exact ⟨run_inv _ hfr.1 hfr.2 is _ hn his, irun_typ _ hfr.1 hfr.2 is _ hn his⟩

end Uquic.Proofs.Streams
