/-
Line-protocol oracle framework (core-only, so it links as a `lean_exe`).

Input (stdin): the `.ops` file written by a Go driver:
  # case <n> seed <s> driver <name>
  <op> <args…> => <impl result>
Output (stdout):
  DIFF case=<n> line=<k> op=<…> impl=<…> model=<…>
  MON case=<n> line=<k> name=<monitor> class=<classifier|-> detail=<…>
  CASE <n> ops=<k> tags=<t1,t2,…>
  STAT cases=<…> lines=<…> diffs=<…> monfails=<…>
-/
namespace Uquic.Oracle

structure StepOut where
  /-- what the model predicts the implementation prints for this op -/
  model : String
  /-- model branch ids hit by this op (coverage of the correspondence) -/
  tags : List String := []
  /-- monitor failures: (monitor name, classifier id or "-", detail) -/
  fails : List (String × String × String) := []

structure Driver (σ : Type) where
  init : σ
  /-- `step s op impl`: `op` is the text before ` => `, `impl` the text after. -/
  step : σ → String → String → σ × StepOut
  /-- monitors evaluated at the end of a case -/
  final : σ → List (String × String × String) := fun _ => []

def splitArrow (line : String) : String × String :=
  match line.splitOn " => " with
  | [a] => (a, "")
  | a :: rest => (a, " => ".intercalate rest)
  | [] => ("", "")

def words (s : String) : List String :=
  (s.splitOn " ").filter (· ≠ "")

def dedup (l : List String) : List String :=
  l.foldl (fun acc x => if acc.contains x then acc else acc ++ [x]) []

structure RunState (σ : Type) where
  st : σ
  caseNo : String := "0"
  line : Nat := 0
  nops : Nat := 0
  tags : List String := []
  diffInCase : Bool := false
  cases : Nat := 0
  lines : Nat := 0
  diffs : Nat := 0
  monfails : Nat := 0
  inCase : Bool := false

def endCase {σ} (d : Driver σ) (rs : RunState σ) : IO (RunState σ) := do
  if !rs.inCase then return rs
  let mut rs := rs
  for (n, c, det) in d.final rs.st do
    IO.println s!"MON case={rs.caseNo} line={rs.line} name={n} class={c} detail={det}"
    rs := { rs with monfails := rs.monfails + 1 }
  IO.println s!"CASE {rs.caseNo} ops={rs.nops} tags={",".intercalate rs.tags}"
  return { rs with inCase := false }

partial def loop {σ} (d : Driver σ) (h : IO.FS.Stream) (rs : RunState σ) : IO (RunState σ) := do
  let raw ← h.getLine
  if raw.isEmpty then
    endCase d rs
  else
    let line := (raw.dropEndWhile (fun c => c == '\n' || c == '\r')).toString
    if line.startsWith "# case" then
      let rs ← endCase d rs
      let cn := match words line with
        | _ :: _ :: n :: _ => n
        | _ => "?"
      loop d h { rs with st := d.init, caseNo := cn, line := 0, nops := 0, tags := [],
                          diffInCase := false, cases := rs.cases + 1, inCase := true }
    else if line.startsWith "#" || line.isEmpty then
      loop d h rs
    else
      let (op, impl) := splitArrow line
      let (st', out) := d.step rs.st op impl
      let mut rs := { rs with st := st', line := rs.line + 1, nops := rs.nops + 1,
                              lines := rs.lines + 1, tags := dedup (rs.tags ++ out.tags) }
      if out.model ≠ impl && !rs.diffInCase then
        IO.println s!"DIFF case={rs.caseNo} line={rs.line} op={op} impl={impl} model={out.model}"
        rs := { rs with diffs := rs.diffs + 1, diffInCase := true }
      for (n, c, det) in out.fails do
        IO.println s!"MON case={rs.caseNo} line={rs.line} name={n} class={c} detail={det}"
        rs := { rs with monfails := rs.monfails + 1 }
      loop d h rs

def run {σ} (d : Driver σ) : IO Unit := do
  let stdin ← IO.getStdin
  let rs ← loop d stdin { st := d.init }
  IO.println s!"STAT cases={rs.cases} lines={rs.lines} diffs={rs.diffs} monfails={rs.monfails}"

/-- small parsing helpers shared by drivers -/
def natOf (s : String) : Nat := s.toNat?.getD 0
def intOf (s : String) : Int := s.toInt?.getD 0

end Uquic.Oracle
