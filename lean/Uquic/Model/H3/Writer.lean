/-
Model of the field lists the HTTP/3 writers emit:
* `requestWriter.encodeHeaders` (/repo/http3/request_writer.go) incl. its own validation,
* `writeTrailers` (/repo/http3/headers.go).

External code as parameters: `PunycodeHostPort` (field `puny`), `URL.RequestURI()` / `URL.Scheme`
(fields `reqURI`, `scheme`), Go map iteration order (the order of `headers` / `trailerKeys` / `trailers`),
QPACK (the emitted list is what the encoder is given; the decoder returns the same list — round-trip
contract, sampled by the driver's `qpack` op and by every `reqwrite`/`trlwrite`/`respwrite` op).
-/
import Uquic.Model.H3.Fields

namespace Uquic.Model.H3.Writer
open Uquic.Model.H3.Fields

def nHost : List Nat := [104, 111, 115, 116]
def nUserAgent : List Nat := [117, 115, 101, 114, 45, 97, 103, 101, 110, 116]
def nAcceptEncoding : List Nat := [97, 99, 99, 101, 112, 116, 45, 101, 110, 99, 111, 100, 105, 110, 103]
def vGzip : List Nat := [103, 122, 105, 112]
def nTrailer : List Nat := [116, 114, 97, 105, 108, 101, 114]
def vHTTP11 : List Nat := [72, 84, 84, 80, 47, 49, 46, 49]
def mPost : List Nat := [80, 79, 83, 84]
def mPut : List Nat := [80, 85, 84]
def mPatch : List Nat := [80, 65, 84, 67, 72]
def nConnection : List Nat := [99, 111, 110, 110, 101, 99, 116, 105, 111, 110]
def nKeepAlive : List Nat := [107, 101, 101, 112, 45, 97, 108, 105, 118, 101]
def nProxyConnection : List Nat := [112, 114, 111, 120, 121, 45, 99, 111, 110, 110, 101, 99, 116, 105, 111, 110]
def nTransferEncoding : List Nat := [116, 114, 97, 110, 115, 102, 101, 114, 45, 101, 110, 99, 111, 100, 105, 110, 103]
def nUpgrade : List Nat := [117, 112, 103, 114, 97, 100, 101]

example : nHost = B "host" ∧ nUserAgent = B "user-agent" ∧ nAcceptEncoding = B "accept-encoding" ∧ vGzip = B "gzip"
    ∧ nTrailer = B "trailer" ∧ vHTTP11 = B "HTTP/1.1" ∧ mPost = B "POST" ∧ mPut = B "PUT" ∧ mPatch = B "PATCH"
    ∧ nConnection = B "connection" ∧ nKeepAlive = B "keep-alive" ∧ nProxyConnection = B "proxy-connection"
    ∧ nTransferEncoding = B "transfer-encoding" ∧ nUpgrade = B "upgrade" := by decide

/-- `strings.ToLower` on an ASCII string -/
def lowerASCII (s : List Nat) : List Nat := s.map (fun b => if isUpper b then b + 32 else b)

/-- names for which `encodeHeaders` skips the header (`strings.EqualFold` against these constants; the
    keys have passed ValidHeaderFieldName, hence are ASCII, hence EqualFold is ASCII case folding) -/
def skippedNames : List (List Nat) :=
  [nHost, nContentLength, nConnection, nProxyConnection, nTransferEncoding, nUpgrade, nKeepAlive]

/-- `validPseudoPath` -/
def validPseudoPath (v : List Nat) : Bool :=
  (match v with
   | 47 :: _ => true
   | _ => false) || v = [42]

def trimPrefix (p s : List Nat) : List Nat := if p.isPrefixOf s then s.drop p.length else s

/-- `shouldSendReqContentLength` -/
def shouldSendCL (method : List Nat) (cl : Int) : Bool :=
  if cl > 0 then true else if cl < 0 then false else (method = mPost || method = mPut || method = mPatch)

def natDigits : Nat → Nat → List Nat → List Nat
  | 0, _, acc => acc
  | fuel + 1, n, acc => if n < 10 then (48 + n) :: acc else natDigits fuel (n / 10) ((48 + n % 10) :: acc)
/-- `strconv.FormatInt(n, 10)` for n ≥ 0 -/
def fmtNat (n : Nat) : List Nat := natDigits (n + 1) n []

structure WReq where
  method : List Nat
  proto : List Nat
  /-- `httpguts.PunycodeHostPort(req.Host or req.URL.Host)`; `none` = error -/
  puny : Option (List Nat)
  /-- `req.URL.RequestURI()` -/
  reqURI : List Nat
  scheme : List Nat
  /-- `req.Header` in iteration order -/
  headers : List (List Nat × List (List Nat))
  /-- keys of `req.Trailer` in iteration order -/
  trailerKeys : List (List Nat)
  /-- `actualContentLength(req)` -/
  contentLength : Int
  gzip : Bool
deriving Repr

inductive WErr
  | host | path | header
deriving DecidableEq, Repr

def WErr.text : WErr → String
  | .host => "E:host" | .path => "E:path" | .header => "E:header"

/-- the `for k, vv := range req.Header` part of enumerateHeaders: emitted fields and `didUA` -/
def headerFields : List (List Nat × List (List Nat)) → List (List Nat × List Nat) × Bool
  | [] => ([], false)
  | (k, vv) :: rest =>
    let (fs, ua) := headerFields rest
    let lk := lowerASCII k
    if skippedNames.contains lk then (fs, ua)
    else if lk = nUserAgent then
      match vv with
      | [] => (fs, true)
      | v :: _ => if v = [] then (fs, true) else ((lk, v) :: fs, true)
    else (vv.map (fun v => (lk, v)) ++ fs, ua)

def isExtendedConnect (w : WReq) : Bool := w.method = mConnect && w.proto ≠ [] && w.proto ≠ vHTTP11

/-- the request needs :path and :scheme (everything but a plain CONNECT) -/
def needPath (w : WReq) : Bool := w.method ≠ mConnect || isExtendedConnect w

/-- the pseudo-header fields, in the order enumerateHeaders emits them -/
def pseudoPart (w : WReq) (host path : List Nat) : List (List Nat × List Nat) :=
  [(nAuthority, host), (nMethod, w.method)]
    ++ (if needPath w then [(nPath, path), (nScheme, w.scheme)] else [])
    ++ (if isExtendedConnect w then [(nProtocol, w.proto)] else [])

/-- the value of the `trailer` field: `strings.Join(keys with ValidTrailerHeader, ", ")` -/
def trailersValue (w : WReq) : List Nat := joinWith [44, 32] (w.trailerKeys.filter validTrailerHeader)

/-- the regular fields, in the order enumerateHeaders emits them -/
def regularPart (ua : List Nat) (w : WReq) : List (List Nat × List Nat) :=
  (if trailersValue w ≠ [] then [(nTrailer, trailersValue w)] else [])
    ++ (headerFields w.headers).1
    ++ (if shouldSendCL w.method w.contentLength then [(nContentLength, fmtNat w.contentLength.toNat)] else [])
    ++ (if w.gzip then [(nAcceptEncoding, vGzip)] else [])
    ++ (if !(headerFields w.headers).2 then [(nUserAgent, ua)] else [])

/-- `encodeHeaders`: the list of fields handed to the QPACK encoder, or the writer's own rejection -/
def encodeHeaders (ua : List Nat) (w : WReq) : Except WErr (List (List Nat × List Nat)) :=
  match w.puny with
  | none => .error .host
  | some host =>
    if !validHost host then .error .host
    else
      let p1 := w.reqURI
      let p2 := trimPrefix (w.scheme ++ [58, 47, 47] ++ host) p1
      if needPath w && !validPseudoPath p1 && !validPseudoPath p2 then .error .path
      else
        let path := if validPseudoPath p1 then p1 else p2
        if w.headers.any (fun kv => !validFieldName kv.1 || kv.2.any (fun v => !validFieldValue v)) then .error .header
        else .ok (pseudoPart w host path ++ regularPart ua w)

/-- `writeTrailers`: `none` = nothing written -/
def writeTrailers (t : List (List Nat × List (List Nat))) : Option (List (List Nat × List Nat)) :=
  if !t.any (fun kv => validTrailerHeader kv.1 && !kv.2.isEmpty) then none
  else some (t.flatMap (fun kv =>
    if kv.2.isEmpty || !validTrailerHeader kv.1 then [] else kv.2.map (fun v => (lowerASCII kv.1, v))))

/-! ### responseWriter.writeHeader (response_writer.go) -/

/-- `strconv.Itoa` -/
def itoa (i : Int) : List Nat := if i < 0 then 45 :: fmtNat (-i).toNat else fmtNat i.toNat

def isGoSpace (b : Nat) : Bool := b == 32 || (9 ≤ b && b ≤ 13)
/-- `strings.TrimSpace` on an ASCII string -/
def trimSpace (s : List Nat) : List Nat := ((s.dropWhile isGoSpace).reverse.dropWhile isGoSpace).reverse

def trailerPrefix : List Nat := [84, 114, 97, 105, 108, 101, 114, 58]
example : trailerPrefix = B "Trailer:" := by decide

/-- the keys `writeHeader` declares as trailers from the values of the `Trailer` header
    (`declareTrailer` keeps those that pass ValidTrailerHeader) -/
def declaredTrailers (hs : List (List Nat × List (List Nat))) : List (List Nat) :=
  ((((hs.filter (fun kv => kv.1 == kTrailer)).flatMap (·.2)).flatMap (splitOn 44)).map (fun t => canonKey (trimSpace t))).filter validTrailerHeader

/-- the regular fields of a response header section: every header that is neither a declared trailer
    nor `Trailer:`-prefixed, name lower-cased, in map iteration order -/
def responseRegular (hs : List (List Nat × List (List Nat))) : List (List Nat × List Nat) :=
  hs.flatMap (fun kv =>
    if (declaredTrailers hs).contains kv.1 || trailerPrefix.isPrefixOf kv.1 then [] else kv.2.map (fun v => (lowerASCII kv.1, v)))

/-- `responseWriter.writeHeader(status)` on a writer that has not declared trailers before -/
def responseFields (status : Int) (hs : List (List Nat × List (List Nat))) : List (List Nat × List Nat) :=
  (nStatus, itoa status) :: responseRegular hs

end Uquic.Model.H3.Writer
