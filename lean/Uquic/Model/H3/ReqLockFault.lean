/-
The sharing discipline of `requestWriter.writeHeaders` (http3/request_writer.go) on its ERROR PATH
(C19, round 5): the two writes to the destination (frame header, header block) may fail — a stream that
was reset, an expired write deadline — and the call returns early. The shared `headerBuf` is reset and
the mutex released by DEFERRED calls, so a failed request leaves nothing behind for the next one.

Same state as Model/H3/ReqLock.lean (the code's discipline: the lock is held across the writes), plus a
per-writer fault (`failAt`: 1 = the write of the frame header fails, 2 = the write of the block fails)
and two clean-up disciplines: `resetAlways` (the code: `defer w.headerBuf.Reset()`) and
`resetOnSuccess` (the buffer is reset on the success path only) — refuted in Props/C19Fault.
-/
import Uquic.Model.H3.ReqLock

namespace Uquic.Model.H3.ReqLockFault
open Uquic.Model.H3.ReqLock (bufWrite expected)

inductive Cleanup
  | resetAlways | resetOnSuccess
deriving DecidableEq, Repr

structure Writer where
  block : List Nat
  /-- 0 none, 1 the frame-header write fails, 2 the block write fails -/
  failAt : Nat := 0
  /-- 0 before Lock, 1 locked, 2 encoded, 3 frame header written, 4 block written, 5 done, 6 failed -/
  pc : Nat := 0
  out : List Nat := []

structure State where
  mem : List Nat := []
  len : Nat := 0
  lock : Option Nat := none
  w : Nat → Writer

def setW (st : State) (i : Nat) (x : Writer) : State := { st with w := fun j => if j = i then x else st.w j }

/-- the early return: deferred Reset (under `resetAlways`), deferred Unlock -/
def bail (c : Cleanup) (st : State) (i : Nat) (x : Writer) : State :=
  setW { st with len := (if c = .resetAlways then 0 else st.len), lock := none } i { x with pc := 6 }

def step (c : Cleanup) (st : State) (i : Nat) : State :=
  let x := st.w i
  match x.pc with
  | 0 => if st.lock.isNone then setW { st with lock := some i } i { x with pc := 1 } else st
  | 1 => setW { st with mem := bufWrite st.mem st.len x.block, len := st.len + x.block.length } i { x with pc := 2 }
  | 2 => if x.failAt = 1 then bail c st i x else setW st i { x with pc := 3, out := x.out ++ [st.len] }
  | 3 => if x.failAt = 2 then bail c st i x else setW st i { x with pc := 4, out := x.out ++ st.mem.take st.len }
  | 4 => setW { st with len := 0, lock := none } i { x with pc := 5 }
  | _ => st

def run (c : Cleanup) (st : State) (sched : List Nat) : State := sched.foldl (step c) st

def init (blocks : Nat → List Nat) (fails : Nat → Nat) : State := { w := fun i => { block := blocks i, failAt := fails i } }

/-! ### the `conc` op of the h3g driver with injected write errors

The lock is held across the writes, so whatever interleaving the driver forces, the calls take effect one
after the other. -/

def seqSchedule (n : Nat) : List Nat := (List.range n).flatMap fun i => List.replicate 5 i

/-- which request's block each of the n writers emitted (block i = [i]); `n + 1`: the call failed,
    `n`: it did not finish -/
def emittedBlocks (n : Nat) (fails : List Nat) : List Nat :=
  let st := run .resetAlways (init (fun i => [i]) (fun i => fails.getD i 0)) (seqSchedule n)
  (List.range n).map fun i =>
    match (st.w i).pc, (st.w i).out with
    | 5, [1, j] => j
    | 6, _ => n + 1
    | _, _ => n

end Uquic.Model.H3.ReqLockFault
