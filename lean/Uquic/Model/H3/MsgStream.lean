/-
Model of http3/stream.go `Stream.Read` (property C18): the HTTP/3 message body view of a request
stream.  `bytesRemainingInFrame`, skipping of non-DATA frames (inside `parseNext`), a HEADERS frame
after the first read = trailers, reads of arbitrary sizes over an underlying stream delivered in
arbitrary chunks.

The `parseTrailer` callback is the drivers' stand-in for `decodeTrailers` (headers.go) without
QPACK: size check against `maxHdr`, `io.ReadFull` of the field section, which is kept raw.
-/
import Uquic.Model.H3.Frames

namespace Uquic.Model.H3

structure MsgStream where
  p : PState := {}
  /-- `bytesRemainingInFrame` -/
  remaining : Nat := 0
  parsedTrailer : Bool := false
  /-- the raw field section handed to `parseTrailer` -/
  trailer : Option (List Nat) := none
  maxHdr : Nat := 65536
deriving Repr, Inhabited

def MsgStream.setU (s : MsgStream) (u : Under) : MsgStream := { s with p := { s.p with u := u } }

/-- `decodeTrailers` up to (not including) QPACK decoding -/
def MsgStream.parseTrailer (s : MsgStream) (l : Nat) : MsgStream × Option Err :=
  if l > s.maxHdr then (s, some .headersTooLarge)
  else match s.p.u.readFull l with
    | (u1, .error e) => (s.setU u1, some e)
    | (u1, .ok bs) => ({ s.setU u1 with trailer := some bs }, none)

/-- the tail of `Stream.Read`: at most `bytesRemainingInFrame` bytes from the QUIC stream -/
def MsgStream.readData (s : MsgStream) (n : Nat) : MsgStream × List Nat × Option Err :=
  let k := if s.remaining < n then s.remaining else n
  let r := s.p.u.read k
  ({ s.setU r.1 with remaining := s.remaining - r.2.1.length }, r.2.1, r.2.2)

/-- `Stream.Read(b)` with `len b = n` -/
def MsgStream.read (s : MsgStream) (n : Nat) : MsgStream × List Nat × Option Err :=
  if s.remaining = 0 then
    match parseNext s.p.fuel s.p with
    | (p1, .error e) => ({ s with p := p1 }, [], some e)
    | (p1, .ok (.data l)) =>
      if s.parsedTrailer then ({ s with p := p1 }, [], some .dataAfterTrailers)
      else ({ s with p := p1, remaining := l }).readData n
    | (p1, .ok (.headers l _)) =>
      if s.parsedTrailer then ({ s with p := p1 }, [], some .headersAfterTrailers)
      else
        let r := ({ s with p := p1, parsedTrailer := true }).parseTrailer l
        (r.1, [], r.2)
    | (p1, .ok _) =>
      -- SETTINGS / GOAWAY on a request stream
      ({ s with p := p1.closeConn errFrameUnexpected }, [], some .unexpectedFrame)
  else s.readData n

/-- reads of the given sizes, one after the other, until the first error -/
def MsgStream.readMany (s : MsgStream) : List Nat → MsgStream × List Nat × Option Err
  | [] => (s, [], none)
  | n :: ns =>
    match s.read n with
    | (s1, d, some e) => (s1, d, some e)
    | (s1, d, none) =>
      let r := s1.readMany ns
      (r.1, d ++ r.2.1, r.2.2)

end Uquic.Model.H3
