/-
Model of the GLUE around the HTTP/3 message body (property C18, round 4):

* `RequestStream.sendRequestHeader` — when the transport asks for gzip on its own (`requestedGzip`);
* the tail of `RequestStream.ReadResponse` (http3/stream.go) — which Content-Length limit the response
  body is created with, what `res.ContentLength` / `res.Uncompressed` / the Content-Encoding and
  Content-Length header fields look like afterwards, whether the body is wrapped in a gzip reader;
* `RawServerConn.handleRequestStream` (http3/server_conn.go) — which limit the request body is created
  with and what the handler finds in `req.Trailer` once the body was read to its end.

Core-only; the functions are run by the end-to-end oracle (Oracle/H3e.lean) on every exchange.
-/
import Uquic.Model.H3.Body

namespace Uquic.Model.H3.RespGlue

/-- `sendRequestHeader`: the transport adds `accept-encoding: gzip` itself -/
def requestedGzip (disableCompression : Bool) (method : String) (hasAcceptEncoding hasRange : Bool) : Bool :=
  !disableCompression && method != "HEAD" && !hasAcceptEncoding && !hasRange

/-- what `ReadResponse` knows once the header section was decoded -/
structure RespIn where
  status : Nat := 200
  /-- `res.ContentLength` as parsed from the header section (`none` = -1 = absent) -/
  declared : Option Nat := none
  /-- `Content-Encoding: gzip` -/
  ceGzip : Bool := false
  requestedGzip : Bool := false
  isConnect : Bool := false
deriving Repr, DecidableEq, Inhabited

structure RespOut where
  /-- the `contentLength` argument of `newResponseBody` -/
  bodyLimit : Int := -1
  /-- `res.ContentLength` of the returned response -/
  contentLength : Int := -1
  uncompressed : Bool := false
  /-- the body is wrapped into a gzip reader -/
  gunzip : Bool := false
  keepContentEncoding : Bool := true
  keepContentLength : Bool := true
deriving Repr, DecidableEq, Inhabited

def declInt : Option Nat → Int
  | some n => (n : Int)
  | none => -1

/-- the tail of `RequestStream.ReadResponse` after `updateResponseFromHeaders` -/
def readResponseTail (i : RespIn) : RespOut :=
  let limit := declInt i.declared            -- respBody := newResponseBody(s.str, res.ContentLength, …)
  let noBodyStatus := (100 ≤ i.status && i.status < 200) || i.status == 204 ||
    (i.isConnect && 200 ≤ i.status && i.status < 300)
  let cl : Int := if noBodyStatus && i.declared.isNone then 0 else declInt i.declared
  if i.requestedGzip && i.ceGzip then
    { bodyLimit := limit, contentLength := -1, uncompressed := true, gunzip := true,
      keepContentEncoding := false, keepContentLength := false }
  else
    { bodyLimit := limit, contentLength := cl }

/-- the response body the client reads DATA from (before any decompression) -/
def responseBody (i : RespIn) (str : Str) : Body := Body.new str (readResponseTail i).bodyLimit

/-- `handleRequestStream`: the limit the request body is created with -/
def requestBodyLimit (hasContentLengthHeader : Bool) (reqContentLength : Int) : Int :=
  if hasContentLengthHeader && reqContentLength ≥ 0 then reqContentLength else -1

/-- `handleRequestStream`: the request the handler holds is the one the trailer callback assigns to;
    the callback REPLACES the Trailer map by the decoded trailer section.  `announced` = the keys the
    request's Trailer field announced (values nil), `received` = `none` while no trailer section was read -/
def handlerTrailer (announced : List (String × List String)) (received : Option (List (String × List String))) :
    List (String × List String) :=
  match received with
  | none => announced
  | some t => t

end Uquic.Model.H3.RespGlue
