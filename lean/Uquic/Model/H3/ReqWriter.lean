/-
Model of the ONE `requestWriter` (http3/request_writer.go) a client connection shares between all of
its request streams, together with the stream writes it feeds (property C18, round 4).

`WriteRequestHeader` serialises the HEADERS frame under the writer's mutex into memory of its own
(`buf := &bytes.Buffer{}`; the QPACK encoder's scratch buffer `headerBuf` is shared and reused) and
then — outside the mutex — hands that memory to the stream's `Write`.  A QUIC send stream keeps the
slice it was handed and consumes it piecewise while flow control allows (`Write` returns when the
last byte was taken), so other requests are encoded while earlier writes are still in progress.

The memory is explicit here: `shared` is the writer's scratch memory, every `Write` call `i` has a
slot with the buffer it was handed.  The model parameter `alias` says whether that buffer IS the
scratch memory (`true`: what a "save the allocation" change would do) or a private copy (`false`:
the code as it is).  The h3w driver ties `alias = false` to the real requestWriter.
-/
namespace Uquic.Model.H3.ReqWriter

structure Slot where
  /-- the bytes `Write` was handed (as they were at that moment); `none`: the call has not started -/
  buf : Option (List Nat) := none
  /-- bytes the stream has consumed -/
  off : Nat := 0
  /-- what the stream consumed -/
  got : List Nat := []
deriving Repr, Inhabited

structure SW where
  /-- the writer's scratch memory: the serialisation of the request encoded last -/
  shared : List Nat := []
  slot : Nat → Slot := fun _ => {}

def upd (f : Nat → Slot) (i : Nat) (s : Slot) : Nat → Slot := fun j => if j = i then s else f j

inductive Step where
  /-- `WriteRequestHeader` / `WriteRequestTrailer` call `i`: encode under the mutex, enter `Write` -/
  | enc (i : Nat)
  /-- the stream of call `i` consumes up to `k` more bytes -/
  | take (i k : Nat)
deriving Repr, DecidableEq

/-- `frame i`: the serialisation of call `i` (QPACK is not modelled: any byte string) -/
def SW.step (alias : Bool) (frame : Nat → List Nat) (w : SW) : Step → SW
  | .enc i =>
    match (w.slot i).buf with
    | some _ => w
    | none => { shared := frame i, slot := upd w.slot i { buf := some (frame i) } }
  | .take i k =>
    match (w.slot i).buf with
    | none => w
    | some b =>
      let cur := if alias then w.shared else b
      let piece := (cur.drop (w.slot i).off).take k
      { w with slot := upd w.slot i { buf := some b, off := (w.slot i).off + piece.length, got := (w.slot i).got ++ piece } }

def SW.run (alias : Bool) (frame : Nat → List Nat) (w : SW) (steps : List Step) : SW :=
  steps.foldl (SW.step alias frame) w

/-- the bytes a `take i k` step hands to the stream -/
def SW.piece (alias : Bool) (w : SW) (i k : Nat) : List Nat :=
  match (w.slot i).buf with
  | none => []
  | some b => ((if alias then w.shared else b).drop (w.slot i).off).take k

/-- call `i` has returned: its stream consumed the whole buffer -/
def SW.complete (w : SW) (i : Nat) : Bool :=
  match (w.slot i).buf with
  | none => false
  | some b => (w.slot i).off ≥ b.length

end Uquic.Model.H3.ReqWriter
