/-
Model of http3/frames.go (`frameParser.ParseNext`, `parseSettingsFrame`, `parseGoAwayFrame`) over
an underlying QUIC receive stream that delivers its bytes in ARBITRARY chunks (property C18).

The underlying stream is a list of cells `(byte, last)`: `last` marks the final byte of a delivery
chunk, i.e. a point where a `Read` of the QUIC stream returns even if its buffer is not full.
Every chunking of a byte string is a flag assignment; the parser never looks at the flags
(`quicvarint.Read` reads byte by byte, `io.CopyN`/`io.ReadFull` loop), only DATA reads do.

Bytes are `Nat` (< 256 by construction in the oracle), lengths `Nat` (Go uint64 < 2^62 as decoded
from a varint).  Errors are one small enum (`Err`) that the drivers print as `E:<name>`.
-/
import Uquic.Generated.H3

namespace Uquic.Model.H3

/-- how the receive side of the underlying stream ends -/
inductive Term where
  | open                      -- more data may come (a read with nothing buffered would block)
  | fin                       -- FIN after the buffered bytes
  | reset (code : Nat)        -- RESET_STREAM from the peer
  | cancelled (code : Nat)    -- local CancelRead
  | connClosed (code : Nat)   -- the connection was closed locally with this application error
deriving DecidableEq, Repr, Inhabited

/-- every error value the HTTP/3 read/write paths can hand to their caller -/
inductive Err where
  | block                         -- nothing buffered, stream still open (the stub's deadline error)
  | eof | ueof                    -- io.EOF, io.ErrUnexpectedEOF
  | reset (code : Nat)            -- *quic.StreamError, Remote
  | cancelled (code : Nat)        -- *quic.StreamError, local
  | connClosed (code : Nat)       -- *quic.ApplicationError, local
  | h3 (code : Nat) (remote : Bool)  -- *http3.Error (after maybeReplaceError)
  | reserved (t : Nat)            -- "http3: reserved frame type"
  | settingsSize | settingsDup | settingsVal | goawayLen
  | dataAfterTrailers | headersAfterTrailers | unexpectedFrame
  | headersTooLarge | tooMuchData
  | closedWrite                   -- write on a closed stream
  | bodyNotAllowed | contentLength  -- http.ErrBodyNotAllowed, http.ErrContentLength
  | fuel                          -- model artefact: recursion budget exhausted (never, see Proofs)
deriving DecidableEq, Repr, Inhabited

def Term.err : Term → Err
  | .open => .block
  | .fin => .eof
  | .reset c => .reset c
  | .cancelled c => .cancelled c
  | .connClosed c => .connClosed c

/-- `maybeReplaceError` (error.go) -/
def maybeReplaceError : Err → Err
  | .reset c => .h3 c true
  | .cancelled c => .h3 c false
  | .connClosed c => .h3 c false
  | e => e

structure Under where
  cells : List (Nat × Bool) := []
  term : Term := .open
deriving Repr, Inhabited

def Under.flat (u : Under) : List Nat := u.cells.map (·.1)

/-- mark the last byte of a chunk -/
def markChunk : List Nat → List (Nat × Bool)
  | [] => []
  | [b] => [(b, true)]
  | b :: bs => (b, false) :: markChunk bs

/-- the peer's data arrives (ignored once the receive side has ended) -/
def Under.feed (u : Under) (bs : List Nat) : Under :=
  if u.term = .open then { u with cells := u.cells ++ markChunk bs } else u

def Under.finish (u : Under) : Under :=
  if u.term = .open then { u with term := .fin } else u

/-- RESET_STREAM / CancelRead / connection close: buffered data is dropped and every later read
    fails, unless the stream was already read to its end or has failed before. -/
def Under.abort (u : Under) (t : Term) : Under :=
  if u.term = .open ∨ (u.term = .fin ∧ u.cells ≠ []) then { cells := [], term := t } else u

/-- `Read(b)` of the QUIC stream with `len b = n`: at most the rest of the current chunk. -/
def takeChunk : Nat → List (Nat × Bool) → List Nat × List (Nat × Bool)
  | 0, cs => ([], cs)
  | _, [] => ([], [])
  | n + 1, (b, last) :: cs =>
    if last then ([b], cs)
    else
      let r := takeChunk n cs
      (b :: r.1, r.2)

def Under.read (u : Under) (n : Nat) : Under × List Nat × Option Err :=
  match u.cells with
  | [] =>
    -- a zero-length read of an open stream returns (0, nil)
    if n = 0 ∧ u.term = .open then (u, [], none) else (u, [], some u.term.err)
  | _ :: _ =>
    let r := takeChunk n u.cells
    ({ u with cells := r.2 }, r.1, none)

/-! ### QUIC varints -/

/-- decode one varint from the head of a list (`f` projects the byte): value, encoded length, rest.
    `none`: the list ends inside the varint. -/
def decVarintG {α : Type} (f : α → Nat) : List α → Option (Nat × Nat × List α)
  | [] => none
  | c :: cs =>
    let b0 := f c
    let n := 2 ^ (b0 / 64) - 1
    let more := cs.take n
    if more.length < n then none
    else some ((more.map f).foldl (fun a b => a * 256 + b) (b0 % 64), n + 1, cs.drop n)

def decVarint : List Nat → Option (Nat × Nat × List Nat) := decVarintG id

/-- `quicvarint.Read` on the stream: byte by byte; when the stream runs dry inside the varint the
    bytes read so far are gone and the stream's terminal error is returned. -/
def Under.readVarint (u : Under) : Under × Except Err (Nat × Nat) :=
  match decVarintG (·.1) u.cells with
  | none => ({ u with cells := [] }, .error u.term.err)
  | some (v, k, rest) => ({ u with cells := rest }, .ok (v, k))

/-- `io.CopyN(io.Discard, r, l)` -/
def Under.discard (u : Under) (l : Nat) : Under × Option Err :=
  if (u.cells.take l).length < l then ({ u with cells := [] }, some u.term.err)
  else ({ u with cells := u.cells.drop l }, none)

/-- `io.ReadFull(r, buf)` with `len buf = l` -/
def Under.readFull (u : Under) (l : Nat) : Under × Except Err (List Nat) :=
  let got := u.cells.take l
  if got.length < l then
    ({ u with cells := [] },
      .error (if got.isEmpty then u.term.err else if u.term = .fin then .ueof else u.term.err))
  else ({ u with cells := u.cells.drop l }, .ok (got.map (·.1)))

/-! ### frames -/

structure Settings where
  maxFieldSectionSize : Int := -1
  datagram : Bool := false
  extendedConnect : Bool := false
  other : List (Nat × Nat) := []
deriving DecidableEq, Repr, Inhabited

inductive Frame where
  | data (len : Nat)
  | headers (len : Nat) (hdrLen : Nat)
  | settings (s : Settings)
  | goaway (id : Nat)
deriving DecidableEq, Repr, Inhabited

inductive Kind where
  | data | headers | settings | goaway | reserved | skip
deriving DecidableEq, Repr, Inhabited

/-- the `switch t` of `ParseNext`, regenerated from the source -/
def kindOf (t : Nat) : Kind :=
  match Uquic.Gen.H3.parseNextCases.lookup t with
  | some "data" => .data
  | some "headers" => .headers
  | some "settings" => .settings
  | some "goaway" => .goaway
  | some "reserved" => .reserved
  | _ => .skip

def settingMaxFieldSectionSize : Nat := Uquic.Gen.H3.settingMaxFieldSectionSize.toNat
def settingExtendedConnect : Nat := Uquic.Gen.H3.settingExtendedConnect.toNat
def settingDatagram : Nat := Uquic.Gen.H3.settingDatagram.toNat
def maxSettingsPayload : Nat := Uquic.Gen.H3.maxSettingsPayload.toNat
def errFrameUnexpected : Nat := Uquic.Gen.H3.ErrCodeFrameUnexpected.toNat
def errMessageError : Nat := Uquic.Gen.H3.ErrCodeMessageError.toNat
def errNoError : Nat := Uquic.Gen.H3.ErrCodeNoError.toNat

structure SetAcc where
  s : Settings := {}
  rMFS : Bool := false
  rDG : Bool := false
  rEC : Bool := false

/-- the `for b.Len() > 0` loop of `parseSettingsFrame` over the fully buffered payload -/
def parseSettingsLoop : Nat → List Nat → SetAcc → Except Err Settings
  | 0, _, acc => .ok acc.s
  | fuel + 1, buf, acc =>
    if buf.isEmpty then .ok acc.s
    else match decVarint buf with
      | none => .error .eof          -- bytes.Reader runs dry: io.EOF
      | some (id, _, buf1) =>
        match decVarint buf1 with
        | none => .error .eof
        | some (val, _, buf2) =>
          if id = settingMaxFieldSectionSize then
            if acc.rMFS then .error .settingsDup
            else parseSettingsLoop fuel buf2 { acc with rMFS := true, s := { acc.s with maxFieldSectionSize := val } }
          else if id = settingExtendedConnect then
            if acc.rEC then .error .settingsDup
            else if val ≠ 0 ∧ val ≠ 1 then .error .settingsVal
            else parseSettingsLoop fuel buf2 { acc with rEC := true, s := { acc.s with extendedConnect := val = 1 } }
          else if id = settingDatagram then
            if acc.rDG then .error .settingsDup
            else if val ≠ 0 ∧ val ≠ 1 then .error .settingsVal
            else parseSettingsLoop fuel buf2 { acc with rDG := true, s := { acc.s with datagram := val = 1 } }
          else if (acc.s.other.lookup id).isSome then .error .settingsDup
          else parseSettingsLoop fuel buf2 { acc with s := { acc.s with other := acc.s.other ++ [(id, val)] } }

/-- `parseSettingsFrame` -/
def Under.parseSettings (u : Under) (l : Nat) : Under × Except Err Frame :=
  if l > maxSettingsPayload then (u, .error .settingsSize)
  else match u.readFull l with
    | (u1, .error e) => (u1, .error (if e = .ueof then .eof else e))
    | (u1, .ok buf) =>
      match parseSettingsLoop buf.length buf {} with
      | .error e => (u1, .error e)
      | .ok s => (u1, .ok (.settings s))

/-- `parseGoAwayFrame` -/
def Under.parseGoaway (u : Under) (l : Nat) : Under × Except Err Frame :=
  match u.readVarint with
  | (u1, .error e) => (u1, .error e)
  | (u1, .ok (id, k)) => if k ≠ l then (u1, .error .goawayLen) else (u1, .ok (.goaway id))

/-- the part of the world `ParseNext` can touch: the stream and the connection
    (`cc` = code of the first `CloseWithError`). -/
structure PState where
  u : Under := {}
  cc : Option Nat := none
deriving Repr, Inhabited

/-- `conn.CloseWithError(code)`: the first close wins; the connection's streams fail from then on. -/
def PState.closeConn (p : PState) (code : Nat) : PState :=
  match p.cc with
  | some _ => p
  | none => { cc := some code, u := p.u.abort (.connClosed code) }

/-- `frameParser.ParseNext`.  One unit of `fuel` per loop iteration (each consumes ≥ 2 bytes). -/
def parseNext : Nat → PState → PState × Except Err Frame
  | 0, p => (p, .error .fuel)
  | fuel + 1, p =>
    match p.u.readVarint with
    | (u1, .error e) => ({ p with u := u1 }, .error e)
    | (u1, .ok (t, k1)) =>
      match u1.readVarint with
      | (u2, .error e) => ({ p with u := u2 }, .error e)
      | (u2, .ok (l, k2)) =>
        match kindOf t with
        | .data => ({ p with u := u2 }, .ok (.data l))
        | .headers => ({ p with u := u2 }, .ok (.headers l (k1 + k2)))
        | .settings => let r := u2.parseSettings l; ({ p with u := r.1 }, r.2)
        | .goaway => let r := u2.parseGoaway l; ({ p with u := r.1 }, r.2)
        | .reserved =>
          let p2 : PState := { p with u := u2 }
          (if Uquic.Gen.H3.reservedCloseCode < 0 then p2
           else p2.closeConn Uquic.Gen.H3.reservedCloseCode.toNat, .error (.reserved t))
        | .skip =>
          match u2.discard l with
          | (u3, some e) => ({ p with u := u3 }, .error e)
          | (u3, none) => parseNext fuel { p with u := u3 }

/-- enough fuel for any stream content -/
def PState.fuel (p : PState) : Nat := p.u.cells.length + 1

end Uquic.Model.H3
