/-
Model of http3/body.go (`body.Read`, `checkContentLengthViolation`) and of the in-memory stand-in
for the QUIC stream's send side / cancel calls that the unit driver uses (property C18).
-/
import Uquic.Model.H3.MsgStream

namespace Uquic.Model.H3

/-- send side of the stub QUIC stream -/
inductive SendSt where
  | ok
  | failAfter (k : Nat) (code : Nat)  -- `k` more writes succeed, then the peer's STOP_SENDING(code) is seen
  | stopped (code : Nat)
  | cancelled (code : Nat)
  | closed
deriving DecidableEq, Repr, Inhabited

/-- what one `Write` call on the QUIC stream carried -/
inductive WriteRec where
  | raw (bs : List Nat)
  /-- one write holding a complete HEADERS frame; the QPACK bytes are not modelled, the decoded
      field list (sorted by name) is -/
  | hdr (fields : List (String × String))
deriving DecidableEq, Repr, Inhabited

inductive Ev where
  | cancelRead (code : Nat) | cancelWrite (code : Nat) | close
deriving DecidableEq, Repr, Inhabited

/-- an `http3.Stream` over the stub: read side, send side, the calls made on the QUIC stream -/
structure Str where
  m : MsgStream := {}
  st : SendSt := .ok
  writes : List WriteRec := []
  evs : List Ev := []
deriving Repr, Inhabited

/-- `Write` on the QUIC stream -/
def Str.write (s : Str) (w : WriteRec) : Str × Option Err :=
  match s.m.p.cc with
  | some c => (s, some (.connClosed c))
  | none =>
    match s.st with
    | .ok => ({ s with writes := s.writes ++ [w] }, none)
    | .failAfter 0 c => ({ s with st := .stopped c }, some (.reset c))
    | .failAfter (k + 1) c => ({ s with st := .failAfter k c, writes := s.writes ++ [w] }, none)
    | .stopped c => (s, some (.reset c))
    | .cancelled c => (s, some (.cancelled c))
    | .closed => (s, some .closedWrite)

def Str.cancelRead (s : Str) (code : Nat) : Str :=
  { s with m := s.m.setU (s.m.p.u.abort (.cancelled code)), evs := s.evs ++ [.cancelRead code] }

def SendSt.live : SendSt → Bool
  | .ok | .failAfter _ _ => true
  | _ => false

def Str.cancelWrite (s : Str) (code : Nat) : Str :=
  { s with st := if s.st.live then .cancelled code else s.st, evs := s.evs ++ [.cancelWrite code] }

def Str.close (s : Str) : Str :=
  { s with st := if s.st.live then .closed else s.st, evs := s.evs ++ [.close] }

/-- `body` -/
structure Body where
  str : Str := {}
  hasCL : Bool := false
  remainingCL : Int := 0
  violated : Bool := false
deriving Repr, Inhabited

/-- `newBody(str, contentLength)` -/
def Body.new (str : Str) (cl : Int) : Body :=
  if cl ≥ 0 then { str := str, hasCL := true, remainingCL := cl } else { str := str }

/-- `checkContentLengthViolation` -/
def Body.check (b : Body) : Body × Option Err :=
  if !b.hasCL then (b, none)
  else if b.remainingCL < 0 ∨ (b.remainingCL = 0 ∧ b.str.m.remaining > 0) then
    (if b.violated then b
     else { b with violated := true, str := (b.str.cancelRead errMessageError).cancelWrite errMessageError },
     some .tooMuchData)
  else (b, none)

/-- the part of `body.Read` after `str.Read` returned `(d, eo)`: the second violation check -/
def Body.afterRead (b2 : Body) (d : List Nat) (eo : Option Err) : Body × List Nat × Option Err :=
  match b2.check with
  | (b3, some e) => (b3, d, some e)
  | (b3, none) => (b3, d, eo.map maybeReplaceError)

/-- `body.Read(p)` with `len p = n` -/
def Body.read (b : Body) (n : Nat) : Body × List Nat × Option Err :=
  match b.check with
  | (b1, some e) => (b1, [], some e)
  | (b1, none) =>
    let n' := if b1.hasCL then min n b1.remainingCL.toNat else n
    let r := b1.str.m.read n'
    let b2 : Body := { b1 with str := { b1.str with m := r.1 }, remainingCL := b1.remainingCL - r.2.1.length }
    b2.afterRead r.2.1 r.2.2

/-- body reads of the given sizes until the first error -/
def Body.readMany (b : Body) : List Nat → Body × List Nat × Option Err
  | [] => (b, [], none)
  | n :: ns =>
    match b.read n with
    | (b1, d, some e) => (b1, d, some e)
    | (b1, d, none) =>
      let r := b1.readMany ns
      (r.1, d ++ r.2.1, r.2.2)

end Uquic.Model.H3
