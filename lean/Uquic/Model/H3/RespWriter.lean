/-
Model of the HTTP/3 write paths (property C18):
* `Stream.Write` (stream.go): one DATA frame per call — frame header and payload are two writes;
* `responseWriter` (response_writer.go): WriteHeader / Write / doWrite / writeHeader / Flush /
  flushTrailers / declareTrailer / writeTrailers, and the tail of
  `RawServerConn.handleRequestStream` (server_conn.go) that runs after the handler returned
  (Content-Length defaulting, Flush, flushTrailers, CancelRead(NoError), Close).

`http.Header` is an association list with unique keys (a key may be present with no values).
Map iteration order is not modelled: a HEADERS frame is its field list sorted by name (the driver
sorts what it decodes).  QPACK, `http.DetectContentType` and the clock are not modelled: a sniffed
Content-Type and the Date value are the placeholder `*`.

The optional logger: a call site that the regenerated guard facts (`Uquic.Gen.H3Guards`) list as
unguarded panics when the logger is nil — `panicked` is then set and the rest of the operation is
skipped, exactly as the Go panic unwinds.
-/
import Uquic.Model.H3.Body
import Uquic.Generated.H3Guards

namespace Uquic.Model.H3

/-! ### varint encoding (`quicvarint.Append`: shortest form) -/

/-- big-endian `n` bytes of `v` -/
def beBytes : Nat → Nat → List Nat
  | 0, _ => []
  | n + 1, v => (v / 256 ^ n) % 256 :: beBytes n v

/-- varint of length class `k` (2^k bytes) -/
def encVarintK (k v : Nat) : List Nat :=
  (k * 64 + v / 256 ^ (2 ^ k - 1)) :: beBytes (2 ^ k - 1) v

def encVarint (v : Nat) : List Nat :=
  if v < 64 then encVarintK 0 v
  else if v < 16384 then encVarintK 1 v
  else if v < 1073741824 then encVarintK 2 v
  else encVarintK 3 v

/-- `(&dataFrame{Length: l}).Append` -/
def dataFrameHeader (l : Nat) : List Nat := encVarint 0 ++ encVarint l

/-- `Stream.Write(b)` -/
def Str.writeData (s : Str) (b : List Nat) : Str × Nat × Option Err :=
  match s.write (.raw (dataFrameHeader b.length)) with
  | (s1, some e) => (s1, 0, some e)
  | (s1, none) =>
    match s1.write (.raw b) with
    | (s2, some e) => (s2, 0, some e)
    | (s2, none) => (s2, b.length, none)

/-! ### http.Header as an association list -/

abbrev Header := List (String × List String)

def Header.get? (h : Header) (k : String) : Option (List String) := h.lookup k
def Header.has (h : Header) (k : String) : Bool := (h.lookup k).isSome
/-- `Header.Get`: first value or "" -/
def Header.get (h : Header) (k : String) : String := ((h.lookup k).getD []).headD ""
def Header.del (h : Header) (k : String) : Header := h.filter (·.1 ≠ k)
def Header.put (h : Header) (k : String) (vs : List String) : Header := h.del k ++ [(k, vs)]
def Header.add (h : Header) (k v : String) : Header := h.put k (((h.lookup k).getD []) ++ [v])

def isTokenChar (c : Char) : Bool :=
  c.isAlphanum || "!#$%&'*+-.^_`|~".toList.contains c

/-- `textproto.CanonicalMIMEHeaderKey` for ASCII names (unchanged when not a token) -/
def canonKey (s : String) : String :=
  if !s.toList.all isTokenChar then s
  else
    let r := s.toList.foldl (fun (acc : List Char × Bool) c =>
      let c' := if acc.2 then c.toUpper else c.toLower
      (c' :: acc.1, c == '-')) ([], true)
    String.ofList r.1.reverse

def badTrailers : List String :=
  ["Authorization", "Cache-Control", "Connection", "Content-Encoding", "Content-Length", "Content-Range",
   "Content-Type", "Expect", "Host", "Keep-Alive", "Max-Forwards", "Pragma", "Proxy-Authenticate",
   "Proxy-Authorization", "Proxy-Connection", "Range", "Realm", "Te", "Trailer", "Transfer-Encoding",
   "Www-Authenticate"]

/-- `httpguts.ValidTrailerHeader` -/
def validTrailerHeader (name : String) : Bool :=
  let n := canonKey name
  !(n.startsWith "If-" || badTrailers.contains n)

def trailerPrefix : String := "Trailer:"

def trimPrefix (s pre : String) : String :=
  if s.startsWith pre then String.ofList (s.toList.drop pre.length) else s

def trimSpace (s : String) : String :=
  String.ofList ((s.toList.dropWhile (· == ' ')).reverse.dropWhile (· == ' ')).reverse

/-- `strconv.ParseUint(s, 10, 63)` -/
def parseUint63 (s : String) : Option Nat :=
  if s.isEmpty || !s.toList.all Char.isDigit then none
  else
    let v := s.toList.foldl (fun a c => a * 10 + (c.toNat - 48)) 0
    if v < 2 ^ 63 then some v else none

def sortFields (fs : List (String × String)) : List (String × String) :=
  fs.mergeSort (fun a b => !(b.1 < a.1))

/-! ### responseWriter -/

/-- is every listed call site `fn`/`method` dominated by a nil check? -/
def guardedAt (fn method : String) : Bool :=
  (Uquic.Gen.H3Guards.sites.filter (fun s => s.func == fn && s.method == method)).all (·.guarded)

def maxSmallResponseSize : Nat := Uquic.Gen.H3.maxSmallResponseSize.toNat

structure RW where
  str : Str := {}
  header : Header := []
  trailers : List String := []
  status : Nat := 0
  small : List Nat := []
  contentLen : Nat := 0
  numWritten : Nat := 0
  headerComplete : Bool := false
  headerWritten : Bool := false
  isHead : Bool := false
  trailerWritten : Bool := false
  loggerNil : Bool := true
  panicked : Bool := false
deriving Repr, Inhabited

/-- a `w.logger.<method>(…)` call in function `fn` -/
def RW.logCall (w : RW) (fn method : String) : RW :=
  if w.loggerNil && !guardedAt fn method then { w with panicked := true } else w

/-- `bodyAllowedForStatus` -/
def bodyAllowedForStatus (status : Nat) : Bool :=
  !((100 ≤ status && status ≤ 199) || status == 204 || status == 304)

/-- `declareTrailer` -/
def RW.declareTrailer (w : RW) (k : String) : RW :=
  if !validTrailerHeader k then w.logCall "responseWriter.declareTrailer" "Debug"
  else if w.trailers.contains k then w else { w with trailers := w.trailers ++ [k] }

def RW.declareAll (w : RW) (ks : List String) : RW :=
  ks.foldl (fun w k => if w.panicked then w else w.declareTrailer k) w

/-- the names announced in the `Trailer` header -/
def announcedTrailers (h : Header) : List String :=
  (((h.lookup "Trailer").getD []).map fun v => (v.splitOn ",").map fun t => canonKey (trimSpace t)).flatten

/-- the field list `writeHeader` encodes -/
def RW.headerFields (w : RW) (status : Nat) : List (String × String) :=
  (":status", toString status) ::
    sortFields ((w.header.filter fun kv => !w.trailers.contains kv.1 && !kv.1.startsWith trailerPrefix).map
      fun kv => kv.2.map fun v => (kv.1.toLower, v)).flatten

/-- `writeHeader(status)` -/
def RW.writeHeader (w : RW) (status : Nat) : RW × Option Err :=
  if (w.declareAll (announcedTrailers w.header)).panicked then (w.declareAll (announcedTrailers w.header), none)
  else
    ({ w.declareAll (announcedTrailers w.header) with
        str := ((w.declareAll (announcedTrailers w.header)).str.write
          (.hdr ((w.declareAll (announcedTrailers w.header)).headerFields status))).1 },
     ((w.declareAll (announcedTrailers w.header)).str.write
        (.hdr ((w.declareAll (announcedTrailers w.header)).headerFields status))).2)

/-- `WriteHeader(status)`; `none` = the call panics on the status code -/
def RW.WriteHeader (w : RW) (status : Nat) : Option RW :=
  if w.headerComplete then some w
  else if status < 100 ∨ status > 999 then none
  else
    let w := { w with status := status }
    if status < 200 then some (w.writeHeader status).1
    else
      let w := { w with headerComplete := true }
      let w := if w.header.has "Date" then w else { w with header := w.header.put "Date" ["*"] }
      let clen := w.header.get "Content-Length"
      if clen ≠ "" then
        match parseUint63 clen with
        | some cl => some { w with contentLen := cl }
        | none => some { w with header := w.header.del "Content-Length" }   -- logged through a defaulted logger
      else some w

/-- `sniffContentType(p)` -/
def RW.sniff (w : RW) (p : List Nat) : RW :=
  if w.header.get "Content-Encoding" = "" ∧ !w.header.has "Content-Type" ∧ !p.isEmpty then
    { w with header := w.header.put "Content-Type" ["*"] }
  else w

/-- the `if !w.headerWritten { … }` block of `doWrite` -/
def RW.ensureHeader (w : RW) : RW × Option Err :=
  if !w.headerWritten then
    match (w.sniff w.small).writeHeader (w.sniff w.small).status with
    | (w2, some e) => (w2, some (maybeReplaceError e))
    | (w2, none) => if w2.panicked then (w2, none) else ({ w2 with headerWritten := true }, none)
  else (w, none)

/-- the DATA frame part of `doWrite`: frame header, buffered small response, `p` — three writes -/
def RW.writeBody (w1 : RW) (p : List Nat) : RW × Nat × Option Err :=
  if w1.small.length + p.length = 0 then (w1, 0, none)
  else
    match w1.str.write (.raw (dataFrameHeader (w1.small.length + p.length))) with
    | (s1, some e) => ({ w1 with str := s1 }, 0, some (maybeReplaceError e))
    | (s1, none) =>
      match (if !w1.small.isEmpty then
              (match s1.write (.raw w1.small) with
                | (s2, some e) => (({ w1 with str := s2 } : RW), some (maybeReplaceError e))
                | (s2, none) => ({ w1 with str := s2, small := [] }, none))
            else (({ w1 with str := s1 } : RW), (none : Option Err))) with
      | (w3, some e) => (w3, 0, some e)
      | (w3, none) =>
        if p.isEmpty then (w3, 0, none)
        else
          match w3.str.write (.raw p) with
          | (s3, some e) => ({ w3 with str := s3 }, 0, some (maybeReplaceError e))
          | (s3, none) => ({ w3 with str := s3 }, p.length, none)

/-- `doWrite(p)` -/
def RW.doWrite (w : RW) (p : List Nat) : RW × Nat × Option Err :=
  match w.ensureHeader with
  | (w1, some e) => (w1, 0, some e)
  | (w1, none) => if w1.panicked then (w1, 0, none) else w1.writeBody p

/-- `Write(p)` -/
def RW.Write (w : RW) (p : List Nat) : RW × Nat × Option Err :=
  let allowed0 := bodyAllowedForStatus w.status
  let (w, allowed) :=
    if !w.headerComplete then (((w.sniff p).WriteHeader 200).getD (w.sniff p), true) else (w, allowed0)
  if !allowed then (w, 0, some .bodyNotAllowed)
  else
    let w := { w with numWritten := w.numWritten + p.length }
    if w.contentLen ≠ 0 ∧ w.numWritten > w.contentLen then (w, 0, some .contentLength)
    else if w.isHead then (w, p.length, none)
    else if !w.headerWritten ∧ w.small.length + p.length < maxSmallResponseSize then
      ({ w with small := w.small ++ p }, p.length, none)
    else w.doWrite p

/-- `FlushError()` -/
def RW.FlushError (w : RW) : RW × Option Err :=
  let w := if !w.headerComplete then (w.WriteHeader 200).getD w else w
  let r := w.doWrite []
  (r.1, r.2.2)

/-- `Flush()` -/
def RW.Flush (w : RW) : RW :=
  match w.FlushError with
  | (w1, some _) => if w1.panicked then w1 else w1.logCall "responseWriter.Flush" "Debug"
  | (w1, none) => w1

/-- `writeTrailers()` (response_writer.go) followed by `writeTrailers` (headers.go) -/
def RW.writeTrailers (w : RW) : RW × Option Err :=
  let w1 := w.declareAll ((w.header.map (·.1)).filter (·.startsWith trailerPrefix))
  if w1.panicked then (w1, none)
  else if w1.trailers.isEmpty then (w1, none)
  else
    let tm : List (String × List String) :=
      w1.trailers.filterMap fun t => (w1.header.lookup t).map fun vs => (trimPrefix t trailerPrefix, vs)
    let ok := tm.filter fun kv => validTrailerHeader kv.1 && !kv.2.isEmpty
    if ok.isEmpty then (w1, none)
    else
      let fields := sortFields (ok.map fun kv => kv.2.map fun v => (kv.1.toLower, v)).flatten
      let r := w1.str.write (.hdr fields)
      ({ w1 with str := r.1, trailerWritten := true }, r.2)

/-- `flushTrailers()` -/
def RW.flushTrailers (w : RW) : RW :=
  if w.trailerWritten then w
  else match w.writeTrailers with
    | (w1, some _) => if w1.panicked then w1 else w1.logCall "responseWriter.flushTrailers" "Debug"
    | (w1, none) => w1

/-- what `handleRequestStream` does once the handler has returned normally -/
def RW.finish (w : RW) : RW :=
  let w := if !w.headerWritten ∧ !w.header.has "Content-Length" then
      { w with header := w.header.put "Content-Length" [toString w.numWritten] } else w
  let w := w.Flush
  if w.panicked then w
  else
    let w := w.flushTrailers
    if w.panicked then w
    else { w with str := (w.str.cancelRead errNoError).close }

end Uquic.Model.H3
