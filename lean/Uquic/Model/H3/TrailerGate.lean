/-
Model of the TRAILER GATE of `Stream.Read` (http3/stream.go) as the body of a request / response uses it
(C19, round 5): after the message head, the frames of the stream are DATA frames and at most ONE further
HEADERS frame, the trailer section. `Stream.parsedTrailer` is the gate: it is set when that HEADERS frame
is met — BEFORE `parseTrailer` (the closure of handleRequestStream / openRequestStream calling
`decodeTrailers` and storing the result in `req.Trailer` / `rsp.Trailer`) has decided about the section —
so that a rejected trailer section stays rejected: whatever the peer sends afterwards and however often
the consumer reads again after the error (retry loop, io.MultiReader-style wrapper, draining on cleanup),
no further byte is delivered and no further section is accepted.

An event is what `frameParser.ParseNext` yields next (unknown frame types are skipped by the parser and
do not occur here). After an error that leaves a frame's payload unread (DATA after the trailers, a
HEADERS frame over the limit) the NEXT events are whatever the unread payload parses to: the theorems
quantify over all event lists, and `gate_closed_reads` shows that nothing after the gate matters.

Two disciplines are modelled: `markFirst` (the code) and `markOnSuccess` (the gate is closed only when
the section was accepted) — the second one is refuted by a kernel-checked witness in Props/C19Fault.
-/
import Uquic.Model.H3.Glue

namespace Uquic.Model.H3.TrailerGate
open Uquic.Model.H3.Fields Uquic.Model.H3.Glue

inductive Ev
  /-- a DATA frame with n payload bytes -/
  | data (n : Nat)
  /-- a HEADERS frame whose payload is `tenc` bytes long and decodes to `tfs` -/
  | headers (tenc : Int) (tfs : List Field)
deriving Repr, DecidableEq

inductive Discipline
  | markFirst | markOnSuccess
deriving Repr, DecidableEq

structure St where
  /-- `Stream.parsedTrailer` -/
  gate : Bool := false
  /-- `Stream.bytesRemainingInFrame` -/
  rem : Nat := 0
  /-- what the parseTrailer closure stored in req.Trailer / rsp.Trailer -/
  trailers : Option Headers := none
  /-- how often it stored something -/
  sets : Nat := 0
  /-- body bytes handed to the reader so far -/
  delivered : Nat := 0
deriving Repr, DecidableEq

/-- result of one `Read(b)`: `bytes 0` is `(0, nil)` -/
inductive Res
  | bytes (n : Nat) | err | eof
deriving Repr, DecidableEq

/-- one `Stream.Read(b)` with `len(b) = want`; the QUIC stream has every byte of the frame available
    (how the bytes are chunked is property C18's business) -/
def readOne (d : Discipline) (ext : List Nat → Bool) (lim : Int) (s : St) (evs : List Ev) (want : Nat) : St × List Ev × Res :=
  if s.rem > 0 then
    let k := min s.rem want
    ({ s with rem := s.rem - k, delivered := s.delivered + k }, evs, .bytes k)
  else match evs with
    | [] => (s, [], .eof)
    | .data n :: r =>
      if s.gate then (s, r, .err)
      else
        let k := min n want
        ({ s with rem := n - k, delivered := s.delivered + k }, r, .bytes k)
    | .headers tenc tfs :: r =>
      if s.gate then (s, r, .err)
      else match decodeTrailers ext lim tenc tfs with
        | none => ({ s with gate := (d == .markFirst) }, r, .err)
        | some h => ({ s with gate := true, trailers := some h, sets := s.sets + 1 }, r, .bytes 0)

/-- a consumer that keeps calling Read whatever it returns -/
def reads (d : Discipline) (ext : List Nat → Bool) (lim : Int) : St → List Ev → List Nat → St × List Ev × List Res
  | s, evs, [] => (s, evs, [])
  | s, evs, w :: ws =>
    let (s1, e1, r) := readOne d ext lim s evs w
    let (s2, e2, rs) := reads d ext lim s1 e1 ws
    (s2, e2, r :: rs)

/-- a buffer large enough for whatever comes next (io.ReadAll grows its buffer; only totals are observed) -/
def wantAll (s : St) (evs : List Ev) : Nat :=
  if s.rem > 0 then s.rem else match evs with
    | .data n :: _ => n
    | _ => 1

/-- `io.ReadAll`: Read until an error or EOF; `fuel` bounds the number of Read calls.
    Result: state, rest, bytes read by THIS call, failed (a clean EOF is not a failure) -/
def readAll (d : Discipline) (ext : List Nat → Bool) (lim : Int) : Nat → St → List Ev → Nat → St × List Ev × Nat × Bool
  | 0, s, evs, acc => (s, evs, acc, true)
  | fuel + 1, s, evs, acc =>
    match readOne d ext lim s evs (wantAll s evs) with
    | (s1, e1, .bytes k) => readAll d ext lim fuel s1 e1 (acc + k)
    | (s1, e1, .err) => (s1, e1, acc, true)
    | (s1, e1, .eof) => (s1, e1, acc, false)

/-- enough Read calls for `readAll` to reach the end of the events (one per event, one for a frame
    that is being read, one for the EOF) -/
def fuelFor (evs : List Ev) : Nat := evs.length + 2

/-- `again` further io.ReadAll calls after the first one; total of the bytes they delivered -/
def retryAll (d : Discipline) (ext : List Nat → Bool) (lim : Int) : Nat → St → List Ev → Nat → St × List Ev × Nat
  | 0, s, evs, acc => (s, evs, acc)
  | k + 1, s, evs, acc =>
    let (s1, e1, n, _) := readAll d ext lim (fuelFor evs) s evs 0
    retryAll d ext lim k s1 e1 (acc + n)

/-- what the handler / the caller of RoundTrip observes: io.ReadAll(body), then `again` further
    io.ReadAll calls, then a look at req.Trailer / rsp.Trailer -/
structure MsgObs where
  bytes : Nat
  failed : Bool
  againBytes : Nat
  trailers : Headers
deriving Repr, DecidableEq

def readMessage (d : Discipline) (ext : List Nat → Bool) (lim : Int) (evs : List Ev) (again : Nat) : MsgObs :=
  let (s1, e1, n, failed) := readAll d ext lim (fuelFor evs) {} evs 0
  let (s2, _, m) := retryAll d ext lim again s1 e1 0
  { bytes := n, failed := failed, againBytes := m, trailers := s2.trailers.getD [] }

/-- the message of the h3g driver: [DATA(dlen)] [HEADERS(trailers)] tail… -/
def events (dlen : Option Nat) (trl : Option (Int × List Field)) (tail : List Ev) : List Ev :=
  (match dlen with | some n => [Ev.data n] | none => []) ++
  (match trl with | some (tenc, tfs) => [Ev.headers tenc tfs] | none => []) ++ tail

/-- the first HEADERS frame of the body: THE trailer section of the message -/
def firstHeaders : List Ev → Option (Int × List Field)
  | [] => none
  | .data _ :: r => firstHeaders r
  | .headers tenc tfs :: _ => some (tenc, tfs)

/-- the DATA bytes in front of the first HEADERS frame: THE body of the message -/
def bodyBefore : List Ev → Nat
  | [] => 0
  | .data n :: r => n + bodyBefore r
  | .headers _ _ :: _ => 0

end Uquic.Model.H3.TrailerGate
