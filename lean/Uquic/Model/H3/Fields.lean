/-
Model of /repo/http3/headers.go (parseHeaders, parseTrailers, requestFromHeaders,
updateResponseFromHeaders) — branch for branch, with the error class of every rejection.

Bytes are `Nat`s (only values < 256 occur), strings are `List Nat`, a field section is a
`List (List Nat × List Nat)` (name, value) in wire order — the sequence the QPACK decode function yields.

External code is represented as follows (each tied by the h3f driver, see Oracle/H3f.lean):
* `httpguts.ValidHeaderFieldName/Value`, `ValidTrailerHeader`, `ValidHostHeader`: the byte tables below,
  compared with the Go tables for all 256 bytes (op `table`);
* `strings.ToLower(name) == name`: for ASCII names "no upper-case letter" (that is what Go computes);
  for names with a byte ≥ 0x80 the parameter `ext` (Unicode tables) — every such name is rejected
  whatever `ext` answers (see `Proofs/Fields.lean`), only the error class depends on it;
* `url.ParseRequestURI`: parameter `urlOK`.
-/
import Uquic.Generated.H3Fields

namespace Uquic.Model.H3.Fields
open Uquic.Gen.H3Fields

/-- readable byte-string literals for tables that proofs only touch through `decide` -/
def B (s : String) : List Nat := s.toList.map Char.toNat

/-! ### names used by the code (numeric so that `simp`/`decide` see through them) -/
def nPath : List Nat := [58, 112, 97, 116, 104]
def nMethod : List Nat := [58, 109, 101, 116, 104, 111, 100]
def nAuthority : List Nat := [58, 97, 117, 116, 104, 111, 114, 105, 116, 121]
def nProtocol : List Nat := [58, 112, 114, 111, 116, 111, 99, 111, 108]
def nScheme : List Nat := [58, 115, 99, 104, 101, 109, 101]
def nStatus : List Nat := [58, 115, 116, 97, 116, 117, 115]
def nTe : List Nat := [116, 101]
def vTrailers : List Nat := [116, 114, 97, 105, 108, 101, 114, 115]
def nContentLength : List Nat := [99, 111, 110, 116, 101, 110, 116, 45, 108, 101, 110, 103, 116, 104]
def kContentLength : List Nat := [67, 111, 110, 116, 101, 110, 116, 45, 76, 101, 110, 103, 116, 104]
def kCookie : List Nat := [67, 111, 111, 107, 105, 101]
def kTrailer : List Nat := [84, 114, 97, 105, 108, 101, 114]
def mConnect : List Nat := [67, 79, 78, 78, 69, 67, 84]
def vHTTP30 : List Nat := [72, 84, 84, 80, 47, 51, 46, 48]

example : nPath = B ":path" ∧ nMethod = B ":method" ∧ nAuthority = B ":authority" ∧ nProtocol = B ":protocol"
    ∧ nScheme = B ":scheme" ∧ nStatus = B ":status" ∧ nTe = B "te" ∧ vTrailers = B "trailers"
    ∧ nContentLength = B "content-length" ∧ kContentLength = B "Content-Length" ∧ kCookie = B "Cookie"
    ∧ kTrailer = B "Trailer" ∧ mConnect = B "CONNECT" ∧ vHTTP30 = B "HTTP/3.0" := by decide

/-! ### byte classes (golang.org/x/net/http/httpguts) -/

/-- `httpguts.isTokenTable` -/
def isTokenByte (b : Nat) : Bool :=
  (48 ≤ b && b ≤ 57) || (65 ≤ b && b ≤ 90) || (97 ≤ b && b ≤ 122) ||
  b == 33 || b == 35 || b == 36 || b == 37 || b == 38 || b == 39 || b == 42 || b == 43 ||
  b == 45 || b == 46 || b == 94 || b == 95 || b == 96 || b == 124 || b == 126

def isCTL (b : Nat) : Bool := b < 32 || b == 127
def isLWS (b : Nat) : Bool := b == 32 || b == 9
/-- one byte of `httpguts.ValidHeaderFieldValue` -/
def validValueByte (b : Nat) : Bool := !(isCTL b && !isLWS b)
/-- `httpguts.ValidHeaderFieldValue` -/
def validFieldValue (v : List Nat) : Bool := v.all validValueByte
/-- `httpguts.ValidHeaderFieldName` -/
def validFieldName (n : List Nat) : Bool := !n.isEmpty && n.all isTokenByte

/-- `httpguts.validHostByte` -/
def isHostByte (b : Nat) : Bool :=
  (48 ≤ b && b ≤ 57) || (65 ≤ b && b ≤ 90) || (97 ≤ b && b ≤ 122) ||
  b == 33 || b == 36 || b == 37 || b == 38 || b == 40 || b == 41 || b == 42 || b == 43 || b == 44 ||
  b == 45 || b == 46 || b == 58 || b == 59 || b == 61 || b == 91 || b == 39 || b == 93 || b == 95 || b == 126
/-- `httpguts.ValidHostHeader` -/
def validHost (h : List Nat) : Bool := h.all isHostByte

def isUpper (b : Nat) : Bool := 65 ≤ b && b ≤ 90
def isLower (b : Nat) : Bool := 97 ≤ b && b ≤ 122
def isDigit (b : Nat) : Bool := 48 ≤ b && b ≤ 57
def isASCII (n : List Nat) : Bool := n.all (· < 128)

/-- `strings.ToLower(name) == name` -/
def lowerFix (ext : List Nat → Bool) (n : List Nat) : Bool :=
  if isASCII n then !n.any isUpper else ext n

/-- `qpack.HeaderField.IsPseudo` -/
def isPseudo (n : List Nat) : Bool := n.head? == some 58

/-- the capitalisation loop of `textproto.canonicalMIMEHeaderKey` -/
def canonGo : Bool → List Nat → List Nat
  | _, [] => []
  | up, c :: cs =>
    let c' := if up && isLower c then c - 32 else if !up && isUpper c then c + 32 else c
    c' :: canonGo (c' == 45) cs

/-- `textproto.CanonicalMIMEHeaderKey`: strings with a non-token byte are returned unchanged -/
def canonKey (s : List Nat) : List Nat := if s.all isTokenByte then canonGo true s else s

def hasPrefix (p s : List Nat) : Bool := p.isPrefixOf s

/-- `httpguts.badTrailer` -/
def badTrailer : List (List Nat) := [
  B "Authorization", B "Cache-Control", B "Connection", B "Content-Encoding", B "Content-Length",
  B "Content-Range", B "Content-Type", B "Expect", B "Host", B "Keep-Alive", B "Max-Forwards",
  B "Pragma", B "Proxy-Authenticate", B "Proxy-Authorization", B "Proxy-Connection", B "Range",
  B "Realm", B "Te", B "Trailer", B "Transfer-Encoding", B "Www-Authenticate"]

/-- `httpguts.ValidTrailerHeader` -/
def validTrailerHeader (n : List Nat) : Bool :=
  let c := canonKey n
  !(hasPrefix [73, 102, 45] c || badTrailer.contains c)

/-! ### http.Header as an insertion-ordered association list with canonical keys -/
abbrev Headers := List (List Nat × List Nat)

def hdrAdd (h : Headers) (k v : List Nat) : Headers := h ++ [(canonKey k, v)]
def hdrDel (h : Headers) (k : List Nat) : Headers := h.filter (fun e => e.1 != k)
/-- `Header.Set` with an already canonical key -/
def hdrSet (h : Headers) (k v : List Nat) : Headers := hdrDel h k ++ [(k, v)]
def hdrValues (h : Headers) (k : List Nat) : List (List Nat) := (h.filter (fun e => e.1 == k)).map (·.2)

/-! ### parseHeaders -/

inductive Err
  | qpack | tooLarge | notLower | badValue | pseudoAfterRegular | unknownPseudo | dupPseudo
  | reqPseudo | respPseudo | badName | forbiddenName | te | clConflict | clInvalid
  | trlPseudo | trlName
  | extConnect | connect | missing | protocol | url
  | noStatus | badStatus
deriving DecidableEq, Repr

/-- the text the Go driver prints for each class (`forbiddenName` and `badName` share Go's message) -/
def Err.text : Err → String
  | .qpack => "E:qpack" | .tooLarge => "E:toolarge" | .notLower => "E:notlower" | .badValue => "E:value"
  | .pseudoAfterRegular => "E:order" | .unknownPseudo => "E:unknown" | .dupPseudo => "E:dup"
  | .reqPseudo => "E:reqpseudo" | .respPseudo => "E:resppseudo" | .badName => "E:name"
  | .forbiddenName => "E:name" | .te => "E:te" | .clConflict => "E:clconflict" | .clInvalid => "E:clinvalid"
  | .trlPseudo => "E:trlpseudo" | .trlName => "E:trlname"
  | .extConnect => "E:extconnect" | .connect => "E:connect" | .missing => "E:missing"
  | .protocol => "E:protocol" | .url => "E:url" | .noStatus => "E:nostatus" | .badStatus => "E:badstatus"

/-- Go's `header` struct -/
structure Hdr where
  path : List Nat := []
  method : List Nat := []
  authority : List Nat := []
  scheme : List Nat := []
  status : List Nat := []
  protocol : List Nat := []
  contentLength : Int := -1
  headers : Headers := []
deriving DecidableEq, Repr

def getPseudo (h : Hdr) (n : List Nat) : List Nat :=
  if n = nPath then h.path else if n = nMethod then h.method else if n = nAuthority then h.authority
  else if n = nProtocol then h.protocol else if n = nScheme then h.scheme else if n = nStatus then h.status else []

def setPseudo (h : Hdr) (n v : List Nat) : Hdr :=
  if n = nPath then { h with path := v } else if n = nMethod then { h with method := v }
  else if n = nAuthority then { h with authority := v } else if n = nProtocol then { h with protocol := v }
  else if n = nScheme then { h with scheme := v } else if n = nStatus then { h with status := v } else h

/-- loop state of parseHeaders -/
structure PS where
  hdr : Hdr := {}
  firstRegular : Bool := false
  readCL : Bool := false
  clStr : List Nat := []
  seen : List (List Nat) := []
  limit : Int
deriving Repr

/-- `validateRegularHeaderField` -/
def validateRegular (f : List Nat × List Nat) : Except Err Unit :=
  if !validFieldName f.1 then .error .badName
  else if invalidHeaderFields.contains f.1 then .error .forbiddenName
  else if f.1 = nTe && f.2 ≠ vTrailers then .error .te
  else .ok ()

/-- one iteration of the `for` loop in parseHeaders -/
def stepField (ext : List Nat → Bool) (isReq : Bool) (s : PS) (f : List Nat × List Nat) : Except Err PS :=
  let lim : Int := s.limit - ((f.1.length : Int) + (f.2.length : Int) + headerFieldOverhead)
  if lim < 0 then .error .tooLarge
  else if !lowerFix ext f.1 then .error .notLower
  else if !validFieldValue f.2 then .error .badValue
  else if isPseudo f.1 then
    if s.firstRegular then .error .pseudoAfterRegular
    else match pseudoCases.lookup f.1 with
      | none => .error .unknownPseudo
      | some isResp =>
        if getPseudo s.hdr f.1 ≠ [] || s.seen.contains f.1 then .error .dupPseudo
        else if isReq && isResp then .error .reqPseudo
        else if !isReq && !isResp then .error .respPseudo
        else .ok { s with limit := lim, hdr := setPseudo s.hdr f.1 f.2, seen := s.seen ++ [f.1] }
  else
    match validateRegular f with
    | .error e => .error e
    | .ok () =>
      if f.1 = nContentLength then
        if !s.readCL then .ok { s with limit := lim, firstRegular := true, readCL := true, clStr := f.2 }
        else if s.clStr ≠ f.2 then .error .clConflict
        else .ok { s with limit := lim, firstRegular := true }
      else .ok { s with limit := lim, firstRegular := true, hdr := { s.hdr with headers := hdrAdd s.hdr.headers f.1 f.2 } }

def runFields (ext : List Nat → Bool) (isReq : Bool) : PS → List (List Nat × List Nat) → Except Err PS
  | s, [] => .ok s
  | s, f :: fs =>
    match stepField ext isReq s f with
    | .error e => .error e
    | .ok s' => runFields ext isReq s' fs

def decVal (s : List Nat) : Nat := s.foldl (fun a d => a * 10 + (d - 48)) 0

/-- `strconv.ParseUint(s, 10, 63)` -/
def parseUint63 (s : List Nat) : Option Nat :=
  if !s.isEmpty && s.all isDigit && decVal s < 2 ^ 63 then some (decVal s) else none

/-- the code after the loop -/
def finish (s : PS) : Except Err Hdr :=
  if s.clStr ≠ [] then
    match parseUint63 s.clStr with
    | none => .error .clInvalid
    | some v => .ok { s.hdr with contentLength := (v : Int), headers := hdrSet s.hdr.headers kContentLength s.clStr }
  else .ok { s.hdr with contentLength := -1 }

/-- `parseHeaders(decodeFn, isRequest, sizeLimit, _)` where decodeFn yields `fs` and then io.EOF
    (`qerr = false`) or a decoding error (`qerr = true`) -/
def parseHeadersQ (ext : List Nat → Bool) (isReq : Bool) (limit : Int) (fs : List (List Nat × List Nat)) (qerr : Bool) :
    Except Err Hdr :=
  match runFields ext isReq { limit := limit } fs with
  | .error e => .error e
  | .ok s => if qerr then .error .qpack else finish s

def parseHeaders (ext : List Nat → Bool) (isReq : Bool) (limit : Int) (fs : List (List Nat × List Nat)) : Except Err Hdr :=
  parseHeadersQ ext isReq limit fs false

/-! ### parseTrailers -/

structure TS where
  h : Headers := []
  limit : Int
deriving Repr

def stepTrailer (ext : List Nat → Bool) (s : TS) (f : List Nat × List Nat) : Except Err TS :=
  let lim : Int := s.limit - ((f.1.length : Int) + (f.2.length : Int) + trailerFieldOverhead)
  if lim < 0 then .error .tooLarge
  else if !lowerFix ext f.1 then .error .notLower
  else if !validFieldValue f.2 then .error .badValue
  else if isPseudo f.1 then .error .trlPseudo
  else match validateRegular f with
    | .error e => .error e
    | .ok () =>
      if !validTrailerHeader f.1 then .error .trlName
      else .ok { h := hdrAdd s.h f.1 f.2, limit := lim }

def runTrailers (ext : List Nat → Bool) : TS → List (List Nat × List Nat) → Except Err TS
  | s, [] => .ok s
  | s, f :: fs =>
    match stepTrailer ext s f with
    | .error e => .error e
    | .ok s' => runTrailers ext s' fs

def parseTrailersQ (ext : List Nat → Bool) (limit : Int) (fs : List (List Nat × List Nat)) (qerr : Bool) : Except Err Headers :=
  match runTrailers ext { limit := limit } fs with
  | .error e => .error e
  | .ok s => if qerr then .error .qpack else .ok s.h

def parseTrailers (ext : List Nat → Bool) (limit : Int) (fs : List (List Nat × List Nat)) : Except Err Headers :=
  parseTrailersQ ext limit fs false

/-! ### extractAnnouncedTrailers -/

def splitOn (sep : Nat) : List Nat → List (List Nat)
  | [] => [[]]
  | c :: cs =>
    match splitOn sep cs with
    | [] => [[]]   -- unreachable
    | w :: ws => if c = sep then [] :: w :: ws else (c :: w) :: ws

def isASCIISpace (b : Nat) : Bool := b == 32 || b == 9 || b == 10 || b == 13
/-- `textproto.TrimString` -/
def trimString (s : List Nat) : List Nat := ((s.dropWhile isASCIISpace).reverse.dropWhile isASCIISpace).reverse

/-- keys announced by the `Trailer` header values (nil if there is no such header), and the header without it -/
def extractAnnouncedTrailers (h : Headers) : Option (List (List Nat)) × Headers :=
  let raw := hdrValues h kTrailer
  if raw.isEmpty then (none, h)
  else (some ((raw.flatMap (splitOn 44)).map (fun v => canonKey (trimString v))), hdrDel h kTrailer)

/-! ### requestFromHeaders -/

def joinWith (sep : List Nat) : List (List Nat) → List Nat
  | [] => []
  | [x] => x
  | x :: xs => x ++ sep ++ joinWith sep xs

structure Req where
  method : List Nat
  proto : List Nat
  host : List Nat
  requestURI : List Nat
  /-- URL.Scheme / URL.Host are set from the pseudo-fields only for CONNECT; otherwise the URL is what
      url.ParseRequestURI(:path) returns (external) -/
  urlFromPath : Bool
  contentLength : Int
  headers : Headers
  trailer : Option (List (List Nat))
deriving Repr, DecidableEq

def requestFromHeaders (ext : List Nat → Bool) (urlOK : List Nat → Bool) (limit : Int)
    (fs : List (List Nat × List Nat)) (qerr : Bool) : Except Err Req :=
  match parseHeadersQ ext true limit fs qerr with
  | .error e => .error e
  | .ok hdr =>
    let cookies := hdrValues hdr.headers kCookie
    let hs := if cookies.isEmpty then hdr.headers else hdrSet hdr.headers kCookie (joinWith [59, 32] cookies)
    let isConnect : Bool := hdr.method = mConnect
    let isExt : Bool := isConnect && hdr.protocol ≠ []
    if isExt && (hdr.scheme = [] || hdr.path = [] || hdr.authority = []) then .error .extConnect
    else if !isExt && isConnect && (hdr.path ≠ [] || hdr.authority = []) then .error .connect
    else if !isConnect && (hdr.path = [] || hdr.authority = [] || hdr.method = []) then .error .missing
    else if !isExt && hdr.protocol ≠ [] then .error .protocol
    else if (!isConnect || isExt) && !urlOK hdr.path then .error .url
    else
      let (tr, hs') := extractAnnouncedTrailers hs
      .ok { method := hdr.method, proto := if isExt then hdr.protocol else vHTTP30, host := hdr.authority,
            requestURI := if isConnect then hdr.authority else hdr.path,
            urlFromPath := !isConnect || isExt,
            contentLength := hdr.contentLength, headers := hs', trailer := tr }

/-! ### updateResponseFromHeaders -/

/-- sign and digits part of a decimal string -/
def signSplit (s : List Nat) : Bool × List Nat :=
  match s with
  | 45 :: r => (true, r)
  | 43 :: r => (false, r)
  | r => (false, r)

def atoiCore (neg : Bool) (d : List Nat) : Option Int :=
  if d.isEmpty || !d.all isDigit then none
  else
    let v : Int := (decVal d : Int)
    if neg then (if v ≤ 2 ^ 63 then some (-v) else none) else (if v < 2 ^ 63 then some v else none)

/-- `strconv.Atoi` on a 64-bit platform: optional sign, one or more digits, value within int64 -/
def atoi (s : List Nat) : Option Int := atoiCore (signSplit s).1 (signSplit s).2

structure Resp where
  status : Int
  contentLength : Int
  headers : Headers
  trailer : Option (List (List Nat))
deriving Repr, DecidableEq

def updateResponseFromHeaders (ext : List Nat → Bool) (limit : Int) (fs : List (List Nat × List Nat)) (qerr : Bool) :
    Except Err Resp :=
  match parseHeadersQ ext false limit fs qerr with
  | .error e => .error e
  | .ok hdr =>
    if hdr.status = [] then .error .noStatus
    else
      let (tr, hs') := extractAnnouncedTrailers hdr.headers
      match atoi hdr.status with
      | none => .error .badStatus
      | some c => .ok { status := c, contentLength := hdr.contentLength, headers := hs', trailer := tr }

/-! ### what the callers do with a rejection (server_conn.go handleRequestStream, stream.go ReadResponse) -/

structure Reaction where
  /-- error code of CancelRead (and, unless a 431 response is written instead, of CancelWrite) -/
  code : Int
  /-- the server answers with a 431 response instead of resetting the send side -/
  sends431 : Bool
deriving DecidableEq, Repr

/-- `if errors.Is(err, errHeaderTooLarge) {…}; errCode := …; if errors.As(err, &qpackErr) {…}` -/
def serverReaction (e : Err) : Reaction :=
  if srvTooLargeSpecial && e = .tooLarge then { code := srvErrTooLarge, sends431 := srvTooLargeSends431 }
  else if e = .qpack then { code := srvErrQpack, sends431 := false }
  else { code := srvErrDefault, sends431 := false }

/-- `errCode := …; if errors.As(err, &qpackErr) {…}` (no special case for errHeaderTooLarge) -/
def clientReaction (e : Err) : Reaction :=
  if e = .qpack then { code := cliErrQpack, sends431 := false } else { code := cliErrDefault, sends431 := false }

end Uquic.Model.H3.Fields
