/-
Model of the HEADER-SECTION bookkeeping of `responseWriter` (http3/response_writer.go) under WRITE FAULTS
(C19, round 5): WriteHeader / Write / FlushError / doWrite, the end of
`RawServerConn.handleRequestStream` (Content-Length fix-up, Flush, flushTrailers) — and a stream whose
writes fail while the write deadline the handler set has expired (`SetWriteDeadline`, as
http.ResponseController offers it) and work again once the handler has extended it.

A failing stream write sends nothing (quic.SendStream.Write checks the deadline before it takes any
byte), and the deadline only changes between two calls of the handler, so each call either performs all
its stream writes or fails at its first one.

What the model keeps of the header map: the status, whether a Content-Length field is present (the
fix-up at the end adds one when nothing was sent yet), whether the handler has set the trailer field.
What is on the wire is a list of frames: header sections (interim: status < 200), DATA frames, the
trailer section. Two disciplines: `markAfter` (the code: `headerWritten` is set once writeHeader
succeeded) and `markBefore` (set before the attempt) — the second one is refuted in Props/C19Fault.
-/
namespace Uquic.Model.H3.RespFault

/-- one call of the handler -/
inductive Act
  /-- `WriteHeader(st)`; 100 ≤ st ≤ 999 (anything else panics in the code and is not driven) -/
  | writeHeader (st : Nat)
  /-- `Write(p)` with `len(p) = n` -/
  | write (n : Nat)
  /-- `FlushError()` -/
  | flush
  /-- `SetWriteDeadline`: in the past (`true`) / none (`false`) -/
  | deadline (expired : Bool)
  /-- sets the value of the trailer field (a `Trailer:`-prefixed key, or a key announced in `Trailer`) -/
  | setTrailer
deriving Repr, DecidableEq

inductive Frame
  /-- a header section with this :status; `cl`: its content-length field -/
  | hdr (status : Nat) (cl : Option Nat)
  | data (n : Nat)
  /-- the trailer section -/
  | trl
deriving Repr, DecidableEq

inductive Discipline
  | markAfter | markBefore
deriving Repr, DecidableEq

structure St where
  status : Nat := 0
  headerComplete : Bool := false
  headerWritten : Bool := false
  /-- len(smallResponseBuf) -/
  small : Nat := 0
  numWritten : Nat := 0
  /-- the Content-Length entry of the header map -/
  cl : Option Nat := none
  /-- the write deadline has passed: stream writes fail -/
  expired : Bool := false
  trailerSet : Bool := false
  wire : List Frame := []
deriving Repr, DecidableEq

/-- what a call returned: `n` bytes accepted / an error / nothing to report -/
inductive Out
  | wrote (n : Nat) | err | unit
deriving Repr, DecidableEq

def maxSmallResponseSize : Nat := 4096

def bodyAllowedForStatus (st : Nat) : Bool := !((100 ≤ st && st ≤ 199) || st == 204 || st == 304)

/-- `responseWriter.writeHeader(status)`: one stream write carrying the whole HEADERS frame -/
def emitHeader (s : St) (st : Nat) : St × Bool :=
  if s.expired then (s, false) else ({ s with wire := s.wire ++ [.hdr st s.cl] }, true)

def writeHeader (s : St) (st : Nat) : St :=
  if s.headerComplete then s
  else if st < 100 || st > 999 then s
  else
    let s := { s with status := st }
    if st < 200 then (emitHeader s st).1 else { s with headerComplete := true }

def doWrite (d : Discipline) (s : St) (n : Nat) : St × Out :=
  let hdrStep : St × Bool :=
    if s.headerWritten then (s, true)
    else match d with
      | .markAfter =>
        let (s1, ok) := emitHeader s s.status
        if ok then ({ s1 with headerWritten := true }, true) else (s1, false)
      | .markBefore =>
        let (s1, ok) := emitHeader { s with headerWritten := true } s.status
        (s1, ok)
  if !hdrStep.2 then (hdrStep.1, .err)
  else
    let s := hdrStep.1
    let l := s.small + n
    if l == 0 then (s, .wrote 0)
    else if s.expired then (s, .err)
    else ({ s with wire := s.wire ++ [.data l], small := 0 }, .wrote n)

def write (d : Discipline) (s : St) (n : Nat) : St × Out :=
  let allowed0 := bodyAllowedForStatus s.status
  let (s, allowed) := if !s.headerComplete then (writeHeader s 200, true) else (s, allowed0)
  if !allowed then (s, .err)
  else
    let s := { s with numWritten := s.numWritten + n }
    if !s.headerWritten && s.small + n < maxSmallResponseSize then ({ s with small := s.small + n }, .wrote n)
    else doWrite d s n

def flush (d : Discipline) (s : St) : St × Out :=
  let s := if !s.headerComplete then writeHeader s 200 else s
  match doWrite d s 0 with
  | (s, .err) => (s, .err)
  | (s, _) => (s, .unit)

def step (d : Discipline) (s : St) : Act → St × Out
  | .writeHeader st => (writeHeader s st, .unit)
  | .write n => write d s n
  | .flush => flush d s
  | .deadline e => ({ s with expired := e }, .unit)
  | .setTrailer => ({ s with trailerSet := true }, .unit)

/-- the handler: its calls in order; what each of them returned -/
def handler (d : Discipline) : St → List Act → St × List Out
  | s, [] => (s, [])
  | s, a :: as =>
    let (s1, o) := step d s a
    let (s2, os) := handler d s1 as
    (s2, o :: os)

/-- the end of handleRequestStream: Content-Length fix-up when nothing was sent, Flush, flushTrailers -/
def finish (d : Discipline) (s : St) : St :=
  let s := if !s.headerWritten && s.cl.isNone then { s with cl := some s.numWritten } else s
  let s := (flush d s).1
  if s.trailerSet && !s.expired then { s with wire := s.wire ++ [.trl] } else s

def serve (d : Discipline) (acts : List Act) : St × List Out :=
  let (s, os) := handler d {} acts
  (finish d s, os)

/-! ### the layout of a response on the wire (RFC 9114 §4.1): interim header sections, THE header
section, DATA frames, at most one trailer section -/

def phase : Nat → Frame → Option Nat
  | 0, .hdr st _ => if st < 200 then some 0 else some 1
  | 1, .data _ => some 1
  | 1, .trl => some 2
  | _, _ => none

/-- `some 0`: nothing but interim sections so far; `some 1`: header section sent; `some 2`: trailers
    sent; `none`: not a response (DATA or trailers without a header section, a second header section, …) -/
def layout (w : List Frame) : Option Nat := w.foldl (fun p f => p.bind (phase · f)) (some 0)

end Uquic.Model.H3.RespFault
