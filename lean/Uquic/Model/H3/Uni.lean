/-
Model of `rawConn.handleUnidirectionalStream` (http3/conn.go): the per-type bookkeeping of the
peer's unidirectional streams (property C18: unknown stream types are ignored, forbidden ones
abort the connection with the RFC 9114 error).  The table stream type ↦ (first-stream flag, close
code as server / as client) is regenerated from the source.
Each stream is handled as one atomic step (the driver opens them one round trip apart).
-/
import Uquic.Generated.H3

namespace Uquic.Model.H3

structure UniSt where
  /-- the atomic flags that are set -/
  flags : List String := []
  /-- code of the first CloseWithError -/
  closed : Option Nat := none
deriving Repr, DecidableEq, Inhabited

inductive UniOut where
  | accepted                 -- first stream of its kind (control / QPACK encoder / QPACK decoder)
  | connClosed (code : Nat)
  | cancelled (code : Nat)   -- unknown type: reading is cancelled, the connection is unaffected
  | dead                     -- the connection was closed before
deriving Repr, DecidableEq, Inhabited

def uniLookup (t : Nat) : Option (String × Int × Int) := Uquic.Gen.H3.uniStreamCases.lookup t

def uniStep (isServer : Bool) (s : UniSt) (t : Nat) : UniSt × UniOut :=
  if s.closed.isSome then (s, .dead)
  else match uniLookup t with
    | none => (s, .cancelled Uquic.Gen.H3.uniStreamDefaultCancel.toNat)
    | some (flag, cs, cc) =>
      if flag = "" then
        let code := if isServer then cs else cc
        if code < 0 then (s, .accepted) else ({ s with closed := some code.toNat }, .connClosed code.toNat)
      else if s.flags.contains flag then
        let code := if isServer then cs else cc
        ({ s with closed := some code.toNat }, .connClosed code.toNat)
      else ({ s with flags := flag :: s.flags }, .accepted)

def uniRun (isServer : Bool) (ts : List Nat) : UniSt := ts.foldl (fun s t => (uniStep isServer s t).1) {}

end Uquic.Model.H3
