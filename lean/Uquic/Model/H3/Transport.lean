/-
Model of the connection cache of http3.Transport (http3/transport.go: getClient, doRoundTripOpt,
removeClient, CloseIdleConnections, Close) for a Transport that is REUSED across failed dials,
abandoned requests, lost connections and Close — property C18: "no peer behaviour, stream reset or
connection loss at any point of an exchange makes the server or client panic".

Time is logical: a history is a list of steps, after each step everything that can happen without a
further step has happened (`settle`).  What blocks across steps is explicit: a dial whose plan is
`hang` (returns only when its context ends: the connection was lost during the handshake), `gate` /
`gatef` (returns when the history releases it: then succeeds / fails), a handler that waits for its
gate.  The context of a dial is derived from the context of the request that created the cache
entry (`owner`), exactly as in getClient.

`chk` / `rtChk` are the two `dialErr` checks of the source (regenerated facts
Uquic.Gen.H3Transport): getClient must not touch `cl.conn` of an entry whose dial failed, and
doRoundTripOpt must not call `cl.clientConn.RoundTrip` on it — a missing check is a nil dereference
(`Outcome.panic`), made explicit here.
-/
namespace Uquic.Model.H3.Transport

inductive Plan where
  | ok | fail | hang | gate | gatef | lost
deriving DecidableEq, Repr, Inhabited

inductive Err where
  | dial | canceled | deadline | closed | nocached | hstimeout | conn
deriving DecidableEq, Repr, Inhabited

inductive Outcome where
  | ok (reused : Bool)
  | err (e : Err)
  | panic
deriving DecidableEq, Repr, Inhabited

/-- state of a cache entry (`roundTripperWithCount`): `dialing` open / `dialErr` set / `conn` set -/
inductive DSt where
  | dialing
  | failed (e : Err)
  | up (alive : Bool)
deriving DecidableEq, Repr, Inhabited

structure Entry where
  host : Nat := 0
  plan : Plan := .ok
  st : DSt := .dialing
  /-- the request whose context the dial context derives from -/
  owner : Nat := 0
  useCount : Nat := 0
deriving DecidableEq, Repr, Inhabited

inductive Phase where
  | start
  | waitDial (k : Nat)
  | inRT (k : Nat)
  | done (o : Outcome) (step : Nat)
deriving DecidableEq, Repr, Inhabited

structure Req where
  host : Nat := 0
  gate : Option Nat := none
  /-- the request context has a deadline that expires within the step -/
  c : Bool := false
  /-- RoundTripOpt.OnlyCachedConn -/
  oc : Bool := false
  retried : Bool := false
  ctxDead : Option Err := none
  reused : Bool := false
  phase : Phase := .start
deriving DecidableEq, Repr, Inhabited

structure T where
  chk : Bool := true
  rtChk : Bool := true
  plans : List Plan := []
  closed : Bool := false
  /-- Transport.clients: host → index of the entry -/
  clients : List (Nat × Nat) := []
  /-- every roundTripperWithCount ever created, by dial index -/
  entries : List Entry := []
  reqs : List Req := []
  gates : List Nat := []
  released : List Nat := []
  stepNo : Nat := 0
  /-- number of dials started, after each step -/
  dialLog : List Nat := []
deriving Repr, Inhabited

namespace T

def getE (t : T) (k : Nat) : Entry := t.entries.getD k {}
def getR (t : T) (i : Nat) : Req := t.reqs.getD i {}
def setE (t : T) (k : Nat) (e : Entry) : T := { t with entries := t.entries.set k e }
def setR (t : T) (i : Nat) (r : Req) : T := { t with reqs := t.reqs.set i r }

def lookup (t : T) (h : Nat) : Option Nat := (t.clients.find? fun p => p.1 == h).map (·.2)
/-- `delete(t.clients, hostname)` -/
def dropClient (t : T) (h : Nat) : T := { t with clients := t.clients.filter fun p => p.1 != h }
def putClient (t : T) (h k : Nat) : T := { t with clients := (t.clients.filter fun p => p.1 != h) ++ [(h, k)] }

def incUse (t : T) (k : Nat) : T := t.setE k { t.getE k with useCount := (t.getE k).useCount + 1 }
def decUse (t : T) (k : Nat) : T := t.setE k { t.getE k with useCount := (t.getE k).useCount - 1 }

/-- the request returns -/
def finish (t : T) (i : Nat) (o : Outcome) : T := t.setR i { t.getR i with phase := .done o t.stepNo }

/-- what a dial that has just been started does without waiting for anything -/
def resolveNew (t : T) (k : Nat) : T :=
  let e := t.getE k
  match e.plan with
  | .ok => t.setE k { e with st := .up true }
  | .fail => t.setE k { e with st := .failed .dial }
  | .gate => if t.released.contains k then t.setE k { e with st := .up true } else t
  | .gatef => if t.released.contains k then t.setE k { e with st := .failed .dial } else t
  | .hang => t
  | .lost => t

/-- what the failed entry in the cache means for the request that finds it (getClient) -/
def staleEntry (t : T) (i : Nat) (h : Nat) (e : Err) : T :=
  if t.chk then (t.dropClient h).finish i (.err e) else t.finish i .panic

/-- `Transport.getClient` + the start of the wait in doRoundTripOpt -/
def getClient (t : T) (i : Nat) : T :=
  let r := t.getR i
  if t.closed then t.finish i (.err .closed)
  else match t.lookup r.host with
    | none =>
      if r.oc then t.finish i (.err .nocached)
      else
        let k := t.entries.length
        let e : Entry := { host := r.host, plan := t.plans.getD k .ok, owner := i, useCount := 1 }
        let t1 : T := { t with entries := t.entries ++ [e] }
        ((t1.putClient r.host k).setR i { r with phase := .waitDial k, reused := false }).resolveNew k
    | some k =>
      match (t.getE k).st with
      | .failed e => t.staleEntry i r.host e
      | .up _ => (t.incUse k).setR i { r with phase := .waitDial k, reused := true }
      | .dialing => (t.incUse k).setR i { r with phase := .waitDial k, reused := false }

def gateOpen (t : T) (r : Req) : Bool :=
  match r.gate with
  | none => true
  | some g => t.gates.contains g

/-- `cl.clientConn.RoundTrip(req)` is entered on entry `k` -/
def enterRT (t : T) (i k : Nat) (alive : Bool) : T :=
  let r := t.getR i
  if alive then
    if t.gateOpen r then (t.decUse k).finish i (.ok r.reused) else t.setR i { r with phase := .inRT k }
  else
    -- errConnUnusable: the stream cannot be opened; retried once on a new connection
    if r.retried then (t.decUse k).finish i (.err .conn)
    else ((t.decUse k).dropClient r.host).setR i { r with retried := true, phase := .start }

/-- the dial of the entry the request waits for failed (doRoundTripOpt) -/
def dialFailed (t : T) (i : Nat) (h : Nat) (e : Err) : T :=
  if t.rtChk then (t.dropClient h).finish i (.err e) else t.finish i .panic

/-- one move of request `i`, if it can move -/
def advance (t : T) (i : Nat) : T :=
  let r := t.getR i
  match r.phase with
  | .done _ _ => t
  | .start => t.getClient i
  | .waitDial k =>
    match r.ctxDead with
    | some e => t.finish i (.err e)
    | none =>
      match (t.getE k).st with
      | .dialing => t
      | .failed e => t.dialFailed i r.host e
      | .up alive => t.enterRT i k alive
  | .inRT k =>
    match r.ctxDead with
    | some e => (t.decUse k).finish i (.err e)
    | none =>
      match (t.getE k).st with
      | .up true => if t.gateOpen r then (t.decUse k).finish i (.ok r.reused) else t
      | _ =>
        if r.retried then (t.decUse k).finish i (.err .conn)
        else ((t.decUse k).dropClient r.host).finish i (.err .conn)

def pass (t : T) : T := (List.range t.reqs.length).foldl advance t

/-- everything that can happen without a further step (a request moves at most 6 times) -/
def settle (t : T) : T := t.pass.pass.pass.pass.pass.pass.pass.pass

/-- the context of request `i` ends with `e`: the dials that derive from it return that error -/
def endCtxEntries (es : List Entry) (i : Nat) (e : Err) : List Entry :=
  es.map fun x => if x.owner == i && x.st == .dialing then { x with st := .failed e } else x

def killCtx (t : T) (i : Nat) (e : Err) : T :=
  match (t.getR i).phase with
  | .done _ _ => t
  | _ => { (t.setR i { t.getR i with ctxDead := some e }) with entries := endCtxEntries t.entries i e }

/-- `roundTripperWithCount.Close`: cancel the dial, close the connection -/
def closeEntry (e : Entry) : Entry :=
  match e.st with
  | .dialing => { e with st := .failed .canceled }
  | .up _ => { e with st := .up false }
  | .failed _ => e

/-- a handshake towards a peer that never answers gives up -/
def expireLost (t : T) : T :=
  { t with entries := t.entries.map fun x => if x.plan == .lost && x.st == .dialing then { x with st := .failed .hstimeout } else x }

inductive Step where
  | req (h : Nat) (gate : Option Nat) (c oc : Bool)
  | cancel (i : Nat)
  | «open» (g : Nat)
  | rel (k : Nat)
  | kill (k : Nat)
  | idle
  | close
deriving DecidableEq, Repr, Inhabited

def actReq (t : T) (h : Nat) (gate : Option Nat) (c oc : Bool) : T :=
  let i := t.reqs.length
  let t1 : T := { t with reqs := t.reqs ++ [{ host := h, gate := gate, c := c, oc := oc }] }
  let t2 := t1.settle
  let t3 := if c then (t2.killCtx i .deadline).settle else t2
  t3.expireLost.settle

def actRel (t : T) (k : Nat) : T :=
  let t1 : T := { t with released := t.released ++ [k] }
  let e := t1.getE k
  let t2 := if k < t1.entries.length && e.st == .dialing then
      (match e.plan with
       | .gate => t1.setE k { e with st := .up true }
       | .gatef => t1.setE k { e with st := .failed .dial }
       | _ => t1)
    else t1
  t2.settle

def actKill (t : T) (k : Nat) : T :=
  let e := t.getE k
  (if k < t.entries.length && e.st == .up true then t.setE k { e with st := .up false } else t).settle

/-- `CloseIdleConnections`: entries nobody uses are closed and forgotten -/
def actIdle (t : T) : T :=
  let idle := t.clients.filter fun p => (t.getE p.2).useCount == 0
  let t1 := idle.foldl (fun (a : T) p => a.setE p.2 (closeEntry (a.getE p.2))) t
  ({ t1 with clients := t1.clients.filter fun p => (t.getE p.2).useCount != 0 }).settle

/-- `Close` -/
def actClose (t : T) : T :=
  let t1 := t.clients.foldl (fun (a : T) p => a.setE p.2 (closeEntry (a.getE p.2))) t
  ({ t1 with clients := [], closed := true }).settle

def act (t : T) : Step → T
  | .req h g c oc => t.actReq h g c oc
  | .cancel i => if i < t.reqs.length then (t.killCtx i .canceled).settle else t
  | .open g => ({ t with gates := t.gates ++ [g] }).settle
  | .rel k => t.actRel k
  | .kill k => t.actKill k
  | .idle => t.actIdle
  | .close => t.actClose

def step (t : T) (s : Step) : T :=
  let t1 := t.act s
  { t1 with stepNo := t1.stepNo + 1, dialLog := t1.dialLog ++ [t1.entries.length] }

def run (t : T) (ss : List Step) : T := ss.foldl step t

/-- the outcomes of the requests, in the order they were issued (`none` = still waiting) -/
def outcomes (t : T) : List (Option Outcome) :=
  t.reqs.map fun r => match r.phase with
    | .done o _ => some o
    | _ => none

end T
end Uquic.Model.H3.Transport
