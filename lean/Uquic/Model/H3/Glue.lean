/-
Model of the GLUE around the HTTP/3 field-section parsers (C19, round 4):

* `RawServerConn.handleRequestStream` (http3/server_conn.go): frame-length pre-check, requestFromHeaders,
  the reaction to each rejection class (431 + H3_EXCESSIVE_LOAD / stream reset), else the handler;
* `RequestStream.ReadResponse` (http3/stream.go): frame-length pre-check, updateResponseFromHeaders,
  the reaction to a rejection, the Content-Length adjustment for 1xx / 204 responses;
* `decodeTrailers` (http3/headers.go) as called from `Stream.Read` through the body of a request /
  response: frame-length pre-check, parseTrailers, trailers handed over only on success.

What the PEER of the implementation observes is the result type, so that the h3g driver (real
http3.Server / ClientConn against a bare QUIC peer) can compare it literally.
-/
import Uquic.Model.H3.Fields

namespace Uquic.Model.H3.Glue
open Uquic.Model.H3.Fields Uquic.Gen.H3Fields

abbrev Field := List Nat × List Nat

/-- what happens to one request stream -/
inductive SrvOutcome
  /-- `CancelRead(code)`, a 431 response, FIN; the handler is not called -/
  | reject431 (code : Int)
  /-- `CancelRead(code)` and `CancelWrite(code)`; the handler is not called -/
  | reset (code : Int)
  /-- the handler is called with this request -/
  | handler (req : Req)
deriving Repr, DecidableEq

/-- `handleRequestStream` from the first frame (a HEADERS frame whose payload is `enc` bytes long and
    decodes to `fs`, then io.EOF or — `qerr` — a decoding error) to the decision -/
def handleRequestStream (ext urlOK : List Nat → Bool) (lim enc : Int) (fs : List Field) (qerr : Bool) : SrvOutcome :=
  if enc > lim then .reject431 ErrCodeExcessiveLoad
  else match requestFromHeaders ext urlOK lim fs qerr with
    | .error e =>
      let r := serverReaction e
      if r.sends431 then .reject431 r.code else .reset r.code
    | .ok req => .handler req

/-- what reading a message body to its end yields -/
structure BodyObs where
  bytes : Nat
  failed : Bool
  trailers : Headers
deriving Repr, DecidableEq

/-- `decodeTrailers`: `none` = an error is returned to the reader of the body -/
def decodeTrailers (ext : List Nat → Bool) (lim tenc : Int) (tfs : List Field) : Option Headers :=
  if tenc > lim then none
  else match parseTrailers ext lim tfs with
    | .error _ => none
    | .ok h => some h

/-- `io.ReadAll(body)` over [DATA(dlen)] [HEADERS(trailers)] FIN, no Content-Length declared -/
def readBody (ext : List Nat → Bool) (lim : Int) (dlen : Option Nat) (trl : Option (Int × List Field)) : BodyObs :=
  match trl with
  | none => { bytes := dlen.getD 0, failed := false, trailers := [] }
  | some (tenc, tfs) =>
    match decodeTrailers ext lim tenc tfs with
    | none => { bytes := dlen.getD 0, failed := true, trailers := [] }
    | some h => { bytes := dlen.getD 0, failed := false, trailers := h }

/-- what happens to one response -/
inductive CliOutcome
  /-- `CancelRead(code)`, `CancelWrite(code)`, RoundTrip returns an error -/
  | failed (code : Int)
  | response (r : Resp)
deriving Repr, DecidableEq

/-- `ReadResponse`'s adjustment: 1xx and 204 responses without a Content-Length have length 0
    (the request of the driver is never CONNECT) -/
def adjustLength (r : Resp) : Resp :=
  if ((100 ≤ r.status && r.status < 200) || r.status == 204) && r.contentLength == -1 then { r with contentLength := 0 } else r

def readResponse (ext : List Nat → Bool) (lim enc : Int) (fs : List Field) (qerr : Bool) : CliOutcome :=
  if enc > lim then .failed ErrCodeFrameError
  else match updateResponseFromHeaders ext lim fs qerr with
    | .error e => .failed (clientReaction e).code
    | .ok r => .response (adjustLength r)

end Uquic.Model.H3.Glue
