/-
Model of the sharing discipline of `requestWriter` (http3/request_writer.go): every request of an
HTTP/3 client connection goes through ONE requestWriter — one QPACK encoder writing into one
`headerBuf`, guarded by one mutex. `writeHeaders` = Lock; encodeHeaders (appends the header block to
headerBuf); write the HEADERS frame header (length of headerBuf); write headerBuf.Bytes(); Reset; Unlock.

The model keeps the buffer as (backing array, length) so that a slice taken from it ALIASES the array:
three disciplines are modelled — the lock held across the writes (the code), copy-then-unlock (a harmless
variant) and alias-then-unlock (keeps `headerBuf.Bytes()` and releases the lock before writing).
Writers are scheduled by an arbitrary list of writer ids (one atomic step each; a step that is not
enabled — Lock while the mutex is held — leaves the state unchanged).
-/
namespace Uquic.Model.H3.ReqLock

inductive Discipline
  | holdLock | copyThenUnlock | aliasThenUnlock
deriving DecidableEq, Repr

/-- one `writeHeaders` call -/
structure Writer where
  /-- what encodeHeaders produces for this request -/
  block : List Nat
  /-- 0 before Lock, 1 locked, 2 encoded, 3 frame header written (or lock released), 4 block written, 5 done -/
  pc : Nat := 0
  /-- private copy of the block (copyThenUnlock) -/
  snap : List Nat := []
  /-- length of the slice of headerBuf kept (aliasThenUnlock) -/
  aliasLen : Nat := 0
  /-- what was written to the destination: the announced length, then the bytes -/
  out : List Nat := []

structure State where
  /-- backing array of headerBuf -/
  mem : List Nat := []
  /-- headerBuf.Len() -/
  len : Nat := 0
  /-- holder of the mutex -/
  lock : Option Nat := none
  w : Nat → Writer

/-- `bytes.Buffer.Write` at the current length -/
def bufWrite (mem : List Nat) (len : Nat) (d : List Nat) : List Nat := mem.take len ++ d ++ mem.drop (len + d.length)

def setW (st : State) (i : Nat) (x : Writer) : State := { st with w := fun j => if j = i then x else st.w j }

def step (d : Discipline) (st : State) (i : Nat) : State :=
  let x := st.w i
  match x.pc with
  | 0 => if st.lock.isNone then setW { st with lock := some i } i { x with pc := 1 } else st
  | 1 => setW { st with mem := bufWrite st.mem st.len x.block, len := st.len + x.block.length } i { x with pc := 2 }
  | 2 =>
    match d with
    | .holdLock => setW st i { x with pc := 3, out := x.out ++ [st.len] }
    | .copyThenUnlock => setW { st with len := 0, lock := none } i { x with pc := 3, snap := st.mem.take st.len }
    | .aliasThenUnlock => setW { st with len := 0, lock := none } i { x with pc := 3, aliasLen := st.len }
  | 3 =>
    match d with
    | .holdLock => setW st i { x with pc := 4, out := x.out ++ st.mem.take st.len }
    | .copyThenUnlock => setW st i { x with pc := 4, out := x.out ++ [x.snap.length] }
    | .aliasThenUnlock => setW st i { x with pc := 4, out := x.out ++ [x.aliasLen] }
  | 4 =>
    match d with
    | .holdLock => setW { st with len := 0, lock := none } i { x with pc := 5 }
    | .copyThenUnlock => setW st i { x with pc := 5, out := x.out ++ x.snap }
    | .aliasThenUnlock => setW st i { x with pc := 5, out := x.out ++ st.mem.take x.aliasLen }
  | _ => st

def run (d : Discipline) (st : State) (sched : List Nat) : State := sched.foldl (step d) st

def init (blocks : Nat → List Nat) : State := { w := fun i => { block := blocks i } }

/-- what a finished writer must have written: the length of ITS block, then ITS block -/
def expected (b : List Nat) : List Nat := b.length :: b

/-! ### the scripted interleaving of the h3g driver (`conc` op)

Request i+1 is started right before request i's `at i`-th write (0: the frame header, 1: the block,
≥ 2: after it returned); request i goes on when request i+1 is finished or cannot proceed. -/

def preSteps (a : Nat) : Nat := if a = 0 then 2 else if a = 1 then 3 else 5

def forcedSchedule (n : Nat) (ats : List Nat) : Nat → Nat → List Nat
  | 0, _ => []
  | fuel + 1, i =>
    if i ≥ n then []
    else
      let pre := preSteps (ats.getD i 2)
      List.replicate pre i ++ forcedSchedule n ats fuel (i + 1) ++ List.replicate (5 - pre) i ++ forcedSchedule n ats fuel (i + 1)

/-- which request's block each of the n writers emitted under the code's discipline (block i = [i]);
    `n` marks a writer that did not finish -/
def emittedBlocks (n : Nat) (ats : List Nat) : List Nat :=
  let st := run .holdLock (init fun i => [i]) (forcedSchedule n ats (n + 1) 0)
  (List.range n).map fun i =>
    match (st.w i).pc, (st.w i).out with
    | 5, [1, j] => j
    | _, _ => n

end Uquic.Model.H3.ReqLock
