/-
Model of internal/flowcontrol (property C04): base_flow_controller.go,
stream_flow_controller.go, connection_flow_controller.go.

Conventions: `protocol.ByteCount`, `monotime.Time`, `time.Duration` are Go
`int64`; the model uses `Int` (no wrap-around: the harness keeps every sum
below 2^63, theorems carry the caller contract as hypotheses).  A method that
mutates through the receiver becomes `State → Args → State × Out`.  The
`allowWindowIncrease` callback is an input: `none` = the field is `nil`,
`some b` = the callback answers `b`; every call is reported with its argument.
The smoothed RTT is an environment input (read from the real `RTTStats`).

The three places where the Go code goes through `float64` are modelled bit-exactly
by an integer emulation of IEEE-754 binary64 round-to-nearest-even
(`F64`), for the value ranges that occur (no subnormals, no infinities except
the division by a zero window size, which is handled explicitly).
Every function mirrors the Go function of the same name branch for branch.
-/
import Uquic.Generated.Flowcontrol

namespace Uquic.Model.FlowControl
open Uquic.Gen.Flowcontrol

/-! ### IEEE-754 binary64 on non-negative values, as integers -/

/-- the value `m * 2^e`; results of `round` have `m = 0` or `2^52 ≤ m < 2^53` -/
structure F64 where
  m : Nat
  e : Int
deriving Repr, DecidableEq

namespace F64

/-- `n/d` rounded to 53 significant bits, ties to even (`d > 0`) -/
def round (n d : Nat) : F64 :=
  if n = 0 ∨ d = 0 then ⟨0, 0⟩ else
  let a : Int := (Nat.log2 n : Nat)
  let b : Int := (Nat.log2 d : Nat)
  -- n/d ∈ (2^(a-b-1), 2^(a-b+1)); scaled by 2^s0 it lies in (2^52, 2^54)
  let s0 : Int := 53 - (a - b)
  let sc (s : Int) : Nat × Nat := if s ≥ 0 then (n * 2 ^ s.toNat, d) else (n, d * 2 ^ (-s).toNat)
  let q0 := (sc s0).1 / (sc s0).2
  let s := if q0 ≥ 2 ^ 53 then s0 - 1 else s0
  let n' := (sc s).1
  let d' := (sc s).2
  let q := n' / d'
  let r := n' % d'
  let q := if 2 * r > d' then q + 1 else if 2 * r = d' then (if q % 2 = 1 then q + 1 else q) else q
  if q = 2 ^ 53 then ⟨2 ^ 52, -s + 1⟩ else ⟨q, -s⟩

/-- numerator / denominator of the exact value -/
def toRat (x : F64) : Nat × Nat :=
  if x.e ≥ 0 then (x.m * 2 ^ x.e.toNat, 1) else (x.m, 2 ^ (-x.e).toNat)

/-- `float64(n)` for a non-negative integer -/
def ofNat (n : Nat) : F64 := round n 1
def mul (x y : F64) : F64 :=
  let p : F64 := ⟨x.m * y.m, x.e + y.e⟩
  round p.toRat.1 p.toRat.2
/-- `x / y` for `y ≠ 0` -/
def div (x y : F64) : F64 :=
  round (x.toRat.1 * y.toRat.2) (x.toRat.2 * y.toRat.1)
/-- truncation toward zero (`int64(x)` for `x < 2^63`) -/
def trunc (x : F64) : Nat := x.toRat.1 / x.toRat.2

end F64

def int64Min : Int := -(2 ^ 63)

/-- amd64 `CVTTSD2SQ`: values outside the int64 range convert to the "integer indefinite" `-2^63` -/
def toInt64 (neg : Bool) (x : F64) : Int :=
  let t : Int := x.trunc
  if neg then (if t > 2 ^ 63 then int64Min else -t) else (if t ≥ 2 ^ 63 then int64Min else t)

/-- `ByteCount(float64(x) * k)` for the constant `k = num/den` -/
def scaleTrunc (x : Int) (num den : Nat) : Int :=
  toInt64 (x < 0) (F64.mul (F64.ofNat x.natAbs) (F64.round num den))

/-- comparison selected by the operator the Go source uses (`Uquic.Gen.Flowcontrol.*CmpOp`) -/
def cmp (code : Nat) (a b : Int) : Bool :=
  match code with
  | 0 => decide (a < b) | 1 => decide (a ≤ b) | 2 => decide (a > b)
  | 3 => decide (a ≥ b) | 4 => decide (a = b) | _ => decide (a ≠ b)

/-- `protocol.ByteCount(float64(size)*(1-protocol.WindowUpdateThreshold))`; the constant expression
    `1-WindowUpdateThreshold` is evaluated exactly by the Go compiler and then rounded to float64 -/
def updateThreshold (size : Int) : Int :=
  scaleTrunc size (WindowUpdateThreshold_den - WindowUpdateThreshold_num) WindowUpdateThreshold_den

/-- `protocol.ByteCount(float64(size)*protocol.ConnectionFlowControlMultiplier)` -/
def connMinimumFor (size : Int) : Int :=
  scaleTrunc size ConnectionFlowControlMultiplier_num ConnectionFlowControlMultiplier_den

/-- `time.Duration(4*fraction*float64(rtt))` with `fraction := float64(b)/float64(size)`.
    `size = 0` makes `fraction` +Inf (b > 0) and the conversion yields `-2^63`. -/
def autoTuneThreshold (bytesReadInEpoch size rtt : Int) : Int :=
  if size = 0 then int64Min
  else
    let fraction := F64.div (F64.ofNat bytesReadInEpoch.natAbs) (F64.ofNat size.natAbs)
    let neg := Bool.xor (Bool.xor (decide (bytesReadInEpoch < 0)) (decide (size < 0))) (decide (rtt < 0))
    toInt64 neg (F64.mul (F64.mul (F64.ofNat autoTuneRttFactor.natAbs) fraction) (F64.ofNat rtt.natAbs))

/-! ### baseFlowController -/

structure Base where
  bytesSent : Int := 0
  sendWindow : Int := 0
  lastBlockedAt : Int := 0
  bytesRead : Int := 0
  highestReceived : Int := 0
  receiveWindow : Int := 0
  receiveWindowSize : Int := 0
  maxReceiveWindowSize : Int := 0
  epochStartTime : Int := 0
  epochStartOffset : Int := 0
deriving Repr, DecidableEq

namespace Base

def sendWindowSize (c : Base) : Int :=
  if c.bytesSent > c.sendWindow then 0 else c.sendWindow - c.bytesSent

/-- returns (state, blocked, offset) -/
def isNewlyBlocked (c : Base) : Base × Bool × Int :=
  if c.sendWindowSize ≠ 0 ∨ c.sendWindow = c.lastBlockedAt then (c, false, 0)
  else ({ c with lastBlockedAt := c.sendWindow }, true, c.sendWindow)

def addBytesSent (c : Base) (n : Int) : Base := { c with bytesSent := c.bytesSent + n }

def updateSendWindow (c : Base) (offset : Int) : Base × Bool :=
  if offset > c.sendWindow then ({ c with sendWindow := offset }, true) else (c, false)

def addBytesRead (c : Base) (n : Int) : Base := { c with bytesRead := c.bytesRead + n }

def hasWindowUpdate (c : Base) : Bool :=
  cmp hasWindowUpdateCmpOp (c.receiveWindow - c.bytesRead) (updateThreshold c.receiveWindowSize)

def startNewAutoTuningEpoch (c : Base) (now : Int) : Base :=
  { c with epochStartTime := now, epochStartOffset := c.bytesRead }

/-- the answer of `c.allowWindowIncrease == nil || c.allowWindowIncrease(delta)` (or of the
    unguarded call): (allowed, calls made, panicked) -/
def askAllow (guarded : Bool) (allow : Option Bool) (delta : Int) : Bool × List Int × Bool :=
  match allow with
  | none => if guarded then (true, [], false) else (false, [], true)
  | some b => (b, [delta], false)

/-- returns (state, callback arguments, panicked) -/
def maybeAdjustWindowSize (c : Base) (now rtt : Int) (allow : Option Bool) : Base × List Int × Bool :=
  let bytesReadInEpoch := c.bytesRead - c.epochStartOffset
  if bytesReadInEpoch ≤ Int.tdiv c.receiveWindowSize autoTuneMinConsumedDivisor then (c, [], false)
  else if rtt = 0 then (c, [], false)
  else if cmp autoTuneCmpOp (now - c.epochStartTime) (autoTuneThreshold bytesReadInEpoch c.receiveWindowSize rtt) then
    let newSize := min (autoTuneGrowFactor * c.receiveWindowSize) c.maxReceiveWindowSize
    if newSize > c.receiveWindowSize then
      match askAllow adjustCallbackNilGuarded allow (newSize - c.receiveWindowSize) with
      | (_, calls, true) => (c, calls, true)
      | (true, calls, false) => ({ c with receiveWindowSize := newSize }.startNewAutoTuningEpoch now, calls, false)
      | (false, calls, false) => (c.startNewAutoTuningEpoch now, calls, false)
    else (c.startNewAutoTuningEpoch now, [], false)
  else (c.startNewAutoTuningEpoch now, [], false)

/-- returns (state, offset, callback arguments, panicked) -/
def getWindowUpdate (c : Base) (now rtt : Int) (allow : Option Bool) : Base × Int × List Int × Bool :=
  if !c.hasWindowUpdate then (c, 0, [], false)
  else
    match c.maybeAdjustWindowSize now rtt allow with
    | (c1, calls, true) => (c1, 0, calls, true)
    | (c1, calls, false) =>
      let c2 := { c1 with receiveWindow := c1.bytesRead + c1.receiveWindowSize }
      (c2, c2.receiveWindow, calls, false)

def checkFlowControlViolation (c : Base) : Bool :=
  cmp violationCmpOp c.highestReceived c.receiveWindow

end Base

/-! ### connectionFlowController (a `Base`; the callback is supplied per call) -/

namespace Conn

def new (receiveWindow maxReceiveWindow : Int) : Base :=
  { receiveWindow := receiveWindow, receiveWindowSize := receiveWindow, maxReceiveWindowSize := maxReceiveWindow }

/-- returns (state, flow-control violation) -/
def incrementHighestReceived (c : Base) (increment now : Int) : Base × Bool :=
  let c := if c.highestReceived = 0 then c.startNewAutoTuningEpoch now else c
  let c := { c with highestReceived := c.highestReceived + increment }
  (c, c.checkFlowControlViolation)

def addBytesRead (c : Base) (n : Int) : Base × Bool :=
  let c := c.addBytesRead n
  (c, c.hasWindowUpdate)

/-- returns (state, callback arguments, panicked) -/
def ensureMinimumWindowSize (c : Base) (inc now : Int) (allow : Option Bool) : Base × List Int × Bool :=
  if inc ≤ c.receiveWindowSize then (c, [], false)
  else
    let newSize := min inc c.maxReceiveWindowSize
    let delta := newSize - c.receiveWindowSize
    if delta > 0 then
      match Base.askAllow ensureMinCallbackNilGuarded allow delta with
      | (_, calls, true) => (c, calls, true)
      | (true, calls, false) => ({ c with receiveWindowSize := newSize }.startNewAutoTuningEpoch now, calls, false)
      | (false, calls, false) => (c.startNewAutoTuningEpoch now, calls, false)
    else (c.startNewAutoTuningEpoch now, [], false)

/-- `Reset` (0-RTT rejection): `none` = error "flow controller reset after reading data" -/
def reset (c : Base) : Option Base :=
  if c.bytesRead > 0 ∨ c.highestReceived > 0 ∨ c.epochStartTime ≠ 0 then none
  else some { c with bytesSent := 0, lastBlockedAt := 0, sendWindow := 0 }

end Conn

/-! ### streamFlowController -/

structure Stream where
  base : Base := {}
  receivedFinalOffset : Bool := false
deriving Repr, DecidableEq

inductive RecvOut where
  | ok | finalSize | flowControl
deriving Repr, DecidableEq

namespace Stream

def new (receiveWindow maxReceiveWindow initialSendWindow : Int) : Stream :=
  { base := { receiveWindow := receiveWindow, receiveWindowSize := receiveWindow,
              maxReceiveWindowSize := maxReceiveWindow, sendWindow := initialSendWindow } }

/-- `UpdateHighestReceived`; returns (stream, connection, outcome, branch tag) -/
def updateHighestReceived (s : Stream) (conn : Base) (offset : Int) (final : Bool) (now : Int) :
    Stream × Base × RecvOut × String :=
  if s.receivedFinalOffset ∧ final ∧ offset ≠ s.base.highestReceived then (s, conn, .finalSize, "recv:final-changed")
  else if s.receivedFinalOffset ∧ offset > s.base.highestReceived then (s, conn, .finalSize, "recv:beyond-final")
  else
    let s := if final then { s with receivedFinalOffset := true } else s
    if offset = s.base.highestReceived then (s, conn, .ok, "recv:same")
    else if offset < s.base.highestReceived then
      if final then (s, conn, .finalSize, "recv:final-below-highest") else (s, conn, .ok, "recv:reordered")
    else
      let b := if s.base.highestReceived = 0 then s.base.startNewAutoTuningEpoch now else s.base
      let increment := offset - b.highestReceived
      let b := { b with highestReceived := offset }
      let s := { s with base := b }
      if b.checkFlowControlViolation then (s, conn, .flowControl, "recv:stream-violation")
      else
        let (conn', viol) := Conn.incrementHighestReceived conn increment now
        if viol then (s, conn', .flowControl, "recv:conn-violation") else (s, conn', .ok, "recv:new-highest")

def shouldQueueWindowUpdate (s : Stream) : Bool := !s.receivedFinalOffset && s.base.hasWindowUpdate

/-- returns (stream, connection, hasStreamWindowUpdate, hasConnWindowUpdate) -/
def addBytesRead (s : Stream) (conn : Base) (n : Int) : Stream × Base × Bool × Bool :=
  let s := { s with base := s.base.addBytesRead n }
  let (conn', hc) := Conn.addBytesRead conn n
  (s, conn', s.shouldQueueWindowUpdate, hc)

def abandon (s : Stream) (conn : Base) : Stream × Base :=
  let unread := s.base.highestReceived - s.base.bytesRead
  let s := { s with base := { s.base with bytesRead := s.base.highestReceived } }
  if unread > 0 then (s, (Conn.addBytesRead conn unread).1) else (s, conn)

def addBytesSent (s : Stream) (conn : Base) (n : Int) : Stream × Base :=
  ({ s with base := s.base.addBytesSent n }, conn.addBytesSent n)

def sendWindowSize (s : Stream) (conn : Base) : Int := min s.base.sendWindowSize conn.sendWindowSize

def isNewlyBlocked (s : Stream) : Stream × Bool :=
  let (b, blocked, _) := s.base.isNewlyBlocked
  ({ s with base := b }, blocked)

/-- `GetWindowUpdate`; `allow` is the *connection's* callback (the stream's own is always nil).
    returns (stream, connection, offset, callback arguments, panicked) -/
def getWindowUpdate (s : Stream) (conn : Base) (now rtt : Int) (allow : Option Bool) :
    Stream × Base × Int × List Int × Bool :=
  if s.receivedFinalOffset then (s, conn, 0, [], false)
  else
    let oldWindowSize := s.base.receiveWindowSize
    let r := s.base.getWindowUpdate now rtt none          -- (base, offset, calls, panicked)
    let s' := { s with base := r.1 }
    if r.2.2.2 then (s', conn, 0, r.2.2.1, true)
    else if r.1.receiveWindowSize > oldWindowSize then
      let e := Conn.ensureMinimumWindowSize conn (connMinimumFor r.1.receiveWindowSize) now allow   -- (conn, calls, panicked)
      if e.2.2 then (s', e.1, 0, r.2.2.1 ++ e.2.1, true) else (s', e.1, r.2.1, r.2.2.1 ++ e.2.1, false)
    else (s', conn, r.2.1, r.2.2.1, false)

end Stream

/-! ### one connection: a connection controller plus stream controllers (stream `i` = index `i`) -/

structure State where
  conn : Base := {}
  /-- the connection was constructed with `allowWindowIncrease == nil` -/
  cbNil : Bool := false
  streams : List Stream := []
  /-- smoothed RTT in ns, as last read from the shared `RTTStats` -/
  rtt : Int := 0
deriving Repr, DecidableEq

inductive Op where
  | newStream (rw maxrw sw : Int)
  | rtt (srtt : Int)
  | recv (id : Nat) (off : Int) (fin : Bool) (now : Int)
  | read (id : Nat) (n : Int)
  | abandon (id : Nat)
  | supd (id : Nat) (now : Int) (allow : Bool)
  | cupd (now : Int) (allow : Bool)
  | sent (id : Nat) (n : Int)
  | smax (id : Nat) (v : Int)
  | cmax (v : Int)
  | swin (id : Nat)
  | cwin
  | sblocked (id : Nat)
  | cblocked
  | reset
deriving Repr, DecidableEq

inductive Out where
  | skip                                   -- dangling stream reference
  | unit
  | created (id : Nat)
  | recv (r : RecvOut)
  | read (hasStream hasConn : Bool)
  | upd (offset : Int) (calls : List Int)
  | panic (calls : List Int)
  | sent (before after : Int)
  | updated (b : Bool)
  | win (n : Int)
  | blocked (b : Bool) (offset : Int)
  | resetOk
  | resetErr
deriving Repr, DecidableEq

def State.init (rw maxrw : Int) (cbNil : Bool) : State :=
  { conn := Conn.new rw maxrw, cbNil := cbNil, rtt := 0 }

def State.allowOf (s : State) (allow : Bool) : Option Bool := if s.cbNil then none else some allow

/-- one operation; also returns the model branch tags -/
def stepT (s : State) (op : Op) : State × Out × List String :=
  match op with
  | .newStream rw maxrw sw =>
    ({ s with streams := s.streams ++ [Stream.new rw maxrw sw] }, .created s.streams.length, ["new"])
  | .rtt v => ({ s with rtt := v }, .unit, [if v = 0 then "rtt:zero" else "rtt"])
  | .recv id off fin now =>
    match s.streams[id]? with
    | none => (s, .skip, [])
    | some st =>
      let (st', conn', r, tag) := st.updateHighestReceived s.conn off fin now
      ({ s with streams := s.streams.set id st', conn := conn' }, .recv r, [tag])
  | .read id n =>
    match s.streams[id]? with
    | none => (s, .skip, [])
    | some st =>
      let (st', conn', hs, hc) := st.addBytesRead s.conn n
      ({ s with streams := s.streams.set id st', conn := conn' }, .read hs hc,
        [if hs then "read:stream-upd" else "read:no-stream-upd", if hc then "read:conn-upd" else "read:no-conn-upd"])
  | .abandon id =>
    match s.streams[id]? with
    | none => (s, .skip, [])
    | some st =>
      let (st', conn') := st.abandon s.conn
      ({ s with streams := s.streams.set id st', conn := conn' }, .unit,
        [if st.base.highestReceived - st.base.bytesRead > 0 then "abandon:credit" else "abandon:nothing"])
  | .supd id now allow =>
    match s.streams[id]? with
    | none => (s, .skip, [])
    | some st =>
      let (st', conn', off, calls, panicked) := st.getWindowUpdate s.conn now s.rtt (s.allowOf allow)
      let s' := { s with streams := s.streams.set id st', conn := conn' }
      let tags :=
        (if st.receivedFinalOffset then ["supd:final"] else if off = 0 ∧ !panicked then ["supd:none"] else ["supd:update"]) ++
        (if st'.base.receiveWindowSize > st.base.receiveWindowSize then ["supd:grow"] else []) ++
        (if st'.base.epochStartTime ≠ st.base.epochStartTime then ["supd:epoch"] else []) ++
        (if conn'.receiveWindowSize > s.conn.receiveWindowSize then ["supd:conn-grow"] else []) ++
        (if calls ≠ [] ∧ conn'.receiveWindowSize = s.conn.receiveWindowSize then ["supd:conn-denied"] else []) ++
        (if panicked then ["supd:panic"] else [])
      if panicked then (s', .panic calls, tags) else (s', .upd off calls, tags)
  | .cupd now allow =>
    let (conn', off, calls, panicked) := s.conn.getWindowUpdate now s.rtt (s.allowOf allow)
    let tags :=
      (if off = 0 then ["cupd:none"] else ["cupd:update"]) ++
      (if conn'.receiveWindowSize > s.conn.receiveWindowSize then ["cupd:grow"] else []) ++
      (if conn'.epochStartTime ≠ s.conn.epochStartTime then ["cupd:epoch"] else []) ++
      (if calls ≠ [] ∧ conn'.receiveWindowSize = s.conn.receiveWindowSize then ["cupd:denied"] else [])
    if panicked then ({ s with conn := conn' }, .panic calls, tags) else ({ s with conn := conn' }, .upd off calls, tags)
  | .sent id n =>
    match s.streams[id]? with
    | none => (s, .skip, [])
    | some st =>
      let before := st.sendWindowSize s.conn
      let (st', conn') := st.addBytesSent s.conn n
      ({ s with streams := s.streams.set id st', conn := conn' }, .sent before (st'.sendWindowSize conn'),
        [if n > before then "sent:beyond" else if n = before then "sent:all" else "sent:part"])
  | .smax id v =>
    match s.streams[id]? with
    | none => (s, .skip, [])
    | some st =>
      let (b, u) := st.base.updateSendWindow v
      ({ s with streams := s.streams.set id { st with base := b } }, .updated u, [if u then "smax:raise" else "smax:stale"])
  | .cmax v =>
    let (b, u) := s.conn.updateSendWindow v
    ({ s with conn := b }, .updated u, [if u then "cmax:raise" else "cmax:stale"])
  | .swin id =>
    match s.streams[id]? with
    | none => (s, .skip, [])
    | some st => (s, .win (st.sendWindowSize s.conn), [])
  | .cwin => (s, .win s.conn.sendWindowSize, [])
  | .sblocked id =>
    match s.streams[id]? with
    | none => (s, .skip, [])
    | some st =>
      let (st', b) := st.isNewlyBlocked
      ({ s with streams := s.streams.set id st' }, .blocked b 0, [if b then "sblocked:yes" else "sblocked:no"])
  | .cblocked =>
    let (b, blocked, off) := s.conn.isNewlyBlocked
    ({ s with conn := b }, .blocked blocked off, [if blocked then "cblocked:yes" else "cblocked:no"])
  | .reset =>
    -- connection.go dropEncryptionLevel(0-RTT): streamsMap.ResetFor0RTT() discards every stream, then Reset()
    match Conn.reset s.conn with
    | none => (s, .resetErr, ["reset:err"])
    | some c => ({ s with conn := c, streams := [] }, .resetOk, ["reset:ok"])

def step (s : State) (op : Op) : State × Out := ((stepT s op).1, (stepT s op).2.1)

def run (s : State) : List Op → State
  | [] => s
  | op :: ops => run (step s op).1 ops

/-- the outputs of a history -/
def trace (s : State) : List Op → List Out
  | [] => []
  | op :: ops => (step s op).2 :: trace (step s op).1 ops

end Uquic.Model.FlowControl
