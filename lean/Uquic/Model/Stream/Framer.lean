/-
Model of the framer's active-stream bookkeeping (/repo/framer.go: AddActiveStream, RemoveActiveStream,
getNextStreamFrame): a round-robin queue of stream ids plus the set of registered streams. What a stream
answers when polled (`hasMore`) is an input. Core-only.
-/
namespace Uquic.Model.Stream.Framer

structure FState where
  queue : List Nat := []
  active : List Nat := []
deriving Repr, Inhabited

/-- `AddActiveStream` -/
def addActive (s : FState) (id : Nat) : FState :=
  if s.active.contains id then s else { queue := s.queue ++ [id], active := id :: s.active }

/-- `RemoveActiveStream` (the id stays in the queue and is skipped later) -/
def removeActive (s : FState) (id : Nat) : FState := { s with active := s.active.filter (· != id) }

/-- `getNextStreamFrame`: pops the head of the queue; a head that is no longer registered is dropped
    without a poll; otherwise the stream is polled and re-queued iff it says it has more data.
    Returns the id polled (if any). -/
def getNext (s : FState) (hasMore : Bool) : FState × Option Nat :=
  match s.queue with
  | [] => (s, none)
  | id :: rest =>
    if !s.active.contains id then ({ s with queue := rest }, none)
    else if hasMore then ({ s with queue := rest ++ [id] }, some id)
    else ({ queue := rest, active := s.active.filter (· != id) }, some id)

end Uquic.Model.Stream.Framer
