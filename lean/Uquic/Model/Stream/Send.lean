/-
Model of the data path of `SendStream` (/repo/send_stream.go) and of
`wire.StreamFrame.{Length,MaxDataLen,MaybeSplitOffFrame}` (/repo/internal/wire/stream_frame.go)
as a pure state machine.  Core-only (links into the oracle).

Conventions (DESIGN.md §6):
* every public method is one atomic step (it runs under `s.mutex`);
* the blocking `Write` is split into `writeCall` (entry checks + first pass of the loop) and
  `wake` (one more pass of the loop after `writeChan` was signalled); the buffered channel
  `writeChan` (capacity 1) is the Bool `signal`;
* `dataForWriting == nil` is `[]` (the Go slice is either nil or non-empty);
* the flow-control window (`SendWindowSize`) and `IsNewlyBlocked` are environment inputs of `pop`;
* `written`, `emitted`, `outstanding`, `ackedRanges`, `ackedFin` are GHOST fields: they are never read
  by a step's control flow, only by the theorems;
* write deadlines are not modelled (no step sets one).
-/
import Uquic.Generated.Protocol
import Uquic.Generated.Stream

namespace Uquic.Model.Stream.Send

abbrev Bytes := List UInt8

def maxPacketBufferSize : Nat := Uquic.Gen.Protocol.MaxPacketBufferSize.toNat
def maxVarInt1 : Nat := Uquic.Gen.Stream.maxVarInt1.toNat
def maxVarInt2 : Nat := Uquic.Gen.Stream.maxVarInt2.toNat
def maxVarInt4 : Nat := Uquic.Gen.Stream.maxVarInt4.toNat

/-- `quicvarint.Len` (total here: callers keep every value below 2^62, where the Go code panics) -/
def varintLen (n : Nat) : Nat :=
  if n ≤ maxVarInt1 then 1 else if n ≤ maxVarInt2 then 2 else if n ≤ maxVarInt4 then 4 else 8

/-- `wire.StreamFrame` without the stream id (a constant of the stream) -/
structure Frame where
  offset : Nat
  data : Bytes
  fin : Bool := false
  dataLenPresent : Bool := true
deriving Repr, DecidableEq, Inhabited

/-- header length as `MaxDataLen` computes it (the length field counted as one byte) -/
def Frame.headerLen1 (sid : Nat) (f : Frame) : Nat :=
  1 + varintLen sid + (if f.offset ≠ 0 then varintLen f.offset else 0) + (if f.dataLenPresent then 1 else 0)

/-- `StreamFrame.Length` -/
def Frame.length (sid : Nat) (f : Frame) : Nat :=
  1 + varintLen sid + (if f.offset ≠ 0 then varintLen f.offset else 0)
    + (if f.dataLenPresent then varintLen f.data.length else 0) + f.data.length

/-- `StreamFrame.MaxDataLen` -/
def Frame.maxDataLen (sid : Nat) (f : Frame) (maxSize : Nat) : Nat :=
  let h := f.headerLen1 sid
  if h > maxSize then 0
  else
    let m := maxSize - h
    if f.dataLenPresent && varintLen m != 1 then m - 1 else m

/-- `StreamFrame.MaybeSplitOffFrame`: (split-off frame, the receiver after the call, needsSplit) -/
def Frame.maybeSplitOff (sid : Nat) (f : Frame) (maxSize : Nat) : Option Frame × Frame × Bool :=
  if maxSize ≥ f.length sid then (none, f, false)
  else
    let n := f.maxDataLen sid maxSize
    if n = 0 then (none, f, true)
    else
      (some { offset := f.offset, data := f.data.take n, fin := false, dataLenPresent := f.dataLenPresent },
       { f with data := f.data.drop n, offset := f.offset + n }, true)

/-- `wire.ResetStreamFrame` -/
structure ResetFrame where
  finalSize : Nat
  code : Nat
  reliableSize : Nat
deriving Repr, DecidableEq, Inhabited

inductive Err where
  | none
  | reset (code : Nat) (remote : Bool)   -- *StreamError
  | shutdown                             -- the error given to closeForShutdown
  | closed                               -- "write on closed stream"
  | closeCanceled                        -- "close called for canceled stream"
deriving Repr, DecidableEq, Inhabited

/-- a `Write` call that is parked on `writeChan` -/
structure Pending where
  plen : Nat
  notified : Bool
deriving Repr, DecidableEq, Inhabited

/-- callbacks into the streamSender made by one step -/
structure Ev where
  hasData : Nat := 0        -- onHasStreamData
  hasCtrl : Nat := 0        -- onHasStreamControlFrame
  completed : Nat := 0      -- onStreamCompleted
deriving Repr, DecidableEq, Inhabited

def Ev.add (a b : Ev) : Ev :=
  { hasData := a.hasData + b.hasData, hasCtrl := a.hasCtrl + b.hasCtrl, completed := a.completed + b.completed }

structure State where
  sid : Nat := 0
  supportsResetAt : Bool := false
  -- fields of SendStream
  numOutstanding : Int := 0
  retransQ : List Frame := []
  reliableSize : Nat := 0
  writeOffset : Nat := 0
  shutdown : Bool := false                       -- shutdownErr != nil
  resetErr : Option (Nat × Bool) := none          -- (code, remote)
  queuedReset : Option ResetFrame := none
  finishedWriting : Bool := false
  finSent : Bool := false
  cancellationFlagged : Bool := false
  completed : Bool := false
  dataForWriting : Bytes := []
  nextFrame : Option Frame := none
  signal : Bool := false                          -- len(writeChan) == 1
  pending : Option Pending := none                -- a Write call blocked in its loop
  dead : Bool := false                            -- a panic left the mutex locked
  -- ghost
  written : Bytes := []                           -- every byte accepted by Write, in order
  emitted : List Frame := []                      -- every STREAM frame returned by pop, oldest first
  outstanding : List (Nat × Frame) := []          -- (emission index, frame) not yet acked / lost
  ackedRanges : List (Nat × Nat) := []            -- [start,end) of acknowledged frames
  ackedFin : Bool := false
deriving Repr, Inhabited

def State.reliableOffset (s : State) : Nat := if s.supportsResetAt then s.reliableSize else 0

def nfLen (s : State) : Nat := match s.nextFrame with | some f => f.data.length | none => 0

/-- `canBufferStreamFrame` -/
def canBuffer (s : State) : Bool := nfLen s + s.dataForWriting.length ≤ maxPacketBufferSize

/-- `isNewlyCompleted` -/
def isNewlyCompleted (s : State) : State × Bool :=
  if s.completed then (s, false)
  else if nfLen s > 0 then (s, false)
  else if s.numOutstanding > 0 || !s.retransQ.isEmpty || s.queuedReset.isSome then (s, false)
  else if s.finSent then ({ s with completed := true }, true)
  else if s.resetErr.isSome && (s.cancellationFlagged || s.finishedWriting) then ({ s with completed := true }, true)
  else (s, false)

def evDone (b : Bool) : Ev := { completed := if b then 1 else 0 }

def resetErrOf (s : State) : Err :=
  match s.resetErr with
  | some (c, r) => .reset c r
  | none => .none

/-- the part of `write` after the loop -/
def writeEpilogue (s : State) (plen bytesWritten : Nat) : State × Ev × (Nat × Err) :=
  if bytesWritten == plen then (s, {}, (bytesWritten, .none))
  else if s.shutdown then (s, {}, (bytesWritten, .shutdown))
  else if s.resetErr.isSome then
    let r := isNewlyCompleted { s with cancellationFlagged := true }
    (r.1, evDone r.2, (bytesWritten, resetErrOf s))
  else (s, {}, (bytesWritten, .none))

/-- one pass of the `for` loop of `write`; `none` = the call parks on `writeChan` again -/
def writeIter (s : State) (p : Pending) : State × Ev × Option (Nat × Err) :=
  if canBuffer s && !s.dataForWriting.isEmpty then
    let nf : Frame := match s.nextFrame with
      | none => { offset := s.writeOffset, data := s.dataForWriting, fin := false, dataLenPresent := true }
      | some f => { f with data := f.data ++ s.dataForWriting }
    let s := { s with nextFrame := some nf, dataForWriting := [], pending := none }
    let ev : Ev := { hasData := if p.notified then 0 else 1 }
    let (s, ev2, r) := writeEpilogue s p.plen p.plen
    (s, ev.add ev2, some r)
  else
    let bytesWritten := p.plen - s.dataForWriting.length
    if s.dataForWriting.isEmpty || s.shutdown || s.resetErr.isSome then
      let (s, ev, r) := writeEpilogue { s with pending := none } p.plen bytesWritten
      (s, ev, some r)
    else
      ({ s with pending := some { p with notified := true } }, { hasData := if p.notified then 0 else 1 }, none)

inductive WriteRes where
  | skip                       -- another Write is in progress (the harness never overlaps two calls)
  | ret (n : Nat) (e : Err)
  | blocked
deriving Repr, DecidableEq, Inhabited

/-- `Write(p)` up to the first time it parks (or returns) -/
def writeCall (s : State) (p : Bytes) : State × Ev × WriteRes :=
  if s.pending.isSome then (s, {}, .skip)
  else if s.resetErr.isSome then
    let r := isNewlyCompleted { s with cancellationFlagged := true }
    (r.1, evDone r.2, .ret 0 (resetErrOf s))
  else if s.shutdown then (s, {}, .ret 0 .shutdown)
  else if s.finishedWriting then (s, {}, .ret 0 .closed)
  else if p.isEmpty then (s, {}, .ret 0 .none)
  else
    let s := { s with dataForWriting := p, written := s.written ++ p }
    let pd : Pending := { plen := p.length, notified := false }
    match writeIter { s with pending := some pd } pd with
    | (s, ev, some (n, e)) => (s, ev, .ret n e)
    | (s, ev, none) => (s, ev, .blocked)

/-- the parked `Write` receives from `writeChan` and runs the loop body once more -/
def wake (s : State) : State × Ev × Option (Nat × Err) :=
  match s.pending with
  | none => (s, {}, none)
  | some p =>
    if !s.signal then (s, {}, none)
    else writeIter { s with signal := false } p

/-- `Close` -/
def close (s : State) : State × Ev × Err :=
  if s.shutdown || s.finishedWriting then (s, {}, .none)
  else
    let s := { s with finishedWriting := true }
    let cancelled := s.resetErr.isSome
    let s := if cancelled then { s with cancellationFlagged := true } else s
    let r := isNewlyCompleted s
    if cancelled then (r.1, evDone r.2, .closeCanceled)
    else (r.1, (evDone r.2).add { hasData := 1 }, .none)

/-- `SetReliableBoundary` -/
def setReliableBoundary (s : State) : State :=
  { s with reliableSize := s.writeOffset + nfLen s }

/-- `returnFramesToPool` -/
def returnFramesToPool (s : State) : State := { s with retransQ := [], nextFrame := none }

structure PopOut where
  frame : Option Frame := none
  blocked : Option Nat := none      -- STREAM_DATA_BLOCKED.MaximumStreamData
  hasMore : Bool := false
deriving Repr, DecidableEq, Inhabited

/-- `maybeGetRetransmission` (queue non-empty) -/
def maybeGetRetransmission (s : State) (maxBytes : Nat) : State × Option Frame × Bool :=
  match s.retransQ with
  | [] => (s, none, false)
  | f :: rest =>
    match f.maybeSplitOff s.sid maxBytes with
    | (new, f', true) => ({ s with retransQ := f' :: rest }, new, true)
    | (_, _, false) => ({ s with retransQ := rest }, some f, !rest.isEmpty)

/-- `popNewStreamFrame`: (state, frame, hasMoreData) -/
def popNewStreamFrame (s : State) (maxBytes maxDataLen : Nat) : State × Option Frame × Bool :=
  match s.nextFrame with
  | some nf =>
    let m := min maxDataLen (nf.maxDataLen s.sid maxBytes)
    if m = 0 then (s, none, true)
    else if nf.data.length > m then
      let rest : Frame := { offset := s.writeOffset + m, data := nf.data.drop m, fin := false, dataLenPresent := true }
      let s := { s with nextFrame := some rest }
      (s, some { nf with data := nf.data.take m }, true)
    else
      let s := { s with nextFrame := none, signal := true }
      (s, some nf, !s.dataForWriting.isEmpty)
  | none =>
    let f : Frame := { offset := s.writeOffset, data := [], fin := false, dataLenPresent := true }
    -- popNewStreamFrameWithoutBuffer
    let m := f.maxDataLen s.sid maxBytes
    let (s, f) :=
      if m = 0 then (s, f)
      else
        -- getDataForWriting(f, min(maxDataLen, sendWindow))
        let n := min m maxDataLen
        if s.dataForWriting.length ≤ n then
          ({ s with dataForWriting := [], signal := true }, { f with data := s.dataForWriting })
        else
          let s' := { s with dataForWriting := s.dataForWriting.drop n }
          let s' := if canBuffer s' then { s' with signal := true } else s'
          (s', { f with data := s.dataForWriting.take n })
    let hasMore := !s.dataForWriting.isEmpty || s.nextFrame.isSome || s.finishedWriting
    if f.data.isEmpty && !f.fin then (s, none, hasMore) else (s, some f, hasMore)

/-- `popNewOrRetransmittedStreamFrame` -/
def popInner (s : State) (maxBytes window : Nat) (newlyBlocked : Bool) : State × PopOut :=
  if s.shutdown then (s, {})
  else if s.resetErr.isSome &&
      (s.reliableOffset == 0 || (s.writeOffset ≥ s.reliableOffset && s.retransQ.isEmpty)) then (s, {})
  else
    let viaRetrans : Option (State × PopOut) :=
      if !s.retransQ.isEmpty then
        let (s', f, more) := maybeGetRetransmission s maxBytes
        if f.isSome || more then some (s', { frame := f, hasMore := true }) else none
      else none
    match viaRetrans with
    | some r => r
    | none =>
      if s.dataForWriting.isEmpty && s.nextFrame.isNone then
        if s.finishedWriting && !s.finSent then
          ({ s with finSent := true },
           { frame := some { offset := s.writeOffset, data := [], fin := true, dataLenPresent := true } })
        else (s, {})
      else if window = 0 then (s, { hasMore := true })
      else
        let ro := s.reliableOffset
        let maxDataLen := if s.resetErr.isSome && ro > 0 then min window (ro - s.writeOffset) else window
        match popNewStreamFrame s maxBytes maxDataLen with
        | (s, none, more) => (s, { hasMore := more })
        | (s, some f, more) =>
          let s := { s with writeOffset := s.writeOffset + f.data.length }
          let more := if s.resetErr.isSome && s.writeOffset ≥ ro then false else more
          let blocked := if f.data.length == maxDataLen && newlyBlocked then some s.writeOffset else none
          -- no FIN once the stream is being reset: it ends with RESET_STREAM(_AT), not cleanly (a7958da)
          let fin := s.finishedWriting && s.dataForWriting.isEmpty && s.nextFrame.isNone && !s.finSent && s.resetErr.isNone
          let s := if fin then { s with finSent := true } else s
          (s, { frame := some { f with fin := fin }, blocked := blocked, hasMore := more })

/-- `popStreamFrame` (+ ghost bookkeeping of what was handed to the packer) -/
def pop (s : State) (maxBytes window : Nat) (newlyBlocked : Bool) : State × PopOut :=
  let (s, out) := popInner s maxBytes window newlyBlocked
  match out.frame with
  | none => (s, out)
  | some f =>
    ({ s with numOutstanding := s.numOutstanding + 1,
              outstanding := s.outstanding ++ [(s.emitted.length, f)],
              emitted := s.emitted ++ [f] }, out)

def lookupOutstanding (s : State) (i : Nat) : Option Frame :=
  (s.outstanding.find? (fun e => e.1 == i)).map (·.2)

def removeOutstanding (s : State) (i : Nat) : List (Nat × Frame) :=
  s.outstanding.eraseP (fun e => e.1 == i)

inductive AckRes where
  | skip        -- not an outstanding frame (the ackhandler reports each frame at most once: C06)
  | ok
  | panic       -- "numOutStandingFrames negative" (the mutex stays locked)
deriving Repr, DecidableEq, Inhabited

/-- `sendStreamAckHandler.OnAcked` for the outstanding frame with emission index `i` -/
def acked (s : State) (i : Nat) : State × Ev × AckRes :=
  match lookupOutstanding s i with
  | none => (s, {}, .skip)
  | some f =>
    let s := { s with outstanding := removeOutstanding s i,
                      ackedRanges := (f.offset, f.offset + f.data.length) :: s.ackedRanges,
                      ackedFin := s.ackedFin || f.fin }
    if s.resetErr.isSome && s.reliableOffset == 0 then (s, {}, .ok)
    else
      let s := { s with numOutstanding := s.numOutstanding - 1 }
      if s.numOutstanding < 0 then ({ s with dead := true }, {}, .panic)
      else
        let r := isNewlyCompleted s
        (r.1, evDone r.2, .ok)

/-- `sendStreamAckHandler.OnLost` -/
def lost (s : State) (i : Nat) : State × Ev × AckRes :=
  match lookupOutstanding s i with
  | none => (s, {}, .skip)
  | some f =>
    let s := { s with outstanding := removeOutstanding s i }
    if s.resetErr.isSome && s.reliableOffset == 0 then (s, {}, .ok)
    else
      let s := { s with numOutstanding := s.numOutstanding - 1 }
      if s.numOutstanding < 0 then ({ s with dead := true }, {}, .panic)
      else
        let ro := s.reliableOffset
        if s.resetErr.isSome && ro > 0 && f.offset ≥ ro then
          let r := isNewlyCompleted s
          (r.1, evDone r.2, .ok)
        else
          let f := if s.resetErr.isSome && ro > 0 && f.offset + f.data.length > ro
                   then { f with data := f.data.take (ro - f.offset), fin := false } else f
          let f := { f with dataLenPresent := true }
          ({ s with retransQ := s.retransQ ++ [f] }, { hasData := 1 }, .ok)

/-- `CancelWrite` with a reliable offset: the part of a frame beyond `ro` is dropped -/
def trimFrame (ro : Nat) (f : Frame) : Option Frame :=
  if f.offset ≥ ro then none
  else if f.offset + f.data.length > ro then some { f with data := f.data.take (ro - f.offset) }
  else some f

/-- the same for a frame queued for retransmission: a frame that is cut no longer ends at the final size,
    so it loses its FIN (the stream ends with RESET_STREAM_AT) -/
def trimFrameQ (ro : Nat) (f : Frame) : Option Frame :=
  if f.offset ≥ ro then none
  else if f.offset + f.data.length > ro then some { f with data := f.data.take (ro - f.offset), fin := false }
  else some f

/-- `CancelWrite` -/
def cancelWrite (s : State) (code : Nat) : State × Ev :=
  if s.shutdown then (s, {})
  else if s.resetErr.isSome then
    let r := isNewlyCompleted { s with cancellationFlagged := true }
    (r.1, evDone r.2)
  else
    let ro := s.reliableOffset
    -- ro == 0: numOutstandingFrames = 0 and returnFramesToPool(); ro > 0: trim nextFrame and the queue
    ({ s with cancellationFlagged := true,
              resetErr := some (code, false),
              numOutstanding := if ro == 0 then 0 else s.numOutstanding,
              retransQ := if ro == 0 then [] else s.retransQ.filterMap (trimFrameQ ro),
              nextFrame := if ro == 0 then none else s.nextFrame.bind (trimFrame ro),
              queuedReset := some { finalSize := max s.writeOffset ro, code := code, reliableSize := ro },
              signal := true },
     { hasCtrl := 1 })

/-- `handleStopSendingFrame` -/
def stopSending (s : State) (code : Nat) : State × Ev :=
  if s.shutdown then (s, {})
  else if s.resetErr.isSome && s.reliableOffset == 0 then (s, {})
  else
    let err : Nat × Bool := match s.resetErr with | some e => e | none => (code, true)
    ({ s with reliableSize := 0, numOutstanding := 0, retransQ := [], nextFrame := none,
              resetErr := some err,
              queuedReset := some { finalSize := s.writeOffset, code := err.1, reliableSize := 0 },
              signal := true },
     { hasCtrl := 1 })

/-- `getControlFrame` -/
def getControlFrame (s : State) : State × Option ResetFrame :=
  match s.queuedReset with
  | none => (s, none)
  | some f => ({ s with numOutstanding := s.numOutstanding + 1, queuedReset := none }, some f)

/-- `sendStreamResetStreamHandler.OnAcked` -/
def resetAcked (s : State) (f : ResetFrame) : State × Ev × AckRes :=
  if f.reliableSize != s.reliableOffset then (s, {}, .ok)
  else
    let s := { s with numOutstanding := s.numOutstanding - 1 }
    if s.numOutstanding < 0 then ({ s with dead := true }, {}, .panic)
    else
      let r := isNewlyCompleted s
      (r.1, evDone r.2, .ok)

/-- `sendStreamResetStreamHandler.OnLost` -/
def resetLost (s : State) (f : ResetFrame) : State × Ev :=
  if f.reliableSize != s.reliableOffset then (s, {})
  else ({ s with queuedReset := some f, numOutstanding := s.numOutstanding - 1 }, { hasCtrl := 1 })

/-- `closeForShutdown` -/
def shutdownStep (s : State) : State :=
  if !s.shutdown && !s.finishedWriting then
    { s with shutdown := true, retransQ := [], nextFrame := none, signal := true }
  else { s with signal := true }

end Uquic.Model.Stream.Send
