/-
Model of `datagramQueue` (/repo/datagram_queue.go). Core-only.

Receive side: `HandleDatagramFrame` copies the payload and appends it unless `maxDatagramRcvQueueLen`
are queued (then the frame is dropped); `Receive` pops the head or parks. Send side: `Add` appends unless
`maxDatagramSendQueueLen` are queued (then it parks until `Pop`), `Peek`/`Pop` are the packer's side.
A parked `Receive`/`Add` is a `pending…` flag that the next step resolves (`settle`), which is what the Go
goroutine does once `rcvd`/`sent`/`closed` fires. `handed`/`returned` are ghost.
-/
import Uquic.Generated.Stream

namespace Uquic.Model.Stream.Dgram

abbrev Bytes := List UInt8

def rcvCap : Nat := Uquic.Gen.Stream.maxDatagramRcvQueueLen.toNat
def sendCap : Nat := Uquic.Gen.Stream.maxDatagramSendQueueLen.toNat

structure State where
  rcvQueue : List Bytes := []
  sendQueue : List Bytes := []
  closed : Bool := false
  pendingRecv : Bool := false
  pendingAdd : Option Bytes := none
  -- ghost
  handed : List Bytes := []       -- payloads of all DATAGRAM frames given to HandleDatagramFrame, in order
  returned : List Bytes := []     -- payloads returned by Receive, in order
deriving Repr, Inhabited

inductive RecvRes where
  | skip | data (b : Bytes) | closedErr | blocked
deriving Repr, DecidableEq, Inhabited

/-- `HandleDatagramFrame` -/
def handle (s : State) (p : Bytes) : State :=
  let s := { s with handed := s.handed ++ [p] }
  if s.rcvQueue.length < rcvCap then { s with rcvQueue := s.rcvQueue ++ [p] } else s

/-- one pass of the loop in `Receive` -/
def recvIter (s : State) : State × RecvRes :=
  match s.rcvQueue with
  | d :: rest => ({ s with rcvQueue := rest, returned := s.returned ++ [d], pendingRecv := false }, .data d)
  | [] => if s.closed then ({ s with pendingRecv := false }, .closedErr) else ({ s with pendingRecv := true }, .blocked)

/-- `Receive` (a second concurrent call is not issued by the harness) -/
def recv (s : State) : State × RecvRes :=
  if s.pendingRecv then (s, .skip) else recvIter s

/-- `CloseWithError` -/
def close (s : State) : State := { s with closed := true }

inductive AddRes where
  | skip | ok | closedErr | blocked
deriving Repr, DecidableEq, Inhabited

/-- one pass of the loop in `Add`: a closed queue reports the close error before looking at the length -/
def addIter (s : State) (p : Bytes) : State × AddRes × Nat :=
  if s.closed then ({ s with pendingAdd := none }, .closedErr, 0)
  else if s.sendQueue.length < sendCap then ({ s with sendQueue := s.sendQueue ++ [p], pendingAdd := none }, .ok, 1)
  else ({ s with pendingAdd := some p }, .blocked, 0)

/-- `Add`; the Nat counts `hasData` callbacks -/
def add (s : State) (p : Bytes) : State × AddRes × Nat :=
  if s.pendingAdd.isSome then (s, .skip, 0) else addIter s p

def peek (s : State) : Option Bytes := s.sendQueue.head?

/-- `Pop`: `none` = the ring buffer panics on an empty queue -/
def pop (s : State) : Option State :=
  match s.sendQueue with
  | [] => none
  | _ :: rest => some { s with sendQueue := rest }

/-- parked calls re-run their loop after every step (they are woken by `rcvd` / `sent` / `closed`) -/
def settle (s : State) : State × Option RecvRes × Option (AddRes × Nat) :=
  let (s, r) := if s.pendingRecv then (let (s', r) := recvIter s; (s', some r)) else (s, none)
  match s.pendingAdd with
  | some p => let (s', a, n) := addIter s p; (s', r, some (a, n))
  | none => (s, r, none)

end Uquic.Model.Stream.Dgram
