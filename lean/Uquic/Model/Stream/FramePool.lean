/-
Model of the STREAM frame pool (internal/wire/pool.go: `sync.Pool` of `*StreamFrame` with a full-size buffer,
`GetStreamFrame`, `StreamFrame.PutBack`) together with its USERS, for property C01.

A frame object is a buffer id. `free` is what `sync.Pool` holds (Go does not say which element `Get` returns, so
`get` names the element it gets, `pick`); an empty pool makes a new object (`pool.New`, id `next`). A *holder* is
whoever was handed the object: a popped STREAM frame owned by the packer / ack handler until it is acknowledged or
lost, a parsed frame owned by the receive stream's frame sorter until its bytes were read or superseded, the
SendStream's `nextFrame`, a retransmission-queue entry. `mem` is the content of each buffer.

`put` and `write` do what the Go code does whether or not the caller is entitled to (`sync.Pool.Put` does not
check anything): the Bool returned by `step` says whether the op was *disciplined* —

  * `put h b`     only by a holder that currently holds `b` (an object handed back to the pool is never handed
                   back again), after which `h` no longer holds it;
  * `write h b`   only by a holder that currently holds `b` (… and never used again).

The monitor `pool_release_once` / `pool_exclusive` of the sstream / spair oracle replays the hand-outs and releases
observed on the real code through `step` and fails when the Bool is false. Props/C01Pool proves what discipline
buys: exclusive ownership and stable contents. Core-only.
-/
namespace Uquic.Model.Stream.FramePool

structure Pool where
  /-- objects in the pool -/
  free : List Nat := []
  /-- the id `pool.New` gives to the next new object -/
  next : Nat := 0
  /-- (holder, object) -/
  held : List (Nat × Nat) := []
  /-- buffer contents -/
  mem : Nat → List Nat := fun _ => []

instance : Inhabited Pool := ⟨{}⟩

inductive Op where
  /-- holder `h` calls `GetStreamFrame()`; the pool hands out the object `pick` if it has it, otherwise any other one
      (the first), or a new object when it is empty -/
  | get (h pick : Nat)
  /-- holder `h` calls `PutBack()` on object `b` -/
  | put (h b : Nat)
  /-- holder `h` stores `data` in the buffer of object `b` -/
  | write (h b : Nat) (data : List Nat)

def holds (p : Pool) (h b : Nat) : Bool := p.held.contains (h, b)

/-- the object most recently handed to `h` that it still holds -/
def bufOf (p : Pool) (h : Nat) : Option Nat := (p.held.find? (fun x => x.1 == h)).map (·.2)

def Pool.step (p : Pool) : Op → Pool × Bool
  | .get h pick =>
    match p.free with
    | [] => ({ p with next := p.next + 1, held := (h, p.next) :: p.held }, true)
    | f :: fs =>
      let b := if pick ∈ f :: fs then pick else f
      ({ p with free := (f :: fs).erase b, held := (h, b) :: p.held }, true)
  | .put h b => ({ p with free := b :: p.free, held := p.held.erase (h, b) }, holds p h b)
  | .write h b data => ({ p with mem := fun x => if x = b then data else p.mem x }, holds p h b)

/-- run a history; the Bool is "every op was disciplined" -/
def Pool.run (p : Pool) : List Op → Pool × Bool
  | [] => (p, true)
  | op :: ops =>
    let r := p.step op
    let r' := r.1.run ops
    (r'.1, r.2 && r'.2)

end Uquic.Model.Stream.FramePool
