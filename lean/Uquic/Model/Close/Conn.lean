/-
Model of the connection-close logic of /repo/connection.go (property C17):
`setCloseError` (compare-and-swap, first cause wins), `closeLocal` / `destroyImpl`,
the classification switch and the CONNECTION_CLOSE decision of `handleCloseError`,
`sendConnectionClose`, the tail of `run`, and closed_conn.go's stand-in handlers.

An error value is represented by what the Go predicates say about it (`Err`): the
switch of `handleCloseError` only ever asks `errors.Is` / `errors.As` questions, and the
model asks the same questions in the same order (the order is regenerated from the source
as `Uquic.Gen.Close.closeSwitchOrder` and pinned in `switchOrder_matches`).
-/
import Uquic.Generated.Close

namespace Uquic.Model.Close

def internalError : Nat := Uquic.Gen.Close.InternalError.toNat
def applicationErrorErrorCode : Nat := Uquic.Gen.Close.ApplicationErrorErrorCode.toNat

/-- What `errors.Is` / `errors.As` report about a Go error value. `id` stands for the identity of the
    value (pointer, message). `asApp` / `asTr` carry (ErrorCode, Remote). -/
structure Err where
  id : Nat := 0
  isIdle : Bool := false        -- errors.Is(e, qerr.ErrIdleTimeout)
  isHsTimeout : Bool := false   -- errors.Is(e, qerr.ErrHandshakeTimeout)
  asReset : Bool := false       -- errors.As(e, *StatelessResetError)
  asVN : Bool := false          -- errors.As(e, *VersionNegotiationError)
  asRecreate : Bool := false    -- errors.As(e, *errCloseForRecreating)
  asApp : Option (Nat × Bool) := none
  asTr : Option (Nat × Bool) := none
deriving Repr, DecidableEq

/-- `closeError{err, immediate}`; `err = none` is Go's nil (only `destroy(nil)` in doDial). -/
structure CloseError where
  err : Option Err
  immediate : Bool
deriving Repr, DecidableEq

/-- the error value handed to streams, datagram queue, context -/
inductive Cause
  | orig (e : Err)       -- the very error value of the close request
  | internal (e : Err)   -- a fresh local TransportError{INTERNAL_ERROR, msg = e.Error()}
  | appZero              -- a fresh &ApplicationError{} (nil close error)
deriving Repr, DecidableEq

/-! ### setCloseError / closeLocal / destroyImpl -/

structure CloseState where
  closeErr : Option CloseError := none   -- atomic.Pointer[closeError]
  closeChan : Bool := false              -- chan struct{} of capacity 1
deriving Repr, DecidableEq

/-- `c.closeErr.CompareAndSwap(nil, e)`; then a non-blocking send on closeChan -/
def CloseState.setCloseError (s : CloseState) (e : CloseError) : CloseState :=
  { closeErr := match s.closeErr with
      | none => some e
      | some c => some c,
    closeChan := true }

def CloseState.closeLocal (s : CloseState) (e : Option Err) : CloseState :=
  s.setCloseError { err := e, immediate := false }

def CloseState.destroyImpl (s : CloseState) (e : Option Err) : CloseState :=
  s.setCloseError { err := e, immediate := true }

/-! ### handleCloseError: classification -/

inductive Trigger | none | idleTimeout | statelessReset | versionMismatch
deriving Repr, DecidableEq

structure Class where
  /-- `e` after the switch: what `streamsMap.CloseWithError` / `datagramQueue.CloseWithError` get -/
  cause : Cause
  isRemote : Bool := false
  trigger : Trigger := .none
  trCode : Option Nat := none
  appCode : Option Nat := none
  /-- `errors.As(e, &recreateErr)` on the final `e` (suppresses the qlog event) -/
  recreate : Bool := false
  /-- `closeErr.err` after the deferred write-back: what `run` returns and `ctxCancel` receives
      (`none` = nil, for which `context.Cause` is `context.Canceled`) -/
  ret : Option Cause
deriving Repr, DecidableEq

/-- labels of the switch clauses in the order the model tests them (see `switchOrder_matches`) -/
def modelSwitchOrder : List String :=
  ["errors.Is(e,qerr.ErrIdleTimeout)|errors.Is(e,qerr.ErrHandshakeTimeout)",
   "errors.As(e,&statelessResetErr)", "errors.As(e,&versionNegotiationErr)",
   "errors.As(e,&recreateErr)", "errors.As(e,&applicationErr)", "errors.As(e,&transportErr)",
   "closeErr.immediate", "default"]

def classify (ce : CloseError) : Class :=
  match ce.err with
  | none =>
    -- e = &qerr.ApplicationError{}; no write-back; the switch then takes the application case
    { cause := .appZero, appCode := some 0, ret := none }
  | some e =>
    if e.isIdle || e.isHsTimeout then
      { cause := .orig e, trigger := .idleTimeout, recreate := e.asRecreate, ret := some (.orig e) }
    else if e.asReset then
      { cause := .orig e, trigger := .statelessReset, recreate := e.asRecreate, ret := some (.orig e) }
    else if e.asVN then
      { cause := .orig e, trigger := .versionMismatch, recreate := e.asRecreate, ret := some (.orig e) }
    else if e.asRecreate then
      { cause := .orig e, recreate := true, ret := some (.orig e) }
    else match e.asApp with
      | some (code, remote) =>
        { cause := .orig e, isRemote := remote, appCode := some code, ret := some (.orig e) }
      | none => match e.asTr with
        | some (code, remote) =>
          { cause := .orig e, isRemote := remote, trCode := some code, ret := some (.orig e) }
        | none =>
          if ce.immediate then { cause := .orig e, ret := some (.orig e) }
          else { cause := .internal e, trCode := some internalError, ret := some (.internal e) }

/-! ### CONNECTION_CLOSE decision and sendConnectionClose -/

inductive Perspective | client | server
deriving Repr, DecidableEq

/-- the frame handed to the packer by `sendConnectionClose` -/
structure CCFrame where
  isApp : Bool
  code : Nat
  /-- the "connection BUG: unspecified error type" branch -/
  bug : Bool := false
deriving Repr, DecidableEq

/-- `sendConnectionClose(e)`: transport error first, then application error, else INTERNAL_ERROR -/
def ccFrameOf : Cause → CCFrame
  | .orig e => match e.asTr with
    | some (code, _) => { isApp := false, code := code }
    | none => match e.asApp with
      | some (code, _) => { isApp := true, code := code }
      | none => { isApp := false, code := internalError, bug := true }
  | .internal _ => { isApp := false, code := internalError }
  | .appZero => { isApp := true, code := 0 }

/-- packet_packer.go packConnectionClose: application errors are not sent in Initial/Handshake
    packets; there the frame becomes transport APPLICATION_ERROR with an empty reason. -/
def CCFrame.onWire (f : CCFrame) (oneRTT : Bool) : Bool × Nat :=
  if f.isApp && !oneRTT then (false, applicationErrorErrorCode) else (f.isApp, f.code)

inductive Routing
  | replaceRemote              -- connIDGenerator.ReplaceWithClosed(nil, 3·PTO)  → closedRemoteConn
  | removeAll                  -- connIDGenerator.RemoveAll()
  | sendAndReplace (f : CCFrame)  -- sendConnectionClose(e); ReplaceWithClosed(packet, 3·PTO) → closedLocalConn
deriving Repr, DecidableEq

def routingOf (persp : Perspective) (sentFirstPacket : Bool) (ce : CloseError) : Routing :=
  let cl := classify ce
  if cl.isRemote then .replaceRemote
  else if ce.immediate then .removeAll
  else if persp == .client && !sentFirstPacket then .removeAll
  else .sendAndReplace (ccFrameOf cl.cause)

/-- is a CONNECTION_CLOSE put on the wire, and which -/
def Routing.sent : Routing → Option CCFrame
  | .sendAndReplace f => some f
  | _ => none

/-! ### effects of handleCloseError and of the tail of run, in program order -/

inductive Effect
  | cryptoClose
  | sendQueueClose
  | streamsClose (c : Cause)        -- outgoing bidi, outgoing uni, incoming bidi, incoming uni
  | datagramClose (c : Cause)
  | qlogClosed (remote : Bool) (tr : Option Nat) (app : Option Nat) (trig : Trigger)
  | routing (r : Routing)
  | connIDManagerClose              -- deferred: removes the active stateless-reset token, last
  | qlogClose
  | timerStop
  | ctxCancel (c : Option Cause)    -- deferred in run: c.ctxCancel(err)
deriving Repr, DecidableEq

structure Env where
  persp : Perspective
  sentFirstPacket : Bool
  hasQlog : Bool := true
  hasDatagramQueue : Bool := true

def handleCloseError (env : Env) (ce : CloseError) : List Effect :=
  let cl := classify ce
  [.streamsClose cl.cause]
  ++ (if env.hasDatagramQueue then [.datagramClose cl.cause] else [])
  ++ (if env.hasQlog && !cl.recreate then [.qlogClosed cl.isRemote cl.trCode cl.appCode cl.trigger] else [])
  ++ [.routing (routingOf env.persp env.sentFirstPacket ce)]
  ++ [.connIDManagerClose]

/-- `errors.As(closeErr.err, &errCloseForRecreating)` (false for nil) -/
def CloseError.isRecreate (ce : CloseError) : Bool :=
  match ce.err with
  | some e => e.asRecreate
  | none => false

/-- statements after `runLoop:` in `Conn.run` plus the deferred `ctxCancel` -/
def runTail (env : Env) (ce : CloseError) : List Effect :=
  let cl := classify ce
  [.cryptoClose, .sendQueueClose]
  ++ handleCloseError env ce
  ++ (if env.hasQlog && !ce.isRecreate then [.qlogClose] else [])
  ++ [.timerStop, .ctxCancel cl.ret]

/-! ### closed_conn.go -/

/-- number of one bits (math/bits.OnesCount32 on values < 2^32) -/
def onesCount : Nat → Nat
  | 0 => 0
  | n + 1 => (n + 1) % 2 + onesCount ((n + 1) / 2)
decreasing_by omega

inductive StandIn
  | closedLocal (counter : Nat)   -- closedLocalConn{counter atomic.Uint32}
  | closedRemote                  -- closedRemoteConn
deriving Repr, DecidableEq

def standInOf : Routing → Option StandIn
  | .replaceRemote => some .closedRemote
  | .removeAll => none
  | .sendAndReplace _ => some (.closedLocal 0)

/-- `handlePacket`: returns the new state and whether the CONNECTION_CLOSE packet is retransmitted -/
def StandIn.handlePacket : StandIn → StandIn × Bool
  | .closedRemote => (.closedRemote, false)
  | .closedLocal c =>
    let n := (c + 1) % 4294967296
    (.closedLocal n, onesCount n == 1)

/-- feed `k` packets, count the replies -/
def StandIn.feed : StandIn → Nat → StandIn × Nat
  | s, 0 => (s, 0)
  | s, k + 1 =>
    let (s', r) := s.handlePacket
    let (s'', n) := s'.feed k
    (s'', n + (if r then 1 else 0))

end Uquic.Model.Close
