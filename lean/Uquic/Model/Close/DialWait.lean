/-
The inner select of doDial's cancellation clause, generalised over WHICH of the goroutine's two completion
channels it receives from (property C17). `Uquic.Model.Dial.step` is the instance "both"; the set is read off the
statement shape regenerated from transport.go / u_transport.go (`innerOf`).

    go func() {
        err := conn.run()
        if errors.As(err, &recreateErr) { recreateChan <- *recreateErr; return }   -- the FIRST recorded close error decides
        errChan <- err
    }()
    select {
    case <-ctx.Done():
        conn.destroy(nil)           -- loses the compare-and-swap when a close error is already recorded
        select { case <-errChan: case <-recreateChan: }
-/
import Uquic.Model.Close.Dial

namespace Uquic.Model.Dial

/-- the channels the cancellation clause waits on after `conn.destroy(nil)` -/
structure InnerSel where
  errChan : Bool
  recreateChan : Bool
deriving Repr, DecidableEq

/-- read off the regenerated statement list of the clause (`select:<chan>,<chan>` entry) -/
def innerOf (shape : List String) : InnerSel :=
  if shape.contains "select:<-errChan,<-recreateChan" || shape.contains "select:<-recreateChan,<-errChan" then ⟨true, true⟩
  else if shape.contains "select:<-errChan" then ⟨true, false⟩
  else if shape.contains "select:<-recreateChan" then ⟨false, true⟩
  else ⟨false, false⟩

/-- does the inner select have a case for the channel the goroutine reported on? -/
def InnerSel.covers (w : InnerSel) (s : St) : Bool := if s.signalIsRecreate then w.recreateChan else w.errChan

/-- `step` with the inner select restricted to `w` -/
def stepW (w : InnerSel) (s : St) : Ev → St
  | .dialStep pick =>
    match s.pc with
    | .waiting => if s.signalled && !s.signalTaken && w.covers s then { s with pc := .returned .cancelled, signalTaken := true } else s
    | _ => step s (.dialStep pick)
  | e => step s e

def runW (w : InnerSel) (s : St) : List Ev → St
  | [] => s
  | e :: es => runW w (stepW w s e) es

end Uquic.Model.Dial
