/-
Cancellation causes of Go contexts, as far as "the connection context is cancelled with that cause" (property
C17) needs them, and the wiring of a server connection's context when Transport.ConnContext is set (server.go):

    ctx, cancel1 := context.WithCancelCause(context.Background())
    ctx, err = s.connContext(ctx, clientInfo)          -- ANY context: derived from the one passed in, or not
    ctx, cancel2 = context.WithCancelCause(ctx)        -- the connection's own context (Conn.Context())
    cancel = func(cause error) { cancel1(cause); cancel2(cause) }

A context is represented by the chain of cancelable contexts above it (itself included when it is cancelable);
`cancel id c` records `c` on every context below `id` that is not cancelled yet - the first cancellation wins,
descendants inherit the cause, a plain CancelFunc records context.Canceled.
-/
namespace Uquic.Model.Close.Ctx

inductive Cause
  | canceled          -- context.Canceled
  | err (n : Nat)     -- the recorded close error
deriving DecidableEq, Repr

structure Node where
  chain : List Nat
  cause : Option Cause := none
deriving DecidableEq, Repr

abbrev Forest := List Node

def cancelNode (id : Nat) (c : Cause) (n : Node) : Node :=
  if n.cause.isNone && n.chain.contains id then { n with cause := some c } else n

def cancel (f : Forest) (id : Nat) (c : Cause) : Forest := f.map (cancelNode id c)

/-- how the composed cancel function treats the connection's own context -/
structure Wiring where
  /-- the own context is made by WithCancelCause AND its cancel function is handed the cause -/
  secondWithCause : Bool
deriving DecidableEq, Repr

/-- read off the regenerated facts: no plain WithCancel / WithTimeout / WithDeadline among the constructors, and
    every call inside the composed cancel function passes its parameter on -/
def wiringOf (constructors cancelArgs : List String) : Wiring :=
  ⟨constructors.all (· == "WithCancelCause") && cancelArgs.all (· == "cause") && !cancelArgs.isEmpty⟩

/-- id 1: the context the server creates first, id 2: the connection's own context -/
def connCancel (w : Wiring) (f : Forest) (c : Cause) : Forest :=
  cancel (cancel f 1 c) 2 (if w.secondWithCause then c else .canceled)

/-- the three contexts of handleInitialImpl; `u` is the chain of what ConnContext returned (contains 1 iff it is
    derived from the context it was given) -/
def connCtx (u : List Nat) : Forest := [⟨[1], none⟩, ⟨u, none⟩, ⟨2 :: u, none⟩]

def causeOf (f : Forest) (i : Nat) : Option Cause := (f[i]?).bind (·.cause)

end Uquic.Model.Close.Ctx
