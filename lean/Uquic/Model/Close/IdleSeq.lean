/-
Keep-alive / idle bookkeeping of /repo/connection.go across SEQUENCES of packets received and sent
(property C17): `handleUnpackedShortHeaderPacket` (the three resets), `registerPackedShortHeaderPacket` (which
packets restart the idle window: ack-eliciting ones that are NOT path probe packets), and the deadlines
`nextKeepAliveTime` / `nextIdleTimeoutTime` read after every event. Driven on a real Conn by the closeu op `kaseq`.

A path probe packet (`IsPathProbePacket`: PATH_CHALLENGE sent on a path that is being probed) is ack-eliciting but
is neither retransmitted on the active path nor does an answer to it have to arrive: it must not be taken for
"an ack-eliciting packet is in flight on this connection", so it leaves the idle bookkeeping alone.
-/
import Uquic.Model.Close.Idle

namespace Uquic.Model.Idle

/-- `registerPackedShortHeaderPacket`, idle part: a 1-RTT packet was registered as sent at `t`.
    `ae`: it carries STREAM frames or ack-eliciting control frames; `probe`: `IsPathProbePacket`. -/
def St.onShortSent (s : St) (ae probe : Bool) (t : Int) : St :=
  if probe then s else if ae then s.onAckElicitingSent t else s

inductive SeqEv
  | recv (t : Int)                    -- a 1-RTT packet is received and processed at `t` (ack-eliciting or not)
  | sent (ae probe : Bool) (t : Int)  -- a 1-RTT packet is registered as sent at `t`
deriving Repr, DecidableEq

def SeqEv.isSent : SeqEv → Bool
  | .sent .. => true
  | .recv _ => false

def St.applyEv (s : St) : SeqEv → St
  | .recv t => s.onPacketReceived t
  | .sent ae probe t => s.onShortSent ae probe t

def St.runEvs (s : St) : List SeqEv → St
  | [] => s
  | e :: es => (s.applyEv e).runEvs es

end Uquic.Model.Idle
