/-
Step model of the `select` at the end of `Transport.doDial` / `UTransport.doDial` (property C17) and of
the goroutine it starts (`err := conn.run(); … errChan <- err` or `recreateChan <- …`).

    select {
    case <-ctx.Done():
        conn.destroy(nil)        // destroyImpl(nil); <-c.ctx.Done()
        select {                 // wait until the goroutine that called Conn.run() returns
        case <-errChan:
        case <-recreateChan:
        }
        return nil, context.Cause(ctx)
    case params := <-recreateChan: return t.doDial(…)
    case err := <-errChan:         return nil, err
    case <-earlyConnChan:          return conn, nil
    case <-conn.HandshakeComplete(): return conn, nil
    }

The statements of the cancellation clause are regenerated from the source (`Uquic.Gen.Close.doDialCancelShape`)
and pinned against `cancelShape` below.
-/
import Uquic.Generated.Close

namespace Uquic.Model.Dial

/-- what the model assumes the `case <-ctx.Done():` clause consists of -/
def cancelShape : List String :=
  ["call:conn.destroy(nil)", "select:<-errChan,<-recreateChan", "return:nil,context.Cause(ctx)"]

inductive Ret
  | cancelled        -- nil, context.Cause(ctx)
  | runError         -- nil, err   (the run loop ended by itself)
  | recreate         -- recursive doDial
  | conn             -- the connection (handshake complete / 0-RTT ready)
deriving Repr, DecidableEq

inductive Pc
  | selecting        -- at the outer select
  | destroying       -- inside conn.destroy(nil), after destroyImpl, waiting on <-c.ctx.Done()
  | waiting          -- at the inner select
  | returned (r : Ret)
deriving Repr, DecidableEq

structure St where
  pc : Pc := .selecting
  ctxDone : Bool := false          -- the dial context was cancelled
  closeRequested : Bool := false   -- destroyImpl(nil) recorded a close error / signalled closeChan
  runReturned : Bool := false      -- Conn.run returned: its deferred ctxCancel ran (conn context done)
  /-- the goroutine's send on errChan / recreateChan happened (both buffered, capacity 1) -/
  signalled : Bool := false
  signalIsRecreate : Bool := false
  signalTaken : Bool := false      -- doDial received it
  hsComplete : Bool := false
deriving Repr, DecidableEq

inductive Ev
  | cancel                          -- ctx is cancelled by the caller
  | handshakeCompletes
  | runReturns (recreate : Bool)    -- the run loop ends (by itself, or because a close was requested)
  | goroutineSignals                -- errChan <- err  /  recreateChan <- *recreateErr
  /-- doDial takes one step; `pick` resolves Go's pseudo-random choice among ready select cases -/
  | dialStep (pick : Nat)
deriving Repr, DecidableEq

/-- ready cases of the outer select, in source order -/
def readyOuter (s : St) : List Ret :=
  (if s.ctxDone then [.cancelled] else [])
  ++ (if s.signalled && !s.signalTaken && s.signalIsRecreate then [.recreate] else [])
  ++ (if s.signalled && !s.signalTaken && !s.signalIsRecreate then [.runError] else [])
  ++ (if s.hsComplete then [.conn] else [])

def step (s : St) : Ev → St
  | .cancel => { s with ctxDone := true }
  | .handshakeCompletes => if s.runReturned then s else { s with hsComplete := true }
  | .runReturns rc => if s.runReturned then s else { s with runReturned := true, signalIsRecreate := rc }
  | .goroutineSignals => if s.runReturned && !s.signalled then { s with signalled := true } else s
  | .dialStep pick =>
    match s.pc with
    | .selecting =>
      -- an empty list of ready cases means the select blocks (index `pick % 0 = pick` is out of range)
      match (readyOuter s)[pick % (readyOuter s).length]? with
      | none => s
      | some .cancelled => { s with pc := .destroying, closeRequested := true }
      | some .recreate => { s with pc := .returned .recreate, signalTaken := true }
      | some .runError => { s with pc := .returned .runError, signalTaken := true }
      | some .conn => { s with pc := .returned .conn }
    | .destroying => if s.runReturned then { s with pc := .waiting } else s
    | .waiting => if s.signalled && !s.signalTaken then { s with pc := .returned .cancelled, signalTaken := true } else s
    | .returned _ => s

def run (s : St) : List Ev → St
  | [] => s
  | e :: es => run (step s e) es

end Uquic.Model.Dial
