/-
Model of the idle-timeout / keep-alive deadline arithmetic of /repo/connection.go (property C17):
`idleTimeoutStartTime`, `nextIdleTimeoutTime`, `nextKeepAliveTime`, the keep-alive / handshake-timeout /
idle-timeout checks in the run loop, `maybeResetTimer`, `applyTransportParameters` (idle part), and the
resets on packet receipt / first ack-eliciting packet sent.

Times and durations are `Int` nanoseconds (Go int64; monotime `0` = unset, exactly as `IsZero`).
`pto` is `rttStats.PTO(true)`, an environment input (≥ 0 in Go).
-/
import Uquic.Generated.Protocol

namespace Uquic.Model.Idle

structure St where
  lastPacketReceivedTime : Int
  /-- firstAckElicitingPacketAfterIdleSentTime; 0 = unset -/
  firstAESent : Int := 0
  idleTimeout : Int
  handshakeComplete : Bool := true
  /-- config.KeepAlivePeriod (0 = keep-alives off) -/
  keepAlivePeriod : Int := 0
  keepAliveInterval : Int := 0
  keepAlivePingSent : Bool := false
  creationTime : Int := 0
  /-- config.HandshakeIdleTimeout; config.handshakeTimeout() is twice that -/
  handshakeIdleTimeout : Int := 5000000000
deriving Repr, DecidableEq

def St.handshakeTimeout (s : St) : Int := 2 * s.handshakeIdleTimeout

/-- `idleTimeoutStartTime` -/
def St.idleStart (s : St) : Int :=
  if s.firstAESent ≠ 0 ∧ s.firstAESent > s.lastPacketReceivedTime then s.firstAESent
  else s.lastPacketReceivedTime

/-- `max(c.idleTimeout, PTO*3)` -/
def St.idlePeriod (s : St) (pto : Int) : Int := max s.idleTimeout (pto * 3)

/-- `nextIdleTimeoutTime` -/
def St.nextIdle (s : St) (pto : Int) : Int := s.idleStart + s.idlePeriod pto

/-- `nextKeepAliveTime`; 0 = no keep-alive is to be sent -/
def St.nextKeepAlive (s : St) (pto : Int) : Int :=
  if s.keepAlivePeriod = 0 ∨ s.keepAlivePingSent then 0
  else s.lastPacketReceivedTime + max s.keepAliveInterval (pto * 3 / 2)

/-- what the checks after the `select` in the run loop decide at time `now` -/
inductive LoopOut | keepAlivePing | handshakeTimeout | idleTimeout | nothing
deriving Repr, DecidableEq

def St.loopCheck (s : St) (pto now : Int) : LoopOut :=
  let ka := s.nextKeepAlive pto
  if ka ≠ 0 ∧ ¬ now < ka then .keepAlivePing
  else if ¬ s.handshakeComplete ∧ now - s.creationTime ≥ s.handshakeTimeout then .handshakeTimeout
  else if (¬ s.handshakeComplete ∧ now - s.idleStart ≥ s.handshakeIdleTimeout) ∨
          (s.handshakeComplete ∧ ¬ now < s.nextIdle pto) then .idleTimeout
  else .nothing

/-- state after the loop acted on `loopCheck` (only the keep-alive branch changes it) -/
def St.afterLoop (s : St) (pto now : Int) : St :=
  match s.loopCheck pto now with
  | .keepAlivePing => { s with keepAlivePingSent := true }
  | _ => s

/-- a packet was received and processed at `t` (handleUnpackedLongHeaderPacket / ShortHeaderPacket) -/
def St.onPacketReceived (s : St) (t : Int) : St :=
  { s with lastPacketReceivedTime := t, firstAESent := 0, keepAlivePingSent := false }

/-- an ack-eliciting packet (control or STREAM frames; both send paths count both) was sent at `t` -/
def St.onAckElicitingSent (s : St) (t : Int) : St :=
  if s.firstAESent = 0 then { s with firstAESent := t } else s

/-- `applyTransportParameters`: idle timeout = min of the two advertised (peer's 0 = none),
    keep-alive interval = min(KeepAlivePeriod, idleTimeout/2) -/
def negotiate (cfgMaxIdle peerMaxIdle keepAlivePeriod : Int) : Int × Int :=
  let idle := if peerMaxIdle > 0 then min cfgMaxIdle peerMaxIdle else cfgMaxIdle
  (idle, min keepAlivePeriod (idle / 2))

def minRemoteIdleTimeout : Int := Uquic.Gen.Protocol.MinRemoteIdleTimeout
def timerGranularity : Int := Uquic.Gen.Protocol.TimerGranularity

/-- wire/transport_parameters.go: a received max_idle_timeout (ms on the wire) is raised to
    `MinRemoteIdleTimeout` before `applyTransportParameters` sees it -/
def peerIdleSeen (wireMs : Int) : Int := max minRemoteIdleTimeout (wireMs * 1000000)

/-- the idle timeout one endpoint ends up with, from its own `MaxIdleTimeout` and the peer's (both ns,
    whole milliseconds) -/
def negotiatedIdle (own peer : Int) : Int := (negotiate own (peerIdleSeen (peer / 1000000)) 0).1

inductive Blocked | none | congestionLimited | hardBlocked
deriving Repr, DecidableEq

/-- the first deadline chosen by `maybeResetTimer` (before alarms are taken into account) -/
def St.baseDeadline (s : St) (pto : Int) (b : Blocked) : Int :=
  if ¬ s.handshakeComplete then
    let d := s.creationTime + s.handshakeTimeout
    let t := s.idleStart + s.handshakeIdleTimeout
    if t < d then t else d
  else if b ≠ .none then s.nextIdle pto
  else
    let ka := s.nextKeepAlive pto
    if ka ≠ 0 then ka else s.nextIdle pto

/-- the deadline `maybeResetTimer` arms the timer with; `ackAlarm`, `lossTimeout`, `pacing`: 0 = unset -/
def St.timerDeadline (s : St) (pto : Int) (b : Blocked) (ackAlarm lossTimeout pacing : Int) : Int :=
  let d := s.baseDeadline pto b
  if b = .hardBlocked then d
  else
    let d := if ackAlarm ≠ 0 ∧ ackAlarm < d then ackAlarm else d
    let d := if lossTimeout ≠ 0 ∧ lossTimeout < d then lossTimeout else d
    if b = .congestionLimited then d
    else if pacing ≠ 0 ∧ pacing < d then pacing else d

end Uquic.Model.Idle
