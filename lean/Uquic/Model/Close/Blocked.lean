/-
Blocked API callers of a connection as call / wake entries (property C17).

Each of Read, Write, AcceptStream, OpenStreamSync, ReceiveDatagram, SendDatagram is modelled minimally:
the call targets one waitable object (`Res`: a receive-stream half, a send-stream half, an incoming
streams map, an outgoing streams map, the datagram receive queue, the datagram send queue), waits until
a unit (data / credit / stream / datagram / queue slot) is available or the object's close error is set,
and re-checks under the object's lock when woken. The ORDER of the two checks is the order of the Go code:

* receive_stream.go readImpl, send_stream.go write, streams_map_incoming.go AcceptStream,
  streams_map_outgoing.go OpenStreamSync and datagram_queue.go Add test the close error FIRST;
* datagram_queue.go Receive tests the queue FIRST (a datagram queued before the close is still returned
  after it).

Every public method of a mutex-protected object is one atomic step (DESIGN.md §6).
-/
import Uquic.Model.Close.Conn

namespace Uquic.Model.Close

inductive CallKind
  | read | write | acceptStream | openStreamSync | receiveDatagram | sendDatagram
deriving Repr, DecidableEq

/-- does the Go function look at the close error before it looks at the resource -/
def CallKind.errFirst : CallKind → Bool
  | .read | .write | .acceptStream | .openStreamSync | .sendDatagram => true
  | .receiveDatagram => false

structure Res where
  closeErr : Option Cause := none
  avail : Nat := 0
deriving Repr, DecidableEq

inductive Ret
  | ok
  | err (c : Cause)
  | pending
deriving Repr, DecidableEq

/-- one pass of the call's loop body under the lock -/
def attempt (k : CallKind) (r : Res) : Res × Ret :=
  if k.errFirst then
    match r.closeErr with
    | some c => (r, .err c)
    | none => if r.avail > 0 then ({ r with avail := r.avail - 1 }, .ok) else (r, .pending)
  else
    if r.avail > 0 then ({ r with avail := r.avail - 1 }, .ok)
    else match r.closeErr with
      | some c => (r, .err c)
      | none => (r, .pending)

structure Waiter where
  id : Nat
  kind : CallKind
  res : Nat
  /-- a wake-up is pending for this waiter (channel signalled or closed) -/
  signalled : Bool := false
deriving Repr, DecidableEq

structure Sys where
  res : List Res
  waiters : List Waiter := []
deriving Repr, DecidableEq

inductive Step
  | call (id : Nat) (k : CallKind) (res : Nat)   -- an API call is made
  | wake (id : Nat)                               -- a signalled waiter runs again
  | supply (res : Nat) (n : Nat)                  -- data / credit / a stream / a datagram / a slot arrives
  | fanout (c : Cause)                            -- streamsMap.CloseWithError(c) + datagramQueue.CloseWithError(c)
deriving Repr, DecidableEq

/-- returns produced by a step: (caller id, result) -/
abbrev Rets := List (Nat × Ret)

def Sys.getRes (s : Sys) (i : Nat) : Res := s.res.getD i {}

def Sys.setRes (s : Sys) (i : Nat) (r : Res) : Sys := { s with res := s.res.set i r }

/-- `closeForShutdown` / `CloseWithError` of every object: record the error (send streams keep an
    earlier shutdown error), then signal every waiter -/
def closeRes (c : Cause) (r : Res) : Res :=
  { r with closeErr := match r.closeErr with | some c0 => some c0 | none => some c }

def Sys.step (s : Sys) : Step → Sys × Rets
  | .call id k i =>
    let (r', out) := attempt k (s.getRes i)
    let s' := s.setRes i r'
    match out with
    | .pending => ({ s' with waiters := s'.waiters ++ [{ id := id, kind := k, res := i }] }, [])
    | o => (s', [(id, o)])
  | .wake id =>
    match s.waiters.find? (fun w => w.id == id && w.signalled) with
    | none => (s, [])
    | some w =>
      let (r', out) := attempt w.kind (s.getRes w.res)
      let s' := s.setRes w.res r'
      match out with
      | .pending =>
        ({ s' with waiters := s'.waiters.map fun x => if x.id == id then { x with signalled := false } else x }, [])
      | o => ({ s' with waiters := s'.waiters.filter fun x => x.id != id }, [(id, o)])
  | .supply i n =>
    let r := s.getRes i
    let s' := s.setRes i { r with avail := r.avail + n }
    ({ s' with waiters := s'.waiters.map fun x => if x.res == i then { x with signalled := true } else x }, [])
  | .fanout c =>
    ({ res := s.res.map (closeRes c),
       waiters := s.waiters.map fun x => { x with signalled := true } }, [])

def Sys.run (s : Sys) : List Step → Sys × Rets
  | [] => (s, [])
  | st :: rest =>
    let (s', o) := s.step st
    let (s'', o') := s'.run rest
    (s'', o ++ o')

end Uquic.Model.Close
