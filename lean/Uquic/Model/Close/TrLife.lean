/-
The life cycle of a Transport's read loop (property C17, round 5): who stops a SINGLE-USE transport
(quic.Listen / ListenAddr / ListenEarly / Dial make one) once nothing is routed through it any more.

    transport.go
      closeServer()                  t.server = nil; if t.isSingleUse { t.closeErr = ErrServerClosed }
                                     if len(t.handlers) == 0 { t.maybeStopListening() }
      maybeStopListening()           if t.isSingleUse && t.closeErr != nil { t.conn.SetReadDeadline(time.Now()) }
      listen()                       a temporary read error with closeErr set ends the loop; `listening` is closed;
                                     a transport that created its socket closes it
      packetHandlerMap.Add           only when the ID is not routed yet
      packetHandlerMap.Remove        delete(h.handlers, id)                       [`removeStops`: see Cfg]
      packetHandlerMap.ReplaceWithClosed  every ID -> one stand-in (a fresh closedLocalConn when there is a packet to
                                     retransmit; THE closedRemoteConn otherwise - a pointer to a zero-size struct,
                                     so all of them compare equal); time.AfterFunc(expiry): delete the IDs that
                                     still map to THIS stand-in, THEN if len(h.handlers) == 0 maybeStop
      Close()                        close(nil) [returns at once when closeErr is already set; otherwise records
                                     the error, closes the server, destroys every routed handler], then closes the
                                     socket it created or sets a read deadline, and waits for the read loop

One event is one call (each runs under the transport mutex) or the passing of time (due timers fire in order).
The driver `closeu` (op `trlife`) runs the same events on a real Transport over a scripted socket.
-/
namespace Uquic.Model.Close.TrLife

inductive Owner
  | live (n : Nat)       -- a connection (object number n)
  | standin (n : Nat)    -- a closedLocalConn (object number n)
  | remote               -- THE closedRemoteConn: a pointer to a zero-size struct, so every `newClosedRemoteConn()` is the
                         -- same handler value as far as `h.handlers[id] == handler` can tell (Go: runtime.zerobase)
deriving DecidableEq, Repr

def Owner.isStandin : Owner → Bool
  | .standin _ => true
  | .remote => true
  | .live _ => false

inductive Ev
  | listen
  | closeListener
  | add (k : Nat)
  | replace (k : Nat) (withPacket : Bool)
  | remove (k : Nat)
  | wait (ms : Int)
  | close
deriving DecidableEq, Repr

def Ev.isRemove : Ev → Bool
  | .remove _ => true
  | _ => false

structure Cfg where
  single : Bool
  created : Bool
  nids : Nat
  expiry : Int
  /-- does packetHandlerMap.Remove stop a drained single-use transport? (regenerated fact
      `Uquic.Gen.CloseTr.removeStopsListening`) -/
  removeStops : Bool
deriving Repr, DecidableEq

structure Timer where
  fireAt : Int
  standin : Owner
  k : Nat
deriving Repr, DecidableEq

structure Tr where
  serverOpen : Bool := false
  closeErr : Bool := false
  /-- routing table: (connection ID, handler object) -/
  handlers : List (Nat × Owner) := []
  timers : List Timer := []
  next : Nat := 0
  now : Int := 0
  /-- the read loop has returned -/
  stopped : Bool := false
  connClosed : Bool := false
  /-- Transport.Close was called -/
  userClosed : Bool := false
deriving Repr, DecidableEq

/-- the connection IDs of connection `k` -/
def idsOf (cfg : Cfg) (k : Nat) : List Nat :=
  if cfg.nids ≥ 2 then [2 * k, 2 * k + 1] else [2 * k]

def maybeStop (cfg : Cfg) (s : Tr) : Tr :=
  if cfg.single && s.closeErr then { s with stopped := true, connClosed := s.connClosed || cfg.created } else s

def stopIfDrained (cfg : Cfg) (s : Tr) : Tr :=
  if s.handlers.isEmpty then maybeStop cfg s else s

def routed (s : Tr) (id : Nat) : Bool := s.handlers.any (·.1 == id)

def addOne (o : Owner) (hs : List (Nat × Owner)) (id : Nat) : List (Nat × Owner) :=
  if hs.any (·.1 == id) then hs else hs ++ [(id, o)]

def setOne (o : Owner) (hs : List (Nat × Owner)) (id : Nat) : List (Nat × Owner) :=
  hs.filter (·.1 != id) ++ [(id, o)]

def dropIds (ids : List Nat) (hs : List (Nat × Owner)) : List (Nat × Owner) :=
  hs.filter (fun e => !ids.contains e.1)

/-- the AfterFunc callback of ReplaceWithClosed: delete own entries, then look whether the table is empty -/
def fire (cfg : Cfg) (s : Tr) (t : Timer) : Tr :=
  stopIfDrained cfg
    { s with handlers := s.handlers.filter (fun e => !((idsOf cfg t.k).contains e.1 && e.2 == t.standin)) }

def fireAll (cfg : Cfg) (s : Tr) : List Timer → Tr
  | [] => s
  | t :: ts => fireAll cfg (fire cfg s t) ts

def doClose (cfg : Cfg) (s : Tr) : Tr :=
  let s1 := if s.closeErr then s
    else { s with closeErr := true, serverOpen := false, handlers := s.handlers.filter (·.2.isStandin) }
  { s1 with stopped := true, connClosed := s1.connClosed || cfg.created, userClosed := true }

/-- the handler ReplaceWithClosed installs: a fresh closedLocalConn when there is a CONNECTION_CLOSE to retransmit -/
def standinFor (s : Tr) (withPacket : Bool) : Owner := if withPacket then .standin s.next else .remote

/-- the event's call returned an error / refused -/
def failed (cfg : Cfg) (s : Tr) : Ev → Bool
  | .listen => s.closeErr || s.serverOpen
  | .add k => (idsOf cfg k).any (routed s)
  | _ => false

def step (cfg : Cfg) (s : Tr) : Ev → Tr
  | .listen => if s.closeErr || s.serverOpen then s else { s with serverOpen := true }
  | .closeListener =>
    if s.serverOpen then
      stopIfDrained cfg { s with serverOpen := false, closeErr := s.closeErr || cfg.single }
    else s
  | .add k => { s with handlers := (idsOf cfg k).foldl (addOne (.live s.next)) s.handlers, next := s.next + 1 }
  | .replace k withPacket =>
    { s with handlers := (idsOf cfg k).foldl (setOne (standinFor s withPacket)) s.handlers,
             timers := s.timers ++ [{ fireAt := s.now + cfg.expiry, standin := standinFor s withPacket, k := k }],
             next := s.next + 1 }
  | .remove k =>
    let s1 := { s with handlers := dropIds (idsOf cfg k) s.handlers }
    if cfg.removeStops then stopIfDrained cfg s1 else s1
  | .wait ms =>
    let now := s.now + ms
    let due := s.timers.filter (·.fireAt ≤ now)
    fireAll cfg { s with now := now, timers := s.timers.filter (fun t => !(t.fireAt ≤ now)) } due
  | .close => doClose cfg s

def run (cfg : Cfg) (s : Tr) : List Ev → Tr
  | [] => s
  | e :: es => run cfg (step cfg s e) es

/-- the sentence of the property: nothing is routed through a single-use transport whose listener is closed
    => its read loop has returned (goroutines and socket released) -/
def Released (cfg : Cfg) (s : Tr) : Prop :=
  cfg.single = true → s.closeErr = true → s.handlers = [] → s.stopped = true

instance (cfg : Cfg) (s : Tr) : Decidable (Released cfg s) := by unfold Released; infer_instance

end Uquic.Model.Close.TrLife
