/-
Model of `outgoingStreamsMap[T]` (streams_map_outgoing.go), branch for branch.

`OpenStream`, `GetStream`, `DeleteStream`, `SetMaxStream`, `CloseWithError` are one atomic step
each (they hold the mutex from entry to return).  `OpenStreamSync` is split wherever it does not
hold the mutex:
  `syncCall`     – entry up to the first `select` (return at once, or enqueue a wait channel);
  `recv`         – the `select` receives from the caller's `waitChan` (a closed channel is always ready);
  `ctxDone`      – the `select` takes `ctx.Done()`;
  `wakeLocked`   – the locked section after a receive (close error / still no credit / open + pop + pass on);
  `cancelLocked` – the locked section after `ctx.Done()` (remove own channel, pass the wake-up on);
  `cancelCtx`    – the environment cancels the caller's context.
Each wait channel (capacity 1) is the `flag` of its goroutine record.
-/
import Uquic.Model.Streams.Basic

namespace Uquic.Model.Streams

inductive Phase
  | waiting      -- asleep in the `select`
  | woken        -- received from `waitChan`, about to take the mutex
  | cancelling   -- took `ctx.Done()`, about to take the mutex
deriving DecidableEq, Repr

/-- a goroutine inside `OpenStreamSync` together with its wait channel -/
structure Proc where
  wid : Nat
  phase : Phase := .waiting
  /-- a token sits in `waitChan` -/
  flag : Bool := false
  /-- `waitChan` was closed by `CloseWithError` -/
  closed : Bool := false
  cancelled : Bool := false
deriving DecidableEq, Repr

structure Outgoing where
  typ : STyp
  pers : Persp
  streams : List SID := []
  /-- `openQueue`, as the ids of the goroutines owning the channels -/
  openQueue : List Nat := []
  nextStream : SID
  maxStream : SID := invalidStreamNum
  blockedSent : Bool := false
  closeErr : Option Err := none
  procs : List Proc := []
deriving Repr

/-- `newOutgoingStreamsMap(streamType, _, _, pers)` -/
def Outgoing.new (t : STyp) (pers : Persp) : Outgoing :=
  { typ := t, pers := pers, nextStream := firstOutgoing t pers }

def Outgoing.findProc (m : Outgoing) (w : Nat) : Option Proc := m.procs.find? (·.wid == w)
def Outgoing.dropProc (m : Outgoing) (w : Nat) : Outgoing := { m with procs := m.procs.filter (·.wid != w) }
def Outgoing.updProc (m : Outgoing) (w : Nat) (f : Proc → Proc) : Outgoing :=
  { m with procs := m.procs.map fun p => if p.wid == w then f p else p }

/-- `maybeSendBlockedFrame` -/
def Outgoing.maybeSendBlocked (m : Outgoing) : Outgoing × List Frame :=
  if m.blockedSent then (m, [])
  else
    let limit : Int := if m.maxStream ≠ invalidStreamID then idToNum m.maxStream else 0
    ({ m with blockedSent := true }, [.streamsBlocked m.typ limit])

/-- `openStream` -/
def Outgoing.openRaw (m : Outgoing) : Outgoing × SID :=
  ({ m with streams := m.nextStream :: m.streams.filter (· != m.nextStream), nextStream := m.nextStream + 4 },
   m.nextStream)

/-- `maybeUnblockOpenSync`: non-blocking send into the head's channel -/
def Outgoing.maybeUnblock (m : Outgoing) : Outgoing :=
  match m.openQueue with
  | [] => m
  | w :: _ => if m.nextStream > m.maxStream then m else m.updProc w fun p => { p with flag := true }

/-- `OpenStream` -/
def Outgoing.openStream (m : Outgoing) : Outgoing × Ret × List Frame :=
  match m.closeErr with
  | some e => (m, .err e, [])
  | none =>
    if !m.openQueue.isEmpty || m.nextStream > m.maxStream then
      let (m', fs) := m.maybeSendBlocked
      (m', .err .limitReached, fs)
    else
      let (m', id) := m.openRaw
      (m', .stream id, [])

/-- `OpenStreamSync` from entry to its first `select` (`ctxErr`: the context is already done) -/
def Outgoing.syncCall (m : Outgoing) (w : Nat) (ctxErr : Bool) : Outgoing × Option Ret × List Frame :=
  match m.findProc w with
  | some _ => (m, none, [])      -- caller ids are unique; a duplicate is not a step
  | none =>
    match m.closeErr with
    | some e => (m, some (.err e), [])
    | none =>
      if ctxErr then (m, some (.err .ctxCanceled), [])
      else if m.openQueue.isEmpty && m.nextStream ≤ m.maxStream then
        let (m', id) := m.openRaw
        (m', some (.stream id), [])
      else
        let m := { m with openQueue := m.openQueue ++ [w], procs := m.procs ++ [({ wid := w } : Proc)] }
        let (m', fs) := m.maybeSendBlocked
        (m', none, fs)

def Outgoing.recv (m : Outgoing) (w : Nat) : Outgoing :=
  match m.findProc w with
  | none => m
  | some p =>
    if p.phase ≠ .waiting then m
    else if p.closed then m.updProc w fun p => { p with phase := .woken }
    else if p.flag then m.updProc w fun p => { p with phase := .woken, flag := false }
    else m

def Outgoing.ctxDone (m : Outgoing) (w : Nat) : Outgoing :=
  match m.findProc w with
  | none => m
  | some p =>
    if p.phase = .waiting && p.cancelled then m.updProc w fun p => { p with phase := .cancelling } else m

def Outgoing.wakeLocked (m : Outgoing) (w : Nat) : Outgoing × Option Ret :=
  match m.findProc w with
  | none => (m, none)
  | some p =>
    if p.phase ≠ .woken then (m, none)
    else match m.closeErr with
      | some e => (m.dropProc w, some (.err e))
      | none =>
        if m.nextStream > m.maxStream then (m.updProc w fun p => { p with phase := .waiting }, none)
        else
          let (m, id) := m.openRaw
          match m.openQueue with
          | [] => (m.dropProc w, some .panic)     -- `m.openQueue[1:]` of an empty slice
          | _ :: rest =>
            let m := { m with openQueue := rest }
            let m := m.maybeUnblock
            (m.dropProc w, some (.stream id))

def Outgoing.cancelLocked (m : Outgoing) (w : Nat) : Outgoing × Option Ret :=
  match m.findProc w with
  | none => (m, none)
  | some p =>
    if p.phase ≠ .cancelling then (m, none)
    else
      let m := { m with openQueue := m.openQueue.filter (· != w) }
      let m := m.maybeUnblock
      (m.dropProc w, some (.err .ctxCanceled))

def Outgoing.cancelCtx (m : Outgoing) (w : Nat) : Outgoing :=
  m.updProc w fun p => { p with cancelled := true }

/-- `GetStream`: error, `nil` (deleted) or the stream -/
def Outgoing.getStream (m : Outgoing) (id : SID) : Except Err (Option SID) :=
  if id ≥ m.nextStream then .error .statePeerOpen
  else if m.streams.contains id then .ok (some id) else .ok none

/-- `DeleteStream` -/
def Outgoing.deleteStream (m : Outgoing) (id : SID) : Outgoing × Option Err :=
  if m.streams.contains id then ({ m with streams := m.streams.filter (· != id) }, none)
  else (m, some .stateDelUnknownOut)

/-- `SetMaxStream` -/
def Outgoing.setMaxStream (m : Outgoing) (id : SID) : Outgoing × List Frame :=
  if id ≤ m.maxStream then (m, [])
  else
    let m := { m with maxStream := id, blockedSent := false }
    let (m, fs) :=
      if m.maxStream < m.nextStream - 4 + 4 * (m.openQueue.length : Int) then m.maybeSendBlocked else (m, [])
    (m.maybeUnblock, fs)

/-- `CloseWithError` -/
def Outgoing.closeWithError (m : Outgoing) (e : Err) : Outgoing :=
  { m with closeErr := some e
           procs := m.procs.map fun p => if m.openQueue.contains p.wid then { p with closed := true } else p
           openQueue := [] }

/-! ### the labelled transition system used by the theorems -/

inductive OutOp
  | openStream
  | syncCall (w : Nat) (ctxErr : Bool)
  | recv (w : Nat)
  | ctxDone (w : Nat)
  | wakeLocked (w : Nat)
  | cancelLocked (w : Nat)
  | cancelCtx (w : Nat)
  | getStream (id : SID)
  | delete (id : SID)
  /-- `HandleMaxStreamsFrame` / `HandleTransportParameters`: `SetMaxStream(n.StreamID(typ, pers))` -/
  | setMax (n : Int)
  | close (e : Err)
deriving DecidableEq, Repr

structure OutEv where
  /-- result of the non-blocking `OpenStream` -/
  opened : Option Ret := none
  /-- `OpenStreamSync` calls that returned in this step -/
  rets : List (Nat × Ret) := []
  get : Option (Except Err (Option SID)) := none
  del : Option (Option Err) := none
  frames : List Frame := []

def optRet (w : Nat) : Option Ret → List (Nat × Ret)
  | some r => [(w, r)]
  | none => []

def Outgoing.step (m : Outgoing) : OutOp → Outgoing × OutEv
  | .openStream =>
    let (m', r, fs) := m.openStream
    (m', { opened := some r, frames := fs })
  | .syncCall w c =>
    let (m', r, fs) := m.syncCall w c
    (m', { rets := optRet w r, frames := fs })
  | .recv w => (m.recv w, {})
  | .ctxDone w => (m.ctxDone w, {})
  | .wakeLocked w =>
    let (m', r) := m.wakeLocked w
    (m', { rets := optRet w r })
  | .cancelLocked w =>
    let (m', r) := m.cancelLocked w
    (m', { rets := optRet w r })
  | .cancelCtx w => (m.cancelCtx w, {})
  | .getStream id => (m, { get := some (m.getStream id) })
  | .delete id =>
    let (m', e) := m.deleteStream id
    (m', { del := some e })
  | .setMax n =>
    let (m', fs) := m.setMaxStream (numToID n m.typ m.pers)
    (m', { frames := fs })
  | .close e => (m.closeWithError e, {})

def Outgoing.run (m : Outgoing) : List OutOp → Outgoing × List OutEv
  | [] => (m, [])
  | o :: os =>
    let (m', e) := m.step o
    let (m'', es) := m'.run os
    (m'', e :: es)

end Uquic.Model.Streams
