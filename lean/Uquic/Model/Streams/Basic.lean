/-
Shared vocabulary of the stream-map models (property C15):
stream-ID arithmetic of internal/protocol/stream.go, error classes, control frames.

Conventions: `StreamID`, `StreamNum` (Go int64) are `Int`.  Stream IDs named by peer frames
come out of a QUIC varint, so they are `≥ 0`; on that domain Go's truncating `%` and `/`
coincide with Lean's `%` and `/` on `Int`.  `InvalidStreamID = -1` only ever flows through
comparisons (the one `StreamNum()` call on a limit is guarded by `!= InvalidStreamID`).
-/
import Uquic.Generated.Protocol

namespace Uquic.Model.Streams
open Uquic.Gen

/-- stream ids are plain `Int`s (a notation, so that `omega` sees `Int` equalities) -/
notation "SID" => Int

inductive Persp | client | server
deriving DecidableEq, Repr

inductive STyp | uni | bidi
deriving DecidableEq, Repr

def Persp.opposite : Persp → Persp
  | .client => .server
  | .server => .client

/-- `protocol.StreamTypeUni` / `StreamTypeBidi` as Go encodes them -/
def STyp.code : STyp → Int
  | .uni => Protocol.StreamTypeUni
  | .bidi => Protocol.StreamTypeBidi

def maxStreamCount : Int := Protocol.MaxStreamCount
def maxStreamID : Int := Protocol.MaxStreamID
def invalidStreamID : Int := Protocol.InvalidStreamID
def invalidStreamNum : Int := Protocol.InvalidStreamNum

/-- `StreamNum.StreamID(stype, pers)`; the `first` literals are the ones written in that switch. -/
def numToID (n : Int) (t : STyp) (p : Persp) : SID :=
  if n = 0 then invalidStreamID
  else
    let first : Int := match t, p with
      | .bidi, .client => 0
      | .bidi, .server => 1
      | .uni, .client => 2
      | .uni, .server => 3
    first + 4 * (n - 1)

/-- `StreamID.InitiatedBy` -/
def initiatedBy (id : SID) : Persp := if id % 2 = 0 then .client else .server

/-- `StreamID.Type` -/
def typeOf (id : SID) : STyp := if id % 4 ≥ 2 then .uni else .bidi

/-- `StreamID.StreamNum` -/
def idToNum (id : SID) : Int := id / 4 + 1

/-- `protocol.FirstOutgoing{Bidi,Uni}Stream{Client,Server}` for the opener `p` -/
def firstOutgoing (t : STyp) (p : Persp) : SID :=
  match t, p with
  | .bidi, .client => Protocol.FirstOutgoingBidiStreamClient
  | .bidi, .server => Protocol.FirstOutgoingBidiStreamServer
  | .uni, .client => Protocol.FirstOutgoingUniStreamClient
  | .uni, .server => Protocol.FirstOutgoingUniStreamServer

/-- `protocol.FirstIncoming{Bidi,Uni}Stream{Client,Server}` for the acceptor `p` -/
def firstIncoming (t : STyp) (p : Persp) : SID :=
  match t, p with
  | .bidi, .client => Protocol.FirstIncomingBidiStreamClient
  | .bidi, .server => Protocol.FirstIncomingBidiStreamServer
  | .uni, .client => Protocol.FirstIncomingUniStreamClient
  | .uni, .server => Protocol.FirstIncomingUniStreamServer

/-- Error classes.  `limit` is a `qerr.TransportError` with code STREAM_LIMIT_ERROR; the `state…`
    constructors are STREAM_STATE_ERROR distinguished by their message; `raw…` are the unwrapped
    `fmt.Errorf` values that `deleteStream` hands to `AcceptStream`. -/
inductive Err
  | limit
  | stateInvalidSend      -- "invalid frame for send stream"
  | stateInvalidRecv      -- "invalid frame for receive stream"
  | statePeerOpen         -- "peer attempted to open stream" (a local stream that was never opened)
  | stateDelUnknownIn     -- "tried to delete unknown incoming stream"
  | stateDelMultiIn       -- "tried to delete incoming stream … multiple times"
  | stateDelUnknownOut    -- "tried to delete unknown outgoing stream"
  | limitReached          -- StreamLimitReachedError
  | rejected0RTT          -- Err0RTTRejected
  | closed                -- the error handed to CloseWithError
  | ctxCanceled           -- ctx.Err()
  | rawDelUnknownIn
  | rawDelMultiIn
  | ackUnsent             -- PROTOCOL_VIOLATION: ACK for a packet that was never sent (connection glue, C15 sglue)
deriving DecidableEq, Repr

def Err.isStateError : Err → Bool
  | .stateInvalidSend | .stateInvalidRecv | .statePeerOpen
  | .stateDelUnknownIn | .stateDelMultiIn | .stateDelUnknownOut => true
  | _ => false

def Err.isLimitError : Err → Bool
  | .limit => true
  | _ => false

def Err.name : Err → String
  | .limit => "limit"
  | .stateInvalidSend => "state:invalid-send"
  | .stateInvalidRecv => "state:invalid-recv"
  | .statePeerOpen => "state:peer-open"
  | .stateDelUnknownIn => "state:del-unknown-in"
  | .stateDelMultiIn => "state:del-multi-in"
  | .stateDelUnknownOut => "state:del-unknown-out"
  | .limitReached => "limit-reached"
  | .rejected0RTT => "0rtt"
  | .closed => "closed"
  | .ctxCanceled => "canceled"
  | .rawDelUnknownIn => "raw:del-unknown-in"
  | .rawDelMultiIn => "raw:del-multi-in"
  | .ackUnsent => "proto"

/-- control frames queued through `queueControlFrame` -/
inductive Frame
  | maxStreams (t : STyp) (n : Int)
  | streamsBlocked (t : STyp) (limit : Int)
deriving DecidableEq, Repr

/-- what a (possibly blocking) API call finally returns -/
inductive Ret
  | stream (id : SID)
  | err (e : Err)
  | panic
deriving DecidableEq, Repr

/-- association-list rendering of a Go map -/
def lookup {β} (l : List (SID × β)) (id : SID) : Option β := (l.find? (fun e => e.1 == id)).map (·.2)
def eraseKey {β} (l : List (SID × β)) (id : SID) : List (SID × β) := l.filter (fun e => e.1 != id)
def setKey {β} (l : List (SID × β)) (id : SID) (b : β) : List (SID × β) := eraseKey l id ++ [(id, b)]

end Uquic.Model.Streams
