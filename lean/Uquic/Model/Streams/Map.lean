/-
Model of `streamsMap` (streams_map.go): dispatch on stream type and initiator for both
perspectives, `ResetFor0RTT` / `UseResetMaps`, `CloseWithError`.

Maps replaced by `ResetFor0RTT` that still have goroutines blocked inside them are kept in
`oldOut` / `oldIn` (the goroutines hold pointers to them), so that those callers' remaining steps
run against the closed map exactly as in Go.  Caller ids are unique over the whole history.

`Open*`/`Accept*` read `reset` and the sub-map pointer under the map mutex and then call the
sub-map: two critical sections, merged into one step here (if `ResetFor0RTT` slips in between,
the call runs on the closed old map and returns `Err0RTTRejected`, which the merged step also
yields when the call is ordered after the reset).
-/
import Uquic.Model.Streams.Incoming
import Uquic.Model.Streams.Outgoing

namespace Uquic.Model.Streams

structure Map where
  pers : Persp
  maxInBidi : Int
  maxInUni : Int
  outBidi : Outgoing
  outUni : Outgoing
  inBidi : Incoming
  inUni : Incoming
  reset : Bool := false
  oldOut : List Outgoing := []
  oldIn : List Incoming := []
deriving Repr

/-- `newStreamsMap` + `initMaps` -/
def Map.new (pers : Persp) (maxInBidi maxInUni : Int) : Map :=
  { pers := pers, maxInBidi := maxInBidi, maxInUni := maxInUni
    outBidi := Outgoing.new .bidi pers
    outUni := Outgoing.new .uni pers
    inBidi := Incoming.new .bidi maxInBidi pers
    inUni := Incoming.new .uni maxInUni pers }

def Map.out (m : Map) : STyp → Outgoing
  | .bidi => m.outBidi
  | .uni => m.outUni
def Map.inc (m : Map) : STyp → Incoming
  | .bidi => m.inBidi
  | .uni => m.inUni
def Map.setOut (m : Map) (t : STyp) (o : Outgoing) : Map :=
  match t with
  | .bidi => { m with outBidi := o }
  | .uni => { m with outUni := o }
def Map.setInc (m : Map) (t : STyp) (i : Incoming) : Map :=
  match t with
  | .bidi => { m with inBidi := i }
  | .uni => { m with inUni := i }

/-- the run loop's goroutine panicked with an incoming map's write lock held -/
def Map.dead (m : Map) : Bool := m.inBidi.dead || m.inUni.dead

structure MapEv where
  /-- result of `OpenStream` / `OpenUniStream` -/
  opened : Option Ret := none
  /-- `getSendStream` / `getReceiveStream`: error, `nil` (stream gone) or the stream -/
  frameRes : Option (Except Err (Option SID)) := none
  del : Option (Option Err) := none
  rets : List (Nat × Ret) := []
  frames : List Frame := []
  panic : Bool := false

def gresToFrameRes : GRes → Option (Except Err (Option SID)) × Bool
  | .err e => (some (.error e), false)
  | .nil => (some (.ok none), false)
  | .stream id => (some (.ok (some id)), false)
  | .panicLocked => (none, true)

/-- `getSendStream` (MAX_STREAM_DATA, STOP_SENDING) -/
def Map.getSendStream (m : Map) (id : SID) : Map × MapEv :=
  match typeOf id with
  | .uni =>
    if initiatedBy id ≠ m.pers then (m, { frameRes := some (.error .stateInvalidSend) })
    else (m, { frameRes := some (m.outUni.getStream id) })
  | .bidi =>
    if initiatedBy id = m.pers then (m, { frameRes := some (m.outBidi.getStream id) })
    else
      let (i, r) := m.inBidi.getOrOpen id
      let (fr, p) := gresToFrameRes r
      ({ m with inBidi := i }, { frameRes := fr, panic := p })

/-- `getReceiveStream` (STREAM, RESET_STREAM, STREAM_DATA_BLOCKED) -/
def Map.getReceiveStream (m : Map) (id : SID) : Map × MapEv :=
  match typeOf id with
  | .uni =>
    if initiatedBy id = m.pers then (m, { frameRes := some (.error .stateInvalidRecv) })
    else
      let (i, r) := m.inUni.getOrOpen id
      let (fr, p) := gresToFrameRes r
      ({ m with inUni := i }, { frameRes := fr, panic := p })
  | .bidi =>
    if initiatedBy id = m.pers then (m, { frameRes := some (m.outBidi.getStream id) })
    else
      let (i, r) := m.inBidi.getOrOpen id
      let (fr, p) := gresToFrameRes r
      ({ m with inBidi := i }, { frameRes := fr, panic := p })

/-- `DeleteStream` -/
def Map.deleteStream (m : Map) (id : SID) : Map × MapEv :=
  let t := typeOf id
  if initiatedBy id = m.pers then
    let (o, e) := (m.out t).deleteStream id
    (m.setOut t o, { del := some e })
  else
    let (i, e, fs) := (m.inc t).deleteStream id
    (m.setInc t i, { del := some e, frames := fs })

/-- `HandleMaxStreamsFrame` -/
def Map.handleMaxStreams (m : Map) (t : STyp) (n : Int) : Map × MapEv :=
  let (o, fs) := (m.out t).setMaxStream (numToID n t m.pers)
  (m.setOut t o, { frames := fs })

/-- `HandleTransportParameters` (the stream-count part) -/
def Map.handleParams (m : Map) (nb nu : Int) : Map × MapEv :=
  let (m1, e1) := m.handleMaxStreams .bidi nb
  let (m2, e2) := m1.handleMaxStreams .uni nu
  (m2, { frames := e1.frames ++ e2.frames })

/-- `CloseWithError`: outgoing bidi, outgoing uni, incoming bidi, incoming uni; closing an
    incoming map a second time panics (`close` of a closed channel) and skips the rest. -/
def Map.closeWithError (m : Map) (e : Err) : Map × Bool :=
  let m := { m with outBidi := m.outBidi.closeWithError e, outUni := m.outUni.closeWithError e }
  let (ib, p) := m.inBidi.closeWithError e
  let m := { m with inBidi := ib }
  if p then (m, true)
  else
    let (iu, p) := m.inUni.closeWithError e
    ({ m with inUni := iu }, p)

/-- `ResetFor0RTT` -/
def Map.resetFor0RTT (m : Map) : Map × Bool :=
  let m := { m with reset := true }
  let (m, p) := m.closeWithError .rejected0RTT
  if p then (m, true)
  else
    let oldOut := m.oldOut ++ [m.outBidi, m.outUni].filter (fun o => !o.procs.isEmpty)
    let oldIn := m.oldIn ++ [m.inBidi, m.inUni].filter (fun i => !i.accs.isEmpty)
    ({ m with oldOut := oldOut, oldIn := oldIn
              outBidi := Outgoing.new .bidi m.pers
              outUni := Outgoing.new .uni m.pers
              inBidi := Incoming.new .bidi m.maxInBidi m.pers
              inUni := Incoming.new .uni m.maxInUni m.pers }, false)

/-- apply `f` to the outgoing map (current or replaced) that holds goroutine `c` -/
def onOutList {α} (c : Nat) (f : Outgoing → Outgoing × α) (dflt : α) : List Outgoing → List Outgoing × α
  | [] => ([], dflt)
  | o :: os =>
    if (o.findProc c).isSome then
      let (o', r) := f o
      (o' :: os, r)
    else
      let (os', r) := onOutList c f dflt os
      (o :: os', r)

def Map.onOut {α} (m : Map) (c : Nat) (f : Outgoing → Outgoing × α) (dflt : α) : Map × α :=
  if (m.outBidi.findProc c).isSome then
    let (o, r) := f m.outBidi
    ({ m with outBidi := o }, r)
  else if (m.outUni.findProc c).isSome then
    let (o, r) := f m.outUni
    ({ m with outUni := o }, r)
  else
    let (os, r) := onOutList c f dflt m.oldOut
    ({ m with oldOut := os }, r)

def onInList {α} (c : Nat) (f : Incoming → Incoming × α) (dflt : α) : List Incoming → List Incoming × α
  | [] => ([], dflt)
  | i :: is =>
    if (i.findAcc c).isSome then
      let (i', r) := f i
      (i' :: is, r)
    else
      let (is', r) := onInList c f dflt is
      (i :: is', r)

def Map.onIn {α} (m : Map) (c : Nat) (f : Incoming → Incoming × α) (dflt : α) : Map × α :=
  if (m.inBidi.findAcc c).isSome then
    let (i, r) := f m.inBidi
    ({ m with inBidi := i }, r)
  else if (m.inUni.findAcc c).isSome then
    let (i, r) := f m.inUni
    ({ m with inUni := i }, r)
  else
    let (is, r) := onInList c f dflt m.oldIn
    ({ m with oldIn := is }, r)

inductive MapOp
  | openStream (t : STyp)
  | openSync (t : STyp) (c : Nat) (ctxErr : Bool)
  | accept (t : STyp) (c : Nat)
  | cancelCtx (c : Nat)
  | outRecv (c : Nat)
  | outCtxDone (c : Nat)
  | outWakeLocked (c : Nat)
  | outCancelLocked (c : Nat)
  | accLocked (c : Nat)
  | accRecv (c : Nat)
  | accCtx (c : Nat)
  | recvFrame (id : SID)
  | sendFrame (id : SID)
  | delete (id : SID)
  | maxStreams (t : STyp) (n : Int)
  | params (nb nu : Int)
  | close (e : Err)
  | resetFor0RTT
  | useResetMaps
deriving DecidableEq, Repr

def Map.step (m : Map) (op : MapOp) : Map × MapEv :=
  if m.dead then (m, {}) else
  match op with
  | .openStream t =>
    if m.reset then (m, { opened := some (.err .rejected0RTT) })
    else
      let (o, r, fs) := (m.out t).openStream
      (m.setOut t o, { opened := some r, frames := fs })
  | .openSync t c ctxErr =>
    if m.reset then (m, { rets := [(c, .err .rejected0RTT)] })
    else
      let (o, r, fs) := (m.out t).syncCall c ctxErr
      (m.setOut t o, { rets := optRet c r, frames := fs })
  | .accept t c =>
    if m.reset then (m, { rets := [(c, .err .rejected0RTT)] })
    else (m.setInc t ((m.inc t).accCall c), {})
  | .cancelCtx c =>
    let (m, _) := m.onOut c (fun o => (o.cancelCtx c, ())) ()
    let (m, _) := m.onIn c (fun i => (i.cancelCtx c, ())) ()
    (m, {})
  | .outRecv c => ((m.onOut c (fun o => (o.recv c, ())) ()).1, {})
  | .outCtxDone c => ((m.onOut c (fun o => (o.ctxDone c, ())) ()).1, {})
  | .outWakeLocked c =>
    let (m, r) := m.onOut c (fun o => o.wakeLocked c) none
    (m, { rets := optRet c r })
  | .outCancelLocked c =>
    let (m, r) := m.onOut c (fun o => o.cancelLocked c) none
    (m, { rets := optRet c r })
  | .accLocked c =>
    let (m, r, fs) := m.onIn c (fun i => i.accLocked c) (none, [])
    (m, { rets := optRet c r, frames := fs })
  | .accRecv c => ((m.onIn c (fun i => (i.accRecv c, ())) ()).1, {})
  | .accCtx c =>
    let (m, r) := m.onIn c (fun i => i.accCtx c) none
    (m, { rets := optRet c r })
  | .recvFrame id => m.getReceiveStream id
  | .sendFrame id => m.getSendStream id
  | .delete id => m.deleteStream id
  | .maxStreams t n => m.handleMaxStreams t n
  | .params nb nu => m.handleParams nb nu
  | .close e =>
    let (m, p) := m.closeWithError e
    (m, { panic := p })
  | .resetFor0RTT =>
    let (m, p) := m.resetFor0RTT
    (m, { panic := p })
  | .useResetMaps => ({ m with reset := false }, {})

/-! ### running to quiescence (what `synctest.Wait` observes) -/

def outEnabled (p : Proc) : Option MapOp :=
  match p.phase with
  | .woken => some (.outWakeLocked p.wid)
  | .cancelling => some (.outCancelLocked p.wid)
  | .waiting =>
    if p.flag || p.closed then some (.outRecv p.wid)
    else if p.cancelled then some (.outCtxDone p.wid)
    else none

def inEnabled (i : Incoming) (a : Acc) : Option MapOp :=
  if a.ready then (if i.dead then none else some (.accLocked a.aid))
  else if i.chan || i.chanClosed then some (.accRecv a.aid)
  else if a.cancelled then some (.accCtx a.aid)
  else none

/-- some enabled internal step, in a fixed scan order -/
def Map.nextInternal (m : Map) : Option MapOp :=
  let outs := [m.outBidi, m.outUni] ++ m.oldOut
  let ins := [m.inBidi, m.inUni] ++ m.oldIn
  match outs.findSome? (fun o => o.procs.findSome? outEnabled) with
  | some op => some op
  | none => ins.findSome? (fun i => i.accs.findSome? (inEnabled i))

def Map.quiesce (m : Map) : Nat → Map × List (Nat × Ret) × List Frame
  | 0 => (m, [], [])
  | fuel + 1 =>
    match m.nextInternal with
    | none => (m, [], [])
    | some op =>
      let (m', ev) := m.step op
      let (m'', rs, fs) := m'.quiesce fuel
      (m'', ev.rets ++ rs, ev.frames ++ fs)

end Uquic.Model.Streams
