/-
Life cycle of an incoming stream, from the peer's first frame to the MAX_STREAMS credit (property C15:
"further credit is issued … only as streams fully complete").

Modelled code (/repo):
* `ReceiveStream.isNewlyCompleted` and the four methods that call it (`handleStreamFrame`,
  `handleResetStreamFrame`, `CancelRead`, `Read`) as far as they decide COMPLETION (receive_stream.go);
  byte contents, reassembly and flow control are the subject of C03 / C04 and are abstracted: the peer's
  data is contiguous and `Read` is "read until an error".
* `Stream.checkIfCompleted` (stream.go): a bidirectional stream reports completion when both halves have.
* `Conn.onStreamCompleted` (connection.go): completion deletes the stream from the streams map, which is
  where the credit is computed (`incomingStreamsMap.deleteStream`, modelled in `Incoming.lean`).
The SEND half of a bidirectional stream is an environment input (`sendDone`): the theorems hold for every
moment at which it may report completion (its own logic is the subject of C01).

`comp` is the completion predicate; the real one is `RHalf.isNewlyCompleted` (tied to the source by a
translated definition, `Uquic.Props.TransStreamLife`). It is a parameter so that the variant with the two
checks swapped can be shown to break the property (`Uquic.Props.C15Life.swapped_checks_violate`).
-/
import Uquic.Model.Streams.Map

namespace Uquic.Model.Streams

/-- the fields of `ReceiveStream` that decide completion -/
structure RHalf where
  /-- `finalOffset != protocol.MaxByteCount` -/
  finalKnown : Bool := false
  /-- a STREAM frame with the FIN bit was handled -/
  finArrived : Bool := false
  /-- `cancelledRemotely` -/
  resetArrived : Bool := false
  cancelledLocally : Bool := false
  errorRead : Bool := false
  completed : Bool := false
deriving DecidableEq, Repr

/-- `ReceiveStream.isNewlyCompleted` (result: the receiver afterwards, the returned bool) -/
def RHalf.isNewlyCompleted (h : RHalf) : RHalf × Bool :=
  if h.completed then (h, false)
  else if !h.finalKnown then (h, false)
  else if h.cancelledLocally then ({ h with completed := true }, true)
  else if h.errorRead then ({ h with completed := true }, true)
  else (h, false)

/-- the same with the first two checks after `completed` swapped ("cancelled locally" before "final offset
    known"): NOT the code; used by the witness theorem only -/
def RHalf.isNewlyCompletedSwapped (h : RHalf) : RHalf × Bool :=
  if h.completed then (h, false)
  else if h.cancelledLocally then ({ h with completed := true }, true)
  else if !h.finalKnown then (h, false)
  else if h.errorRead then ({ h with completed := true }, true)
  else (h, false)

inductive ROp
  | frame (fin : Bool)   -- handleStreamFrame
  | reset                -- handleResetStreamFrame
  | cancelRead           -- CancelRead
  | read                 -- Read until it returns an error
deriving DecidableEq, Repr

inductive RRes | none | ended | deadline
deriving DecidableEq, Repr

/-- would `Read` (called until it returns an error) end with io.EOF / a stream error rather than block? -/
def RHalf.readEnds (h : RHalf) : Bool := h.cancelledLocally || h.resetArrived || h.finArrived

/-- the `…Impl` part of each method (before `isNewlyCompleted` is consulted) -/
def RHalf.pre (h : RHalf) : ROp → RHalf × RRes
  | .frame fin => (if fin then { h with finalKnown := true, finArrived := true } else h, .none)
  | .reset =>
    -- a RESET_STREAM after CancelRead only establishes the final size
    ({ h with finalKnown := true, resetArrived := h.resetArrived || !h.cancelledLocally }, .none)
  | .cancelRead => ({ h with cancelledLocally := true }, .none)
  | .read => if h.readEnds then ({ h with errorRead := true }, .ended) else (h, .deadline)

/-- one method call: (receiver afterwards, `onStreamCompleted` called, what `Read` said) -/
def RHalf.apply (comp : RHalf → RHalf × Bool) (h : RHalf) (op : ROp) : RHalf × Bool × RRes :=
  let (h1, r) := h.pre op
  let (h2, c) := comp h1
  (h2, c, r)

def upd {β} (f : SID → β) (k : SID) (v : β) : SID → β := fun x => if x = k then v else f x

/-- all stream objects of a connection that matter here, indexed by stream id (an object exists from the
    moment the peer opens the stream; the application keeps its pointer after the map dropped the stream) -/
structure Core where
  half : SID → RHalf := fun _ => {}
  /-- `Stream.receiveStreamCompleted` -/
  recvDone : SID → Bool := fun _ => false
  /-- `Stream.sendStreamCompleted` -/
  sendDone : SID → Bool := fun _ => false

/-- a method of the receive half of stream `id` runs; the Bool says whether `Conn.onStreamCompleted(id)`
    is called (directly for a unidirectional stream, through `Stream.checkIfCompleted` otherwise) -/
def Core.recv (comp : RHalf → RHalf × Bool) (c : Core) (id : SID) (op : ROp) : Core × Bool × RRes :=
  let r := (c.half id).apply comp op
  let c1 : Core := { c with half := upd c.half id r.1 }
  if !r.2.1 then (c1, false, r.2.2)
  else if typeOf id = .uni then (c1, true, r.2.2)
  else ({ c1 with recvDone := upd c1.recvDone id true }, c1.sendDone id, r.2.2)

/-- the send half of bidirectional stream `id` reports completion (it does so once) -/
def Core.sendCompleted (c : Core) (id : SID) : Core × Bool :=
  if c.sendDone id then (c, false)
  else ({ c with sendDone := upd c.sendDone id true }, c.recvDone id)

/-! ### composition with one incoming streams map (the system the theorems are about) -/

structure LifeInc where
  inc : Incoming
  core : Core := {}

inductive PeerOp | data | fin | reset
deriving DecidableEq, Repr

def PeerOp.rop : PeerOp → ROp
  | .data => .frame false
  | .fin => .frame true
  | .reset => .reset

inductive LOp
  /-- a STREAM / RESET_STREAM frame of the peer naming `id` -/
  | peer (id : SID) (op : PeerOp)
  /-- a STOP_SENDING / MAX_STREAM_DATA frame naming a bidirectional stream of the peer -/
  | touch (id : SID)
  /-- the application calls CancelRead (`cancel`) or reads until an error on the stream object -/
  | app (id : SID) (cancel : Bool)
  /-- the send half of the stream object reports completion -/
  | sendDone (id : SID)
  /-- AcceptStream steps, CloseWithError -/
  | inner (op : InOp)
deriving DecidableEq, Repr

/-- `Conn.onStreamCompleted` -/
def LifeInc.completed (s : LifeInc) (id : SID) (fire : Bool) : LifeInc × List InEv :=
  if fire then
    let r := s.inc.step (.delete id)
    ({ s with inc := r.1 }, [r.2])
  else (s, [])

def LifeInc.step (comp : RHalf → RHalf × Bool) (s : LifeInc) : LOp → LifeInc × List InEv
  | .peer id op =>
    let r := s.inc.step (.getOrOpen id)
    let s1 : LifeInc := { s with inc := r.1 }
    match r.2.get with
    | some (.stream _) =>
      let c := s1.core.recv comp id op.rop
      let s2 := ({ s1 with core := c.1 } : LifeInc).completed id c.2.1
      (s2.1, r.2 :: s2.2)
    | _ => (s1, [r.2])
  | .touch id =>
    let r := s.inc.step (.getOrOpen id)
    ({ s with inc := r.1 }, [r.2])
  | .app id cancel =>
    -- the application can only hold streams that exist
    if id < s.inc.nextOpen then
      let c := s.core.recv comp id (if cancel then .cancelRead else .read)
      ({ s with core := c.1 } : LifeInc).completed id c.2.1
    else (s, [])
  | .sendDone id =>
    if id < s.inc.nextOpen ∧ typeOf id = .bidi then
      let c := s.core.sendCompleted id
      ({ s with core := c.1 } : LifeInc).completed id c.2
    else (s, [])
  | .inner op =>
    match op with
    | .getOrOpen _ | .delete _ => (s, [])
    | op =>
      let r := s.inc.step op
      ({ s with inc := r.1 }, [r.2])

def LifeInc.run (comp : RHalf → RHalf × Bool) (s : LifeInc) : List LOp → LifeInc × List InEv
  | [] => (s, [])
  | o :: os =>
    let r := s.step comp o
    let r' := r.1.run comp os
    (r'.1, r.2 ++ r'.2)

def LifeInc.new (t : STyp) (n : Int) (p : Persp) : LifeInc := { inc := Incoming.new t n p }

end Uquic.Model.Streams
