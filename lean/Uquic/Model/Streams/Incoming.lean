/-
Model of `incomingStreamsMap[T]` (streams_map_incoming.go), branch for branch.

Atomic steps (mutex granularity): `GetOrOpenStream`, `DeleteStream`, `CloseWithError` are one step
each (`GetOrOpenStream` takes the read lock and then the write lock; it is only ever called from
the connection's run loop, so it is never concurrent with itself, and nothing another method does
between the two sections changes what the second one reads — see checks/C15.json assumptions).
`AcceptStream` is split at every point where it does not hold the mutex:
  `accCall`   – the initial non-blocking drain of `newStreamChan`;
  `accLocked` – one pass of the `for` loop body under the mutex (return, or go to sleep in `select`);
  `accRecv`   – the `select` receives from `newStreamChan`;
  `accCtx`    – the `select` takes `ctx.Done()` and returns `ctx.Err()`;
  `cancelCtx` – the environment cancels the caller's context.
`newStreamChan` (capacity 1) is the Bool `chan`; `chanClosed` records `close(newStreamChan)`.
-/
import Uquic.Model.Streams.Basic

namespace Uquic.Model.Streams

/-- a goroutine inside `AcceptStream` -/
structure Acc where
  aid : Nat
  /-- `true`: about to take the mutex; `false`: asleep in the `select` -/
  ready : Bool
  cancelled : Bool := false
deriving DecidableEq, Repr

structure Incoming where
  typ : STyp
  /-- `streams`: id ↦ `shouldDelete` -/
  streams : List (SID × Bool) := []
  nextAccept : SID
  nextOpen : SID
  maxStream : SID
  /-- `maxNumStreams` (uint64; the config clamps it to `MaxStreamCount`) -/
  maxNum : Int
  closeErr : Option Err := none
  chan : Bool := false
  chanClosed : Bool := false
  /-- the write lock was left held by a panic inside `GetOrOpenStream` -/
  dead : Bool := false
  accs : List Acc := []
deriving Repr

/-- `newIncomingStreamsMap(streamType, _, maxStreams, _, pers)` -/
def Incoming.new (t : STyp) (maxStreams : Int) (pers : Persp) : Incoming :=
  { typ := t
    nextAccept := firstIncoming t pers
    nextOpen := firstIncoming t pers
    maxStream := numToID maxStreams t pers.opposite
    maxNum := maxStreams }

/-- result of `GetOrOpenStream` -/
inductive GRes
  | err (e : Err)
  | nil                 -- `nil, nil`: stream already gone (or queued for deletion)
  | stream (id : SID)
  | panicLocked         -- send on the closed `newStreamChan`; the write lock stays held
deriving DecidableEq, Repr

/-- the ids created by the `for newNum := nextStreamToOpen; newNum <= id; newNum += 4` loop -/
def newIds (nextOpen id : SID) : List SID :=
  (List.range ((id - nextOpen) / 4 + 1).toNat).map fun (i : Nat) => nextOpen + 4 * (i : Int)

def Incoming.getOrOpen (m : Incoming) (id : SID) : Incoming × GRes :=
  if id > m.maxStream then (m, .err .limit)
  else if id < m.nextOpen then
    match lookup m.streams id with
    | some false => (m, .stream id)
    | _ => (m, .nil)
  else if m.chanClosed then
    -- first loop iteration: the entry is stored, then the non-blocking send panics
    ({ m with streams := setKey m.streams m.nextOpen false, dead := true }, .panicLocked)
  else
    let streams := (newIds m.nextOpen id).foldl (fun s i => setKey s i false) m.streams
    let m' := { m with streams := streams, chan := true, nextOpen := id + 4 }
    (m', match lookup streams id with
         | some _ => .stream id
         | none => .nil)

/-- `deleteStream` (lock held by the caller) -/
def Incoming.deleteInner (m : Incoming) (id : SID) : Incoming × Option Err × List Frame :=
  match lookup m.streams id with
  | none => (m, some .rawDelUnknownIn, [])
  | some sd =>
    if id ≥ m.nextAccept then
      if sd then (m, some .rawDelMultiIn, [])
      else ({ m with streams := setKey m.streams id true }, none, [])
    else
      let streams := eraseKey m.streams id
      let m := { m with streams := streams }
      let len : Int := streams.length
      if m.maxNum > len then
        let ms := m.nextOpen + 4 * (m.maxNum - len - 1)
        if ms ≤ maxStreamID then
          ({ m with maxStream := ms }, none, [.maxStreams m.typ (idToNum ms)])
        else (m, none, [])
      else (m, none, [])

/-- `DeleteStream`: errors are wrapped into STREAM_STATE_ERROR -/
def Incoming.deleteStream (m : Incoming) (id : SID) : Incoming × Option Err × List Frame :=
  match m.deleteInner id with
  | (m', some .rawDelUnknownIn, fs) => (m', some .stateDelUnknownIn, fs)
  | (m', some _, fs) => (m', some .stateDelMultiIn, fs)
  | r => r

def Incoming.findAcc (m : Incoming) (a : Nat) : Option Acc := m.accs.find? (·.aid == a)
def Incoming.dropAcc (m : Incoming) (a : Nat) : Incoming := { m with accs := m.accs.filter (·.aid != a) }
def Incoming.updAcc (m : Incoming) (a : Nat) (f : Acc → Acc) : Incoming :=
  { m with accs := m.accs.map fun x => if x.aid == a then f x else x }

/-- entry of `AcceptStream`: drain the channel (a closed channel stays closed) -/
def Incoming.accCall (m : Incoming) (a : Nat) : Incoming :=
  match m.findAcc a with
  | some _ => m        -- caller ids are unique; a duplicate is not a step
  | none => { m with chan := false, accs := m.accs ++ [{ aid := a, ready := true }] }

/-- one pass of the loop body under the mutex -/
def Incoming.accLocked (m : Incoming) (a : Nat) : Incoming × Option Ret × List Frame :=
  match m.findAcc a with
  | none => (m, none, [])
  | some p =>
    if !p.ready then (m, none, [])
    else match m.closeErr with
      | some e => (m.dropAcc a, some (.err e), [])
      | none =>
        let id := m.nextAccept
        match lookup m.streams id with
        | none => (m.updAcc a fun x => { x with ready := false }, none, [])
        | some sd =>
          let m := { m with nextAccept := m.nextAccept + 4 }
          if sd then
            match m.deleteInner id with
            | (m', some e, fs) => (m'.dropAcc a, some (.err e), fs)
            | (m', none, fs) => (m'.dropAcc a, some (.stream id), fs)
          else (m.dropAcc a, some (.stream id), [])

/-- the `select` receives from `newStreamChan` -/
def Incoming.accRecv (m : Incoming) (a : Nat) : Incoming :=
  match m.findAcc a with
  | none => m
  | some p =>
    if p.ready then m
    else if m.chanClosed then m.updAcc a fun x => { x with ready := true }
    else if m.chan then { (m.updAcc a fun x => { x with ready := true }) with chan := false }
    else m

/-- the `select` takes `ctx.Done()` -/
def Incoming.accCtx (m : Incoming) (a : Nat) : Incoming × Option Ret :=
  match m.findAcc a with
  | none => (m, none)
  | some p => if !p.ready && p.cancelled then (m.dropAcc a, some (.err .ctxCanceled)) else (m, none)

def Incoming.cancelCtx (m : Incoming) (a : Nat) : Incoming :=
  m.updAcc a fun x => { x with cancelled := true }

/-- `CloseWithError`; the Bool reports the panic of closing `newStreamChan` twice
    (raised after the mutex was released) -/
def Incoming.closeWithError (m : Incoming) (e : Err) : Incoming × Bool :=
  let m := { m with closeErr := some e }
  if m.chanClosed then (m, true) else ({ m with chanClosed := true }, false)

/-! ### the labelled transition system used by the theorems -/

inductive InOp
  | getOrOpen (id : SID)
  | delete (id : SID)
  | accCall (a : Nat)
  | accLocked (a : Nat)
  | accRecv (a : Nat)
  | accCtx (a : Nat)
  | cancelCtx (a : Nat)
  | close (e : Err)
deriving DecidableEq, Repr

/-- everything an observer sees of one step -/
structure InEv where
  get : Option GRes := none
  del : Option (Option Err) := none
  rets : List (Nat × Ret) := []
  frames : List Frame := []
  panic : Bool := false
deriving Repr

def Incoming.step (m : Incoming) : InOp → Incoming × InEv
  | .getOrOpen id =>
    if m.dead then (m, {}) else
    let (m', r) := m.getOrOpen id
    (m', { get := some r, panic := r == .panicLocked })
  | .delete id =>
    if m.dead then (m, {}) else
    let (m', e, fs) := m.deleteStream id
    (m', { del := some e, frames := fs })
  | .accCall a => (m.accCall a, {})
  | .accLocked a =>
    if m.dead then (m, {}) else
    let (m', r, fs) := m.accLocked a
    (m', { rets := match r with | some r => [(a, r)] | none => [], frames := fs })
  | .accRecv a => (m.accRecv a, {})
  | .accCtx a =>
    let (m', r) := m.accCtx a
    (m', { rets := match r with | some r => [(a, r)] | none => [] })
  | .cancelCtx a => (m.cancelCtx a, {})
  | .close e =>
    if m.dead then (m, {}) else
    let (m', p) := m.closeWithError e
    (m', { panic := p })

/-- run a list of steps, collecting the events -/
def Incoming.run (m : Incoming) : List InOp → Incoming × List InEv
  | [] => (m, [])
  | o :: os =>
    let (m', e) := m.step o
    let (m'', es) := m'.run os
    (m'', e :: es)

end Uquic.Model.Streams
