/-
Model of the glue between the connection and its streams map (property C15):

* which incoming stream limits a connection advertises and which it enforces, for the three
  constructors (`newConnection`, `newClientConnection`, `newUClientConnection` with a QUICSpec):
  `validateConfig` + `populateConfig` (config.go), the default transport parameters, `PopulateFromUQUIC`
  (an unlisted parameter is 0) and `configCoveringAdvertised` (u_connection.go);
* `Conn.handleFrames` (connection.go): the frame loop with its `handleErr` / `skipHandling` variables;
  whether each dispatch branch has its `if skipHandling { continue }` guard is a regenerated fact.
-/
import Uquic.Model.Streams.Map
import Uquic.Generated.Streams

namespace Uquic.Model.Streams
open Uquic.Gen

/-! ### advertised and enforced incoming stream limits -/

structure Limits where
  bidi : Int
  uni : Int
deriving DecidableEq, Repr

inductive ConnKind | server | client | uclient
deriving DecidableEq, Repr

def defaultMaxIncomingStreams : Int := Protocol.DefaultMaxIncomingStreams
def defaultMaxIncomingUniStreams : Int := Protocol.DefaultMaxIncomingUniStreams

/-- `validateConfig` (clamp to 2^60) then `populateConfig` (0 ↦ default, negative ↦ 0) -/
def populateLimit (dflt v : Int) : Int :=
  let v := if v > maxStreamCount then maxStreamCount else v
  if v = 0 then dflt else if v < 0 then 0 else v

def populate (conf : Limits) : Limits :=
  ⟨populateLimit defaultMaxIncomingStreams conf.bidi, populateLimit defaultMaxIncomingUniStreams conf.uni⟩

/-- the spec's quic_transport_parameters as `PopulateFromUQUIC` reads them: a negative entry stands for
    "not listed", which is 0 on the wire and in the connection's record -/
def specParams (spec : Limits) : Limits := ⟨max spec.bidi 0, max spec.uni 0⟩

/-- value of transport-parameter field `name` -/
def paramField (p : Limits) (name : String) : Int :=
  if name = "MaxBidiStreamNum" then p.bidi else if name = "MaxUniStreamNum" then p.uni else 0

def maxOver (base : Int) (l : List Int) : Int := l.foldl max base

/-- one incoming stream limit as `configCoveringAdvertised` derives it. `keeps = true` is the shape
    `c.X = max(c.X, p.<srcs>…)` (the tree before ad4f2a6), `keeps = false` the shape `c.X = p.<src>`
    (gofacts accepts exactly these two shapes). -/
def coverOne (keeps : Bool) (own : Int) (srcs : List Int) : Int :=
  if keeps then maxOver own srcs
  else match srcs with
    | [] => own
    | x :: xs => maxOver x xs

/-- `configCoveringAdvertised` for a given shape and given source fields -/
def coverConfigWith (keeps : Bool) (bidiSrc uniSrc : List String) (conf p : Limits) : Limits :=
  ⟨coverOne keeps conf.bidi (bidiSrc.map (paramField p)), coverOne keeps conf.uni (uniSrc.map (paramField p))⟩

/-- `configCoveringAdvertised`, with its shape and the fields it reads regenerated from the source -/
def coverConfig (conf p : Limits) : Limits :=
  coverConfigWith Uquic.Gen.Streams.coverKeepsConfig Uquic.Gen.Streams.coverBidiSources Uquic.Gen.Streams.coverUniSources conf p

/-- what the peer is told (initial_max_streams_bidi / _uni) -/
def advertisedLimits (k : ConnKind) (conf spec : Limits) : Limits :=
  match k with
  | .uclient => specParams spec
  | _ => populate conf

/-- what the streams map is created with, for a given `configCoveringAdvertised` -/
def enforcedLimitsWith (cover : Limits → Limits → Limits) (k : ConnKind) (conf spec : Limits) : Limits :=
  match k with
  | .uclient => cover (populate conf) (specParams spec)
  | _ => populate conf

/-- what the streams map is created with -/
def enforcedLimits (k : ConnKind) (conf spec : Limits) : Limits := enforcedLimitsWith coverConfig k conf spec

/-- the shape of `configCoveringAdvertised` before ad4f2a6: `max(Config value, advertised)` per stream type -/
def coverConfigMax : Limits → Limits → Limits := coverConfigWith true ["MaxBidiStreamNum"] ["MaxUniStreamNum"]

/-! ### handleFrames -/

/-- the frames the glue driver puts into packets -/
inductive PFrame
  | stream (id : SID) | reset (id : SID) | sdb (id : SID)      -- getReceiveStream
  | stop (id : SID) | msd (id : SID)                           -- getSendStream
  | maxStreams (t : STyp) (n : Int)
  | ack (sent : Bool)         -- acknowledges a packet that was / was not sent
  | ping | maxData | dataBlocked | streamsBlocked | padding
deriving DecidableEq, Repr

/-- dispatch branch of `handleFrames` a frame takes -/
def PFrame.branch : PFrame → String
  | .stream _ => "stream"
  | .ack _ => "ack"
  | _ => "other"

def branchGuard (b : String) : Bool := ((Uquic.Gen.Streams.skipGuards.find? (·.1 == b)).map (·.2)).getD false

/-- `if skipHandling { continue }` present in the branch this frame takes -/
def PFrame.guarded (f : PFrame) : Bool := branchGuard f.branch

/-- handling one frame: the streams map does the work; only errors matter to the loop -/
def handleOne (m : Map) (f : PFrame) : Map × Option Err :=
  let viaMap := fun (op : MapOp) =>
    let (m', ev) := m.step op
    (m', match ev.frameRes with | some (.error e) => some e | _ => none)
  match f with
  | .stream id | .reset id | .sdb id => viaMap (.recvFrame id)
  | .stop id | .msd id => viaMap (.sendFrame id)
  | .maxStreams t n => ((m.step (.maxStreams t n)).1, none)
  | .ack sent => (m, if sent then none else some .ackUnsent)
  | _ => (m, none)

/-- The frame loop of `handleFrames`, generic in the state and the per-frame handler.
    `err` is Go's `handleErr`, `skip` is `skipHandling`, `trace` is `log != nil`. -/
def frameLoop {σ F E} (h : σ → F → σ × Option E) (guard : F → Bool) (trace : Bool) :
    σ → Option E → Bool → List F → σ × Option E
  | s, err, _, [] => (s, if trace then err else none)
  | s, err, skip, f :: fs =>
    if skip && guard f then frameLoop h guard trace s err skip fs
    else
      match h s f with
      | (s', some x) => if trace then frameLoop h guard trace s' (some x) true fs else (s', some x)
      | (s', none) => frameLoop h guard trace s' none skip fs

def handleFramesG {σ F E} (h : σ → F → σ × Option E) (guard : F → Bool) (trace : Bool) (s : σ) (fs : List F) :
    σ × Option E := frameLoop h guard trace s none false fs

/-- what the property asks for: frames are handled in order up to and including the first one that
    fails, and its error is the result -/
def firstErrorSpec {σ F E} (h : σ → F → σ × Option E) : σ → List F → σ × Option E
  | s, [] => (s, none)
  | s, f :: fs =>
    match h s f with
    | (s', some e) => (s', some e)
    | (s', none) => firstErrorSpec h s' fs

/-- `Conn.handleFrames` on the streams-map model -/
def Map.handleFrames (m : Map) (trace : Bool) (fs : List PFrame) : Map × Option Err :=
  handleFramesG handleOne PFrame.guarded trace m fs

end Uquic.Model.Streams
