/-
Model of internal/utils/ringbuffer.RingBuffer[T] (T = Int): the queue behind the framer's
stream queue (which request streams have data to send), the datagram send queue and the
connection's received-packet queue.  Property C18 depends on it ("many concurrent requests on one
connection"): a stream id that falls out of the queue while the stream still counts as active is
never scheduled again and its request hangs.

The fields and every branch follow the Go code statement by statement (`grow` included: it runs
when the ring is full, also while the ring is wrapped, i.e. headPos != 0).  Positions are `Nat`;
`idx` replaces `(head + i) % cap` by a comparison so that the proofs stay linear.
-/
namespace Uquic.Model.Util.RingBuffer

structure RB where
  ring : List Int := []
  head : Nat := 0
  tail : Nat := 0
  full : Bool := false
deriving Repr, DecidableEq, Inhabited

namespace RB

def cap (r : RB) : Nat := r.ring.length

/-- `Init(size)`: only the ring is replaced -/
def init (r : RB) (n : Nat) : RB := { r with ring := List.replicate n 0 }

/-- `Len()` -/
def len (r : RB) : Nat :=
  if r.full then r.cap
  else if r.tail ≥ r.head then r.tail - r.head
  else r.tail + r.cap - r.head

/-- `Empty()` -/
def empty (r : RB) : Bool := !r.full && r.head == r.tail

/-- `grow()`: double the ring (1 for an empty one), move the elements to the front in queue order -/
def grow (r : RB) : RB :=
  let old := r.ring
  let newSize := if old.length * 2 = 0 then 1 else old.length * 2
  let moved := old.drop r.head ++ old.take r.head
  { ring := moved ++ List.replicate (newSize - old.length) 0, head := 0, tail := old.length, full := false }

/-- the position after `p` in a ring of `c` slots (`p++; if p == len(ring) { p = 0 }`) -/
def next (p c : Nat) : Nat := if p + 1 = c then 0 else p + 1

/-- first statement of `PushBack`: make room -/
def prep (r : RB) : RB := if r.full || r.ring.length = 0 then r.grow else r

/-- rest of `PushBack`: store at the tail, advance it, note when it meets the head -/
def put (r : RB) (x : Int) : RB :=
  { ring := r.ring.set r.tail x, head := r.head, tail := next r.tail r.ring.length,
    full := r.full || next r.tail r.ring.length = r.head }

/-- `PushBack(t)` -/
def pushBack (r : RB) (x : Int) : RB := r.prep.put x

/-- the state after a successful `PopFront` -/
def dropFront (r : RB) : RB :=
  { ring := r.ring.set r.head 0, head := next r.head r.ring.length, tail := r.tail, full := false }

/-- `PopFront()`: `none` = the panic on an empty queue (state unchanged) -/
def popFront (r : RB) : Option Int × RB :=
  if r.empty then (none, r) else (some (r.ring.getD r.head 0), r.dropFront)

/-- `PeekFront()` -/
def peekFront (r : RB) : Option Int :=
  if r.empty then none else some (r.ring.getD r.head 0)

/-- `Clear()` -/
def clear (r : RB) : RB :=
  { ring := List.replicate r.ring.length 0, head := 0, tail := 0, full := false }

/-- position of the i-th queued element -/
def idx (h i c : Nat) : Nat := if h + i < c then h + i else h + i - c

/-- the queue the ring stands for: the `len` elements from `head` on, wrapping around -/
def toList (r : RB) : List Int :=
  (List.range r.len).map fun i => r.ring.getD (idx r.head i r.cap) 0

/-- representation invariant of every state reachable through the exported methods -/
def WF (r : RB) : Prop :=
  (r.cap = 0 → r.head = 0 ∧ r.tail = 0 ∧ r.full = false) ∧
  (0 < r.cap → r.head < r.cap ∧ r.tail < r.cap) ∧
  (r.full = true → r.head = r.tail)

end RB

/-- operations of the exported API -/
inductive Op where
  | push (x : Int)
  | pop
  | peek
  | len
  | empty
  | clear
deriving Repr, DecidableEq

/-- what a caller observes -/
inductive Out where
  | unit
  | val (x : Int)
  | panic
  | num (n : Nat)
  | bool (b : Bool)
deriving Repr, DecidableEq

def stepRB (r : RB) : Op → RB × Out
  | .push x => (r.pushBack x, .unit)
  | .pop => match r.popFront with
    | (some v, r') => (r', .val v)
    | (none, r') => (r', .panic)
  | .peek => match r.peekFront with
    | some v => (r, .val v)
    | none => (r, .panic)
  | .len => (r, .num r.len)
  | .empty => (r, .bool r.empty)
  | .clear => (r.clear, .unit)

/-- the specification: a plain FIFO list -/
def stepQ (q : List Int) : Op → List Int × Out
  | .push x => (q ++ [x], .unit)
  | .pop => match q with
    | v :: q' => (q', .val v)
    | [] => ([], .panic)
  | .peek => match q with
    | v :: _ => (q, .val v)
    | [] => (q, .panic)
  | .len => (q, .num q.length)
  | .empty => (q, .bool q.isEmpty)
  | .clear => ([], .unit)

def runRB (r : RB) : List Op → List Out
  | [] => []
  | o :: os => let (r', out) := stepRB r o; out :: runRB r' os

def runQ (q : List Int) : List Op → List Out
  | [] => []
  | o :: os => let (q', out) := stepQ q o; out :: runQ q' os

end Uquic.Model.Util.RingBuffer
