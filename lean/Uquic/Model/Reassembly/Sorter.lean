/-
Model of frame_sorter.go (property C03): `frameSorter.Push/push`, `findStartGap`,
`findEndGap`, `deleteConsecutive`, `Pop`, `Peek`, `HasMoreData`.

Conventions
* offsets / lengths are `Nat` (Go `protocol.ByteCount`, an int64 that is never negative here).
* `gaps` is the Go linked list front to back: ascending `(Start, End)` pairs; the last gap ends at
  `protocol.MaxByteCount` ("open-ended").
* `queue` is the Go map `offset ↦ frameSorterEntry` as an association list (`qget/qdel/qset` have map
  semantics); an entry is its bytes plus `cb`, the identity of the `DoneCb` closure (`none` = nil).
  Every receive buffer handed to `Push` has a fresh id; `done` lists the callbacks fired by an
  operation, in firing order.
* Pointers into the gap list (`startGap`, `endGap`, `startGapNext`) become the decomposition
  `gaps = pre ++ sg :: rest`, `endGap = (sg :: rest)[k]`.  This is the pointer semantics of the Go code
  on every ascending gap list (an invariant proved in Props/C03: `gaps_wf`).
* Go panics (nil dereference of a list element, slice bounds, the explicit `panic`s) are the outcome
  `PushRes.panic` / `PopRes.panic`; they are never totalised away.
-/
import Uquic.Generated.Protocol

namespace Uquic.Model.Reassembly

abbrev Bytes := List UInt8
/-- `byteInterval{Start, End}` -/
abbrev Gap := Nat × Nat

def maxByteCount : Nat := Uquic.Gen.Protocol.MaxByteCount.toNat
def minStreamFrameBufferSize : Nat := Uquic.Gen.Protocol.MinStreamFrameBufferSize.toNat
def maxStreamFrameSorterGaps : Nat := Uquic.Gen.Protocol.MaxStreamFrameSorterGaps.toNat

/-- `frameSorterEntry` -/
structure Entry where
  data : Bytes
  cb : Option Nat
deriving Repr, BEq, DecidableEq

abbrev Queue := List (Nat × Entry)

def qget : Queue → Nat → Option Entry
  | [], _ => none
  | (k', e) :: r, k => if k' = k then some e else qget r k

def qdel (q : Queue) (k : Nat) : Queue := q.filter (fun p => p.1 ≠ k)

def qset (q : Queue) (k : Nat) (e : Entry) : Queue := (k, e) :: qdel q k

def cbList : Option Nat → List Nat
  | none => []
  | some i => [i]

structure Sorter where
  queue : Queue := []
  readPos : Nat := 0
  gaps : List Gap := [(0, maxByteCount)]
deriving Repr, BEq, DecidableEq

/-- `findStartGap`: index of the gap (relative to the list given) and `startsInGap`; `none` = panic("no gap found") -/
def findStartGap : List Gap → Nat → Option (Nat × Bool)
  | [], _ => none
  | g :: gs, off =>
    if g.1 ≤ off ∧ off ≤ g.2 then some (0, true)
    else if off < g.1 then some (0, false)
    else (findStartGap gs off).map fun r => (r.1 + 1, r.2)

/-- result of `findEndGap` on the list starting at `startGap`:
`found k` = the gap at index `k`, `endsInGap = true`;
`prev k`  = `gap.Prev()` of the gap at index `k`, `endsInGap = false` (for `k = 0` this is the element before `startGap`);
`nogap`   = panic("no gap found"). -/
inductive EndGap where
  | found (k : Nat)
  | prev (k : Nat)
  | nogap
deriving Repr, BEq, DecidableEq

def findEndGap : List Gap → Nat → EndGap
  | [], _ => .nogap
  | g :: gs, off =>
    if g.1 ≤ off ∧ off < g.2 then .found 0
    else if off < g.1 then .prev 0
    else match findEndGap gs off with
      | .found k => .found (k + 1)
      | .prev k => .prev (k + 1)
      | .nogap => .nogap

/-- `deleteConsecutive(pos)`; `fuel` bounds the number of entries that can be deleted (`queue.length + 1`). -/
def deleteConsecutive : Nat → Queue → Nat → Queue × List Nat
  | 0, q, _ => (q, [])
  | fuel + 1, q, pos =>
    match qget q pos with
    | none => (q, [])
    | some e =>
      let r := deleteConsecutive fuel (qdel q pos) (pos + e.data.length)
      (r.1, cbList e.cb ++ r.2)

inductive LoopStop where
  | noEntry   -- `!ok`: break
  | dup       -- `return errDuplicateStreamData` (nothing was replaced)
  | cut       -- existing frame is longer: cut the new frame at `pos`
deriving Repr, BEq, DecidableEq

structure LoopOut where
  q : Queue
  pos : Nat
  replaced : Bool
  done : List Nat
  stop : LoopStop

/-- the `for { oldEntry, ok := s.queue[pos] … }` loop of `push` -/
def replaceLoop : Nat → Queue → Nat → Nat → Bool → LoopOut
  | 0, q, pos, _, hr => ⟨q, pos, hr, [], .noEntry⟩
  | fuel + 1, q, pos, «end», hr =>
    match qget q pos with
    | none => ⟨q, pos, hr, [], .noEntry⟩
    | some e =>
      let len := e.data.length
      if «end» - pos > len ∨ (hr = true ∧ «end» - pos = len) then
        let r := replaceLoop fuel (qdel q pos) (pos + len) «end» true
        { r with done := cbList e.cb ++ r.done }
      else if hr = false then ⟨q, pos, hr, [], .dup⟩
      else ⟨q, pos, hr, [], .cut⟩

/-- the `for gap := startGapNext; gap.Value.End < endGapStart; gap = nextGap` loop: removes the gaps strictly
between `startGap` and `endGap` and the frames behind each; `none` = nil dereference (ran off the list). -/
def dropMid : List Gap → Nat → Queue → Option (List Gap × Queue × List Nat)
  | [], _, _ => none
  | g :: gs, egStart, q =>
    if g.2 < egStart then
      let r := deleteConsecutive (q.length + 1) q g.2
      match dropMid gs egStart r.1 with
      | none => none
      | some (gs', q', d) => some (gs', q', r.2 ++ d)
    else some (g :: gs, q, [])

inductive PushRes where
  | ok
  | dup           -- errDuplicateStreamData (mapped to nil + doneCb() by `Push`)
  | tooManyGaps   -- errors.New("too many gaps in received data")
  | panic
deriving Repr, BEq, DecidableEq

structure PushOut where
  s : Sorter
  res : PushRes
  done : List Nat

/-! The body of `push` after `startGap` / `endGap` are known, in the order of the Go statements.
Each stage is a small function so that it can be reasoned about on its own. -/

/-- in the replace loop: "Cut the new frame such that the end aligns with the start of the existing frame."
→ (data, end, wasCut) -/
def loopCut (lp : LoopOut) (data : Bytes) (start «end» : Nat) : Bytes × Nat × Bool :=
  if lp.stop = .cut then (data.take (lp.pos - start), lp.pos, true) else (data, «end», false)

/-- "cut the frame, such that it starts at the start of the gap" → (data, start, wasCut) -/
def frontCut (startsInGap hr : Bool) (sg : Gap) (data : Bytes) (start : Nat) (wasCut : Bool) : Bytes × Nat × Bool :=
  if startsInGap = false ∧ hr = false then (data.drop (sg.1 - start), sg.1, true) else (data, start, wasCut)

/-- the update of `startGap`: (what remains of it in the list, adjustedStartGapEnd) -/
def startGapUpdate (sg : Gap) (start «end» : Nat) (hr : Bool) : List Gap × Bool :=
  if start ≤ sg.1 then
    (if «end» ≥ sg.2 then [] else [(«end», sg.2)], false)   -- gap deleted / `startGap.Start = end`
  else if hr = false then ([(sg.1, start)], true)            -- `startGap.End = start`
  else ([sg], false)

/-- `if !startGapEqualsEndGap { deleteConsecutive(startGapEnd); for gap := startGapNext … }`
→ (gap list from endGap on, queue, callbacks fired); `none` = nil dereference -/
def midStage (eq : Bool) (rest : List Gap) (q : Queue) (startGapEnd endGapStart : Nat) :
    Option (List Gap × Queue × List Nat) :=
  if eq then some (rest, q, [])
  else
    let r := deleteConsecutive (q.length + 1) q startGapEnd
    match dropMid rest endGapStart r.1 with
    | none => none
    | some (gs', q', d) => some (gs', q', r.2 ++ d)

/-- "cut the frame, such that it ends at the end of the gap" → (data, end, wasCut) -/
def backCut (endsInGap : Bool) (endGapEnd : Nat) (data : Bytes) (start «end» : Nat) (wasCut : Bool) : Bytes × Nat × Bool :=
  if endsInGap = false ∧ start ≠ endGapEnd ∧ «end» > endGapEnd then (data.take (endGapEnd - start), endGapEnd, true)
  else (data, «end», wasCut)

/-- the update of `endGap`: (gap inserted after startGap, gap list from endGap on) -/
def endGapUpdate (eq adjusted : Bool) («end» endGapEnd startGapEnd : Nat) (rest' : List Gap) : List Gap × List Gap :=
  if «end» = endGapEnd then
    (if eq then ([], rest') else ([], rest'.tail))             -- the frame covers the whole endGap
  else if eq = true ∧ adjusted = true then ([(«end», startGapEnd)], rest')   -- the frame split the gap into two
  else if eq = false then
    match rest' with
    | [] => ([], [])
    | g :: gs => ([], («end», g.2) :: gs)                       -- endGap.Start = end
  else ([], rest')

/-- "if wasCut && len(data) < MinStreamFrameBufferSize": copy the bytes, release the buffer → (doneCb, fired) -/
def copyShort (wasCut : Bool) (data : Bytes) (cb : Option Nat) (done : List Nat) : Option Nat × List Nat :=
  if wasCut = true ∧ data.length < minStreamFrameBufferSize then (none, done ++ cbList cb) else (cb, done)

/-- the part of `push` after `startGap` / `endGap` are known.
`gaps = pre ++ sg :: rest`, `endGap = (sg :: rest)[k]`. -/
def pushBody (s : Sorter) (data : Bytes) (start «end» : Nat) (cb : Option Nat)
    (pre : List Gap) (sg : Gap) (rest : List Gap) (k : Nat) (startsInGap endsInGap : Bool) : PushOut :=
  let eq : Bool := k == 0
  let eg : Gap := (sg :: rest).getD k sg
  if (eq = true ∧ «end» ≤ sg.1) ∨ (eq = false ∧ sg.2 ≥ eg.1 ∧ «end» ≤ sg.1) then ⟨s, .dup, []⟩ else
  -- replace the frames that start at `start` and are covered by the new one
  let lp := replaceLoop (s.queue.length + 1) s.queue start «end» false
  if lp.stop = .dup then ⟨s, .dup, []⟩ else
  let c1 := loopCut lp data start «end»
  if startsInGap = false ∧ lp.replaced = false ∧ sg.1 > c1.2.1 then ⟨s, .panic, []⟩ else   -- data[startGap.Start-start:] out of range
  let c2 := frontCut startsInGap lp.replaced sg c1.1 start c1.2.2
  let u := startGapUpdate sg c2.2.1 c1.2.1 lp.replaced
  match midStage eq rest lp.q sg.2 eg.1 with
  | none => ⟨s, .panic, []⟩
  | some (rest', q, dmid) =>
  if endsInGap = false ∧ c2.2.1 ≠ eg.2 ∧ c1.2.1 > eg.2 ∧ eg.2 < c2.2.1 then ⟨s, .panic, []⟩ else   -- data[:endGapEnd-start] out of range
  let c3 := backCut endsInGap eg.2 c2.1 c2.2.1 c1.2.1 c2.2.2
  let w := endGapUpdate eq u.2 c3.2.1 eg.2 sg.2 rest'
  let cp := copyShort c3.2.2 c3.1 cb (lp.done ++ dmid)
  let gaps' := pre ++ u.1 ++ w.1 ++ w.2
  if gaps'.length > maxStreamFrameSorterGaps then
    ⟨{ s with queue := q, gaps := gaps' }, .tooManyGaps, cp.2⟩
  else
    ⟨{ s with queue := qset q c2.2.1 ⟨c3.1, cp.1⟩, gaps := gaps' }, .ok, cp.2⟩

/-- `frameSorter.push` -/
def Sorter.pushInner (s : Sorter) (data : Bytes) (offset : Nat) (cb : Option Nat) : PushOut :=
  if data.length = 0 then ⟨s, .dup, []⟩ else
  let start := offset
  let «end» := offset + data.length
  match s.gaps with
  | [] => ⟨s, .panic, []⟩                    -- s.gaps.Front() == nil
  | g0 :: _ =>
  if «end» ≤ g0.1 then ⟨s, .dup, []⟩ else
  match findStartGap s.gaps start with
  | none => ⟨s, .panic, []⟩
  | some (i, startsInGap) =>
  match s.gaps.drop i with
  | [] => ⟨s, .panic, []⟩
  | sg :: rest =>
  let pre := s.gaps.take i
  match findEndGap (sg :: rest) «end» with
  | .nogap => ⟨s, .panic, []⟩
  | .prev 0 =>
    -- endGap = startGap.Prev(): the new frame lies completely below startGap
    match pre.getLast? with
    | none => ⟨s, .panic, []⟩                -- endGap == nil is dereferenced
    | some eg =>
      if sg.2 ≥ eg.1 ∧ «end» ≤ sg.1 then ⟨s, .dup, []⟩
      else ⟨s, .panic, []⟩                   -- not reachable on an ascending gap list (outside the model)
  | .found k => pushBody s data start «end» cb pre sg rest k startsInGap true
  | .prev (k + 1) => pushBody s data start «end» cb pre sg rest k startsInGap false

/-- `frameSorter.Push`: a duplicate is not an error; its buffer is released at once. -/
def Sorter.push (s : Sorter) (data : Bytes) (offset : Nat) (cb : Option Nat) : PushOut :=
  let r := s.pushInner data offset cb
  match r.res with
  | .dup => ⟨r.s, .ok, r.done ++ cbList cb⟩
  | _ => r

inductive PopRes where
  | ok (offset : Nat) (data : Option Bytes) (cb : Option Nat)
  | panic
deriving Repr, BEq, DecidableEq

/-- `frameSorter.Pop`; `data = none` is the nil slice (no frame at `readPos`). -/
def Sorter.pop (s : Sorter) : Sorter × PopRes :=
  match qget s.queue s.readPos with
  | none => (s, .ok s.readPos none none)
  | some e =>
    let s' := { s with queue := qdel s.queue s.readPos, readPos := s.readPos + e.data.length }
    match s.gaps with
    | [] => (s', .panic)
    | g :: _ => if g.2 ≤ s'.readPos then (s', .panic) else (s', .ok s.readPos (some e.data) e.cb)

def Sorter.hasMoreData (s : Sorter) : Bool := !s.queue.isEmpty

/-- first loop of `Peek`: is there enough consecutive data? -/
def peekCheck : Nat → Queue → Nat → Nat → Bool
  | 0, _, _, _ => false
  | fuel + 1, q, pos, remaining =>
    if remaining = 0 then true else
    match qget q pos with
    | none => false
    | some e =>
      if remaining ≤ e.data.length then true
      else peekCheck fuel q (pos + e.data.length) (remaining - e.data.length)

/-- second loop of `Peek` -/
def peekCopy : Nat → Queue → Nat → Nat → Bytes
  | 0, _, _, _ => []
  | fuel + 1, q, pos, n =>
    if n = 0 then [] else
    match qget q pos with
    | none => []
    | some e =>
      let c := e.data.take n
      c ++ peekCopy fuel q (pos + e.data.length) (n - c.length)

/-- `frameSorter.Peek(offset, p)` with `len(p) = n`; `none` = errTooLittleData -/
def Sorter.peek (s : Sorter) (offset n : Nat) : Option Bytes :=
  if n = 0 then some []
  else if peekCheck (n + 1) s.queue offset n then some (peekCopy (n + 1) s.queue offset n)
  else none

end Uquic.Model.Reassembly
