/-
Model of the receive half of crypto_stream.go (property C03): `baseCryptoStream.HandleCryptoFrame`,
`GetCryptoData`, `Finish`.  CRYPTO frames carry no release callback (`Push(f.Data, f.Offset, nil)`).
-/
import Uquic.Model.Reassembly.Sorter
import Uquic.Generated.Reassembly

namespace Uquic.Model.Reassembly

def maxCryptoStreamOffset : Nat := Uquic.Gen.Protocol.MaxCryptoStreamOffset.toNat

inductive CryptoErr where
  | cryptoBufferExceeded   -- qerr.CryptoBufferExceeded
  | protocolViolation      -- qerr.ProtocolViolation
  | tooManyGaps
  | panic
deriving Repr, BEq, DecidableEq

structure CryptoStream where
  queue : Sorter := {}
  highestOffset : Nat := 0
  finished : Bool := false
deriving Repr, BEq, DecidableEq

/-- `HandleCryptoFrame` -/
def CryptoStream.handleCryptoFrame (s : CryptoStream) (offset : Nat) (data : Bytes) : CryptoStream × Option CryptoErr :=
  let highestOffset := offset + data.length
  if highestOffset > maxCryptoStreamOffset then (s, some .cryptoBufferExceeded)
  else if s.finished then
    if highestOffset > s.highestOffset then (s, some .protocolViolation) else (s, none)
  else
    let s := { s with highestOffset := max s.highestOffset highestOffset }
    let r := s.queue.push data offset none
    let s := { s with queue := r.s }
    match r.res with
    | .ok | .dup => (s, none)
    | .tooManyGaps => (s, some .tooManyGaps)
    | .panic => (s, some .panic)

/-- `GetCryptoData`; `none` = nil; the Bool is "Pop panicked" -/
def CryptoStream.getCryptoData (s : CryptoStream) : CryptoStream × Option Bytes × Bool :=
  match s.queue.pop with
  | (q, .panic) => ({ s with queue := q }, none, true)
  | (q, .ok _ data _) => ({ s with queue := q }, data, false)

/-- `Finish` -/
def CryptoStream.finish (s : CryptoStream) : CryptoStream × Option CryptoErr :=
  if s.queue.hasMoreData then (s, some .protocolViolation)
  else ({ s with finished := true }, none)

/-! ### the glue around the crypto stream: `Conn.handleFrames` / `Conn.handleCryptoFrame`, CRYPTO frames only -/

/-- `for { data := GetCryptoData(); if data == nil { break }; HandleMessage(data) }`:
the messages handed to the TLS stack; the Bool is "Pop panicked" -/
def CryptoStream.drain : Nat → CryptoStream → CryptoStream × List Bytes × Bool
  | 0, s => (s, [], false)
  | fuel + 1, s =>
    match s.getCryptoData with
    | (s', none, pan) => (s', [], pan)
    | (s', some d, _) =>
      let r := CryptoStream.drain fuel s'
      (r.1, d :: r.2.1, r.2.2)

/-- `Conn.handleCryptoFrame`: HandleCryptoFrame, then drain -/
def CryptoStream.handleAndDrain (s : CryptoStream) (offset : Nat) (data : Bytes) : CryptoStream × Option CryptoErr × List Bytes :=
  let r := s.handleCryptoFrame offset data
  match r.2 with
  | some e => (r.1, some e, [])
  | none =>
    let d := CryptoStream.drain (r.1.queue.queue.length + 1) r.1
    (d.1, if d.2.2 then some .panic else none, d.2.1)

/-- the CRYPTO frames of one packet in packet order; the first error wins (the rest of the packet is
not processed) → (stream, result per processed frame, messages handed to TLS) -/
def CryptoStream.handlePacket (s : CryptoStream) : List (Nat × Bytes) → CryptoStream × List (Option CryptoErr) × List Bytes
  | [] => (s, [], [])
  | (off, data) :: rest =>
    let r := s.handleAndDrain off data
    match r.2.1 with
    | some e => (r.1, [some e], r.2.2)
    | none =>
      let r' := CryptoStream.handlePacket r.1 rest
      (r'.1, none :: r'.2.1, r.2.2 ++ r'.2.2)

end Uquic.Model.Reassembly
