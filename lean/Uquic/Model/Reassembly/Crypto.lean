/-
Model of the receive half of crypto_stream.go (property C03): `baseCryptoStream.HandleCryptoFrame`,
`GetCryptoData`, `Finish`.  CRYPTO frames carry no release callback (`Push(f.Data, f.Offset, nil)`).
-/
import Uquic.Model.Reassembly.Sorter
import Uquic.Generated.Reassembly

namespace Uquic.Model.Reassembly

def maxCryptoStreamOffset : Nat := Uquic.Gen.Protocol.MaxCryptoStreamOffset.toNat

inductive CryptoErr where
  | cryptoBufferExceeded   -- qerr.CryptoBufferExceeded
  | protocolViolation      -- qerr.ProtocolViolation
  | tooManyGaps
  | panic
deriving Repr, BEq, DecidableEq

structure CryptoStream where
  queue : Sorter := {}
  highestOffset : Nat := 0
  finished : Bool := false
deriving Repr, BEq, DecidableEq

/-- `HandleCryptoFrame` -/
def CryptoStream.handleCryptoFrame (s : CryptoStream) (offset : Nat) (data : Bytes) : CryptoStream × Option CryptoErr :=
  let highestOffset := offset + data.length
  if highestOffset > maxCryptoStreamOffset then (s, some .cryptoBufferExceeded)
  else if s.finished then
    if highestOffset > s.highestOffset then (s, some .protocolViolation) else (s, none)
  else
    let s := { s with highestOffset := max s.highestOffset highestOffset }
    let r := s.queue.push data offset none
    let s := { s with queue := r.s }
    match r.res with
    | .ok | .dup => (s, none)
    | .tooManyGaps => (s, some .tooManyGaps)
    | .panic => (s, some .panic)

/-- `GetCryptoData`; `none` = nil; the Bool is "Pop panicked" -/
def CryptoStream.getCryptoData (s : CryptoStream) : CryptoStream × Option Bytes × Bool :=
  match s.queue.pop with
  | (q, .panic) => ({ s with queue := q }, none, true)
  | (q, .ok _ data _) => ({ s with queue := q }, data, false)

/-- `Finish` -/
def CryptoStream.finish (s : CryptoStream) : CryptoStream × Option CryptoErr :=
  if s.queue.hasMoreData then (s, some .protocolViolation)
  else ({ s with finished := true }, none)

end Uquic.Model.Reassembly
