/-
Model of the glue between a connection and its reassembly cores (property C03):

* `Conn.handleFrames` (connection.go) — the frame loop with `handleErr` / `skipHandling`, traced
  (qlog on, `log != nil`) or not.  The loop itself is the one modelled for C15
  (`Uquic.Model.Streams.frameLoop`, generic in the handler); whether each dispatch branch has its
  `if skipHandling { continue }` guard is the regenerated fact `Uquic.Gen.Streams.skipGuards`.
* the handlers behind it for the frames that feed reassembly: `streamsMap.HandleStreamFrame` /
  `HandleResetStreamFrame` / `HandleStreamDataBlockedFrame` (streams_map.go: which stream object a
  frame reaches, streams opened on demand, frames for deleted streams dropped), the receive half of the
  stream (`RStream`, with the connection flow controller SHARED by all streams of the connection) and
  `Conn.handleCryptoFrame` on the 1-RTT crypto stream (`CryptoStream.handleAndDrain`).
* what the application sees: `OpenStream`, `Read` on a stream the streams map handed out; a
  unidirectional receive stream that completes is deleted from the map, a bidirectional one stays
  (its send half is still open).

Stream ids are `Int` (as in the C15 model), offsets and windows `Nat`.
-/
import Uquic.Model.Reassembly.ReceiveStream
import Uquic.Model.Reassembly.Crypto
import Uquic.Model.Streams.Glue

namespace Uquic.Model.Reassembly
open Uquic.Model.Streams (Persp STyp typeOf initiatedBy numToID firstIncoming firstOutgoing frameLoop handleFramesG
  firstErrorSpec branchGuard)

/-- the receive windows this endpoint told its peer (initial_max_stream_data_bidi_local / _bidi_remote /
    _uni, initial_max_data) -/
structure Windows where
  bidiLocal : Nat := 0
  bidiRemote : Nat := 0
  uni : Nat := 0
  conn : Nat := 0
deriving Repr, BEq, DecidableEq

/-- `Conn.newFlowController`: the receive window of stream `id` -/
def Windows.forStream (w : Windows) (pers : Persp) (id : Int) : Nat :=
  if typeOf id = .uni then w.uni
  else if initiatedBy id = pers then w.bidiLocal else w.bidiRemote

inductive GErr where
  | stream (e : StreamErr)     -- FINAL_SIZE_ERROR / FLOW_CONTROL_ERROR / gap limit, raised by a receive stream
  | crypto (e : CryptoErr)     -- CRYPTO_BUFFER_EXCEEDED / …, raised by the crypto stream
  | state                      -- STREAM_STATE_ERROR (wrong direction, local stream never opened)
  | limit                      -- STREAM_LIMIT_ERROR
  | ackUnsent                  -- PROTOCOL_VIOLATION: ACK for a packet that was never sent
deriving Repr, BEq, DecidableEq

/-- the frames the glue driver puts into 1-RTT packets -/
inductive GFrame where
  | stream (id : Int) (off : Nat) (data : Bytes) (fin : Bool)
  | reset (id : Int) (final code : Nat)
  | sdb (id : Int)                       -- STREAM_DATA_BLOCKED
  | crypto (off : Nat) (data : Bytes)
  | ack (sent : Bool)
  | ping | maxData | padding
deriving Repr, BEq, DecidableEq

/-- dispatch branch of `handleFrames` a frame takes -/
def GFrame.branch : GFrame → String
  | .stream .. => "stream"
  | .ack _ => "ack"
  | _ => "other"

/-- `if skipHandling { continue }` present in the branch this frame takes (regenerated fact) -/
def GFrame.guarded (f : GFrame) : Bool := branchGuard f.branch

structure RConn where
  pers : Persp := .server
  win : Windows := {}
  /-- incoming stream limit per type (`MaxIncomingStreams` / `MaxIncomingUniStreams`, as a count) -/
  maxIn : Int := 100
  /-- how many bidirectional streams the peer lets us open -/
  maxOut : Int := 3
  /-- every receive half created so far, by stream id (what the application can hold) -/
  streams : List (Int × RStream) := []
  /-- unidirectional receive streams that completed and were deleted from the streams map -/
  gone : List Int := []
  nextInBidi : Int := 0      -- streams_map_incoming: nextStreamToOpen
  nextInUni : Int := 0
  nextOut : Int := 0         -- streams_map_outgoing (bidi): nextStream
  conn : ConnFC := {}        -- the ONE connection flow controller
  crypto : CryptoStream := {}
deriving Repr, BEq, DecidableEq

def RConn.new (pers : Persp) (w : Windows) : RConn :=
  { pers := pers, win := w,
    nextInBidi := firstIncoming .bidi pers, nextInUni := firstIncoming .uni pers,
    nextOut := firstOutgoing .bidi pers,
    conn := { window := w.conn, windowSize := w.conn } }

def freshStream (c : RConn) (id : Int) : RStream :=
  let w := c.win.forStream c.pers id
  { fc := { window := w, windowSize := w } }

def RConn.getStream (c : RConn) (id : Int) : Option RStream := (c.streams.find? (·.1 == id)).map (·.2)

def RConn.setStream (c : RConn) (id : Int) (s : RStream) : RConn :=
  { c with streams := (id, s) :: c.streams.filter (·.1 != id) }

/-- `incomingStreamsMap.GetOrOpenStream`: open every stream from `next` up to `id` (`fuel` bounds the loop) -/
def openUpTo (c : RConn) (id : Int) : Nat → Int → List (Int × RStream) → List (Int × RStream)
  | 0, _, acc => acc
  | fuel + 1, next, acc =>
    if next > id then acc else openUpTo c id fuel (next + 4) ((next, freshStream c next) :: acc)

inductive Lookup where
  | err (e : GErr)
  | dropped                -- the stream was deleted: the frame is ignored
  | found (s : RStream)
deriving Repr, BEq, DecidableEq

/-- `streamsMap.getReceiveStream` → (`GetOrOpenReceiveStream`): the stream a frame reaches -/
def RConn.lookup (c : RConn) (id : Int) : RConn × Lookup :=
  if typeOf id = .uni ∧ initiatedBy id = c.pers then (c, .err .state)      -- a send-only stream
  else if initiatedBy id = c.pers then
    if id ≥ c.nextOut then (c, .err .state)                               -- peer attempted to open a local stream
    else match c.getStream id with
      | some s => (c, .found s)
      | none => (c, .dropped)
  else if id > numToID c.maxIn (typeOf id) c.pers.opposite then (c, .err .limit)
  else
    let next := if typeOf id = .uni then c.nextInUni else c.nextInBidi
    let c1 : RConn :=
      if id < next then c
      else
        let streams := openUpTo c id ((id - next).toNat / 4 + 1) next c.streams
        if typeOf id = .uni then { c with streams := streams, nextInUni := id + 4 }
        else { c with streams := streams, nextInBidi := id + 4 }
    if c1.gone.contains id then (c1, .dropped)
    else match c1.getStream id with
      | some s => (c1, .found s)
      | none => (c1, .dropped)

/-- the stream as the handlers see it: its flow controller points to the connection's one -/
def RConn.attach (c : RConn) (s : RStream) : RStream := { s with fc := { s.fc with conn := c.conn } }

/-- put a stream back after a call; `onStreamCompleted` deletes a unidirectional receive stream -/
def RConn.detach (c : RConn) (id : Int) (s : RStream) (completed : Bool) : RConn :=
  let c1 := ({ c with conn := s.fc.conn }).setStream id s
  if completed && decide (typeOf id = .uni) then { c1 with gone := id :: c1.gone } else c1

def evCompleted (evs : List Ev) : Bool := evs.contains Ev.completed

/-- a frame for a receive stream: look the stream up, let it handle the frame -/
def RConn.onStream (c : RConn) (id : Int) (h : RStream → FrameOut) : RConn × Option GErr :=
  match c.lookup id with
  | (c1, .err e) => (c1, some e)
  | (c1, .dropped) => (c1, none)
  | (c1, .found s) =>
    let o := h (c1.attach s)
    (c1.detach id o.s (evCompleted o.evs), o.err.map GErr.stream)

/-- handling ONE frame (`streamsMap.HandleStreamFrame`, `Conn.handleFrame`, `Conn.handleAckFrame`) -/
def handleOne (c : RConn) : GFrame → RConn × Option GErr
  | .stream id off data fin => c.onStream id fun s => s.handleStreamFrame off data fin none
  | .reset id final code => c.onStream id fun s => s.handleResetStreamFrame final 0 code
  | .sdb id => c.onStream id fun s => ⟨s, none, []⟩
  | .crypto off data =>
    let r := c.crypto.handleAndDrain off data
    ({ c with crypto := r.1 }, r.2.1.map GErr.crypto)
  | .ack sent => (c, if sent then none else some .ackUnsent)
  | .ping | .maxData | .padding => (c, none)

/-- `Conn.handleFrames` on this model: the C15 frame loop around `handleOne` -/
def RConn.handleFrames (c : RConn) (trace : Bool) (fs : List GFrame) : RConn × Option GErr :=
  handleFramesG handleOne GFrame.guarded trace c fs

/-- `Conn.OpenStream` → the new stream's id, or `none` (StreamLimitReachedError) -/
def RConn.openBidi (c : RConn) : RConn × Option Int :=
  let id := c.nextOut
  if id > numToID c.maxOut .bidi c.pers then (c, none)
  else (({ c with nextOut := id + 4 }).setStream id (freshStream c id), some id)

/-- `Read(p)`, `len(p) = n`, on the stream the application holds for `id` (`none`: it holds none) -/
def RConn.read (c : RConn) (id : Int) (n : Nat) : Option (RConn × ReadOut) :=
  match c.getStream id with
  | none => none
  | some s =>
    let r := (c.attach s).read n
    some (c.detach id r.s (evCompleted r.evs), r)

end Uquic.Model.Reassembly
