/-
Model of receive_stream.go (property C03) on top of the frame sorter, with the receive side of
internal/flowcontrol/{stream,connection,base}_flow_controller.go as a sub-model (`FC`).

Every public method of `ReceiveStream` is one atomic step (it runs under `s.mutex`).  A blocking
`Read` / `Peek` is the composite "SetReadDeadline(now + d); Read(p)" executed in virtual time: when no
data is available the call parks on `readChan`, the deadline timer wakes it, it re-runs
`dequeueNextFrame` and returns `errDeadline` (status `deadline`, printed `wouldblock`).

The calls made on the flow controller and on the `streamSender`, and the `DoneCb`s fired, are
recorded as events (`Ev`) in call order.  RTT is 0 (a fresh `RTTStats`), so window auto-tuning never
changes the window size.
-/
import Uquic.Model.Reassembly.Sorter
import Uquic.Generated.Reassembly

namespace Uquic.Model.Reassembly

def thrNum : Nat := Uquic.Gen.Reassembly.WindowUpdateThresholdNum.toNat
def thrDen : Nat := Uquic.Gen.Reassembly.WindowUpdateThresholdDen.toNat

/-! ### flow controller (receive side) -/

structure ConnFC where
  highest : Nat := 0
  bytesRead : Nat := 0
  window : Nat := 0
  windowSize : Nat := 0
deriving Repr, BEq, DecidableEq

structure FC where
  receivedFinal : Bool := false
  highest : Nat := 0
  bytesRead : Nat := 0
  window : Nat := 0
  windowSize : Nat := 0
  conn : ConnFC := {}
deriving Repr, BEq, DecidableEq

/-- `baseFlowController.hasWindowUpdate`: `receiveWindow - bytesRead <= ByteCount(float64(size) * (1 - threshold))` -/
def hasWindowUpdate (window bytesRead size : Nat) : Bool :=
  decide (window - bytesRead ≤ size * (thrDen - thrNum) / thrDen)

inductive StreamErr where
  | finalSize       -- qerr.FinalSizeError
  | flowControl     -- qerr.FlowControlError
  | tooManyGaps     -- errors.New("too many gaps in received data") (INTERNAL_ERROR at the connection)
  | panic
deriving Repr, BEq, DecidableEq

/-- `streamFlowController.UpdateHighestReceived` (then `connectionFlowController.IncrementHighestReceived`) -/
def FC.updateHighestReceived (c : FC) (offset : Nat) (final : Bool) : FC × Option StreamErr :=
  if c.receivedFinal = true ∧ final = true ∧ offset ≠ c.highest then (c, some .finalSize)
  else if c.receivedFinal = true ∧ offset > c.highest then (c, some .finalSize)
  else
    let c := if final then { c with receivedFinal := true } else c
    if offset = c.highest then (c, none)
    else if offset < c.highest then
      if final then (c, some .finalSize) else (c, none)
    else
      let increment := offset - c.highest
      let c := { c with highest := offset }
      if c.highest > c.window then (c, some .flowControl)
      else
        let conn : ConnFC := { c.conn with highest := c.conn.highest + increment }
        let c := { c with conn := conn }
        if conn.highest > conn.window then (c, some .flowControl) else (c, none)

/-- `AddBytesRead` → (hasStreamWindowUpdate, hasConnWindowUpdate) -/
def FC.addBytesRead (c : FC) (n : Nat) : FC × Bool × Bool :=
  let c := { c with bytesRead := c.bytesRead + n }
  let hasS := !c.receivedFinal && hasWindowUpdate c.window c.bytesRead c.windowSize
  let conn : ConnFC := { c.conn with bytesRead := c.conn.bytesRead + n }
  ({ c with conn := conn }, hasS, hasWindowUpdate conn.window conn.bytesRead conn.windowSize)

def FC.abandon (c : FC) : FC :=
  let unread := c.highest - c.bytesRead
  let c := { c with bytesRead := c.highest }
  if unread > 0 then { c with conn := { c.conn with bytesRead := c.conn.bytesRead + unread } } else c

/-- `GetWindowUpdate` (RTT = 0: no auto-tuning) -/
def FC.getWindowUpdate (c : FC) : FC × Nat :=
  if c.receivedFinal then (c, 0)
  else if !hasWindowUpdate c.window c.bytesRead c.windowSize then (c, 0)
  else
    let w := c.bytesRead + c.windowSize
    ({ c with window := w }, w)

/-! ### the stream -/

inductive Ev where
  | done (id : Nat)                    -- a receive buffer's DoneCb (frame.PutBack) fired
  | fcUpdate (off : Nat) (fin : Bool)  -- flowController.UpdateHighestReceived
  | fcRead (n : Nat)                   -- flowController.AddBytesRead
  | fcAbandon                          -- flowController.Abandon
  | fcWindow                           -- flowController.GetWindowUpdate
  | completed                          -- sender.onStreamCompleted
  | hasCtrl                            -- sender.onHasStreamControlFrame
  | hasConnData                        -- sender.onHasConnectionData
deriving Repr, BEq, DecidableEq

inductive RStatus where
  | ok
  | eof
  | cancelled (err : Option (Nat × Bool))   -- s.cancelErr: (code, remote); `none` = nil *StreamError
  | shutdown
  | deadline                                -- would block (errDeadline after the virtual-time wake-up)
  | panic
deriving Repr, BEq, DecidableEq

structure RStream where
  sorter : Sorter := {}
  finalOffset : Nat := maxByteCount
  cur : Option Bytes := none          -- currentFrame (none = nil)
  curDone : Option Nat := none        -- currentFrameDone
  rpif : Nat := 0                     -- readPosInFrame
  curIsLast : Bool := false
  queuedStopSending : Bool := false
  queuedMaxStreamData : Bool := false
  errorRead : Bool := false
  completed : Bool := false
  cancelledRemotely : Bool := false
  cancelledLocally : Bool := false
  cancelErr : Option (Nat × Bool) := none
  shutdown : Bool := false            -- closeForShutdownErr != nil
  readPos : Nat := 0
  reliableSize : Nat := 0
  fc : FC := {}
deriving Repr, BEq, DecidableEq

def RStream.remoteEff (s : RStream) : Bool :=
  s.cancelledRemotely && decide (s.readPos ≥ s.reliableSize)

def RStream.curLen (s : RStream) : Nat := (s.cur.map List.length).getD 0

/-- `isNewlyCompleted` -/
def RStream.isNewlyCompleted (s : RStream) : RStream × Bool :=
  if s.completed then (s, false)
  else if s.finalOffset = maxByteCount then (s, false)
  else if s.cancelledLocally then ({ s with completed := true }, true)
  else if s.errorRead then ({ s with completed := true }, true)
  else (s, false)

/-- `dequeueNextFrame`; the Bool is "Pop panicked" -/
def RStream.dequeue (s : RStream) : RStream × List Ev × Bool :=
  let evs := (cbList s.curDone).map Ev.done
  match s.sorter.pop with
  | (so, .panic) => ({ s with sorter := so }, evs, true)
  | (so, .ok offset data cb) =>
    let len := (data.map List.length).getD 0
    ({ s with sorter := so, cur := data, curDone := cb,
              curIsLast := decide (offset + len ≥ s.finalOffset) && !s.cancelledRemotely,
              rpif := 0 }, evs, false)

structure ReadAcc where
  s : RStream
  evs : List Ev := []
  out : Bytes := []
  hasS : Bool := false
  hasC : Bool := false

/-- `dequeueNextFrame` if the current frame is used up (or there is none) -/
def RStream.deqIfNeeded (s : RStream) : RStream × List Ev × Bool :=
  if s.cur.isNone || decide (s.rpif ≥ s.curLen) then s.dequeue else (s, [], false)

def ReadAcc.deqIfNeeded (a : ReadAcc) : ReadAcc × Bool :=
  if a.s.cur.isNone || decide (a.s.rpif ≥ a.s.curLen) then
    ({ a with s := a.s.dequeue.1, evs := a.evs ++ a.s.dequeue.2.1 }, a.s.dequeue.2.2)
  else (a, false)

/-- the stream state after `m` bytes of the current frame were copied out: flow controller told
(unless a remote reset is already effective), positions advanced, `Abandon` once the reset is effective -/
def RStream.afterCopy (s : RStream) (m : Nat) : RStream :=
  let r := s.fc.addBytesRead m
  let s3 := { s with fc := if s.remoteEff then s.fc else r.1,
                     queuedMaxStreamData := s.queuedMaxStreamData || (!s.remoteEff && r.2.1),
                     rpif := s.rpif + m, readPos := s.readPos + m }
  if s3.remoteEff then { s3 with fc := s3.fc.abandon } else s3

/-- `m := copy(p[bytesRead:], s.currentFrame[s.readPosInFrame:])` and the bookkeeping behind it -/
def ReadAcc.copyChunk (a : ReadAcc) (n : Nat) : ReadAcc :=
  let cur := a.s.cur.getD []
  let m := min (n - a.out.length) (cur.length - a.s.rpif)
  let r := a.s.fc.addBytesRead m
  { s := a.s.afterCopy m,
    evs := a.evs ++ (if a.s.remoteEff then [] else [Ev.fcRead m]) ++
           (if (a.s.afterCopy m).remoteEff then [Ev.fcAbandon] else []),
    out := a.out ++ (cur.drop a.s.rpif).take m,
    hasS := a.hasS || (!a.s.remoteEff && r.2.1), hasC := a.hasC || (!a.s.remoteEff && r.2.2) }

/-- the `for bytesRead < len(p)` loop of `readImpl` -/
def readLoop : Nat → ReadAcc → Nat → ReadAcc × RStatus
  | 0, a, _ => (a, .ok)
  | fuel + 1, a, n =>
    if a.out.length < n then
      let a1 := a.deqIfNeeded.1
      if a.deqIfNeeded.2 then (a1, .panic)
      else if a1.s.cur.isNone && decide (a1.out.length > 0) then
        (a1, if a1.s.shutdown then .shutdown else .ok)
      else if a1.s.shutdown then (a1, .shutdown)
      else if a1.s.cancelledLocally || a1.s.remoteEff then
        ({ a1 with s := { a1.s with errorRead := true } }, .cancelled a1.s.cancelErr)
      else if a1.s.cur.isNone && !a1.s.curIsLast then
        -- park on readChan; the deadline timer fires; dequeueNextFrame; errDeadline
        let a2 : ReadAcc := { a1 with s := a1.s.dequeue.1, evs := a1.evs ++ a1.s.dequeue.2.1 }
        if a1.s.dequeue.2.2 then (a2, .panic) else (a2, .deadline)
      else
        let a3 := a1.copyChunk n
        if decide (a3.s.rpif ≥ a3.s.curLen) && a3.s.curIsLast then
          ({ a3 with s := { a3.s with cur := none, errorRead := true },
                     evs := a3.evs ++ (cbList a3.s.curDone).map Ev.done }, .eof)
        else readLoop fuel a3 n
    else if a.s.remoteEff then
      ({ a with s := { a.s with errorRead := true } }, .cancelled a.s.cancelErr)
    else (a, .ok)

structure ReadOut where
  s : RStream
  data : Bytes
  status : RStatus
  evs : List Ev

/-- `ReceiveStream.Read(p)` with `len(p) = n` -/
def RStream.read (s : RStream) (n : Nat) : ReadOut :=
  let r : ReadAcc × RStatus :=
    if s.curIsLast && s.cur.isNone then ({ s := { s with errorRead := true } }, .eof)
    else if s.cancelledLocally || s.remoteEff then ({ s := { s with errorRead := true } }, .cancelled s.cancelErr)
    else if s.shutdown then ({ s := s }, .shutdown)
    else readLoop (n + 1) { s := s } n
  let c := r.1.s.isNewlyCompleted
  ⟨c.1, r.1.out, r.2,
   r.1.evs ++ (if c.2 then [Ev.completed] else []) ++ (if r.1.hasS then [Ev.hasCtrl] else [])
          ++ (if r.1.hasC then [Ev.hasConnData] else [])⟩

/-- the bytes `[readPos, readPos + k)`: the rest of the current frame, then queued frames
(`frameQueue.Peek`); `none` = not all of them are there yet -/
def RStream.peekBytes (s : RStream) (cur : Bytes) (k : Nat) : Option Bytes :=
  let avail := cur.length - s.rpif
  if k ≤ avail then some ((cur.drop s.rpif).take k)
  else (s.sorter.peek (s.readPos + avail) (k - avail)).map ((cur.drop s.rpif) ++ ·)

/-- the end of `peekImpl`'s loop body: EOF, or park, be woken by the deadline, dequeue if needed, errDeadline -/
def RStream.peekBlocked (s : RStream) (evs : List Ev) : ReadOut :=
  if s.curIsLast || decide (s.readPos ≥ s.finalOffset) then ⟨s, [], .eof, evs⟩
  else ⟨s.deqIfNeeded.1, [], if s.deqIfNeeded.2.2 then .panic else .deadline, evs ++ s.deqIfNeeded.2.1⟩

/-- `peekImpl` with a current frame `cur` that is not used up -/
def RStream.peekCur (s : RStream) (cur : Bytes) (n : Nat) (evs : List Ev) : ReadOut :=
  match s.peekBytes cur n with
  | some d => ⟨s, d, .ok, evs⟩
  | none =>
    if s.curIsLast then ⟨s, cur.drop s.rpif, .eof, evs⟩ else
    -- the request extends beyond the reliable size of a reset stream
    match (if s.cancelledRemotely && decide (s.readPos + n > s.reliableSize)
           then s.peekBytes cur (s.reliableSize - s.readPos) else none) with
    | some d => ⟨s, d, .cancelled s.cancelErr, evs⟩
    | none =>
      -- the request extends beyond the final offset
      match (if s.readPos + n > s.finalOffset then s.peekBytes cur (s.finalOffset - s.readPos) else none) with
      | some d => ⟨s, d, .eof, evs⟩
      | none => s.peekBlocked evs

/-- `ReceiveStream.Peek(b)` with `len(b) = n` -/
def RStream.peek (s : RStream) (n : Nat) : ReadOut :=
  if n = 0 then ⟨s, [], .ok, []⟩
  else if s.curIsLast && s.cur.isNone then ⟨s, [], .eof, []⟩
  else if s.cancelledLocally || s.remoteEff then ⟨s, [], .cancelled s.cancelErr, []⟩
  else if s.shutdown then ⟨s, [], .shutdown, []⟩
  else
    let s1 := s.deqIfNeeded.1
    let evs := s.deqIfNeeded.2.1
    if s.deqIfNeeded.2.2 then ⟨s1, [], .panic, evs⟩ else
    match s1.cur with
    | none => s1.peekBlocked evs
    | some cur => if s1.rpif < cur.length then s1.peekCur cur n evs else s1.peekBlocked evs

structure FrameOut where
  s : RStream
  err : Option StreamErr
  evs : List Ev

/-- `handleStreamFrameImpl` after the flow controller accepted the frame -/
def RStream.acceptFrame (s : RStream) (offset : Nat) (data : Bytes) (fin : Bool) (cb : Option Nat) : FrameOut :=
  let s1 := if fin then { s with finalOffset := offset + data.length } else s
  if s1.cancelledLocally then ⟨s1, none, []⟩
  else
    let r := s1.sorter.push data offset cb
    ⟨{ s1 with sorter := r.s },
     match r.res with
     | .ok | .dup => none
     | .tooManyGaps => some .tooManyGaps
     | .panic => some .panic,
     r.done.map Ev.done⟩

/-- `completed := s.isNewlyCompleted()` … `s.flowController.Abandon(); s.sender.onStreamCompleted(…)` -/
def FrameOut.complete (o : FrameOut) (abandon : Bool) : FrameOut :=
  if o.err = some .panic then o else
  let c := o.s.isNewlyCompleted
  if c.2 then
    ⟨if abandon then { c.1 with fc := c.1.fc.abandon } else c.1, o.err,
     o.evs ++ (if abandon then [Ev.fcAbandon] else []) ++ [Ev.completed]⟩
  else ⟨c.1, o.err, o.evs⟩

/-- `handleStreamFrame` -/
def RStream.handleStreamFrame (s : RStream) (offset : Nat) (data : Bytes) (fin : Bool) (cb : Option Nat) : FrameOut :=
  let maxOffset := offset + data.length
  let u := s.fc.updateHighestReceived maxOffset fin
  let s0 := { s with fc := u.1 }
  let o : FrameOut := match u.2 with
    | some e => ⟨s0, some e, []⟩
    | none => s0.acceptFrame offset data fin cb
  FrameOut.complete ⟨o.s, o.err, Ev.fcUpdate maxOffset fin :: o.evs⟩ true

/-- `handleResetStreamFrameImpl` after the flow controller accepted the final size -/
def RStream.acceptReset (s : RStream) (finalSize reliable code : Nat) : FrameOut :=
  let s1 := { s with finalOffset := finalSize }
  -- senders are allowed to reduce the reliable size, but frames might have been reordered
  let s2 := if (!s1.cancelledRemotely && s1.reliableSize == 0) || decide (reliable < s1.reliableSize)
            then { s1 with reliableSize := reliable } else s1
  let ab := decide (s2.readPos ≥ s2.reliableSize)
  let s3 := if ab then { s2 with fc := s2.fc.abandon } else s2
  let s4 := if s3.cancelledRemotely || s3.cancelledLocally then s3
            else { s3 with cancelledRemotely := true, cancelErr := some (code, true) }
  ⟨s4, none, if ab then [Ev.fcAbandon] else []⟩

/-- `handleResetStreamFrame` (RESET_STREAM: `reliable = 0`; RESET_STREAM_AT: `reliable ≤ final`) -/
def RStream.handleResetStreamFrame (s : RStream) (finalSize reliable code : Nat) : FrameOut :=
  -- since /repo 092ea54 a stream that newly completes here abandons its unread remainder, like handleStreamFrame
  if s.shutdown then FrameOut.complete ⟨s, none, []⟩ true
  else
    let u := s.fc.updateHighestReceived finalSize true
    let s0 := { s with fc := u.1 }
    let o : FrameOut := match u.2 with
      | some e => ⟨s0, some e, []⟩
      | none => s0.acceptReset finalSize reliable code
    FrameOut.complete ⟨o.s, o.err, Ev.fcUpdate finalSize true :: o.evs⟩ true

/-- `cancelReadImpl` → (state, queuedNewControlFrame) -/
def RStream.cancelReadImpl (s : RStream) (code : Nat) : RStream × Bool :=
  if s.cancelledLocally then (s, false)          -- duplicate call to CancelRead
  else if s.shutdown then (s, false)
  else if s.errorRead || s.cancelledRemotely then ({ s with cancelledLocally := true }, false)
  else ({ s with cancelledLocally := true, queuedStopSending := true, cancelErr := some (code, false) }, true)

/-- `CancelRead` -/
def RStream.cancelRead (s : RStream) (code : Nat) : RStream × List Ev :=
  let i := s.cancelReadImpl code
  let c := i.1.isNewlyCompleted
  (if c.2 then { c.1 with fc := c.1.fc.abandon } else c.1,
   (if i.2 then [Ev.hasCtrl] else []) ++ (if c.2 then [Ev.fcAbandon, Ev.completed] else []))

def RStream.closeForShutdown (s : RStream) : RStream := { s with shutdown := true }

inductive CtrlFrame where
  | none
  | stopSending (code : Nat) (hasMore : Bool)
  | maxStreamData (v : Nat)
deriving Repr, BEq, DecidableEq

/-- `getControlFrame` -/
def RStream.getControlFrame (s : RStream) : RStream × CtrlFrame × List Ev :=
  if !s.queuedStopSending && !s.queuedMaxStreamData then (s, .none, [])
  else if s.queuedStopSending then
    ({ s with queuedStopSending := false }, .stopSending ((s.cancelErr.map (·.1)).getD 0) s.queuedMaxStreamData, [])
  else
    ({ s with queuedMaxStreamData := false, fc := s.fc.getWindowUpdate.1 }, .maxStreamData s.fc.getWindowUpdate.2, [Ev.fcWindow])

end Uquic.Model.Reassembly
