/-
Model of receive_stream.go (property C03) on top of the frame sorter, with the receive side of
internal/flowcontrol/{stream,connection,base}_flow_controller.go as a sub-model (`FC`).

Every public method of `ReceiveStream` is one atomic step (it runs under `s.mutex`).  A blocking
`Read` / `Peek` is the composite "SetReadDeadline(now + d); Read(p)" executed in virtual time: when no
data is available the call parks on `readChan`, the deadline timer wakes it, it re-runs
`dequeueNextFrame` and returns `errDeadline` (status `deadline`, printed `wouldblock`).

The calls made on the flow controller and on the `streamSender`, and the `DoneCb`s fired, are
recorded as events (`Ev`) in call order.  RTT is 0 (a fresh `RTTStats`), so window auto-tuning never
changes the window size.
-/
import Uquic.Model.Reassembly.Sorter
import Uquic.Generated.Reassembly

namespace Uquic.Model.Reassembly

def thrNum : Nat := Uquic.Gen.Reassembly.WindowUpdateThresholdNum.toNat
def thrDen : Nat := Uquic.Gen.Reassembly.WindowUpdateThresholdDen.toNat

/-! ### flow controller (receive side) -/

structure ConnFC where
  highest : Nat := 0
  bytesRead : Nat := 0
  window : Nat := 0
  windowSize : Nat := 0
deriving Repr, BEq, DecidableEq

structure FC where
  receivedFinal : Bool := false
  highest : Nat := 0
  bytesRead : Nat := 0
  window : Nat := 0
  windowSize : Nat := 0
  conn : ConnFC := {}
deriving Repr, BEq, DecidableEq

/-- `baseFlowController.hasWindowUpdate`: `receiveWindow - bytesRead <= ByteCount(float64(size) * (1 - threshold))` -/
def hasWindowUpdate (window bytesRead size : Nat) : Bool :=
  decide (window - bytesRead ≤ size * (thrDen - thrNum) / thrDen)

inductive StreamErr where
  | finalSize       -- qerr.FinalSizeError
  | flowControl     -- qerr.FlowControlError
  | tooManyGaps     -- errors.New("too many gaps in received data") (INTERNAL_ERROR at the connection)
  | panic
deriving Repr, BEq, DecidableEq

/-- `streamFlowController.UpdateHighestReceived` (then `connectionFlowController.IncrementHighestReceived`) -/
def FC.updateHighestReceived (c : FC) (offset : Nat) (final : Bool) : FC × Option StreamErr :=
  if c.receivedFinal = true ∧ final = true ∧ offset ≠ c.highest then (c, some .finalSize)
  else if c.receivedFinal = true ∧ offset > c.highest then (c, some .finalSize)
  else
    let c := if final then { c with receivedFinal := true } else c
    if offset = c.highest then (c, none)
    else if offset < c.highest then
      if final then (c, some .finalSize) else (c, none)
    else
      let increment := offset - c.highest
      let c := { c with highest := offset }
      if c.highest > c.window then (c, some .flowControl)
      else
        let conn : ConnFC := { c.conn with highest := c.conn.highest + increment }
        let c := { c with conn := conn }
        if conn.highest > conn.window then (c, some .flowControl) else (c, none)

/-- `AddBytesRead` → (hasStreamWindowUpdate, hasConnWindowUpdate) -/
def FC.addBytesRead (c : FC) (n : Nat) : FC × Bool × Bool :=
  let c := { c with bytesRead := c.bytesRead + n }
  let hasS := !c.receivedFinal && hasWindowUpdate c.window c.bytesRead c.windowSize
  let conn : ConnFC := { c.conn with bytesRead := c.conn.bytesRead + n }
  ({ c with conn := conn }, hasS, hasWindowUpdate conn.window conn.bytesRead conn.windowSize)

def FC.abandon (c : FC) : FC :=
  let unread := c.highest - c.bytesRead
  let c := { c with bytesRead := c.highest }
  if unread > 0 then { c with conn := { c.conn with bytesRead := c.conn.bytesRead + unread } } else c

/-- `GetWindowUpdate` (RTT = 0: no auto-tuning) -/
def FC.getWindowUpdate (c : FC) : FC × Nat :=
  if c.receivedFinal then (c, 0)
  else if !hasWindowUpdate c.window c.bytesRead c.windowSize then (c, 0)
  else
    let w := c.bytesRead + c.windowSize
    ({ c with window := w }, w)

/-! ### the stream -/

inductive Ev where
  | done (id : Nat)                    -- a receive buffer's DoneCb (frame.PutBack) fired
  | fcUpdate (off : Nat) (fin : Bool)  -- flowController.UpdateHighestReceived
  | fcRead (n : Nat)                   -- flowController.AddBytesRead
  | fcAbandon                          -- flowController.Abandon
  | fcWindow                           -- flowController.GetWindowUpdate
  | completed                          -- sender.onStreamCompleted
  | hasCtrl                            -- sender.onHasStreamControlFrame
  | hasConnData                        -- sender.onHasConnectionData
deriving Repr, BEq, DecidableEq

inductive RStatus where
  | ok
  | eof
  | cancelled (err : Option (Nat × Bool))   -- s.cancelErr: (code, remote); `none` = nil *StreamError
  | shutdown
  | deadline                                -- would block (errDeadline after the virtual-time wake-up)
  | panic
deriving Repr, BEq, DecidableEq

structure RStream where
  sorter : Sorter := {}
  finalOffset : Nat := maxByteCount
  cur : Option Bytes := none          -- currentFrame (none = nil)
  curDone : Option Nat := none        -- currentFrameDone
  rpif : Nat := 0                     -- readPosInFrame
  curIsLast : Bool := false
  queuedStopSending : Bool := false
  queuedMaxStreamData : Bool := false
  errorRead : Bool := false
  completed : Bool := false
  cancelledRemotely : Bool := false
  cancelledLocally : Bool := false
  cancelErr : Option (Nat × Bool) := none
  shutdown : Bool := false            -- closeForShutdownErr != nil
  readPos : Nat := 0
  reliableSize : Nat := 0
  fc : FC := {}
deriving Repr, BEq, DecidableEq

def RStream.remoteEff (s : RStream) : Bool :=
  s.cancelledRemotely && decide (s.readPos ≥ s.reliableSize)

def RStream.curLen (s : RStream) : Nat := (s.cur.map List.length).getD 0

/-- `isNewlyCompleted` -/
def RStream.isNewlyCompleted (s : RStream) : RStream × Bool :=
  if s.completed then (s, false)
  else if s.finalOffset = maxByteCount then (s, false)
  else if s.cancelledLocally then ({ s with completed := true }, true)
  else if s.errorRead then ({ s with completed := true }, true)
  else (s, false)

/-- `dequeueNextFrame`; the Bool is "Pop panicked" -/
def RStream.dequeue (s : RStream) : RStream × List Ev × Bool :=
  let evs := (cbList s.curDone).map Ev.done
  match s.sorter.pop with
  | (so, .panic) => ({ s with sorter := so }, evs, true)
  | (so, .ok offset data cb) =>
    let len := (data.map List.length).getD 0
    ({ s with sorter := so, cur := data, curDone := cb,
              curIsLast := decide (offset + len ≥ s.finalOffset) && !s.cancelledRemotely,
              rpif := 0 }, evs, false)

structure ReadAcc where
  s : RStream
  evs : List Ev := []
  out : Bytes := []
  hasS : Bool := false
  hasC : Bool := false

/-- the `for bytesRead < len(p)` loop of `readImpl` -/
def readLoop : Nat → ReadAcc → Nat → ReadAcc × RStatus
  | 0, a, _ => (a, .ok)
  | fuel + 1, a, n =>
    if a.out.length < n then
      let needDeq := a.s.cur.isNone || decide (a.s.rpif ≥ a.s.curLen)
      let (s1, e1, pan) := if needDeq then a.s.dequeue else (a.s, [], false)
      let a := { a with s := s1, evs := a.evs ++ e1 }
      if pan then (a, .panic)
      else if a.s.cur.isNone && decide (a.out.length > 0) then
        (a, if a.s.shutdown then .shutdown else .ok)
      else if a.s.shutdown then (a, .shutdown)
      else if a.s.cancelledLocally || a.s.remoteEff then
        ({ a with s := { a.s with errorRead := true } }, .cancelled a.s.cancelErr)
      else if a.s.cur.isNone && !a.s.curIsLast then
        -- park on readChan; the deadline timer fires; dequeueNextFrame; errDeadline
        let (s2, e2, pan2) := a.s.dequeue
        let a := { a with s := s2, evs := a.evs ++ e2 }
        if pan2 then (a, .panic) else (a, .deadline)
      else
        let cur := a.s.cur.getD []
        let m := min (n - a.out.length) (cur.length - a.s.rpif)
        let chunk := (cur.drop a.s.rpif).take m
        let (fc1, e3, hs, hc) :=
          if !a.s.remoteEff then
            let (fc', hs, hc) := a.s.fc.addBytesRead m
            (fc', [Ev.fcRead m], hs, hc)
          else (a.s.fc, [], false, false)
        let s3 := { a.s with fc := fc1, queuedMaxStreamData := a.s.queuedMaxStreamData || hs,
                             rpif := a.s.rpif + m, readPos := a.s.readPos + m }
        let (s4, e4) := if s3.remoteEff then ({ s3 with fc := s3.fc.abandon }, [Ev.fcAbandon]) else (s3, [])
        let a := { a with s := s4, evs := a.evs ++ e3 ++ e4, out := a.out ++ chunk,
                          hasS := a.hasS || hs, hasC := a.hasC || hc }
        if decide (a.s.rpif ≥ cur.length) && a.s.curIsLast then
          let e5 := (cbList a.s.curDone).map Ev.done
          ({ a with s := { a.s with cur := none, errorRead := true }, evs := a.evs ++ e5 }, .eof)
        else readLoop fuel a n
    else if a.s.remoteEff then
      ({ a with s := { a.s with errorRead := true } }, .cancelled a.s.cancelErr)
    else (a, .ok)

structure ReadOut where
  s : RStream
  data : Bytes
  status : RStatus
  evs : List Ev

/-- `ReceiveStream.Read(p)` with `len(p) = n` -/
def RStream.read (s : RStream) (n : Nat) : ReadOut :=
  let (a, st) : ReadAcc × RStatus :=
    if s.curIsLast && s.cur.isNone then ({ s := { s with errorRead := true } }, .eof)
    else if s.cancelledLocally || s.remoteEff then ({ s := { s with errorRead := true } }, .cancelled s.cancelErr)
    else if s.shutdown then ({ s := s }, .shutdown)
    else readLoop (n + 1) { s := s } n
  let (s', completed) := a.s.isNewlyCompleted
  let evs := a.evs ++ (if completed then [Ev.completed] else [])
                   ++ (if a.hasS then [Ev.hasCtrl] else [])
                   ++ (if a.hasC then [Ev.hasConnData] else [])
  ⟨s', a.out, st, evs⟩

/-- `ReceiveStream.Peek(b)` with `len(b) = n` -/
def RStream.peek (s : RStream) (n : Nat) : ReadOut :=
  if n = 0 then ⟨s, [], .ok, []⟩
  else if s.curIsLast && s.cur.isNone then ⟨s, [], .eof, []⟩
  else if s.cancelledLocally || s.remoteEff then ⟨s, [], .cancelled s.cancelErr, []⟩
  else if s.shutdown then ⟨s, [], .shutdown, []⟩
  else
    let needDeq := s.cur.isNone || decide (s.rpif ≥ s.curLen)
    let (s, evs, pan) := if needDeq then s.dequeue else (s, [], false)
    if pan then ⟨s, [], .panic, evs⟩ else
    let blocked : ReadOut :=
      if s.curIsLast || decide (s.readPos ≥ s.finalOffset) then ⟨s, [], .eof, evs⟩
      else
        -- park; wake-up by the deadline timer; dequeue if the current frame is used up; errDeadline
        let needDeq2 := s.cur.isNone || decide (s.rpif ≥ s.curLen)
        let (s2, e2, pan2) := if needDeq2 then s.dequeue else (s, [], false)
        ⟨s2, [], if pan2 then .panic else .deadline, evs ++ e2⟩
    match s.cur with
    | none => blocked
    | some cur =>
      if s.rpif < cur.length then
        let avail := cur.length - s.rpif
        let tail := cur.drop s.rpif
        if avail ≥ n then ⟨s, tail.take n, .ok, evs⟩ else
        let offset := s.readPos + avail
        match s.sorter.peek offset (n - avail) with
        | some d => ⟨s, tail ++ d, .ok, evs⟩
        | none =>
          if s.curIsLast then ⟨s, tail, .eof, evs⟩ else
          let viaReset : Option ReadOut :=
            if s.cancelledRemotely && decide (s.readPos + n > s.reliableSize) then
              let total := s.reliableSize - s.readPos
              if total ≤ avail then some ⟨s, tail.take total, .cancelled s.cancelErr, evs⟩
              else match s.sorter.peek offset (total - avail) with
                | some d => some ⟨s, tail ++ d, .cancelled s.cancelErr, evs⟩
                | none => none
            else none
          match viaReset with
          | some r => r
          | none =>
            let viaFin : Option ReadOut :=
              if s.readPos + n > s.finalOffset then
                let total := s.finalOffset - s.readPos
                if total ≤ avail then some ⟨s, tail.take total, .eof, evs⟩
                else match s.sorter.peek offset (total - avail) with
                  | some d => some ⟨s, tail ++ d, .eof, evs⟩
                  | none => none
              else none
            match viaFin with
            | some r => r
            | none => blocked
      else blocked

structure FrameOut where
  s : RStream
  err : Option StreamErr
  evs : List Ev

/-- `handleStreamFrame` -/
def RStream.handleStreamFrame (s : RStream) (offset : Nat) (data : Bytes) (fin : Bool) (cb : Option Nat) : FrameOut :=
  let maxOffset := offset + data.length
  let (fc', ferr) := s.fc.updateHighestReceived maxOffset fin
  let s := { s with fc := fc' }
  let evs := [Ev.fcUpdate maxOffset fin]
  let (s, err, evs) : RStream × Option StreamErr × List Ev :=
    match ferr with
    | some e => (s, some e, evs)
    | none =>
      let s := if fin then { s with finalOffset := maxOffset } else s
      if s.cancelledLocally then (s, none, evs)
      else
        let r := s.sorter.push data offset cb
        let s := { s with sorter := r.s }
        let evs := evs ++ r.done.map Ev.done
        match r.res with
        | .ok | .dup => (s, none, evs)
        | .tooManyGaps => (s, some .tooManyGaps, evs)
        | .panic => (s, some .panic, evs)
  if err = some .panic then ⟨s, err, evs⟩ else
  let (s, completed) := s.isNewlyCompleted
  if completed then ⟨{ s with fc := s.fc.abandon }, err, evs ++ [Ev.fcAbandon, Ev.completed]⟩
  else ⟨s, err, evs⟩

/-- `handleResetStreamFrame` (RESET_STREAM: `reliable = 0`; RESET_STREAM_AT: `reliable ≤ final`) -/
def RStream.handleResetStreamFrame (s : RStream) (finalSize reliable code : Nat) : FrameOut :=
  if s.shutdown then
    let (s, completed) := s.isNewlyCompleted
    ⟨s, none, if completed then [Ev.completed] else []⟩
  else
  let (fc', ferr) := s.fc.updateHighestReceived finalSize true
  let s := { s with fc := fc' }
  let evs := [Ev.fcUpdate finalSize true]
  let (s, err, evs) : RStream × Option StreamErr × List Ev :=
    match ferr with
    | some e => (s, some e, evs)
    | none =>
      let s := { s with finalOffset := finalSize }
      let s := if (!s.cancelledRemotely && s.reliableSize == 0) || decide (reliable < s.reliableSize)
               then { s with reliableSize := reliable } else s
      let (s, evs) := if s.readPos ≥ s.reliableSize then ({ s with fc := s.fc.abandon }, evs ++ [Ev.fcAbandon]) else (s, evs)
      if s.cancelledRemotely then (s, none, evs)
      else if s.cancelledLocally then (s, none, evs)
      else ({ s with cancelledRemotely := true, cancelErr := some (code, true) }, none, evs)
  let (s, completed) := s.isNewlyCompleted
  ⟨s, err, evs ++ (if completed then [Ev.completed] else [])⟩

/-- `CancelRead` -/
def RStream.cancelRead (s : RStream) (code : Nat) : RStream × List Ev :=
  let (s, queued) : RStream × Bool :=
    if s.cancelledLocally then (s, false)
    else if s.shutdown then (s, false)
    else
      let s := { s with cancelledLocally := true }
      if s.errorRead || s.cancelledRemotely then (s, false)
      else ({ s with queuedStopSending := true, cancelErr := some (code, false) }, true)
  let (s, completed) := s.isNewlyCompleted
  let evs := (if queued then [Ev.hasCtrl] else [])
  if completed then ({ s with fc := s.fc.abandon }, evs ++ [Ev.fcAbandon, Ev.completed]) else (s, evs)

def RStream.closeForShutdown (s : RStream) : RStream := { s with shutdown := true }

inductive CtrlFrame where
  | none
  | stopSending (code : Nat) (hasMore : Bool)
  | maxStreamData (v : Nat)
deriving Repr, BEq, DecidableEq

/-- `getControlFrame` -/
def RStream.getControlFrame (s : RStream) : RStream × CtrlFrame × List Ev :=
  if !s.queuedStopSending && !s.queuedMaxStreamData then (s, .none, [])
  else if s.queuedStopSending then
    ({ s with queuedStopSending := false }, .stopSending ((s.cancelErr.map (·.1)).getD 0) s.queuedMaxStreamData, [])
  else
    let (fc', v) := s.fc.getWindowUpdate
    ({ s with queuedMaxStreamData := false, fc := fc' }, .maxStreamData v, [Ev.fcWindow])

end Uquic.Model.Reassembly
