/-
Model of /repo/internal/wire/transport_parameters.go (property C08):
`unmarshal` (with perspective and the session-ticket flag), `Marshal`,
`MarshalForSessionTicket`, `UnmarshalFromSessionTicket`.

Durations are nanoseconds in `Nat`; the int64 wrap-around of
`time.Duration(val) * unit` is modelled explicitly (`wrapMul`).
`MaxDatagramFrameSize = InvalidByteCount` and nil pointers are `none`.
-/
import Uquic.Model.Wire.Varint
import Uquic.Generated.Protocol

namespace Uquic.Model.Wire.TP

open Uquic.Gen Uquic.Model.Wire

def idODCID : Nat := Wire.originalDestinationConnectionIDParameterID.toNat
def idMaxIdleTimeout : Nat := Wire.maxIdleTimeoutParameterID.toNat
def idSRT : Nat := Wire.statelessResetTokenParameterID.toNat
def idMaxUDPPayloadSize : Nat := Wire.maxUDPPayloadSizeParameterID.toNat
def idInitialMaxData : Nat := Wire.initialMaxDataParameterID.toNat
def idBidiLocal : Nat := Wire.initialMaxStreamDataBidiLocalParameterID.toNat
def idBidiRemote : Nat := Wire.initialMaxStreamDataBidiRemoteParameterID.toNat
def idUni : Nat := Wire.initialMaxStreamDataUniParameterID.toNat
def idStreamsBidi : Nat := Wire.initialMaxStreamsBidiParameterID.toNat
def idStreamsUni : Nat := Wire.initialMaxStreamsUniParameterID.toNat
def idAckDelayExponent : Nat := Wire.ackDelayExponentParameterID.toNat
def idMaxAckDelay : Nat := Wire.maxAckDelayParameterID.toNat
def idDisableActiveMigration : Nat := Wire.disableActiveMigrationParameterID.toNat
def idPreferredAddress : Nat := Wire.preferredAddressParameterID.toNat
def idActiveConnectionIDLimit : Nat := Wire.activeConnectionIDLimitParameterID.toNat
def idISCID : Nat := Wire.initialSourceConnectionIDParameterID.toNat
def idRSCID : Nat := Wire.retrySourceConnectionIDParameterID.toNat
def idMaxDatagramFrameSize : Nat := Wire.maxDatagramFrameSizeParameterID.toNat
def idResetStreamAt : Nat := Wire.resetStreamAtParameterID.toNat
def idMinAckDelay : Nat := Wire.minAckDelayParameterID.toNat
def marshalingVersion : Nat := Wire.transportParameterMarshalingVersion.toNat

def maxStreamCount : Nat := Protocol.MaxStreamCount.toNat
def maxConnIDLen : Nat := Protocol.MaxConnIDLen.toNat
def maxByteCount : Nat := Protocol.MaxByteCount.toNat
def defaultAckDelayExponent : Nat := Protocol.DefaultAckDelayExponent.toNat
def maxAckDelayExponent : Nat := Protocol.MaxAckDelayExponent.toNat
def defaultMaxAckDelay : Nat := Protocol.DefaultMaxAckDelay.toNat
def maxMaxAckDelay : Nat := Protocol.MaxMaxAckDelay.toNat
def minRemoteIdleTimeout : Nat := Protocol.MinRemoteIdleTimeout.toNat
def defaultActiveConnectionIDLimit : Nat := Protocol.DefaultActiveConnectionIDLimit.toNat
def minMaxUDPPayloadSize : Nat := Wire.minMaxUDPPayloadSize.toNat
def minActiveConnectionIDLimit : Nat := Wire.minActiveConnectionIDLimit.toNat
def perspectiveClient : Nat := Protocol.PerspectiveClient.toNat
def perspectiveServer : Nat := Protocol.PerspectiveServer.toNat
/-- the bound of the first length guard of `readPreferredAddress` (regenerated) -/
def preferredAddressMinLen : Nat := Wire.preferredAddressMinLen.toNat
/-- bytes read at fixed offsets before the connection ID: IPv4, port, IPv6, port, connection ID length -/
def preferredAddressFixedReads : Nat := 4 + 2 + 16 + 2 + 1

def millisecond : Nat := 1000000
def microsecond : Nat := 1000
def maxInt64 : Nat := 2 ^ 63 - 1

inductive TErr
  | eof | ueof
  | paramLen          -- "remaining length (…) smaller than parameter length (…)"
  | read              -- "error while reading transport parameter …"
  | inconsistentLen   -- "inconsistent transport parameter length …"
  | streamsTooLarge   -- "initial_max_streams_{bidi,uni} too large"
  | udpPayload        -- "invalid value for max_udp_payload_size"
  | ackDelayExponent  -- "invalid value for ack_delay_exponent"
  | maxAckDelay       -- "invalid value for max_ack_delay"
  | activeCIDLimit    -- "invalid value for active_connection_id_limit"
  | clientSent        -- "client sent a …"
  | wrongLen          -- "wrong length for …"
  | cidLen            -- protocol.ErrInvalidConnectionIDLen
  | paCIDLen          -- preferred_address: "invalid connection ID length"
  | paLen             -- "expected preferred_address to be … long, read … bytes"
  | minGtMax          -- "min_ack_delay (…) is greater than max_ack_delay (…)"
  | missingODCID
  | missingISCID
  | duplicate         -- "received duplicate transport parameter"
  | ticketVersion     -- "unknown transport parameter marshaling version"
  | panic             -- NOT an error value: a Go run-time panic (slice index out of range)
deriving Repr, DecidableEq, BEq

def TErr.ofV : VErr → TErr
  | .eof => .eof
  | .ueof => .ueof

structure PreferredAddress where
  /-- (4 address bytes, port); `none` = invalid `netip.AddrPort` -/
  v4 : Option (Bytes × Nat)
  v6 : Option (Bytes × Nat)
  connID : Bytes
  token : Bytes
deriving Repr, DecidableEq, BEq

structure Params where
  initialMaxStreamDataBidiLocal : Nat := 0
  initialMaxStreamDataBidiRemote : Nat := 0
  initialMaxStreamDataUni : Nat := 0
  initialMaxData : Nat := 0
  maxAckDelay : Nat := 0
  ackDelayExponent : Nat := 0
  disableActiveMigration : Bool := false
  maxUDPPayloadSize : Nat := 0
  maxUniStreamNum : Nat := 0
  maxBidiStreamNum : Nat := 0
  maxIdleTimeout : Nat := 0
  preferredAddress : Option PreferredAddress := none
  odcid : Bytes := []
  iscid : Bytes := []
  rscid : Option Bytes := none
  srt : Option Bytes := none
  activeConnectionIDLimit : Nat := 0
  maxDatagramFrameSize : Option Nat := some 0
  enableResetStreamAt : Bool := false
  minAckDelay : Option Nat := none
deriving Repr, DecidableEq, BEq

/-- `time.Duration(val) * unit` on int64, as a value in [0, 2^64) (≥ 2^63 means negative) -/
def wrapMul (val unit : Nat) : Nat := (val * unit) % 2 ^ 64

/-- `readNumericTransportParameter(b, id, expectedLen)` -/
def readNumeric (p : Params) (b : Bytes) (id expectedLen : Nat) : Except TErr Params :=
  match Varint.parse b with
  | .error _ => .error .read
  | .ok (val, l) =>
    if l ≠ expectedLen then .error .inconsistentLen
    else if id = idBidiLocal then .ok { p with initialMaxStreamDataBidiLocal := val }
    else if id = idBidiRemote then .ok { p with initialMaxStreamDataBidiRemote := val }
    else if id = idUni then .ok { p with initialMaxStreamDataUni := val }
    else if id = idInitialMaxData then .ok { p with initialMaxData := val }
    else if id = idStreamsBidi then
      if val > maxStreamCount then .error .streamsTooLarge else .ok { p with maxBidiStreamNum := val }
    else if id = idStreamsUni then
      if val > maxStreamCount then .error .streamsTooLarge else .ok { p with maxUniStreamNum := val }
    else if id = idMaxIdleTimeout then
      let d := wrapMul val millisecond
      -- max(MinRemoteIdleTimeout, d) on int64
      .ok { p with maxIdleTimeout := if d ≥ 2 ^ 63 then minRemoteIdleTimeout else max minRemoteIdleTimeout d }
    else if id = idMaxUDPPayloadSize then
      if val < minMaxUDPPayloadSize then .error .udpPayload else .ok { p with maxUDPPayloadSize := val }
    else if id = idAckDelayExponent then
      if val > maxAckDelayExponent then .error .ackDelayExponent else .ok { p with ackDelayExponent := val }
    else if id = idMaxAckDelay then
      if val > maxMaxAckDelay / millisecond then .error .maxAckDelay
      else .ok { p with maxAckDelay := val * millisecond }
    else if id = idActiveConnectionIDLimit then
      if val < minActiveConnectionIDLimit then .error .activeCIDLimit
      else .ok { p with activeConnectionIDLimit := val }
    else if id = idMaxDatagramFrameSize then .ok { p with maxDatagramFrameSize := some val }
    else if id = idMinAckDelay then
      let d := wrapMul val microsecond
      .ok { p with minAckDelay := some (if d ≥ 2 ^ 63 then maxInt64 else d) }
    else .error .read   -- "TransportParameter BUG" (unreachable from unmarshal)

/-- `readPreferredAddress(b, expectedLen)` -/
def readPreferredAddress (b : Bytes) (expectedLen : Nat) : Except TErr PreferredAddress :=
  if b.length < preferredAddressMinLen then .error .eof
  -- `b[:4]`, `Uint16(b[4:])`, `b[:16]`, `Uint16(b[16:])`, `b[0]` index 25 bytes: a shorter slice that
  -- passed the guard panics (index / slice bounds out of range)
  else if b.length < preferredAddressFixedReads then .error .panic
  else
    let ipv4 := b.take 4
    let port4 := (b.getD 4 0).toNat * 256 + (b.getD 5 0).toNat
    let b1 := b.drop 6
    let v4 := if port4 ≠ 0 ∧ ipv4.any (· ≠ 0) then some (ipv4, port4) else none
    let ipv6 := b1.take 16
    let port6 := (b1.getD 16 0).toNat * 256 + (b1.getD 17 0).toNat
    let v6 := if port6 ≠ 0 ∧ ipv6.any (· ≠ 0) then some (ipv6, port6) else none
    let b2 := b1.drop 18
    let connIDLen := (b2.getD 0 0).toNat
    let b3 := b2.drop 1
    if connIDLen = 0 ∨ connIDLen > maxConnIDLen then .error .paCIDLen
    else if b3.length < connIDLen + 16 then .error .eof
    else
      let bytesRead := 25 + connIDLen + 16
      if bytesRead ≠ expectedLen then .error .paLen
      else .ok { v4 := v4, v6 := v6, connID := b3.take connIDLen, token := (b3.drop connIDLen).take 16 }

def isNumericID (id : Nat) : Bool :=
  id = idMaxIdleTimeout || id = idMaxUDPPayloadSize || id = idInitialMaxData || id = idBidiLocal
    || id = idBidiRemote || id = idUni || id = idStreamsBidi || id = idStreamsUni || id = idMaxAckDelay
    || id = idMaxDatagramFrameSize || id = idAckDelayExponent || id = idActiveConnectionIDLimit
    || id = idMinAckDelay

structure LoopSt where
  p : Params
  ids : List Nat := []
  readODCID : Bool := false
  readISCID : Bool := false

/-- the `for len(b) > 0` loop of `unmarshal` -/
def unmarshalLoop (sentBy : Nat) : (fuel : Nat) → Bytes → LoopSt → Except TErr LoopSt
  | 0, _, s => .ok s
  | fuel + 1, b, s =>
    if b.isEmpty then .ok s
    else
      match Varint.take b with
      | .error e => .error (TErr.ofV e)
      | .ok (id, b) =>
      match Varint.take b with
      | .error e => .error (TErr.ofV e)
      | .ok (paramLen, b) =>
      if b.length < paramLen then .error .paramLen
      else
        let s := { s with ids := s.ids ++ [id] }
        if isNumericID id then
          match readNumeric s.p b id paramLen with
          | .error e => .error e
          | .ok p => unmarshalLoop sentBy fuel (b.drop paramLen) { s with p := p }
        else if id = idPreferredAddress then
          if sentBy = perspectiveClient then .error .clientSent
          else
            match readPreferredAddress b paramLen with
            | .error e => .error e
            | .ok pa => unmarshalLoop sentBy fuel (b.drop paramLen) { s with p := { s.p with preferredAddress := some pa } }
        else if id = idDisableActiveMigration then
          if paramLen ≠ 0 then .error .wrongLen
          else unmarshalLoop sentBy fuel b { s with p := { s.p with disableActiveMigration := true } }
        else if id = idSRT then
          if sentBy = perspectiveClient then .error .clientSent
          else if paramLen ≠ 16 then .error .wrongLen
          else if b.length < 16 then .error .eof
          else unmarshalLoop sentBy fuel (b.drop 16) { s with p := { s.p with srt := some (b.take 16) } }
        else if id = idODCID then
          if sentBy = perspectiveClient then .error .clientSent
          else if paramLen > maxConnIDLen then .error .cidLen
          else unmarshalLoop sentBy fuel (b.drop paramLen)
                 { s with p := { s.p with odcid := b.take paramLen }, readODCID := true }
        else if id = idISCID then
          if paramLen > maxConnIDLen then .error .cidLen
          else unmarshalLoop sentBy fuel (b.drop paramLen)
                 { s with p := { s.p with iscid := b.take paramLen }, readISCID := true }
        else if id = idRSCID then
          if sentBy = perspectiveClient then .error .clientSent
          else if paramLen > maxConnIDLen then .error .cidLen
          else unmarshalLoop sentBy fuel (b.drop paramLen) { s with p := { s.p with rscid := some (b.take paramLen) } }
        else if id = idResetStreamAt then
          if paramLen ≠ 0 then .error .wrongLen
          else unmarshalLoop sentBy fuel b { s with p := { s.p with enableResetStreamAt := true } }
        else unmarshalLoop sentBy fuel (b.drop paramLen) s

def hasDup : List Nat → Bool
  | [] => false
  | x :: rest => rest.contains x || hasDup rest

/-- `unmarshal(b, sentBy, fromSessionTicket)` on a zero-valued receiver -/
def unmarshal (b : Bytes) (sentBy : Nat) (fromSessionTicket : Bool) : Except TErr Params :=
  let p0 : Params := { ackDelayExponent := defaultAckDelayExponent, maxAckDelay := defaultMaxAckDelay,
                       maxDatagramFrameSize := none, activeConnectionIDLimit := defaultActiveConnectionIDLimit }
  match unmarshalLoop sentBy (b.length + 1) b { p := p0 } with
  | .error e => .error e
  | .ok s =>
    let p := s.p
    let minGtMax : Bool := match p.minAckDelay with
      | some m => decide (m > p.maxAckDelay)
      | none => false
    if minGtMax then .error .minGtMax
    else if !fromSessionTicket ∧ sentBy = perspectiveServer ∧ !s.readODCID then .error .missingODCID
    else
      let p := if !fromSessionTicket ∧ p.maxUDPPayloadSize = 0 then { p with maxUDPPayloadSize := maxByteCount } else p
      if !fromSessionTicket ∧ !s.readISCID then .error .missingISCID
      else if hasDup s.ids then .error .duplicate
      else .ok p

/-- `UnmarshalFromSessionTicket` -/
def unmarshalFromSessionTicket (b : Bytes) : Except TErr Params :=
  match Varint.parse b with
  | .error e => .error (TErr.ofV e)
  | .ok (version, l) =>
    if version ≠ marshalingVersion then .error .ticketVersion
    else unmarshal (b.drop l) perspectiveServer true

/-! ### writing -/

/-- a sequence of writes; each entry is either a varint (which may panic) or raw bytes -/
inductive Item
  | v (x : Nat)
  | raw (b : Bytes)

def varintParam (id val : Nat) : List Item := [.v id, .v (Varint.len val), .v val]

def itemsFit (l : List Item) : Bool :=
  l.all fun | .v x => Varint.fits x | .raw _ => true

def itemsBytes (l : List Item) : Bytes :=
  l.flatMap fun | .v x => Varint.enc x | .raw b => b

/-- the writes of `Marshal(pers)` after the greased parameter -/
def marshalItems (p : Params) (pers : Nat) : List Item :=
  varintParam idBidiLocal p.initialMaxStreamDataBidiLocal
  ++ varintParam idBidiRemote p.initialMaxStreamDataBidiRemote
  ++ varintParam idUni p.initialMaxStreamDataUni
  ++ varintParam idInitialMaxData p.initialMaxData
  ++ varintParam idStreamsBidi p.maxBidiStreamNum
  ++ varintParam idStreamsUni p.maxUniStreamNum
  ++ varintParam idMaxIdleTimeout (p.maxIdleTimeout / millisecond)
  ++ (if p.maxUDPPayloadSize > 0 then varintParam idMaxUDPPayloadSize p.maxUDPPayloadSize else [])
  ++ (if p.maxAckDelay ≠ defaultMaxAckDelay then varintParam idMaxAckDelay (p.maxAckDelay / millisecond) else [])
  ++ (if p.ackDelayExponent ≠ defaultAckDelayExponent then varintParam idAckDelayExponent p.ackDelayExponent else [])
  ++ (if p.disableActiveMigration then [.v idDisableActiveMigration, .v 0] else [])
  ++ (if pers = perspectiveServer then
        (match p.srt with
         | some t => [.v idSRT, .v 16, .raw t]
         | none => [])
        ++ [.v idODCID, .v p.odcid.length, .raw p.odcid]
        ++ (match p.preferredAddress with
            | some pa =>
              [.v idPreferredAddress, .v (4 + 2 + 16 + 2 + 1 + pa.connID.length + 16),
               .raw (match pa.v4 with
                     | some (ip, port) => ip ++ [Varint.u8 (port / 256), Varint.u8 port]
                     | none => List.replicate 6 0),
               .raw (match pa.v6 with
                     | some (ip, port) => ip ++ [Varint.u8 (port / 256), Varint.u8 port]
                     | none => List.replicate 18 0),
               .raw [Varint.u8 pa.connID.length], .raw pa.connID, .raw pa.token]
            | none => [])
      else [])
  ++ (if p.activeConnectionIDLimit ≠ defaultActiveConnectionIDLimit
      then varintParam idActiveConnectionIDLimit p.activeConnectionIDLimit else [])
  ++ [.v idISCID, .v p.iscid.length, .raw p.iscid]
  ++ (if pers = perspectiveServer then
        (match p.rscid with
         | some c => [.v idRSCID, .v c.length, .raw c]
         | none => [])
      else [])
  ++ (match p.maxDatagramFrameSize with
      | some v => varintParam idMaxDatagramFrameSize v
      | none => [])
  ++ (if p.enableResetStreamAt then [.v idResetStreamAt, .v 0] else [])
  ++ (match p.minAckDelay with
      | some m => varintParam idMinAckDelay (m / microsecond)
      | none => [])

/-- `Marshal(pers)` given the greased parameter (id, value bytes) the code drew at random
    (recovered from the output, DESIGN §3.3); `none` = panic -/
def marshal (p : Params) (pers : Nat) (greaseID : Nat) (greaseVal : Bytes) : Option Bytes :=
  let items := [Item.v greaseID, .v greaseVal.length, .raw greaseVal] ++ marshalItems p pers
  if itemsFit items then some (itemsBytes items) else none

def ticketItems (p : Params) : List Item :=
  [.v marshalingVersion]
  ++ varintParam idBidiLocal p.initialMaxStreamDataBidiLocal
  ++ varintParam idBidiRemote p.initialMaxStreamDataBidiRemote
  ++ varintParam idUni p.initialMaxStreamDataUni
  ++ varintParam idInitialMaxData p.initialMaxData
  ++ varintParam idStreamsBidi p.maxBidiStreamNum
  ++ varintParam idStreamsUni p.maxUniStreamNum
  ++ varintParam idActiveConnectionIDLimit p.activeConnectionIDLimit
  ++ (match p.maxDatagramFrameSize with
      | some v => varintParam idMaxDatagramFrameSize v
      | none => [])
  ++ (if p.enableResetStreamAt then [.v idResetStreamAt, .v 0] else [])

/-- `MarshalForSessionTicket(nil)` -/
def marshalForSessionTicket (p : Params) : Option Bytes :=
  if itemsFit (ticketItems p) then some (itemsBytes (ticketItems p)) else none

end Uquic.Model.Wire.TP
