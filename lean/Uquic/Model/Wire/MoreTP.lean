/-
Additions to the transport-parameter model (property C08, round trip): the Go type invariants of a
`TransportParameters` value (`Typed`), the RFC 9000 §18.2 ranges the parser insists on (`Valid`),
what `Unmarshal ∘ Marshal` normalises (`normalize`), and the length of what `Marshal` writes.
Only definitions used in theorem statements; nothing here is executed by the oracle.
-/
import Uquic.Model.Wire.TransportParams

namespace Uquic.Model.Wire.TP.RT

open Uquic.Model.Wire Uquic.Model.Wire.TP

/-- the parameter ids `unmarshal` interprets (every other id is skipped) -/
def isKnownID (id : Nat) : Bool :=
  isNumericID id || id = idPreferredAddress || id = idDisableActiveMigration || id = idSRT || id = idODCID
    || id = idISCID || id = idRSCID || id = idResetStreamAt

/-- the id of the greased parameter `Marshal` writes first: `27 + 31 * random[0]` -/
def greaseID (r0 : Nat) : Nat := 27 + 31 * r0

/-- Go type invariants of a `netip.AddrPort` built from 4 / 16 address bytes and a `uint16` port -/
def TypedAddr (n : Nat) : Option (Bytes × Nat) → Prop
  | none => True
  | some (ip, port) => ip.length = n ∧ port < 65536

/-- Go type invariants of `PreferredAddress`: `[16]byte` token, `protocol.ConnectionID` of at most 20 bytes -/
def TypedPA (pa : PreferredAddress) : Prop :=
  TypedAddr 4 pa.v4 ∧ TypedAddr 16 pa.v6 ∧ pa.connID.length ≤ maxConnIDLen ∧ pa.token.length = 16

def TypedOpt {α : Type} (P : α → Prop) : Option α → Prop
  | none => True
  | some x => P x

/-- Go type invariants of `TransportParameters`: non-negative `time.Duration`s fit an int64, `uint8`
    exponent, `protocol.ConnectionID`s of at most 20 bytes, `[16]byte` stateless reset token -/
structure Typed (p : Params) : Prop where
  idle : p.maxIdleTimeout < 2 ^ 63
  ackDelay : p.maxAckDelay < 2 ^ 63
  exponent : p.ackDelayExponent < 256
  odcid : p.odcid.length ≤ maxConnIDLen
  iscid : p.iscid.length ≤ maxConnIDLen
  rscid : TypedOpt (fun c => c.length ≤ maxConnIDLen) p.rscid
  srt : TypedOpt (fun t => t.length = 16) p.srt
  pa : TypedOpt TypedPA p.preferredAddress
  minAck : TypedOpt (fun m => m < 2 ^ 63) p.minAckDelay

/-- the ranges `unmarshal` enforces (RFC 9000 §18.2, RFC 9221, ack-frequency draft) on what a peer
    sent; `Marshal` itself does not check them -/
structure Valid (p : Params) (pers : Nat) : Prop where
  bidi : p.maxBidiStreamNum ≤ maxStreamCount
  uni : p.maxUniStreamNum ≤ maxStreamCount
  udp : p.maxUDPPayloadSize = 0 ∨ minMaxUDPPayloadSize ≤ p.maxUDPPayloadSize
  ackDelay : p.maxAckDelay / millisecond ≤ maxMaxAckDelay / millisecond
  exponent : p.ackDelayExponent ≤ maxAckDelayExponent
  cidLimit : minActiveConnectionIDLimit ≤ p.activeConnectionIDLimit
  paCID : pers = perspectiveServer → TypedOpt (fun pa => 0 < pa.connID.length) p.preferredAddress
  minAck : TypedOpt (fun m => m / microsecond * microsecond ≤ p.maxAckDelay / millisecond * millisecond) p.minAckDelay

/-- the ranges `UnmarshalFromSessionTicket` enforces on the values a ticket carries -/
structure ValidTicket (p : Params) : Prop where
  bidi : p.maxBidiStreamNum ≤ maxStreamCount
  uni : p.maxUniStreamNum ≤ maxStreamCount
  cidLimit : minActiveConnectionIDLimit ≤ p.activeConnectionIDLimit

/-- an address survives the round trip iff its port and its address are non-zero (`readPreferredAddress`
    leaves the field at the invalid zero `netip.AddrPort` otherwise) -/
def normAddr : Option (Bytes × Nat) → Option (Bytes × Nat)
  | none => none
  | some (ip, port) => if port ≠ 0 ∧ ip.any (· ≠ 0) then some (ip, port) else none

def normPA (pa : PreferredAddress) : PreferredAddress :=
  { pa with v4 := normAddr pa.v4, v6 := normAddr pa.v6 }

/-- what `Unmarshal(Marshal(p, pers), pers)` returns: durations are truncated to the wire unit
    (ms / µs), the idle timeout is raised to `MinRemoteIdleTimeout`, an absent max_udp_payload_size
    reads as `MaxByteCount`, and the four server-only parameters are not written by a client -/
def normalize (p : Params) (pers : Nat) : Params :=
  { initialMaxStreamDataBidiLocal := p.initialMaxStreamDataBidiLocal
    initialMaxStreamDataBidiRemote := p.initialMaxStreamDataBidiRemote
    initialMaxStreamDataUni := p.initialMaxStreamDataUni
    initialMaxData := p.initialMaxData
    maxAckDelay := p.maxAckDelay / millisecond * millisecond
    ackDelayExponent := p.ackDelayExponent
    disableActiveMigration := p.disableActiveMigration
    maxUDPPayloadSize := if p.maxUDPPayloadSize = 0 then maxByteCount else p.maxUDPPayloadSize
    maxUniStreamNum := p.maxUniStreamNum
    maxBidiStreamNum := p.maxBidiStreamNum
    maxIdleTimeout := max minRemoteIdleTimeout (p.maxIdleTimeout / millisecond * millisecond)
    preferredAddress := if pers = perspectiveServer then p.preferredAddress.map normPA else none
    odcid := if pers = perspectiveServer then p.odcid else []
    iscid := p.iscid
    rscid := if pers = perspectiveServer then p.rscid else none
    srt := if pers = perspectiveServer then p.srt else none
    activeConnectionIDLimit := p.activeConnectionIDLimit
    maxDatagramFrameSize := p.maxDatagramFrameSize
    enableResetStreamAt := p.enableResetStreamAt
    minAckDelay := p.minAckDelay.map (fun m => m / microsecond * microsecond) }

/-- what `UnmarshalFromSessionTicket(MarshalForSessionTicket(p))` returns: the seven remembered limits
    and the two flags; everything else is the receiver's default -/
def normalizeTicket (p : Params) : Params :=
  { initialMaxStreamDataBidiLocal := p.initialMaxStreamDataBidiLocal
    initialMaxStreamDataBidiRemote := p.initialMaxStreamDataBidiRemote
    initialMaxStreamDataUni := p.initialMaxStreamDataUni
    initialMaxData := p.initialMaxData
    maxBidiStreamNum := p.maxBidiStreamNum
    maxUniStreamNum := p.maxUniStreamNum
    activeConnectionIDLimit := p.activeConnectionIDLimit
    maxDatagramFrameSize := p.maxDatagramFrameSize
    enableResetStreamAt := p.enableResetStreamAt
    ackDelayExponent := defaultAckDelayExponent
    maxAckDelay := defaultMaxAckDelay }

/-- number of bytes a list of writes produces -/
def itemsLen : List Item → Nat
  | [] => 0
  | .v x :: l => Varint.len x + itemsLen l
  | .raw b :: l => b.length + itemsLen l

/-- (for the non-vacuity examples) a server's parameters with every optional parameter present -/
def exampleParams : Params :=
  { initialMaxStreamDataBidiLocal := 524288, initialMaxStreamDataBidiRemote := 524288, initialMaxStreamDataUni := 2 ^ 62 - 1,
    initialMaxData := 786432, maxAckDelay := 26000000, ackDelayExponent := 4, disableActiveMigration := true,
    maxUDPPayloadSize := 1452, maxUniStreamNum := 100, maxBidiStreamNum := 2 ^ 60, maxIdleTimeout := 30000000000,
    preferredAddress := some { v4 := some ([127, 0, 0, 1], 4433), v6 := none, connID := [1, 2, 3, 4], token := List.replicate 16 7 },
    odcid := [9, 9, 9, 9, 9, 9, 9, 9], iscid := [], rscid := some [5, 6], srt := some (List.replicate 16 1),
    activeConnectionIDLimit := 4, maxDatagramFrameSize := some 16383, enableResetStreamAt := true,
    minAckDelay := some 1000000 }

end Uquic.Model.Wire.TP.RT
