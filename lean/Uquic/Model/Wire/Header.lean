/-
Model of /repo/internal/wire/header.go, extended_header.go, short_header.go and
version_negotiation.go (property C08).  Bit tests on the first byte are written
arithmetically (`x / 64 % 2 = 1` for `x & 0x40 > 0`, `x / 16 % 4` for
`x >> 4 & 0b11`, `x % 4` for `x & 0x3`).
-/
import Uquic.Model.Wire.Varint
import Uquic.Generated.Protocol

namespace Uquic.Model.Wire.Hdr

open Uquic.Gen Uquic.Model.Wire

def maxConnIDLen : Nat := Protocol.MaxConnIDLen.toNat
def version1 : Nat := Wire.Version1.toNat
def version2 : Nat := Wire.Version2.toNat
def supportedVersions : List Nat := Wire.SupportedVersions.map Int.toNat
def ptInitial : Nat := Protocol.PacketTypeInitial.toNat
def ptRetry : Nat := Protocol.PacketTypeRetry.toNat
def ptHandshake : Nat := Protocol.PacketTypeHandshake.toNat
def pt0RTT : Nat := Protocol.PacketType0RTT.toNat
def keyPhaseZero : Nat := Protocol.KeyPhaseZero.toNat
def keyPhaseOne : Nat := Protocol.KeyPhaseOne.toNat

inductive HErr
  | eof | ueof
  | notLong            -- "not a long header packet"
  | notShort           -- "not a short header packet"
  | notQUIC            -- "not a QUIC packet"
  | cidLen             -- protocol.ErrInvalidConnectionIDLen
  | unsupportedVersion -- ErrUnsupportedVersion
  | shortPacket        -- "packet length (…) is smaller than the expected length (…)"
  | reservedBits       -- ErrInvalidReservedBits
  | pnLen              -- "invalid packet number length"
  | vnEmpty            -- "Version Negotiation packet has empty version list"
  | vnLen              -- "… version list with an invalid length"
deriving Repr, DecidableEq, BEq

def HErr.ofV : VErr → HErr
  | .eof => .eof
  | .ueof => .ueof

/-- big-endian value of a byte list -/
def beNat : Bytes → Nat
  | [] => 0
  | b :: rest => b.toNat * 256 ^ rest.length + beNat rest

/-- `n` big-endian bytes of `v` (truncating) -/
def beBytes : (n : Nat) → Nat → Bytes
  | 0, _ => []
  | n + 1, v => Varint.u8 (v / 256 ^ n) :: beBytes n v

structure Header where
  typeByte : Nat := 0
  ptype : Nat := 0
  version : Nat := 0
  dest : Bytes := []
  src : Bytes := []
  length : Nat := 0
  token : Bytes := []
  parsedLen : Nat := 0
deriving Repr, DecidableEq, BEq

/-- the packet type bits, per version (`parseLongHeader`) -/
def typeOfBits (version bits : Nat) : Nat :=
  if version = version2 then
    match bits with
    | 0 => ptRetry | 1 => ptInitial | 2 => pt0RTT | _ => ptHandshake
  else
    match bits with
    | 0 => ptInitial | 1 => pt0RTT | 2 => ptHandshake | _ => ptRetry

/-- `Header.parseLongHeader(b)` with `b = data[1:]`: the (partially) filled header,
    the count it returns, and the error. -/
def parseLongHeader (typeByte : Nat) (b0 : Bytes) : Header × Nat × Option HErr :=
  let h : Header := { typeByte := typeByte }
  let startLen := b0.length
  if b0.length < 5 then (h, 0, some .eof)
  else
    let version := beNat (b0.take 4)
    let h := { h with version := version }
    if version ≠ 0 ∧ typeByte / 64 % 2 = 0 then (h, 0, some .notQUIC)
    else
      let destLen := (b0.getD 4 0).toNat
      if destLen > maxConnIDLen then (h, 0, some .cidLen)
      else
        let b := b0.drop 5
        if b.length < destLen + 1 then (h, startLen - b.length, some .eof)
        else
          let h := { h with dest := b.take destLen }
          let srcLen := (b.getD destLen 0).toNat
          if srcLen > maxConnIDLen then (h, startLen - b.length, some .cidLen)
          else
            let b := b.drop (destLen + 1)
            if b.length < srcLen then (h, startLen - b.length, some .eof)
            else
              let h := { h with src := b.take srcLen }
              let b := b.drop srcLen
              if version = 0 then (h, startLen - b.length, none)
              else if !supportedVersions.contains version then (h, startLen - b.length, some .unsupportedVersion)
              else
                let t := typeOfBits version (typeByte / 16 % 4)
                let h := { h with ptype := t }
                if t = ptRetry then
                  -- tokenLen := len(b) - 16; if tokenLen <= 0 → EOF
                  if b.length ≤ 16 then (h, startLen - b.length, some .eof)
                  else ({ h with token := b.take (b.length - 16) }, startLen, none)
                else
                  let tokR : Except (Nat × HErr) (Bytes × Bytes) :=
                    if t = ptInitial then
                      match Varint.parse b with
                      | .error e => .error (startLen - b.length, HErr.ofV e)
                      | .ok (tokenLen, n) =>
                        let b := b.drop n
                        if tokenLen > b.length then .error (startLen - b.length, .eof)
                        else .ok (b.take tokenLen, b.drop tokenLen)
                    else .ok ([], b)
                  match tokR with
                  | .error (l, e) => (h, l, some e)
                  | .ok (tok, b) =>
                    let h := { h with token := tok }
                    match Varint.parse b with
                    | .error e => (h, 0, some (HErr.ofV e))
                    | .ok (pl, n) => ({ h with length := pl }, startLen - b.length + n, none)

/-- `parseHeader` (data non-empty) -/
def parseHeader (data : Bytes) : Header × Option HErr :=
  match data with
  | [] => ({}, some .eof)
  | t :: rest =>
    let (h, l, e) := parseLongHeader t.toNat rest
    ({ h with parsedLen := l + 1 }, e)

inductive PacketOut
  | ok (h : Header) (packetLen restLen : Nat)
  | unsupported (h : Header)
  | err (e : HErr)
deriving Repr, DecidableEq, BEq

/-- `ParsePacket` -/
def parsePacket (data : Bytes) : PacketOut :=
  match data with
  | [] => .err .notLong
  | t :: _ =>
    if t.toNat / 128 % 2 = 0 then .err .notLong
    else
      match parseHeader data with
      | (h, some .unsupportedVersion) => .unsupported h
      | (_, some e) => .err e
      | (h, none) =>
        if data.length < h.parsedLen + h.length then .err .shortPacket
        else .ok h (h.parsedLen + h.length) (data.length - (h.parsedLen + h.length))

structure ExtOut where
  pn : Nat
  pnLen : Nat
  parsedLen : Nat
  reservedOK : Bool
deriving Repr, DecidableEq, BEq

/-- `Header.ParseExtended(data)` for a header with `ParsedLen() = parsedLen`; `data` non-empty
    (an empty slice panics: `none`). -/
def parseExtended (parsedLen : Nat) (data : Bytes) : Option (Except HErr ExtOut) :=
  match data with
  | [] => none
  | t :: _ =>
    let pnLen := t.toNat % 4 + 1
    if data.length < parsedLen + pnLen then some (.error .eof)
    else
      let pn := beNat ((data.drop parsedLen).take pnLen)
      some (.ok { pn := pn, pnLen := pnLen, parsedLen := parsedLen + pnLen, reservedOK := t.toNat / 4 % 4 = 0 })

/-- `appendPacketNumber`; `none` = "invalid packet number length" -/
def appendPacketNumber (pn pnLen : Nat) : Option Bytes :=
  if pnLen = 0 ∨ pnLen > 4 then none else some (beBytes pnLen pn)

def bitsOfType (v t : Nat) : Nat :=
  if v = version2 then
    if t = ptInitial then 1 else if t = pt0RTT then 2 else if t = ptHandshake then 3 else 0
  else
    if t = ptInitial then 0 else if t = pt0RTT then 1 else if t = ptHandshake then 2 else if t = ptRetry then 3 else 0

inductive HEncOut
  | ok (b : Bytes)
  | err (e : HErr)
  | panic
deriving Repr, DecidableEq, BEq

/-- `ExtendedHeader.Append(nil, v)`; the header's own `Version` goes into the version field. -/
def appendLong (h : Header) (pn pnLen : Nat) (v : Nat) : HEncOut :=
  if h.dest.length > maxConnIDLen ∨ h.src.length > maxConnIDLen then .err .cidLen
  else
    let first := 0xc0 + bitsOfType v h.ptype * 16 + (if h.ptype ≠ ptRetry then (pnLen + 255) % 256 % 4 else 0)
    let b := [Varint.u8 first] ++ beBytes 4 h.version ++ [Varint.u8 h.dest.length] ++ h.dest
      ++ [Varint.u8 h.src.length] ++ h.src
    if h.ptype = ptRetry then .ok (b ++ h.token)
    else
      let tokFits := h.ptype ≠ ptInitial ∨ Varint.fits h.token.length
      if !tokFits then .panic
      else
        let b := if h.ptype = ptInitial then b ++ Varint.enc h.token.length ++ h.token else b
        match Varint.appendWithLen b h.length 2 with
        | none => .panic
        | some b =>
          match appendPacketNumber pn pnLen with
          | none => .err .pnLen
          | some p => .ok (b ++ p)

/-- `ExtendedHeader.GetLength` -/
def getLength (h : Header) (pnLen : Nat) : Nat :=
  1 + 4 + 1 + h.dest.length + 1 + h.src.length + pnLen + 2
    + (if h.ptype = ptInitial then Varint.len h.token.length + h.token.length else 0)

/-! ### short header -/

structure ShortOut where
  n : Nat
  pn : Nat
  pnLen : Nat
  keyPhase : Nat
  reservedOK : Bool
deriving Repr, DecidableEq, BEq

/-- `ParseShortHeader` -/
def parseShortHeader (data : Bytes) (connIDLen : Nat) : Except HErr ShortOut :=
  match data with
  | [] => .error .eof
  | t :: _ =>
    let t := t.toNat
    if t / 128 % 2 = 1 then .error .notShort
    else if t / 64 % 2 = 0 then .error .notQUIC
    else
      let pnLen := t % 4 + 1
      if data.length < 1 + pnLen + connIDLen then .error .eof
      else
        let pn := beNat ((data.drop (1 + connIDLen)).take pnLen)
        let kp := if t / 4 % 2 = 1 then keyPhaseOne else keyPhaseZero
        .ok { n := 1 + connIDLen + pnLen, pn := pn, pnLen := pnLen, keyPhase := kp, reservedOK := t / 8 % 4 = 0 }

/-- `AppendShortHeader`; `none` = invalid packet number length -/
def appendShortHeader (connID : Bytes) (pn pnLen kp : Nat) : Option Bytes :=
  let typeByte := 0x40 + (pnLen + 255) % 256 % 4 + (if kp = keyPhaseOne then 4 else 0)
  match appendPacketNumber pn pnLen with
  | none => none
  | some p => some ([Varint.u8 typeByte] ++ connID ++ p)

def shortHeaderLen (dest : Bytes) (pnLen : Nat) : Nat := 1 + dest.length + pnLen

/-! ### invariant parts -/

/-- `wire.ParseConnectionID` -/
def parseConnectionID (data : Bytes) (shortLen : Nat) : Except HErr Bytes :=
  match data with
  | [] => .error .eof
  | t :: _ =>
    if t.toNat / 128 % 2 = 0 then
      if data.length < shortLen + 1 then .error .eof else .ok ((data.drop 1).take shortLen)
    else if data.length < 6 then .error .eof
    else
      let destLen := (data.getD 5 0).toNat
      if destLen > maxConnIDLen then .error .cidLen
      else if data.length < 6 + destLen then .error .eof
      else .ok ((data.drop 6).take destLen)

/-- `ParseArbitraryLenConnectionIDs`: (bytesParsed, dest, src) -/
def parseArbitraryLenConnectionIDs (data0 : Bytes) : Except HErr (Nat × Bytes × Bytes) :=
  let startLen := data0.length
  if data0.length < 6 then .error .eof
  else
    let data := data0.drop 5
    let destLen := (data.getD 0 0).toNat
    let data := data.drop 1
    if data.length < destLen + 1 then .error .eof
    else
      let dest := data.take destLen
      let data := data.drop destLen
      let srcLen := (data.getD 0 0).toNat
      let data := data.drop 1
      if data.length < srcLen then .error .eof
      else .ok (startLen - data.length + srcLen, dest, data.take srcLen)

def isLongHeaderPacket (first : Nat) : Bool := first / 128 % 2 = 1
def isPotentialQUICPacket (first : Nat) : Bool := first / 64 % 2 = 1

/-- `ParseVersion` -/
def parseVersion (data : Bytes) : Except HErr Nat :=
  if data.length < 5 then .error .eof else .ok (beNat ((data.drop 1).take 4))

/-- `IsVersionNegotiationPacket` -/
def isVersionNegotiationPacket (b : Bytes) : Bool :=
  if b.length < 5 then false
  else isLongHeaderPacket (b.getD 0 0).toNat && beNat ((b.drop 1).take 4) = 0

/-- `Is0RTTPacket` -/
def is0RTTPacket (b : Bytes) : Bool :=
  if b.length < 5 then false
  else
    let first := (b.getD 0 0).toNat
    if !isLongHeaderPacket first then false
    else
      let version := beNat ((b.drop 1).take 4)
      if version = version1 then first / 16 % 4 = 1
      else if version = version2 then first / 16 % 4 = 2
      else false

/-- the loop over the version list -/
def versionList : Bytes → List Nat
  | a :: b :: c :: d :: rest => beNat [a, b, c, d] :: versionList rest
  | _ => []

/-- `ParseVersionNegotiationPacket` -/
def parseVersionNegotiation (b : Bytes) : Except HErr (Bytes × Bytes × List Nat) :=
  match parseArbitraryLenConnectionIDs b with
  | .error e => .error e
  | .ok (n, dest, src) =>
    let b := b.drop n
    if b.length = 0 then .error .vnEmpty
    else if b.length % 4 ≠ 0 then .error .vnLen
    else .ok (dest, src, versionList b)

/-- `ComposeVersionNegotiation` given the random first byte and the greased list
    `GetGreasedVersions` produced (both recovered from the output, DESIGN §3.3). -/
def composeVersionNegotiation (randFirst : Nat) (dest src : Bytes) (greased : List Nat) : Bytes :=
  [Varint.u8 (randFirst % 64 + 0xc0)] ++ [0, 0, 0, 0] ++ [Varint.u8 dest.length] ++ dest
    ++ [Varint.u8 src.length] ++ src ++ greased.flatMap (beBytes 4)

end Uquic.Model.Wire.Hdr
