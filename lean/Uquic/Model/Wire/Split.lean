/-
Model of `MaxDataLen` and `MaybeSplitOffFrame` of STREAM, CRYPTO and DATAGRAM frames
(/repo/internal/wire/stream_frame.go, crypto_frame.go, datagram_frame.go), property C08
("occupies exactly the encoder's predicted length": a frame cut to a budget fits the budget).
-/
import Uquic.Model.Wire.Frames

namespace Uquic.Model.Wire

/-- `StreamFrame.MaxDataLen(maxSize)` -/
def streamMaxDataLen (sid off : Nat) (dlp : Bool) (maxSize : Nat) : Nat :=
  let headerLen := 1 + Varint.len sid + (if off ≠ 0 then Varint.len off else 0) + (if dlp then 1 else 0)
  if headerLen > maxSize then 0
  else
    let maxDataLen := maxSize - headerLen
    if dlp ∧ Varint.len maxDataLen ≠ 1 then maxDataLen - 1 else maxDataLen

/-- `CryptoFrame.MaxDataLen(maxSize)` -/
def cryptoMaxDataLen (off : Nat) (maxSize : Nat) : Nat :=
  let headerLen := 1 + Varint.len off + 1
  if headerLen > maxSize then 0
  else
    let maxDataLen := maxSize - headerLen
    if Varint.len maxDataLen ≠ 1 then maxDataLen - 1 else maxDataLen

/-- `DatagramFrame.MaxDataLen(maxSize)` -/
def datagramMaxDataLen (dlp : Bool) (maxSize : Nat) : Nat :=
  let headerLen := 1 + (if dlp then 1 else 0)
  if headerLen > maxSize then 0
  else
    let maxDataLen := maxSize - headerLen
    if dlp ∧ Varint.len maxDataLen ≠ 1 then maxDataLen - 1 else maxDataLen

inductive SplitOut
  | notNeeded                       -- (nil, false): the frame fits
  | tooSmall                        -- (nil, true): not even one byte fits
  | split (first rest : Frame)      -- (first, true); `rest` is what the receiver frame became
  | panic                           -- slice bounds: the remainder does not fit the pooled buffer
deriving Repr, DecidableEq, BEq

/-- `StreamFrame.MaybeSplitOffFrame(maxSize)` on a STREAM frame -/
def streamSplit (sid off : Nat) (data : Bytes) (fin dlp : Bool) (maxSize : Nat) : SplitOut :=
  if maxSize ≥ (Frame.stream sid off data fin dlp).length then .notNeeded
  else
    let n := streamMaxDataLen sid off dlp maxSize
    if n = 0 then .tooSmall
    -- the remainder is copied into a pooled buffer of capacity MaxPacketBufferSize
    else if data.length - n > maxPacketBufferSize then .panic
    else .split (.stream sid off (data.take n) false dlp) (.stream sid (off + n) (data.drop n) fin dlp)

/-- `CryptoFrame.MaybeSplitOffFrame(maxSize)` -/
def cryptoSplit (off : Nat) (data : Bytes) (maxSize : Nat) : SplitOut :=
  if (Frame.crypto off data).length ≤ maxSize then .notNeeded
  else
    let n := cryptoMaxDataLen off maxSize
    if n = 0 then .tooSmall
    else .split (.crypto off (data.take n)) (.crypto (off + n) (data.drop n))

end Uquic.Model.Wire
