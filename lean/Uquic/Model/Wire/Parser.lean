/-
Model of the STATE of /repo/internal/wire/frame_parser.go `FrameParser` (property C08).

One `FrameParser` serves a whole connection (`connection.frameParser`): it is created with the three
extension flags, `SetAckDelayExponent` is called once when the peer's transport parameters arrive
(`connection.applyTransportParameters`), and after that every frame of every packet number space goes
through the same object.  `Frames.lean` models one parse under a given `Ctx`; this file models the
object that owns the `Ctx` fields between the calls: which calls may write them (only the setter) and
what a sequence of calls returns.
-/
import Uquic.Model.Wire.Frames

namespace Uquic.Model.Wire

/-- the configuration fields of `wire.FrameParser` (the reused `ackFrame` buffer is an allocation
    detail: `ParseAckFrame` resets it before every use and the driver copies what it returns) -/
structure Parser where
  supportsDatagrams : Bool
  supportsResetStreamAt : Bool
  supportsAckFrequency : Bool
  /-- `FrameParser.ackDelayExponent` (uint8); `NewFrameParser` leaves it 0 -/
  ackDelayExponent : Nat := 0
deriving Repr, DecidableEq, BEq

namespace Parser

/-- `NewFrameParser(supportsDatagrams, supportsResetStreamAt, supportsAckFrequency)` -/
def new (d r a : Bool) : Parser :=
  { supportsDatagrams := d, supportsResetStreamAt := r, supportsAckFrequency := a }

/-- `SetAckDelayExponent(exp uint8)` -/
def setAckDelayExponent (p : Parser) (e : Nat) : Parser := { p with ackDelayExponent := e % 256 }

/-- what one parse at encryption level `lvl` sees -/
def ctx (p : Parser) (lvl : Nat) : Ctx :=
  { lvl := lvl, supportsDatagrams := p.supportsDatagrams, supportsResetStreamAt := p.supportsResetStreamAt,
    supportsAckFrequency := p.supportsAckFrequency, ackDelayExponent := p.ackDelayExponent }

/-- `ParseType` followed by the matching `Parse…Frame` (as `connection.handleFrames` does for one
    frame): the parser after the call and the result.  No parse writes a configuration field. -/
def parse (p : Parser) (lvl : Nat) (b : Bytes) : Parser × DecOut := (p, decode (p.ctx lvl) b)

/-- the calls a connection makes on its parser -/
inductive Call
  | setExp (e : Nat)
  | parse (lvl : Nat) (b : Bytes)
deriving Repr, DecidableEq

/-- run a sequence of calls; the results of the `parse` calls in order -/
def run : Parser → List Call → Parser × List DecOut
  | p, [] => (p, [])
  | p, .setExp e :: cs => run (p.setAckDelayExponent e) cs
  | p, .parse lvl b :: cs =>
    let (p1, out) := p.parse lvl b
    let (p2, outs) := run p1 cs
    (p2, out :: outs)

/-- the exponent in force after `cs`: the argument of the last `setExp`, else the initial one -/
def lastExp : Nat → List Call → Nat
  | e, [] => e
  | _, .setExp e :: cs => lastExp (e % 256) cs
  | e, .parse _ _ :: cs => lastExp e cs

end Parser

end Uquic.Model.Wire
