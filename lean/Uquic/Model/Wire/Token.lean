/-
Model of the address-validation token envelope of
/repo/internal/handshake/token_generator.go and token_protector.go (property C08):
`token = nonce(32) ‖ AES-GCM(DER(token struct))`.  The AEAD is abstract
(ideal-functionality assumption: only bytes produced by `Seal` under the same key
open); the DER encoding of the six-field struct is modelled at the level of its
length, which is what the wire sees.
-/
import Uquic.Model.Wire.Varint

namespace Uquic.Model.Wire.Token

open Uquic.Model.Wire

def nonceSize : Nat := Uquic.Gen.Wire.tokenNonceSize.toNat
/-- AES-GCM tag -/
def tagSize : Nat := 16

inductive DecodeOut
  | nilToken    -- `len(encrypted) == 0`: (nil, nil)
  | tooShort    -- "token too short"
  | authFail    -- `aead.Open` fails (every byte string not produced by `Seal`)
deriving Repr, DecidableEq, BEq

/-- `TokenGenerator.DecodeToken` on a byte string that was not produced by `NewToken` -/
def decodeOutcome (encrypted : Bytes) : DecodeOut :=
  if encrypted.length = 0 then .nilToken
  else if encrypted.length < nonceSize then .tooShort
  else .authFail

/-- `encodeRemoteAddr` for a `*net.UDPAddr` -/
def encodeUDPAddr (ip : Bytes) : Bytes := 0 :: ip
/-- `encodeRemoteAddr` for any other `net.Addr` -/
def encodeStringAddr (s : String) : Bytes := 1 :: s.toUTF8.toList

/-- `(*net.TCPAddr).String()` for an empty or 4-byte IP -/
def tcpAddrString (ip : Bytes) (port : Nat) : String :=
  match ip with
  | [a, b, c, d] => s!"{a.toNat}.{b.toNat}.{c.toNat}.{d.toNat}:{port}"
  | _ => s!":{port}"

/-! DER lengths (encoding/asn1.Marshal of `token`) -/

def derLenLen (k : Nat) : Nat := if k < 128 then 1 else if k < 256 then 2 else if k < 65536 then 3 else 4
def derOctets (k : Nat) : Nat := 1 + derLenLen k + k
/-- content bytes of a non-negative INTEGER: minimal two's complement -/
def derIntBytes (v : Nat) : Nat :=
  (List.range 9).foldr (fun nb acc => if v < 2 ^ (8 * (nb + 1) - 1) then nb + 1 else acc) 9
def derInt (v : Nat) : Nat := 1 + 1 + derIntBytes v

/-- length of the token for a timestamp whose INTEGER content takes `tsLen` bytes -/
def tokenLen (_retry : Bool) (addr : Bytes) (tsLen rttUs : Nat) (odcid rscid : Bytes) : Nat :=
  let content := 3 + derOctets addr.length + (2 + tsLen) + derInt rttUs + derOctets odcid.length + derOctets rscid.length
  nonceSize + (1 + derLenLen content + content) + tagSize

/-- the timestamp width that explains an observed token length (0 if none) -/
def recoverTimestampLen (retry : Bool) (addr : Bytes) (rttUs : Nat) (odcid rscid : Bytes) (n : Nat) : Nat :=
  ((List.range 10).find? (fun k => k ≥ 1 ∧ tokenLen retry addr k rttUs odcid rscid = n)).getD 0

end Uquic.Model.Wire.Token
