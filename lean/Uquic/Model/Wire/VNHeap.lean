/-
Memory model of Version Negotiation packet composition (property C08, "every value the encoders can produce
parses back to an equal value" — for an encoder that is handed a slice the CALLER keeps using).

`wire.ComposeVersionNegotiation(dest, src, versions)` is called by the server's Transport for every packet
with an unsupported version, each time with the SAME `versions` slice (the Transport's / Config's list, as the
application assembled it — with `append`, so usually with spare capacity) and with connection IDs that are
windows on the receive buffer.  It asks `protocol.GetGreasedVersions` (internal/protocol/version.go, outside
the anchored files) for the list with one reserved version at a random position.  Whether the second packet
still lists the supported versions is a question about which backing arrays that helper writes, so slices are
windows (`arr`, `off`, `len`, `cap`) on the arrays of a heap (`Model.TokenHeap`: Go's `make`, `copy`,
`append`), cells are numbers (a version, or a connection ID byte).

* `getGreased`        mirrors the code: `make(len+1)`, `copy(greased, supported[:pos])`, `greased[pos] = reserved`,
                      `copy(greased[pos+1:], supported[pos:])`
* `getGreasedInsert`  is the tempting rewrite `slices.Insert(supported, pos, reserved)`; it is kept only as the
                      negative witness of `Props.C08Alias` (it shifts cells inside the caller's array whenever
                      the slice has spare capacity)
-/
import Uquic.Model.UQuic.TokenHeap
import Uquic.Model.Wire.Header

namespace Uquic.Model.Wire.VNHeap

open Uquic.Model.TokenHeap Uquic.Model.Wire

abbrev Heap := List (List Nat)

/-- `s[lo:hi]` -/
def sub (s : Slice) (lo hi : Nat) : Slice := { arr := s.arr, off := s.off + lo, len := hi - lo, cap := s.cap - lo }

/-- `protocol.GetGreasedVersions(supported)` with `pos = versionNegotiationRand.IntN(len+1)` and
    `reserved = generateReservedVersion()`: the new heap and the returned slice -/
def getGreased (h : Heap) (sup : Slice) (pos reserved : Nat) : Heap × Slice :=
  ((goCopy
      (writeAt (goCopy (alloc h (sup.len + 1)).1 (alloc h (sup.len + 1)).2 (sub sup 0 pos)).1 h.length pos [reserved])
      (sub (alloc h (sup.len + 1)).2 (pos + 1) (sup.len + 1)) (sub sup pos sup.len)).1,
   (alloc h (sup.len + 1)).2)

/-- NOT the code: `slices.Insert(supported, pos, reserved)` — in place when `len+1 ≤ cap` (the tail is moved
    one cell up inside the caller's array), into a fresh array otherwise (negative witness only) -/
def getGreasedInsert (h : Heap) (sup : Slice) (pos reserved : Nat) : Heap × Slice :=
  if sup.len + 1 ≤ sup.cap then
    (writeAt h sup.arr (sup.off + pos) (reserved :: (bytesOf h sup).drop pos), { sup with len := sup.len + 1 })
  else
    ((alloc h (sup.len + 1)).1.set h.length ((bytesOf h sup).take pos ++ reserved :: (bytesOf h sup).drop pos),
     (alloc h (sup.len + 1)).2)

/-- connection ID cells as bytes -/
def toBytes (l : List Nat) : Bytes := l.map UInt8.ofNat

/-- one packet with an unsupported version arrives: where its connection IDs lie (already swapped: `dest` is
    what the reply carries as Destination Connection ID) and this call's randomness -/
structure Req where
  dest : Slice
  src : Slice
  /-- `versionNegotiationRand.IntN(len(supported)+1)` -/
  pos : Nat
  /-- `generateReservedVersion()` -/
  reserved : Nat
  /-- the random first byte (`rand.Read(buf[:1])`) -/
  first : Nat

/-- the heap, and the packets sent so far.  A packet is a value: `ComposeVersionNegotiation` builds it in a
    buffer it has just made (`make([]byte, 5, expectedLen)`, every append within that capacity). -/
structure Srv where
  heap : Heap
  pkts : List Bytes := []

/-- `ComposeVersionNegotiation` with the helper `getG` -/
def composeWith (getG : Heap → Slice → Nat → Nat → Heap × Slice) (sup : Slice) (st : Srv) (q : Req) : Srv :=
  { heap := (getG st.heap sup q.pos q.reserved).1,
    pkts := st.pkts ++ [Hdr.composeVersionNegotiation q.first
      (toBytes (bytesOf (getG st.heap sup q.pos q.reserved).1 q.dest))
      (toBytes (bytesOf (getG st.heap sup q.pos q.reserved).1 q.src))
      (bytesOf (getG st.heap sup q.pos q.reserved).1 (getG st.heap sup q.pos q.reserved).2)] }

def compose (sup : Slice) (st : Srv) (q : Req) : Srv := composeWith getGreased sup st q

/-- a server answering a sequence of packets with one `versions` slice -/
def serve (sup : Slice) (st : Srv) (qs : List Req) : Srv := qs.foldl (compose sup) st

/-- the same with the `slices.Insert` rewrite (negative witness only) -/
def serveInsert (sup : Slice) (st : Srv) (qs : List Req) : Srv := qs.foldl (composeWith getGreasedInsert sup) st

/-- what a packet must list: the supported versions with the reserved one at `pos` -/
def insertAt (l : List Nat) (pos v : Nat) : List Nat := l.take pos ++ v :: l.drop pos

/-- a reserved version (RFC 9000 §15: `0x?a?a?a?a`) -/
def isReserved (v : Nat) : Bool := v % 16 == 10 && (v / 256) % 16 == 10 && (v / 65536) % 16 == 10 && (v / 16777216) % 16 == 10

end Uquic.Model.Wire.VNHeap
