/-
Model of `quicvarint.Read(r io.ByteReader)` (/repo/quicvarint/varint.go), branch for branch
(property C08).  The reader is the list of bytes it has not yet delivered; `ReadByte` on an
exhausted reader is the reader's error (`io.EOF` for `bytes.Reader` and for the
`quicvarint.NewReader` wrapper), which `Read` passes through unchanged.
-/
import Uquic.Model.Wire.Varint

namespace Uquic.Model.Wire.Varint.BR

open Uquic.Model.Wire Uquic.Model.Wire.Varint

/-- `r.ReadByte()`: the next byte and the reader afterwards; `none` = `io.EOF` -/
def readByte : Bytes → Option (UInt8 × Bytes)
  | [] => none
  | b :: r => some (b, r)

/-- `quicvarint.Read(r)`: the value (`none` = the error `ReadByte` returned) and the reader afterwards.
    `l := 1 << ((firstByte & 0xc0) >> 6)`, `b1 := firstByte & 0x3f`. -/
def readBR (r : Bytes) : Option Nat × Bytes :=
  match readByte r with
  | none => (none, r)
  | some (firstByte, r) =>
    let l := 2 ^ (firstByte.toNat / 64)
    let b1 := firstByte.toNat % 64
    if l = 1 then (some b1, r)
    else
    match readByte r with
    | none => (none, r)
    | some (b2, r) =>
    if l = 2 then (some (b2.toNat + b1 * 2 ^ 8), r)
    else
    match readByte r with
    | none => (none, r)
    | some (b3, r) =>
    match readByte r with
    | none => (none, r)
    | some (b4, r) =>
    if l = 4 then (some (b4.toNat + b3.toNat * 2 ^ 8 + b2.toNat * 2 ^ 16 + b1 * 2 ^ 24), r)
    else
    match readByte r with
    | none => (none, r)
    | some (b5, r) =>
    match readByte r with
    | none => (none, r)
    | some (b6, r) =>
    match readByte r with
    | none => (none, r)
    | some (b7, r) =>
    match readByte r with
    | none => (none, r)
    | some (b8, r) =>
    (some (b8.toNat + b7.toNat * 2 ^ 8 + b6.toNat * 2 ^ 16 + b5.toNat * 2 ^ 24 + b4.toNat * 2 ^ 32
            + b3.toNat * 2 ^ 40 + b2.toNat * 2 ^ 48 + b1 * 2 ^ 56), r)

end Uquic.Model.Wire.Varint.BR
