/-
The session ticket envelope of internal/handshake/session_ticket.go (property C08): what the server stores in
the TLS session ticket / the client in its session state to restore transport parameters for 0-RTT.

  sessionTicket.Marshal    = varint(sessionTicketRevision) ‖ TransportParameters.MarshalForSessionTicket
                             (appended to a buffer that already holds the revision — the one place where
                             MarshalForSessionTicket is called with a non-empty destination)
  sessionTicket.Unmarshal  = the inverse; another revision is refused before anything else is read
  addSessionStateExtraPrefix / findSessionStateExtraData: the "quic-go1" tag that tells this library's extra
                             data apart from other entries of tls.SessionState.Extra

The revision and the tag are regenerated from /repo (`Uquic.Gen.Wire`).
-/
import Uquic.Model.Wire.TransportParams
import Uquic.Generated.Wire

namespace Uquic.Model.Wire.Ticket

open Uquic.Model.Wire

def revision : Nat := Uquic.Gen.Wire.sessionTicketRevision.toNat

def extraPrefix : Bytes := Uquic.Gen.Wire.sessionStateExtraPrefix.map UInt8.ofNat

inductive KErr
  /-- "failed to read session ticket revision" -/
  | revRead
  /-- "unknown session ticket revision" -/
  | revision (got : Nat)
  /-- "unmarshaling transport parameters from session ticket failed" -/
  | tp (e : TP.TErr)
deriving Repr, DecidableEq

/-- `(*sessionTicket).Marshal` (`none`: a value does not fit a varint, the Go code panics) -/
def ticketMarshal (p : TP.Params) : Option Bytes :=
  match TP.marshalForSessionTicket p with
  | some b => some (Varint.enc revision ++ b)
  | none => none

/-- `(*sessionTicket).Unmarshal` -/
def ticketUnmarshal (b : Bytes) : Except KErr TP.Params :=
  match Varint.parse b with
  | .error _ => .error .revRead
  | .ok (rev, l) =>
    if rev ≠ revision then .error (.revision rev)
    else match TP.unmarshalFromSessionTicket (b.drop l) with
      | .ok p => .ok p
      | .error e => .error (.tp e)

/-- `addSessionStateExtraPrefix` -/
def addExtraPrefix (b : Bytes) : Bytes := extraPrefix ++ b

def hasPrefix (x : Bytes) : Bool := extraPrefix.isPrefixOf x

/-- `findSessionStateExtraData`: the first entry that carries the tag, without it -/
def findExtra : List Bytes → Option Bytes
  | [] => none
  | x :: rest => if hasPrefix x then some (x.drop extraPrefix.length) else findExtra rest

end Uquic.Model.Wire.Ticket
