/-
Model of /repo/internal/wire/*_frame.go, frame_type.go and frame_parser.go
(property C08).  One `parse…` / `bytes` (= `Append`) / `length` triple per
frame type, mirroring the Go function of the same name branch for branch,
including the error returned and the number of bytes consumed.

Conventions
* integer fields are `Nat` (Go uint64, or int64 fields holding a value read
  from a varint); where Go computes a difference of int64 fields (ACK ranges)
  the model computes in `Int` and converts with `u64`, which is Go's
  `uint64(x)` for |x| < 2^63;
* `Append` panics exactly when some `quicvarint.Append/Len` gets a value above
  `maxVarInt8`, or (ACK) `AckRanges` is empty: `Frame.panics`.  `Frame.bytes`
  is what `Append` returns otherwise; `Frame.appendErr` is the `error` result;
* the numbering of frame types, the type-range predicates and the
  allowed-at-encryption-level table come from `Uquic.Gen.Wire`.
-/
import Uquic.Model.Wire.Varint
import Uquic.Generated.Protocol

namespace Uquic.Model.Wire

open Uquic.Gen

/-! ### constants (regenerated) -/

def ftPing : Nat := Wire.FrameTypePing.toNat
def ftAck : Nat := Wire.FrameTypeAck.toNat
def ftAckECN : Nat := Wire.FrameTypeAckECN.toNat
def ftResetStream : Nat := Wire.FrameTypeResetStream.toNat
def ftStopSending : Nat := Wire.FrameTypeStopSending.toNat
def ftCrypto : Nat := Wire.FrameTypeCrypto.toNat
def ftNewToken : Nat := Wire.FrameTypeNewToken.toNat
def ftMaxData : Nat := Wire.FrameTypeMaxData.toNat
def ftMaxStreamData : Nat := Wire.FrameTypeMaxStreamData.toNat
def ftBidiMaxStreams : Nat := Wire.FrameTypeBidiMaxStreams.toNat
def ftUniMaxStreams : Nat := Wire.FrameTypeUniMaxStreams.toNat
def ftDataBlocked : Nat := Wire.FrameTypeDataBlocked.toNat
def ftStreamDataBlocked : Nat := Wire.FrameTypeStreamDataBlocked.toNat
def ftBidiStreamBlocked : Nat := Wire.FrameTypeBidiStreamBlocked.toNat
def ftUniStreamBlocked : Nat := Wire.FrameTypeUniStreamBlocked.toNat
def ftNewConnectionID : Nat := Wire.FrameTypeNewConnectionID.toNat
def ftRetireConnectionID : Nat := Wire.FrameTypeRetireConnectionID.toNat
def ftPathChallenge : Nat := Wire.FrameTypePathChallenge.toNat
def ftPathResponse : Nat := Wire.FrameTypePathResponse.toNat
def ftConnectionClose : Nat := Wire.FrameTypeConnectionClose.toNat
def ftApplicationClose : Nat := Wire.FrameTypeApplicationClose.toNat
def ftHandshakeDone : Nat := Wire.FrameTypeHandshakeDone.toNat
def ftResetStreamAt : Nat := Wire.FrameTypeResetStreamAt.toNat
def ftAckFrequency : Nat := Wire.FrameTypeAckFrequency.toNat
def ftImmediateAck : Nat := Wire.FrameTypeImmediateAck.toNat
def ftDatagramNoLength : Nat := Wire.FrameTypeDatagramNoLength.toNat
def ftDatagramWithLength : Nat := Wire.FrameTypeDatagramWithLength.toNat

def maxStreamCount : Nat := Protocol.MaxStreamCount.toNat
def maxConnIDLen : Nat := Protocol.MaxConnIDLen.toNat
def maxByteCount : Nat := Protocol.MaxByteCount.toNat
def maxNumAckRanges : Nat := Protocol.MaxNumAckRanges.toNat
def minStreamFrameBufferSize : Nat := Protocol.MinStreamFrameBufferSize.toNat
def maxPacketBufferSize : Nat := Protocol.MaxPacketBufferSize.toNat
/-- exponent used when *sending* ACKs (`protocol.AckDelayExponent`) -/
def sendAckDelayExponent : Nat := Protocol.AckDelayExponent.toNat
def defaultAckDelayExponent : Nat := Protocol.DefaultAckDelayExponent.toNat
def encryption1RTT : Nat := Protocol.Encryption1RTT.toNat

def maxInt64 : Nat := 2 ^ 63 - 1

/-! ### errors -/

/-- the distinct `error` values the frame parsers return (after `replaceUnexpectedEOF`) -/
inductive Err
  | eof              -- io.EOF
  | ueof             -- io.ErrUnexpectedEOF (only from ParseType, which does not replace it)
  | unknownType      -- errUnknownFrameType
  | encLevel         -- "… not allowed at encryption level …"
  | ackFirst         -- "invalid first ACK range"
  | ackRanges        -- errInvalidAckRanges
  | streamOverflow   -- "stream data overflows maximum offset"
  | reliableGtFinal  -- "RESET_STREAM_AT: reliable size can't be larger than final size"
  | emptyToken       -- "token must not be empty"
  | streamCount      -- "… exceeds the maximum stream count"
  | retireGtSeq      -- "Retire Prior To value … larger than Sequence Number"
  | zeroCID          -- "invalid zero-length connection ID"
  | cidLen           -- protocol.ErrInvalidConnectionIDLen
deriving Repr, DecidableEq, BEq

/-- `replaceUnexpectedEOF(err)` applied to a varint error -/
def Err.ofV : VErr → Err
  | .eof => .eof
  | .ueof => .eof

/-- the frame parsers' idiom: parse a varint, map both EOF kinds to io.EOF, advance -/
def takeV (b : Bytes) : Except Err (Nat × Bytes) :=
  match Varint.take b with
  | .ok r => .ok r
  | .error e => .error (Err.ofV e)

/-! ### frame values -/

inductive StreamType
  | bidi
  | uni
deriving Repr, DecidableEq, BEq

/-- (Smallest, Largest) -/
abbrev AckRange := Nat × Nat

inductive Frame
  | ping
  | ack (ranges : List AckRange) (delayNs : Nat) (ect0 ect1 ecnce : Nat)
  | resetStream (streamID errorCode finalSize reliableSize : Nat)
  | stopSending (streamID errorCode : Nat)
  | crypto (offset : Nat) (data : Bytes)
  | newToken (token : Bytes)
  | stream (streamID offset : Nat) (data : Bytes) (fin dataLenPresent : Bool)
  | maxData (max : Nat)
  | maxStreamData (streamID max : Nat)
  | maxStreams (t : StreamType) (max : Nat)
  | dataBlocked (max : Nat)
  | streamDataBlocked (streamID max : Nat)
  | streamsBlocked (t : StreamType) (limit : Nat)
  | newConnectionID (seq retirePriorTo : Nat) (connID : Bytes) (token : Bytes)
  | retireConnectionID (seq : Nat)
  | pathChallenge (data : Bytes)
  | pathResponse (data : Bytes)
  | connectionClose (isApp : Bool) (errorCode frameType : Nat) (reason : Bytes)
  | handshakeDone
  | datagram (dataLenPresent : Bool) (data : Bytes)
  | ackFrequency (seq threshold : Nat) (maxAckDelayNs : Nat) (reordering : Nat)
  | immediateAck
deriving Repr, DecidableEq, BEq

/-- the Go types fix some lengths: `[8]byte` path data, `[16]byte` stateless reset token,
    `protocol.ConnectionID` of at most 20 bytes -/
def Frame.wellTyped : Frame → Bool
  | .pathChallenge d => d.length = 8
  | .pathResponse d => d.length = 8
  | .newConnectionID _ _ cid tok => cid.length ≤ 20 && tok.length = 16
  | _ => true

/-! ### parsing, frame by frame -/

/-- `time.Duration(delay*1<<exp) * time.Microsecond`, saturating when negative
    (uint64 wrap of the shift, int64 wrap of the multiplication). -/
def ackDelayTime (delay exp : Nat) : Nat :=
  let x := (delay * 2 ^ exp) % 2 ^ 64
  let y := (x * 1000) % 2 ^ 64
  if y ≥ 2 ^ 63 then maxInt64 else y

/-- the loop `for range numBlocks` of `parseAckFrame` -/
def parseAckBlocks : (numBlocks : Nat) → (smallest : Nat) → Bytes → Except Err (List AckRange × Bytes)
  | 0, _, b => .ok ([], b)
  | k + 1, smallest, b =>
    match takeV b with
    | .error e => .error e
    | .ok (gap, b) =>
      if smallest < gap + 2 then .error .ackRanges
      else
        let largest := smallest - gap - 2
        match takeV b with
        | .error e => .error e
        | .ok (ackBlock, b) =>
          if ackBlock > largest then .error .ackRanges
          else
            let smallest' := largest - ackBlock
            match parseAckBlocks k smallest' b with
            | .error e => .error e
            | .ok (rs, b) => .ok ((smallest', largest) :: rs, b)

/-- the second loop of `validateAckRanges` (pairs of neighbours) -/
def ackRangesConsistent : List AckRange → Bool
  | [] => true
  | [_] => true
  | last :: r :: rest =>
    if last.1 ≤ r.1 then false
    else if last.1 ≤ r.2 + 1 then false
    else ackRangesConsistent (r :: rest)

/-- `AckFrame.validateAckRanges` -/
def validateAckRanges (rs : List AckRange) : Bool :=
  if rs.isEmpty then false
  else if rs.any (fun r => r.1 > r.2) then false
  else ackRangesConsistent rs

/-- `parseAckFrame`; `b` is the data after the type. -/
def parseAck (b : Bytes) (ecn : Bool) (ackDelayExponent : Nat) : Except Err (Frame × Nat) :=
  let startLen := b.length
  match takeV b with
  | .error e => .error e
  | .ok (largestAcked, b) =>
  match takeV b with
  | .error e => .error e
  | .ok (delay, b) =>
  let delayTime := ackDelayTime delay ackDelayExponent
  match takeV b with
  | .error e => .error e
  | .ok (numBlocks, b) =>
  match takeV b with
  | .error e => .error e
  | .ok (ackBlock, b) =>
  if ackBlock > largestAcked then .error .ackFirst
  else
    let smallest := largestAcked - ackBlock
    match parseAckBlocks numBlocks smallest b with
    | .error e => .error e
    | .ok (rs, b) =>
      let ranges := (smallest, largestAcked) :: rs
      if !validateAckRanges ranges then .error .ackRanges
      else if ecn then
        match takeV b with
        | .error e => .error e
        | .ok (ect0, b) =>
        match takeV b with
        | .error e => .error e
        | .ok (ect1, b) =>
        match takeV b with
        | .error e => .error e
        | .ok (ecnce, b) => .ok (.ack ranges delayTime ect0 ect1 ecnce, startLen - b.length)
      else .ok (.ack ranges delayTime 0 0 0, startLen - b.length)

/-- `parseResetStreamFrame` -/
def parseResetStream (b : Bytes) (isResetStreamAt : Bool) : Except Err (Frame × Nat) :=
  let startLen := b.length
  match takeV b with
  | .error e => .error e
  | .ok (streamID, b) =>
  match takeV b with
  | .error e => .error e
  | .ok (errorCode, b) =>
  match takeV b with
  | .error e => .error e
  | .ok (finalSize, b) =>
  if isResetStreamAt then
    match takeV b with
    | .error e => .error e
    | .ok (reliableSize, b) =>
      if reliableSize > finalSize then .error .reliableGtFinal
      else .ok (.resetStream streamID errorCode finalSize reliableSize, startLen - b.length)
  else
    -- reliableSize = 0 > finalSize is impossible
    .ok (.resetStream streamID errorCode finalSize 0, startLen - b.length)

/-- `parseStopSendingFrame` -/
def parseStopSending (b : Bytes) : Except Err (Frame × Nat) :=
  let startLen := b.length
  match takeV b with
  | .error e => .error e
  | .ok (streamID, b) =>
  match takeV b with
  | .error e => .error e
  | .ok (errorCode, b) => .ok (.stopSending streamID errorCode, startLen - b.length)

/-- `parseCryptoFrame` -/
def parseCrypto (b : Bytes) : Except Err (Frame × Nat) :=
  let startLen := b.length
  match takeV b with
  | .error e => .error e
  | .ok (offset, b) =>
  match takeV b with
  | .error e => .error e
  | .ok (dataLen, b) =>
  if dataLen > b.length then .error .eof
  else .ok (.crypto offset (b.take dataLen), startLen - b.length + dataLen)

/-- `parseNewTokenFrame` -/
def parseNewToken (b : Bytes) : Except Err (Frame × Nat) :=
  match Varint.parse b with
  | .error e => .error (Err.ofV e)
  | .ok (tokenLen, l) =>
    let b := b.drop l
    if tokenLen = 0 then .error .emptyToken
    else if b.length < tokenLen then .error .eof
    else .ok (.newToken (b.take tokenLen), l + tokenLen)

/-- `ParseStreamFrame`; `typ` is the frame type (0x8..0xf). -/
def parseStream (b : Bytes) (typ : Nat) : Except Err (Frame × Nat) :=
  let startLen := b.length
  let hasOffset := typ / 4 % 2 = 1      -- typ&0b100 > 0
  let fin := typ % 2 = 1                -- typ&0b1 > 0
  let hasDataLen := typ / 2 % 2 = 1     -- typ&0b10 > 0
  match takeV b with
  | .error e => .error e
  | .ok (streamID, b) =>
  let offR : Except Err (Nat × Bytes) := if hasOffset then takeV b else .ok (0, b)
  match offR with
  | .error e => .error e
  | .ok (offset, b) =>
  let lenR : Except Err (Nat × Bytes) :=
    if hasDataLen then
      match takeV b with
      | .error e => .error e
      | .ok (dataLen, b) => if dataLen > b.length then .error .eof else .ok (dataLen, b)
    else .ok (b.length, b)
  match lenR with
  | .error e => .error e
  | .ok (dataLen, b) =>
  -- frames of at least MinStreamFrameBufferSize bytes come from the pool (capacity MaxPacketBufferSize)
  if dataLen ≥ minStreamFrameBufferSize ∧ dataLen > maxPacketBufferSize then .error .eof
  else if offset + dataLen > maxByteCount then .error .streamOverflow
  else .ok (.stream streamID offset (b.take dataLen) fin hasDataLen, startLen - b.length + dataLen)

/-- `parseMaxDataFrame` -/
def parseMaxData (b : Bytes) : Except Err (Frame × Nat) :=
  match Varint.parse b with
  | .error e => .error (Err.ofV e)
  | .ok (v, l) => .ok (.maxData v, l)

/-- `parseMaxStreamDataFrame` -/
def parseMaxStreamData (b : Bytes) : Except Err (Frame × Nat) :=
  let startLen := b.length
  match takeV b with
  | .error e => .error e
  | .ok (sid, b) =>
  match takeV b with
  | .error e => .error e
  | .ok (offset, b) => .ok (.maxStreamData sid offset, startLen - b.length)

/-- `parseMaxStreamsFrame` -/
def parseMaxStreams (b : Bytes) (typ : Nat) : Except Err (Frame × Nat) :=
  let t := if typ = ftUniMaxStreams then StreamType.uni else StreamType.bidi
  match Varint.parse b with
  | .error e => .error (Err.ofV e)
  | .ok (v, l) =>
    if v > maxStreamCount then .error .streamCount
    else .ok (.maxStreams t v, l)

/-- `parseDataBlockedFrame` -/
def parseDataBlocked (b : Bytes) : Except Err (Frame × Nat) :=
  match Varint.parse b with
  | .error e => .error (Err.ofV e)
  | .ok (v, l) => .ok (.dataBlocked v, l)

/-- `parseStreamDataBlockedFrame` -/
def parseStreamDataBlocked (b : Bytes) : Except Err (Frame × Nat) :=
  let startLen := b.length
  match takeV b with
  | .error e => .error e
  | .ok (sid, b) =>
  match Varint.parse b with
  | .error e => .error (Err.ofV e)
  | .ok (offset, l) => .ok (.streamDataBlocked sid offset, startLen - b.length + l)

/-- `parseStreamsBlockedFrame` -/
def parseStreamsBlocked (b : Bytes) (typ : Nat) : Except Err (Frame × Nat) :=
  let t := if typ = ftUniStreamBlocked then StreamType.uni else StreamType.bidi
  match Varint.parse b with
  | .error e => .error (Err.ofV e)
  | .ok (v, l) =>
    if v > maxStreamCount then .error .streamCount
    else .ok (.streamsBlocked t v, l)

/-- `parseNewConnectionIDFrame` -/
def parseNewConnectionID (b : Bytes) : Except Err (Frame × Nat) :=
  let startLen := b.length
  match takeV b with
  | .error e => .error e
  | .ok (seq, b) =>
  match takeV b with
  | .error e => .error e
  | .ok (ret, b) =>
  if ret > seq then .error .retireGtSeq
  else
    match b with
    | [] => .error .eof
    | l0 :: b =>
      let connIDLen := l0.toNat
      if connIDLen = 0 then .error .zeroCID
      else if connIDLen > maxConnIDLen then .error .cidLen
      else if b.length < connIDLen then .error .eof
      else
        let cid := b.take connIDLen
        let b := b.drop connIDLen
        if b.length < 16 then .error .eof
        else .ok (.newConnectionID seq ret cid (b.take 16), startLen - b.length + 16)

/-- `parseRetireConnectionIDFrame` -/
def parseRetireConnectionID (b : Bytes) : Except Err (Frame × Nat) :=
  match Varint.parse b with
  | .error e => .error (Err.ofV e)
  | .ok (v, l) => .ok (.retireConnectionID v, l)

/-- `parsePathChallengeFrame` -/
def parsePathChallenge (b : Bytes) : Except Err (Frame × Nat) :=
  if b.length < 8 then .error .eof else .ok (.pathChallenge (b.take 8), 8)

/-- `parsePathResponseFrame` -/
def parsePathResponse (b : Bytes) : Except Err (Frame × Nat) :=
  if b.length < 8 then .error .eof else .ok (.pathResponse (b.take 8), 8)

/-- `parseConnectionCloseFrame` -/
def parseConnectionClose (b : Bytes) (typ : Nat) : Except Err (Frame × Nat) :=
  let startLen := b.length
  let isApp := typ = ftApplicationClose
  match takeV b with
  | .error e => .error e
  | .ok (ec, b) =>
  let ftR : Except Err (Nat × Bytes) := if !isApp then takeV b else .ok (0, b)
  match ftR with
  | .error e => .error e
  | .ok (ft, b) =>
  match takeV b with
  | .error e => .error e
  | .ok (reasonLen, b) =>
  if reasonLen > b.length then .error .eof
  else .ok (.connectionClose isApp ec ft (b.take reasonLen), startLen - b.length + reasonLen)

/-- `parseDatagramFrame` -/
def parseDatagram (b : Bytes) (typ : Nat) : Except Err (Frame × Nat) :=
  let startLen := b.length
  let dataLenPresent := typ % 2 = 1
  if dataLenPresent then
    match takeV b with
    | .error e => .error e
    | .ok (length, b) =>
      if length > b.length then .error .eof
      else .ok (.datagram true (b.take length), startLen - b.length + length)
  else .ok (.datagram false b, startLen)

/-- `time.Duration(mad) * time.Microsecond`, saturating when negative -/
def ackFreqDelay (mad : Nat) : Nat :=
  let y := (mad * 1000) % 2 ^ 64
  if y ≥ 2 ^ 63 then maxInt64 else y

/-- `parseAckFrequencyFrame` -/
def parseAckFrequency (b : Bytes) : Except Err (Frame × Nat) :=
  let startLen := b.length
  match takeV b with
  | .error e => .error e
  | .ok (seq, b) =>
  match takeV b with
  | .error e => .error e
  | .ok (aeth, b) =>
  match takeV b with
  | .error e => .error e
  | .ok (mad, b) =>
  match takeV b with
  | .error e => .error e
  | .ok (rth, b) => .ok (.ackFrequency seq aeth (ackFreqDelay mad) rth, startLen - b.length)

/-! ### frame types: predicates and dispatch -/

def isStreamFrameType (t : Nat) : Bool :=
  Wire.streamTypeMin.toNat ≤ t ∧ t ≤ Wire.streamTypeMax.toNat
def isValidRFC9000 (t : Nat) : Bool := t ≤ Wire.validRFC9000Max.toNat
def isAckFrameType (t : Nat) : Bool := t = ftAck ∨ t = ftAckECN
def isDatagramFrameType (t : Nat) : Bool := t = ftDatagramNoLength ∨ t = ftDatagramWithLength

/-- `FrameType.isAllowedAtEncLevel`, evaluated on the regenerated table; `none` = panic -/
def isAllowedAtEncLevel (t lvl : Nat) : Option Bool :=
  match Wire.encLevelTable.find? (fun row => row.1.contains (Int.ofNat lvl)) with
  | some (_, listed, vListed, vOther) =>
    some (if listed.contains (Int.ofNat t) then vListed else vOther)
  | none => if Wire.encLevelDefaultPanics then none else some false

structure Ctx where
  /-- protocol.EncryptionLevel (1 = Initial … 4 = 1-RTT) -/
  lvl : Nat
  supportsDatagrams : Bool
  supportsResetStreamAt : Bool
  supportsAckFrequency : Bool
  /-- FrameParser.ackDelayExponent (peer's transport parameter) -/
  ackDelayExponent : Nat
deriving Repr, DecidableEq, BEq

inductive TypeOut
  | ok (t : Nat) (parsed : Nat)
  | done                          -- io.EOF: only PADDING left
  | err (e : Err) (frameType : Nat)  -- TransportError{FrameEncodingError, FrameType}
  | panic
deriving Repr, DecidableEq, BEq

/-- `FrameParser.ParseType`; the loop skips PADDING. `fuel` bounds the number of
    iterations (each consumes at least one byte; callers pass `b.length + 1`). -/
def parseTypeAux (c : Ctx) : (fuel : Nat) → Bytes → (parsed : Nat) → TypeOut
  | 0, _, _ => .done
  | fuel + 1, b, parsed =>
    if b.isEmpty then .done
    else
      match Varint.parse b with
      | .error e => .err (match e with | .eof => .eof | .ueof => .ueof) 0
      | .ok (typ, l) =>
        let parsed := parsed + l
        let b := b.drop l
        if typ = 0 then parseTypeAux c fuel b parsed
        else
          let valid := isValidRFC9000 typ
            || (c.supportsDatagrams && isDatagramFrameType typ)
            || (c.supportsResetStreamAt && typ = ftResetStreamAt)
            || (c.supportsAckFrequency && (typ = ftAckFrequency || typ = ftImmediateAck))
          if !valid then .err .unknownType typ
          else
            match isAllowedAtEncLevel typ c.lvl with
            | none => .panic
            | some false => .err .encLevel typ
            | some true => .ok typ parsed

def parseType (c : Ctx) (b : Bytes) : TypeOut := parseTypeAux c (b.length + 1) b 0

/-- `ParseLessCommonFrame`: the switch on the frame type -/
def parseLessCommon (typ : Nat) (b : Bytes) : Except Err (Frame × Nat) :=
  if typ = ftPing then .ok (.ping, 0)
  else if typ = ftResetStream then parseResetStream b false
  else if typ = ftStopSending then parseStopSending b
  else if typ = ftCrypto then parseCrypto b
  else if typ = ftNewToken then parseNewToken b
  else if typ = ftMaxData then parseMaxData b
  else if typ = ftMaxStreamData then parseMaxStreamData b
  else if typ = ftBidiMaxStreams ∨ typ = ftUniMaxStreams then parseMaxStreams b typ
  else if typ = ftDataBlocked then parseDataBlocked b
  else if typ = ftStreamDataBlocked then parseStreamDataBlocked b
  else if typ = ftBidiStreamBlocked ∨ typ = ftUniStreamBlocked then parseStreamsBlocked b typ
  else if typ = ftNewConnectionID then parseNewConnectionID b
  else if typ = ftRetireConnectionID then parseRetireConnectionID b
  else if typ = ftPathChallenge then parsePathChallenge b
  else if typ = ftPathResponse then parsePathResponse b
  else if typ = ftConnectionClose ∨ typ = ftApplicationClose then parseConnectionClose b typ
  else if typ = ftHandshakeDone then .ok (.handshakeDone, 0)
  else if typ = ftResetStreamAt then parseResetStream b true
  else if typ = ftAckFrequency then parseAckFrequency b
  else if typ = ftImmediateAck then .ok (.immediateAck, 0)
  else .error .unknownType

/-- the body of one frame, dispatched as `connection.handleFrames` does -/
def parseBody (c : Ctx) (typ : Nat) (b : Bytes) : Except Err (Frame × Nat) :=
  if isStreamFrameType typ then parseStream b typ
  else if isAckFrameType typ then
    -- FrameParser.ParseAckFrame: the peer's exponent only applies to 1-RTT packets
    let exp := if c.lvl ≠ encryption1RTT then defaultAckDelayExponent else c.ackDelayExponent
    parseAck b (typ = ftAckECN) exp
  else if isDatagramFrameType typ then parseDatagram b typ
  else parseLessCommon typ b

inductive DecOut
  | frame (f : Frame) (n : Nat)
  | done
  | err (e : Err) (frameType : Nat)
  | panic
deriving Repr, DecidableEq, BEq

/-- parse one frame (type, then body) from the start of a packet payload;
    `n` = bytes consumed including PADDING and the type. -/
def decode (c : Ctx) (b : Bytes) : DecOut :=
  match parseType c b with
  | .done => .done
  | .err e ft => .err e ft
  | .panic => .panic
  | .ok typ l =>
    match parseBody c typ (b.drop l) with
    | .error e => .err e typ
    | .ok (f, n) => .frame f (l + n)

/-! ### writing -/

/-- Go's `uint64(x)` for an int64 `x` -/
def u64 (x : Int) : Nat := (x % 2 ^ 64).toNat

/-- `encodeAckDelay`: `uint64(delay.Nanoseconds() / (1000 * (1 << AckDelayExponent)))` -/
def encodeAckDelay (delayNs : Nat) : Nat := delayNs / (1000 * 2 ^ sendAckDelayExponent)

/-- `(gap, len)` of `encodeAckRange(i)` for i ≥ 1, for the ranges after the first -/
def ackRangeFields : (prevSmallest : Nat) → List AckRange → List Nat
  | _, [] => []
  | ps, r :: rest =>
    u64 ((ps : Int) - (r.2 : Int) - 2) :: u64 ((r.2 : Int) - (r.1 : Int)) :: ackRangeFields r.1 rest

def hasECN (e0 e1 ce : Nat) : Bool := e0 > 0 || e1 > 0 || ce > 0

/-- `x > 0` for an int64 field that holds the two's complement of `x` (`x ≥ 2^63` is negative) -/
def posI64 (x : Nat) : Bool := 0 < x && x < 2 ^ 63

/-- the varint-encoded fields of an ACK frame, in writing order (after the type byte) -/
def ackFields (ranges : List AckRange) (delayNs e0 e1 ce : Nat) : List Nat :=
  match ranges.take maxNumAckRanges with
  | [] => []
  | r0 :: rest =>
    [r0.2, encodeAckDelay delayNs, (min ranges.length maxNumAckRanges) - 1, u64 ((r0.2 : Int) - (r0.1 : Int))]
      ++ ackRangeFields r0.1 rest
      ++ (if hasECN e0 e1 ce then [e0, e1, ce] else [])

def streamTypeByte (fin dataLenPresent hasOffset : Bool) : Nat :=
  0x8 + (if fin then 1 else 0) + (if dataLenPresent then 2 else 0) + (if hasOffset then 4 else 0)

/-- the values handed to `quicvarint.Append`/`Len` while writing the frame -/
def Frame.varints : Frame → List Nat
  | .ping => []
  | .ack ranges d e0 e1 ce => ackFields ranges d e0 e1 ce
  | .resetStream sid ec fs rs =>
    [if rs = 0 then ftResetStream else ftResetStreamAt, sid, ec, fs] ++ (if posI64 rs then [rs] else [])
  | .stopSending sid ec => [sid, ec]
  | .crypto off data => [off, data.length]
  | .newToken tok => [tok.length]
  | .stream sid off data _ dlp => [sid] ++ (if off ≠ 0 then [off] else []) ++ (if dlp then [data.length] else [])
  | .maxData v => [v]
  | .maxStreamData sid v => [sid, v]
  | .maxStreams _ v => [v]
  | .dataBlocked v => [v]
  | .streamDataBlocked sid v => [sid, v]
  | .streamsBlocked _ v => [v]
  | .newConnectionID seq rpt _ _ => [seq, rpt]
  | .retireConnectionID seq => [seq]
  | .pathChallenge _ => []
  | .pathResponse _ => []
  | .connectionClose isApp ec ft reason => [ec] ++ (if !isApp then [ft] else []) ++ [reason.length]
  | .handshakeDone => []
  | .datagram dlp data => if dlp then [data.length] else []
  | .ackFrequency seq th mad rt => [ftAckFrequency, seq, th, mad / 1000, rt]
  | .immediateAck => [ftImmediateAck]

/-- `Append` (and `Length`) panic: a varint out of range, or an ACK frame without ranges -/
def Frame.panics (f : Frame) : Bool :=
  (match f with
   | .ack [] _ _ _ _ => true
   | _ => false) || f.varints.any (fun v => !Varint.fits v)

inductive AppendErr
  | emptyStream   -- "StreamFrame: attempting to write empty frame without FIN"
  | cidLen        -- "invalid connection ID length"
deriving Repr, DecidableEq, BEq

/-- the `error` result of `Append` -/
def Frame.appendErr : Frame → Option AppendErr
  | .stream _ _ data fin _ => if data.isEmpty ∧ !fin then some .emptyStream else none
  | .newConnectionID _ _ cid _ => if cid.length > maxConnIDLen then some .cidLen else none
  | _ => none

def encAll (vs : List Nat) : Bytes := vs.flatMap Varint.enc
def lenAll (vs : List Nat) : Nat := (vs.map Varint.len).sum

/-- what `Append(nil, v)` returns when it neither panics nor fails -/
def Frame.bytes : Frame → Bytes
  | .ping => [Varint.u8 ftPing]
  | .ack ranges d e0 e1 ce =>
    [Varint.u8 (if hasECN e0 e1 ce then ftAckECN else ftAck)] ++ encAll (ackFields ranges d e0 e1 ce)
  | .resetStream sid ec fs rs =>
    Varint.enc (if rs = 0 then ftResetStream else ftResetStreamAt) ++ Varint.enc sid ++ Varint.enc ec
      ++ Varint.enc fs ++ (if posI64 rs then Varint.enc rs else [])
  | .stopSending sid ec => [Varint.u8 ftStopSending] ++ Varint.enc sid ++ Varint.enc ec
  | .crypto off data => [Varint.u8 ftCrypto] ++ Varint.enc off ++ Varint.enc data.length ++ data
  | .newToken tok => [Varint.u8 ftNewToken] ++ Varint.enc tok.length ++ tok
  | .stream sid off data fin dlp =>
    [Varint.u8 (streamTypeByte fin dlp (off ≠ 0))] ++ Varint.enc sid
      ++ (if off ≠ 0 then Varint.enc off else [])
      ++ (if dlp then Varint.enc data.length else []) ++ data
  | .maxData v => [Varint.u8 ftMaxData] ++ Varint.enc v
  | .maxStreamData sid v => [Varint.u8 ftMaxStreamData] ++ Varint.enc sid ++ Varint.enc v
  | .maxStreams t v =>
    [Varint.u8 (match t with | .bidi => ftBidiMaxStreams | .uni => ftUniMaxStreams)] ++ Varint.enc v
  | .dataBlocked v => [Varint.u8 ftDataBlocked] ++ Varint.enc v
  | .streamDataBlocked sid v => [0x15] ++ Varint.enc sid ++ Varint.enc v
  | .streamsBlocked t v =>
    [Varint.u8 (match t with | .bidi => ftBidiStreamBlocked | .uni => ftUniStreamBlocked)] ++ Varint.enc v
  | .newConnectionID seq rpt cid tok =>
    [Varint.u8 ftNewConnectionID] ++ Varint.enc seq ++ Varint.enc rpt ++ [Varint.u8 cid.length] ++ cid ++ tok
  | .retireConnectionID seq => [Varint.u8 ftRetireConnectionID] ++ Varint.enc seq
  | .pathChallenge d => [Varint.u8 ftPathChallenge] ++ d
  | .pathResponse d => [Varint.u8 ftPathResponse] ++ d
  | .connectionClose isApp ec ft reason =>
    [Varint.u8 (if isApp then ftApplicationClose else ftConnectionClose)] ++ Varint.enc ec
      ++ (if !isApp then Varint.enc ft else []) ++ Varint.enc reason.length ++ reason
  | .handshakeDone => [Varint.u8 ftHandshakeDone]
  | .datagram dlp data =>
    [Varint.u8 (0x30 + (if dlp then 1 else 0))] ++ (if dlp then Varint.enc data.length else []) ++ data
  | .ackFrequency seq th mad rt =>
    Varint.enc ftAckFrequency ++ Varint.enc seq ++ Varint.enc th ++ Varint.enc (mad / 1000) ++ Varint.enc rt
  | .immediateAck => Varint.enc ftImmediateAck

/-- `Length(v)` when it does not panic -/
def Frame.length : Frame → Nat
  | .ping => 1
  | .ack ranges d e0 e1 ce =>
    match ranges with
    | [] => 0
    | r0 :: _ =>
      -- "1 + Len(largest) + Len(delay) + 1" : the range count is assumed to take one byte
      1 + Varint.len r0.2 + Varint.len (encodeAckDelay d) + 1 + Varint.len (u64 ((r0.2 : Int) - (r0.1 : Int)))
        + lenAll (ackRangeFields r0.1 ((ranges.take maxNumAckRanges).drop 1))
        + (if hasECN e0 e1 ce then Varint.len e0 + Varint.len e1 + Varint.len ce else 0)
  | .resetStream sid ec fs rs =>
    1 + (if posI64 rs then Varint.len rs else 0) + Varint.len sid + Varint.len ec + Varint.len fs
  | .stopSending sid ec => 1 + (Varint.len sid + Varint.len ec)
  | .crypto off data => 1 + Varint.len off + Varint.len data.length + data.length
  | .newToken tok => 1 + (Varint.len tok.length + tok.length)
  | .stream sid off data _ dlp =>
    1 + Varint.len sid + (if off ≠ 0 then Varint.len off else 0)
      + (if dlp then Varint.len data.length else 0) + data.length
  | .maxData v => 1 + Varint.len v
  | .maxStreamData sid v => 1 + (Varint.len sid + Varint.len v)
  | .maxStreams _ v => 1 + Varint.len v
  | .dataBlocked v => 1 + Varint.len v
  | .streamDataBlocked sid v => 1 + (Varint.len sid + Varint.len v)
  | .streamsBlocked _ v => 1 + Varint.len v
  | .newConnectionID seq rpt cid _ => 1 + (Varint.len seq + Varint.len rpt + 1 + cid.length) + 16
  | .retireConnectionID seq => 1 + Varint.len seq
  | .pathChallenge _ => 1 + 8
  | .pathResponse _ => 1 + 8
  | .connectionClose isApp ec ft reason =>
    1 + (Varint.len ec + Varint.len reason.length) + reason.length + (if !isApp then Varint.len ft else 0)
  | .handshakeDone => 1
  | .datagram dlp data => 1 + data.length + (if dlp then Varint.len data.length else 0)
  | .ackFrequency seq th mad rt =>
    2 + Varint.len seq + Varint.len th + Varint.len (mad / 1000) + Varint.len rt
  | .immediateAck => Varint.len ftImmediateAck

inductive EncOut
  | ok (b : Bytes) (length : Nat)
  | err (e : AppendErr)
  | panic
deriving Repr, DecidableEq, BEq

/-- `Length()` then `Append(nil)` as the harness calls them -/
def encode (f : Frame) : EncOut :=
  if f.panics then .panic
  else match f.appendErr with
    | some e => .err e
    | none => .ok f.bytes f.length

end Uquic.Model.Wire
