/-
Model of /repo/quicvarint/varint.go (property C08).

Bytes are `List UInt8`; values are `Nat` (Go `uint64`).  `Parse` mirrors the Go
switch on `first >> 6`; `Append`/`Len` mirror the chain of comparisons against
`maxVarInt1/2/4/8`, whose values are regenerated from the source
(`Uquic.Gen.Wire`).  A Go panic is an explicit outcome (`none`).
-/
import Uquic.Generated.Wire

namespace Uquic.Model.Wire

abbrev Bytes := List UInt8

def maxVarInt1 : Nat := Uquic.Gen.Wire.maxVarInt1.toNat
def maxVarInt2 : Nat := Uquic.Gen.Wire.maxVarInt2.toNat
def maxVarInt4 : Nat := Uquic.Gen.Wire.maxVarInt4.toNat
def maxVarInt8 : Nat := Uquic.Gen.Wire.maxVarInt8.toNat

/-- `io.EOF` / `io.ErrUnexpectedEOF` -/
inductive VErr
  | eof
  | ueof
deriving Repr, DecidableEq, BEq

namespace Varint

/-- `uint8(x)`: truncation to the low byte -/
def u8 (x : Nat) : UInt8 := UInt8.ofNat (x % 256)

/-- `quicvarint.Parse`: value and number of bytes consumed. -/
def parse : Bytes → Except VErr (Nat × Nat)
  | [] => .error .eof
  | first :: rest =>
    match first.toNat / 64 with           -- first >> 6
    | 0 => .ok (first.toNat % 64, 1)
    | 1 =>
      match rest with
      | b1 :: _ => .ok (b1.toNat + (first.toNat % 64) * 2 ^ 8, 2)
      | _ => .error .ueof
    | 2 =>
      match rest with
      | b1 :: b2 :: b3 :: _ =>
        .ok (b3.toNat + b2.toNat * 2 ^ 8 + b1.toNat * 2 ^ 16 + (first.toNat % 64) * 2 ^ 24, 4)
      | _ => .error .ueof
    | _ =>
      match rest with
      | b1 :: b2 :: b3 :: b4 :: b5 :: b6 :: b7 :: _ =>
        .ok (b7.toNat + b6.toNat * 2 ^ 8 + b5.toNat * 2 ^ 16 + b4.toNat * 2 ^ 24 + b3.toNat * 2 ^ 32
              + b2.toNat * 2 ^ 40 + b1.toNat * 2 ^ 48 + (first.toNat % 64) * 2 ^ 56, 8)
      | _ => .error .ueof

/-- `v, l, err := quicvarint.Parse(b); b = b[l:]` — the idiom used by every frame parser. -/
def take (b : Bytes) : Except VErr (Nat × Bytes) :=
  match parse b with
  | .ok (v, n) => .ok (v, b.drop n)
  | .error e => .error e

/-- does `quicvarint.Append` / `Len` accept `i` (otherwise they panic) -/
def fits (i : Nat) : Bool := i ≤ maxVarInt8

/-- the bytes `quicvarint.Append(nil, i)` produces (`[]` where Go panics; see `fits`). -/
def enc (i : Nat) : Bytes :=
  if i ≤ maxVarInt1 then [u8 i]
  else if i ≤ maxVarInt2 then [u8 ((i / 2 ^ 8) % 256 ||| 0x40), u8 i]
  else if i ≤ maxVarInt4 then
    [u8 ((i / 2 ^ 24) % 256 ||| 0x80), u8 (i / 2 ^ 16), u8 (i / 2 ^ 8), u8 i]
  else if i ≤ maxVarInt8 then
    [u8 ((i / 2 ^ 56) % 256 ||| 0xc0), u8 (i / 2 ^ 48), u8 (i / 2 ^ 40), u8 (i / 2 ^ 32),
     u8 (i / 2 ^ 24), u8 (i / 2 ^ 16), u8 (i / 2 ^ 8), u8 i]
  else []

/-- `quicvarint.Len` (0 where Go panics; see `fits`). -/
def len (i : Nat) : Nat :=
  if i ≤ maxVarInt1 then 1
  else if i ≤ maxVarInt2 then 2
  else if i ≤ maxVarInt4 then 4
  else if i ≤ maxVarInt8 then 8
  else 0

/-- `quicvarint.Append` with the panic as an outcome. -/
def append (b : Bytes) (i : Nat) : Option Bytes :=
  if fits i then some (b ++ enc i) else none

/-- `quicvarint.AppendWithLen`; `none` = panic. -/
def appendWithLen (b : Bytes) (i : Nat) (length : Nat) : Option Bytes :=
  if length ≠ 1 ∧ length ≠ 2 ∧ length ≠ 4 ∧ length ≠ 8 then none
  else if !fits i then none           -- Len(i) panics
  else
    let l := len i
    if l = length then append b i
    else if l > length then none
    else
      let b := match length with
        | 2 => b ++ [0x40]
        | 4 => b ++ [0x80]
        | 8 => b ++ [0xc0]
        | _ => b
      let b := b ++ List.replicate (length - l - 1) 0
      some (b ++ (List.range l).map (fun j => u8 (i / 2 ^ (8 * (l - 1 - j)))))

/-- `quicvarint.Read` on a `bytes.Reader`: every short read is `io.EOF`;
    returns the value and the number of bytes taken from the reader. -/
def read (b : Bytes) : Option Nat × Nat :=
  match parse b with
  | .ok (v, n) => (some v, n)
  | .error _ =>
    match b with
    | [] => (none, 0)
    | _ => (none, b.length)       -- all available bytes were read before the EOF

end Varint

end Uquic.Model.Wire
