/-
Machine arithmetic used by the congestion model (property C20): 64-bit wrap-around
helpers and the exact integer rendering of `ByteCount(float64(w) * renoBeta)`.

Core-only imports (links into the oracle).
-/
import Uquic.Generated.Congestion
import Uquic.Generated.Protocol

namespace Uquic.Model.Cong

/-! ### 64-bit conversions (Go `uint64(x)`, `int64(x)`) -/

/-- `uint64` arithmetic result: reduce modulo 2^64 -/
def wrapU64 (n : Nat) : Nat := n % 2 ^ 64

/-- Go `int64(u)` for a `uint64` value `u < 2^64` (two's complement reinterpretation) -/
def i64OfU64 (n : Nat) : Int := if n < 2 ^ 63 then (n : Int) else (n : Int) - 2 ^ 64

/-- Go `uint64(i)` for an `int64` (also total on all of `Int`) -/
def u64OfI64 (i : Int) : Nat := (i % 2 ^ 64).toNat

/-- `int64` arithmetic result: wrap an ideal integer into the int64 range -/
def wrapI64 (i : Int) : Int := i64OfU64 (u64OfI64 i)

/-! ### binary64 emulation on integers

`rne53 p` rounds the natural number `p` to 53 significant bits, ties to even, and returns the
rounded value as a natural number (a multiple of `2^s`, `s = bitlen p - 53`).  This is exactly
what `float64(p)` does for `p < 2^1024`, and — because binary64 rounding is invariant under
scaling by powers of two in the normal range — what the correctly rounded product of two
binary64 values does on the integer product of their significands. -/
def rne53 (p : Nat) : Nat :=
  if p < 2 ^ 53 then p
  else
    let s := p.log2 - 52          -- bitlen p - 53 = (log2 p + 1) - 53
    let q := p / 2 ^ s
    let r := p % 2 ^ s
    let h := 2 ^ (s - 1)
    let q' := if r > h ∨ (r = h ∧ q % 2 = 1) then q + 1 else q
    q' * 2 ^ s

def renoBetaMant : Nat := Uquic.Gen.Congestion.renoBetaMant
/-- `renoBeta = renoBetaMant / 2^renoBetaShift` (the generated exponent is `-renoBetaShift`) -/
def renoBetaShift : Nat := (-Uquic.Gen.Congestion.renoBetaExp).toNat

/-- `protocol.ByteCount(float64(w) * renoBeta)` for `0 ≤ w < 2^63`:
`float64(w)` = `rne53 w` (exact for `w < 2^53`), the product with the binary64 constant
`renoBetaMant·2^-renoBetaShift` is `rne53 (rne53 w * renoBetaMant) · 2^-renoBetaShift`
(IEEE-754 round-to-nearest-even, no FMA involved: a single multiplication), and the
conversion to `int64` truncates toward zero.

(Written as a match on `w` — `float64(0)*renoBeta = 0` — only so that the Lean kernel never unfolds
`Nat.log2` on a symbolic argument when it compares sender states; the value is the same.) -/
def renoCut : Nat → Nat
  | 0 => 0
  | w + 1 => rne53 (rne53 (w + 1) * renoBetaMant) / 2 ^ renoBetaShift

end Uquic.Model.Cong
