/-
Model of internal/congestion: cubic_sender.go (with `reno = true`, which every production call
site passes — generated fact `Uquic.Gen.Congestion.renoEverywhere`), hybrid_slow_start.go,
pacer.go, bandwidth.go, and the decision function of sent_packet_handler.go:SendMode
(property C20).

Conventions
* byte counts (`protocol.ByteCount`, an int64) are `Nat`: every caller passes non-negative sizes,
  and no int64 byte-count operation of the modelled code can exceed 2^63 for datagram sizes below
  2^40 (the window is at most 10001·MDS).  The one place where the Go code guards against int64
  wrap-around (`Budget`) is modelled with the wrap made explicit.
* packet numbers and times / durations are `Int` (Go int64); `InvalidPacketNumber = -1`;
  time `0` is "unset" exactly as `monotime.Time.IsZero`.
* `uint64` computations (`Bandwidth`, the pacer) are on `Nat` with explicit `wrapU64`.
* the RTT estimator (`utils.RTTStats`, float32 arithmetic) is environment: its three outputs
  are inputs of the model (`Rtt`), set by the `rtt` operation to arbitrary values.
* a Go panic is an outcome (`Out.panic`), never totalised away.
* `cubic.go` is not modelled: with `reno = true` the sender only calls `Cubic.OnApplicationLimited`
  and never reads anything back.  `OnRetransmissionTimeout` and `OnConnectionMigration` have no
  production call site (generated facts `rtoCallSites = 0`, `migrationCallSites = 0`) and are left out.

Every function mirrors the Go function of the same name branch for branch.
-/
import Uquic.Model.Cong.Arith

namespace Uquic.Model.Cong

open Uquic.Gen

/-! ### constants (regenerated from /repo) -/
def initialCwndPackets : Nat := Congestion.initialCongestionWindow.toNat
def minCwndPackets : Nat := Congestion.minCongestionWindowPackets.toNat
def maxCwndPackets : Nat := Protocol.MaxCongestionWindowPackets.toNat
def maxBurstPackets : Nat := Congestion.maxBurstPackets.toNat
def maxBurstSizePackets : Nat := Congestion.maxBurstSizePackets.toNat
def pacerInitialMDS : Nat := Congestion.initialMaxDatagramSize.toNat
def maxByteCount : Nat := Protocol.MaxByteCount.toNat
def invalidPN : Int := Protocol.InvalidPacketNumber
def timerGranularity : Int := Protocol.TimerGranularity
def minPacingDelay : Int := Protocol.MinPacingDelay
def bytesPerSecond : Nat := Congestion.BytesPerSecond.toNat
def nsPerSecond : Nat := 1000000000
def hyLowWindow : Nat := Congestion.hybridStartLowWindow.toNat
def hyMinSamples : Nat := Congestion.hybridStartMinSamples.toNat
def hyDelayFactorExp : Nat := Congestion.hybridStartDelayFactorExp.toNat
def hyDelayMinThresholdUs : Int := Congestion.hybridStartDelayMinThresholdUs
def hyDelayMaxThresholdUs : Int := Congestion.hybridStartDelayMaxThresholdUs

/-! ### environment: the RTT estimator's outputs (nanoseconds, int64) -/
structure Rtt where
  latest : Int
  min : Int
  srtt : Int
deriving Repr, BEq, DecidableEq

def Rtt.default : Rtt :=
  { latest := Congestion.DefaultInitialRTT, min := Congestion.DefaultInitialRTT, srtt := Congestion.DefaultInitialRTT }

/-! ### HybridSlowStart -/
structure HyStart where
  endPN : Int := 0
  lastSentPN : Int := 0
  started : Bool := false
  currentMinRTT : Int := 0
  rttSampleCount : Nat := 0       -- uint32
  found : Bool := false
deriving Repr, BEq, DecidableEq

/-- `StartReceiveRound(lastSent)` -/
def HyStart.startReceiveRound (h : HyStart) (lastSent : Int) : HyStart :=
  { h with endPN := lastSent, currentMinRTT := 0, rttSampleCount := 0, started := true }

/-- `ShouldExitSlowStart(latestRTT, minRTT, congestionWindow /*packets*/)` -/
def HyStart.shouldExitSlowStart (h : HyStart) (latestRTT minRTT : Int) (cwndPackets : Nat) : HyStart × Bool :=
  let h := if !h.started then h.startReceiveRound h.lastSentPN else h
  if h.found then (h, true)
  else
    let cnt := (h.rttSampleCount + 1) % 2 ^ 32
    let h := { h with rttSampleCount := cnt }
    let h := if cnt ≤ hyMinSamples then
        (if h.currentMinRTT = 0 ∨ h.currentMinRTT > latestRTT then { h with currentMinRTT := latestRTT } else h)
      else h
    let h := if cnt = hyMinSamples then
        -- int64(minRTT / time.Microsecond >> 3): truncating division, then arithmetic shift (floor)
        let thrUs : Int := (Int.tdiv minRTT 1000) / (2 ^ hyDelayFactorExp : Nat)
        let thrUs := Min.min thrUs hyDelayMaxThresholdUs
        let thr : Int := (Max.max thrUs hyDelayMinThresholdUs) * 1000
        if h.currentMinRTT > wrapI64 (minRTT + thr) then { h with found := true } else h
      else h
    (h, decide (cwndPackets ≥ hyLowWindow) && h.found)

/-- `OnPacketAcked(ackedPacketNumber)` -/
def HyStart.onPacketAcked (h : HyStart) (pn : Int) : HyStart :=
  if h.endPN < pn then { h with started := false } else h

/-! ### pacer -/
structure Pacer where
  budgetAtLastSent : Nat
  mds : Nat
  lastSent : Int
deriving Repr, BEq, DecidableEq

/-- `BandwidthFromDelta(cwnd, srtt)` in bits/s as `cubicSender.BandwidthEstimate` computes it
(uint64 arithmetic; `srtt == 0` replaced by the timer granularity; a negative duration converts
to a huge uint64). -/
def bandwidthEstimate (cwnd : Nat) (srtt : Int) : Nat :=
  let srtt := if srtt = 0 then timerGranularity else srtt
  wrapU64 (wrapU64 (wrapU64 cwnd * nsPerSecond) / u64OfI64 srtt * bytesPerSecond)

/-- the closure `adjustedBandwidth` of `newPacer`: bytes/s, times 5/4 (uint64) -/
def adjustedBandwidth (cwnd : Nat) (srtt : Int) : Nat :=
  let bw := bandwidthEstimate cwnd srtt / bytesPerSecond
  wrapU64 (bw * 5) / 4

/-- `timeScaledBandwidth(ns)`; `bw` is the value of `adjustedBandwidth()`.
When `ns ≤ MaxUint64/bw` the product `bw*ns` fits in 64 bits, so no wrap is written. -/
def timeScaledBandwidth (bw pmds ns : Nat) : Nat :=
  if bw = 0 then 0
  else if ns > (2 ^ 64 - 1) / bw then maxBurstSizePackets * pmds
  else bw * ns / nsPerSecond

/-- `maxBurstSize()` -/
def maxBurstSize (bw pmds : Nat) : Nat :=
  Max.max (timeScaledBandwidth bw pmds (minPacingDelay + timerGranularity).toNat) (maxBurstSizePackets * pmds)

/-- `Budget(now)`.  `budgetAtLastSent + added` is an int64 addition in Go: both operands are
non-negative and below 2^63, so it wraps (to a negative value, hence `< budgetAtLastSent`, with
`added > 0`) exactly when the ideal sum is ≥ 2^63; the Go guard then substitutes `MaxByteCount`. -/
def Pacer.budget (p : Pacer) (bw : Nat) (now : Int) : Nat :=
  if p.lastSent = 0 then maxBurstSize bw p.mds
  else
    let delta := wrapI64 (now - p.lastSent)
    let added := if delta > 0 then timeScaledBandwidth bw p.mds delta.toNat else 0
    let sum := p.budgetAtLastSent + added
    let budget := if sum ≥ 2 ^ 63 then maxByteCount else sum
    Min.min (maxBurstSize bw p.mds) budget

/-- `SentPacket(sendTime, size)` -/
def Pacer.sentPacket (p : Pacer) (bw : Nat) (t : Int) (size : Nat) : Pacer :=
  let b := p.budget bw t
  { p with budgetAtLastSent := if size ≥ b then 0 else b - size, lastSent := t }

/-- `TimeUntilSend()`; `none` = Go panics (integer divide by zero when the bandwidth is 0) -/
def Pacer.timeUntilSend (p : Pacer) (bw : Nat) : Option Int :=
  if p.budgetAtLastSent ≥ p.mds then some 0
  else
    let diff := wrapU64 (nsPerSecond * (p.mds - p.budgetAtLastSent))
    if bw = 0 then none
    else
      let d := diff / bw
      let d := if diff % bw > 0 then wrapU64 (d + 1) else d
      some (wrapI64 (p.lastSent + Max.max minPacingDelay (i64OfU64 d)))

/-! ### cubicSender (Reno) -/
structure Sender where
  mds : Nat
  cwnd : Nat
  ssthresh : Nat
  numAcked : Nat := 0           -- uint64
  largestSent : Int := invalidPN
  largestAcked : Int := invalidPN
  lastCutback : Int := invalidPN    -- largestSentAtLastCutback
  hs : HyStart := {}
  pacer : Pacer
  rtt : Rtt
deriving Repr, BEq, DecidableEq

def Sender.bw (s : Sender) : Nat := adjustedBandwidth s.cwnd s.rtt.srtt

/-- `NewCubicSender(clock, rttStats, connStats, initialMaxDatagramSize, true, qlogger)` -/
def Sender.new (mds : Nat) (rtt : Rtt) : Sender :=
  let cwnd := initialCwndPackets * mds
  { mds := mds, cwnd := cwnd, ssthresh := maxByteCount,
    pacer := { budgetAtLastSent := maxBurstSize (adjustedBandwidth cwnd rtt.srtt) pacerInitialMDS,
               mds := pacerInitialMDS, lastSent := 0 },
    rtt := rtt }

def Sender.maxCwnd (s : Sender) : Nat := s.mds * maxCwndPackets
def Sender.minCwnd (s : Sender) : Nat := s.mds * minCwndPackets

def Sender.canSend (s : Sender) (bytesInFlight : Nat) : Bool := bytesInFlight < s.cwnd

def Sender.inRecovery (s : Sender) : Bool :=
  s.largestAcked ≠ invalidPN && s.largestAcked ≤ s.lastCutback

def Sender.inSlowStart (s : Sender) : Bool := s.cwnd < s.ssthresh

def Sender.budget (s : Sender) (now : Int) : Nat := s.pacer.budget s.bw now

def Sender.hasPacingBudget (s : Sender) (now : Int) : Bool := s.budget now ≥ s.mds

def Sender.timeUntilSend (s : Sender) : Option Int := s.pacer.timeUntilSend s.bw

/-- `isCwndLimited(bytesInFlight)` -/
def Sender.isCwndLimited (s : Sender) (bytesInFlight : Nat) : Bool :=
  if bytesInFlight ≥ s.cwnd then true
  else
    let available := s.cwnd - bytesInFlight
    let slowStartLimited := s.inSlowStart && bytesInFlight > s.cwnd / 2
    slowStartLimited || available ≤ maxBurstPackets * s.mds

inductive Out where
  | ok
  | panic
deriving Repr, BEq, DecidableEq

/-- `OnPacketSent(sentTime, _, packetNumber, bytes, isRetransmittable)` -/
def Sender.onPacketSent (s : Sender) (t : Int) (pn : Int) (bytes : Nat) (retrans : Bool) : Sender :=
  let s := { s with pacer := s.pacer.sentPacket s.bw t bytes }
  if !retrans then s
  else { s with largestSent := pn, hs := { s.hs with lastSentPN := pn } }

/-- `MaybeExitSlowStart()`; the division `cwnd / maxDatagramSize` panics for a zero datagram
size before `ShouldExitSlowStart` is entered -/
def Sender.maybeExitSlowStart (s : Sender) : Sender × Out :=
  if !s.inSlowStart then (s, .ok)
  else if s.mds = 0 then (s, .panic)
  else
    let (hs, exit) := s.hs.shouldExitSlowStart s.rtt.latest s.rtt.min (s.cwnd / s.mds)
    let s := { s with hs := hs }
    (if exit then { s with ssthresh := s.cwnd } else s, .ok)

/-- which branch `maybeIncreaseCwnd` took (for coverage tags and for the theorems) -/
inductive Grow where
  | appLimited | atMax | slowStart | caCount | caGrow | panic
deriving Repr, BEq, DecidableEq

/-- `maybeIncreaseCwnd(_, ackedBytes, priorInFlight, eventTime)` -/
def Sender.maybeIncreaseCwnd (s : Sender) (priorInFlight : Nat) : Sender × Grow :=
  if !s.isCwndLimited priorInFlight then (s, .appLimited)
  else if s.cwnd ≥ s.maxCwnd then (s, .atMax)
  else if s.inSlowStart then ({ s with cwnd := s.cwnd + s.mds }, .slowStart)
  else
    let n := wrapU64 (s.numAcked + 1)
    if s.mds = 0 then ({ s with numAcked := n }, .panic)
    else if n ≥ s.cwnd / s.mds then ({ s with cwnd := s.cwnd + s.mds, numAcked := 0 }, .caGrow)
    else ({ s with numAcked := n }, .caCount)

/-- `OnPacketAcked(ackedPacketNumber, ackedBytes, priorInFlight, eventTime)` -/
def Sender.onPacketAcked (s : Sender) (pn : Int) (priorInFlight : Nat) : Sender × Out × Option Grow :=
  let s := { s with largestAcked := Max.max pn s.largestAcked }
  if s.inRecovery then (s, .ok, none)
  else
    let (s, g) := s.maybeIncreaseCwnd priorInFlight
    if g == .panic then (s, .panic, some g)
    else
      let s := if s.inSlowStart then { s with hs := s.hs.onPacketAcked pn } else s
      (s, .ok, some g)

/-- `OnCongestionEvent(packetNumber, lostBytes, priorInFlight)`; the Bool says whether the
cut-back branch ran -/
def Sender.onCongestionEvent (s : Sender) (pn : Int) : Sender × Bool :=
  if pn ≤ s.lastCutback then (s, false)
  else
    let w := renoCut s.cwnd
    let w := if w < s.minCwnd then s.minCwnd else w
    ({ s with cwnd := w, ssthresh := w, lastCutback := s.largestSent, numAcked := 0 }, true)

/-- `SetMaxDatagramSize(s)` -/
def Sender.setMaxDatagramSize (s : Sender) (m : Nat) : Sender × Out :=
  if m < s.mds then (s, .panic)
  else
    let s := { s with mds := m }
    let s := if s.cwnd < s.minCwnd then { s with cwnd := s.minCwnd } else s
    ({ s with pacer := { s.pacer with mds := m } }, .ok)

/-! ### operations and histories -/
inductive Op where
  /-- OnPacketSent(t, _, pn, bytes, retransmittable) -/
  | sent (t : Int) (pn : Int) (bytes : Nat) (retrans : Bool)
  /-- OnPacketAcked(pn, ackedBytes, priorInFlight, t) -/
  | acked (pn : Int) (bytes : Nat) (prior : Nat) (t : Int)
  /-- OnCongestionEvent(pn, lostBytes, priorInFlight) -/
  | lost (pn : Int) (bytes : Nat) (prior : Nat)
  /-- MaybeExitSlowStart() -/
  | exitSS
  /-- SetMaxDatagramSize(m) -/
  | setMDS (m : Nat)
  /-- the RTT estimator produced new outputs (any values) -/
  | rtt (r : Rtt)
  /-- time passes / a read-only query (CanSend, HasPacingBudget, TimeUntilSend, …): no state change -/
  | idle
deriving Repr, BEq, DecidableEq

def Sender.step (s : Sender) : Op → Sender × Out
  | .sent t pn b r => (s.onPacketSent t pn b r, .ok)
  | .acked pn _ prior _ => let (s', o, _) := s.onPacketAcked pn prior; (s', o)
  | .lost pn _ _ => ((s.onCongestionEvent pn).1, .ok)
  | .exitSS => s.maybeExitSlowStart
  | .setMDS m => s.setMaxDatagramSize m
  | .rtt r => ({ s with rtt := r }, .ok)
  | .idle => (s, .ok)

def Sender.run (s : Sender) (ops : List Op) : Sender :=
  ops.foldl (fun s op => (s.step op).1) s

/-! ### sent_packet_handler.go: SendMode (decision function) -/
inductive SendMode where
  | none | ack | ptoInitial | ptoHandshake | ptoAppData | pacingLimited | any
deriving Repr, BEq, DecidableEq

/-- `sentPacketHandler.SendMode(now)`, as a function of the handler facts it reads and of the
sender's two answers -/
def sendMode (s : Sender) (ampLimited : Bool) (tracked maxTracked maxOutstanding : Nat)
    (numProbes : Nat) (ptoMode : SendMode) (bytesInFlight : Nat) (now : Int) : SendMode :=
  if ampLimited then .none
  else if tracked ≥ maxTracked then .none
  else if numProbes > 0 then ptoMode
  else if !s.canSend bytesInFlight then .ack
  else if tracked ≥ maxOutstanding then .ack
  else if !s.hasPacingBudget now then .pacingLimited
  else .any

end Uquic.Model.Cong
