/-
Model of the glue between sent_packet_handler.go and the congestion controller (property C20):
which calls `SentPacket`, `ReceivedAck`, `OnLossDetectionTimeout` (detectLostPackets) and
`SetMaxDatagramSize` make on `h.congestion`, in which order, with which packet numbers and with which
`bytesInFlight` — and how the handler's `bytesInFlight` counter is kept across every operation that
writes packets off: acknowledgement, loss, `QueueProbePacket`, `DropPackets` (Initial / Handshake
space, rejected 0-RTT), `ResetForRetry` and `MigratedPath` (which also installs a fresh controller).
All three packet number spaces are modelled (0 Initial, 1 Handshake, 2 application data; ECN applies
to 1-RTT packets only).

What the handler decides elsewhere is environment here and is taken from the implementation's own
observable outputs: the packet number `PopPacketNumber` returned, which packets loss detection
removed from the history (C06 covers that logic), which path probes are still outstanding, and whether
the ECN tracker reported congestion for this ACK (`ecnTracker.HandleNewlyAcked`).  The glue logic
itself is modelled:

* `SentPacket`: a path probe packet is tracked outside the history (a placeholder stays in it), is not
  counted in bytes in flight and is not reported to the controller; every other packet is reported
  with `OnPacketSent`, after an ack-eliciting packet's size was added to `bytesInFlight`.
* `ReceivedAck`: nothing at all unless the ACK newly acknowledges a tracked packet; then
  `MaybeExitSlowStart` iff the largest acknowledged is newly acknowledged, is not a path probe and some
  newly acknowledged packet is ack-eliciting; then, if the tracker reported congestion,
  `OnCongestionEvent(LARGEST ACKED of this frame, 0, priorInFlight)`; then for every lost outstanding
  packet (ack-eliciting, no Path MTU probe, no path probe) in ascending order
  `OnCongestionEvent(ITS OWN number, its size, priorInFlight)`; then `OnPacketAcked` for every newly
  acknowledged packet counted in bytes in flight, in ascending order.  `removeFromBytesInFlight` runs
  for every lost ack-eliciting packet (Path MTU probes included) and every acknowledged packet.
* `detectLostPackets` from the loss timer: the loss events only.
* `MigratedPath`: every packet of the application-data history is written off — removed from the
  history and from bytes in flight, Path MTU probes included; only path probes were never counted —
  and the controller is replaced by a new one for the new path's datagram size.
-/
import Uquic.Model.Cong.Sender

namespace Uquic.Model.Cong

structure Pkt where
  pn : Int
  size : Nat
  ae : Bool            -- ack-eliciting (has frames)
  sp : Nat := 2        -- packet number space: 0 Initial, 1 Handshake, 2 application data
  zero : Bool := false -- sent with 0-RTT keys
  mtu : Bool := false  -- Path MTU probe packet
  probe : Bool := false -- path probe packet (PATH_CHALLENGE on another path)
deriving Repr, BEq, DecidableEq

/-- (space, packet number) -/
def Pkt.key (p : Pkt) : Nat × Int := (p.sp, p.pn)

/-- `includedInBytesInFlight` as `SentPacket` sets it -/
def Pkt.inFlight (p : Pkt) : Bool := p.ae && !p.probe

/-- `packet.Outstanding()`; also the packets whose loss is reported to the controller -/
def Pkt.outstanding (p : Pkt) : Bool := p.ae && !p.mtu && !p.probe

/-- total size of the packets counted in bytes in flight -/
def inFlightBytes : List Pkt → Nat
  | [] => 0
  | p :: r => (if p.inFlight then p.size else 0) + inFlightBytes r

/-- a call on the `SendAlgorithm` interface -/
inductive Call where
  | sent (t pn : Int) (bytes : Nat) (ae : Bool)
  | exitSS
  | cong (pn : Int) (bytes prior : Nat)
  | acked (pn : Int) (bytes prior : Nat)
  | mds (m : Nat)
deriving Repr, BEq, DecidableEq

def Call.toOp : Call → Op
  | .sent t pn b ae => .sent t pn b ae
  | .exitSS => .exitSS
  | .cong pn b p => .lost pn b p
  | .acked pn b p => .acked pn b p 0
  | .mds m => .setMDS m

structure Glue where
  s : Sender
  /-- tracked packets of all spaces in send order (ascending packet numbers within a space): the
      histories' packets and the outstanding path probe packets -/
  out : List Pkt := []
  /-- largest packet number sent in the application-data space -/
  largestSent : Int := -1
  /-- `h.bytesInFlight`, the handler's counter -/
  bytesInFlight : Nat := 0
  /-- path probes whose placeholder is still in the application-data history (environment) -/
  ph : List Int := []
deriving Repr

/-- the counter agrees with the tracked packets -/
def Glue.Balanced (g : Glue) : Prop := g.bytesInFlight = inFlightBytes g.out

instance (g : Glue) : Decidable g.Balanced := inferInstanceAs (Decidable (g.bytesInFlight = inFlightBytes g.out))

def covered (ranges : List (Int × Int)) (pn : Int) : Bool :=
  ranges.any fun r => decide (r.1 ≤ pn) && decide (pn ≤ r.2)

def largestOf (ranges : List (Int × Int)) : Int :=
  ranges.foldl (fun a r => Max.max a r.2) (-1)

def Glue.apply (g : Glue) (calls : List Call) : Glue :=
  { g with s := g.s.run (calls.map Call.toOp) }

/-- the packets selected by `f` leave the tracked set; `removeFromBytesInFlight` runs for each -/
def Glue.drop (g : Glue) (f : Pkt → Bool) : Glue :=
  { g with out := g.out.filter (fun p => !f p), bytesInFlight := g.bytesInFlight - inFlightBytes (g.out.filter f) }

/-- `removeFromBytesInFlight` would panic ("negative bytes_in_flight") while removing these packets -/
def Glue.dropPanics (g : Glue) (f : Pkt → Bool) : Bool := decide (inFlightBytes (g.out.filter f) > g.bytesInFlight)

/-- `detectAndRemoveAckedPackets`: a tracked packet of space `sp` inside the ACK ranges; a path probe
only while its placeholder is still in the history -/
def Glue.isNewly (g : Glue) (sp : Nat) (ranges : List (Int × Int)) (p : Pkt) : Bool :=
  p.sp == sp && covered ranges p.pn && (!p.probe || g.ph.contains p.pn)

/-- the calls `ReceivedAck` makes for an ACK frame that passed validation; `gone` = the packets loss
detection removed (environment) -/
def Glue.ackCalls (g : Glue) (ranges : List (Int × Int)) (congested : Bool) (gone : List (Nat × Int)) (sp : Nat := 2) : List Call :=
  let newly := g.out.filter (g.isNewly sp ranges)
  if newly.isEmpty then []
  else
    let largest := largestOf ranges
    let prior := g.bytesInFlight
    let rest := g.out.filter fun p => !g.isNewly sp ranges p
    let exit := (newly.getLast?.map fun p => (p.pn, p.probe)) == some (largest, false) && newly.any (fun p => p.ae && !p.probe)
    (if exit then [Call.exitSS] else []) ++
    (if congested then [Call.cong largest 0 prior] else []) ++
    ((rest.filter fun p => p.outstanding && gone.contains p.key).map fun p => Call.cong p.pn p.size prior) ++
    ((newly.filter (·.inFlight)).map fun p => Call.acked p.pn p.size prior)

/-- the calls `detectLostPackets` makes from the loss-detection timer -/
def Glue.timeoutCalls (g : Glue) (gone : List (Nat × Int)) : List Call :=
  let prior := g.bytesInFlight
  (g.out.filter fun p => p.outstanding && gone.contains p.key).map fun p => Call.cong p.pn p.size prior

/-- `SentPacket` -/
def Glue.send (g : Glue) (t pn : Int) (size : Nat) (ae : Bool) (sp : Nat := 2) (zero : Bool := false)
    (mtu : Bool := false) (probe : Bool := false) : Glue × List Call :=
  let pkt : Pkt := { pn := pn, size := size, ae := ae, sp := sp, zero := zero, mtu := mtu, probe := probe }
  let ls := if sp = 2 then pn else g.largestSent
  if probe then
    ({ g with out := g.out ++ [pkt], largestSent := ls, ph := g.ph ++ [pn] }, [])
  else
    let calls := [Call.sent t pn size ae]
    ({ (g.apply calls) with out := g.out ++ [pkt], largestSent := ls, bytesInFlight := if ae then g.bytesInFlight + size else g.bytesInFlight }, calls)

/-- `ReceivedAck` in space `sp`; `ph` = the placeholders left afterwards (environment) -/
def Glue.ack (g : Glue) (ranges : List (Int × Int)) (congested : Bool) (gone : List (Nat × Int)) (sp : Nat := 2)
    (ph : List Int := []) : Glue × List Call :=
  if (g.out.filter (g.isNewly sp ranges)).isEmpty then (g, [])
  else
    let calls := g.ackCalls ranges congested gone sp
    ({ ((g.apply calls).drop fun p => g.isNewly sp ranges p || gone.contains p.key) with ph := ph }, calls)

/-- `OnLossDetectionTimeout` in loss-timer mode (and `detectLostPathProbes`) -/
def Glue.timeout (g : Glue) (gone : List (Nat × Int)) (ph : List Int := []) : Glue × List Call :=
  let calls := g.timeoutCalls gone
  ({ ((g.apply calls).drop fun p => gone.contains p.key) with ph := ph }, calls)

/-- `QueueProbePacket(encLevel)`: the first outstanding packet of the space is declared lost -/
def Glue.queueProbe (g : Glue) (sp : Nat) : Glue × Bool :=
  match g.out.find? (fun p => p.sp == sp && p.outstanding) with
  | none => (g, false)
  | some q => (g.drop fun p => p.key == q.key, true)

/-- `DropPackets(Initial | Handshake)` -/
def Glue.dropSpace (g : Glue) (sp : Nat) : Glue := g.drop fun p => p.sp == sp

/-- `DropPackets(0-RTT)`: 0-RTT was rejected; the leading 0-RTT packets of the application-data history go -/
def Glue.dropZeroRTT (g : Glue) : Glue :=
  let z := ((g.out.filter fun p => p.sp == 2 && !p.probe).takeWhile (·.zero)).map (·.pn)
  g.drop fun p => p.sp == 2 && !p.probe && z.contains p.pn

/-- `ResetForRetry`: `bytesInFlight = 0`, fresh Initial and application-data spaces -/
def Glue.retry (g : Glue) : Glue :=
  { g with out := g.out.filter (fun p => p.sp == 1), bytesInFlight := 0, ph := [], largestSent := -1 }

/-- `MigratedPath(now, initialMaxDatagramSize)`; `rtt` = the estimator after `ResetForPathMigration`,
`pp` = the path probes `RemovePathProbe` left behind (environment) -/
def Glue.migrate (g : Glue) (mds : Nat) (rtt : Rtt) (pp : List Int) : Glue :=
  let g1 := g.drop fun p => p.sp == 2 && !p.probe
  { g1 with s := Sender.new mds rtt, out := g1.out.filter (fun p => !p.probe || pp.contains p.pn), ph := [] }

/-- several ack-eliciting packets of one size sent at one instant -/
def Glue.sendMany (g : Glue) (t : Int) (size : Nat) : List Int → Glue
  | [] => g
  | pn :: r => Glue.sendMany (g.send t pn size true).1 t size r

/-- the variant seeded as C20-r2s2: the ECN-CE event reported with the space's largest SENT packet -/
def Glue.ackCallsWrong (g : Glue) (ranges : List (Int × Int)) (congested : Bool) (gone : List (Nat × Int)) : List Call :=
  (g.ackCalls ranges congested gone).map fun c =>
    match c with
    | .cong _ 0 prior => .cong g.largestSent 0 prior
    | c => c

/-- the variant seeded as C20-r4s2: `MigratedPath` tests the wrong packet flag and leaves the Path MTU
probes counted in bytes in flight although they left the history -/
def Glue.migrateWrong (g : Glue) (mds : Nat) (rtt : Rtt) (pp : List Int) : Glue :=
  let g1 := g.drop fun p => p.sp == 2 && !p.probe
  { g1 with s := Sender.new mds rtt, out := g1.out.filter (fun p => !p.probe || pp.contains p.pn), ph := [],
            bytesInFlight := g.bytesInFlight - inFlightBytes (g.out.filter fun p => p.sp == 2 && !p.probe && !p.mtu) }

/-! ### histories of handler operations -/

/-- an operation of the handler, with its environment inputs -/
inductive GOp where
  | send (t pn : Int) (size : Nat) (ae : Bool) (sp : Nat) (zero mtu probe : Bool)
  | ack (ranges : List (Int × Int)) (congested : Bool) (gone : List (Nat × Int)) (sp : Nat) (ph : List Int)
  | timeout (gone : List (Nat × Int)) (ph : List Int)
  | queueProbe (sp : Nat)
  | dropSpace (sp : Nat)
  | dropZeroRTT
  | retry
  | migrate (mds : Nat) (rtt : Rtt) (pp : List Int)
  | setMDS (m : Nat)
  | rtt (r : Rtt)
deriving Repr

def Glue.stepG (g : Glue) : GOp → Glue
  | .send t pn size ae sp zero mtu probe => (g.send t pn size ae sp zero mtu probe).1
  | .ack ranges congested gone sp ph => (g.ack ranges congested gone sp ph).1
  | .timeout gone ph => (g.timeout gone ph).1
  | .queueProbe sp => (g.queueProbe sp).1
  | .dropSpace sp => g.dropSpace sp
  | .dropZeroRTT => g.dropZeroRTT
  | .retry => g.retry
  | .migrate mds rtt pp => g.migrate mds rtt pp
  | .setMDS m => g.apply [Call.mds m]
  | .rtt r => { g with s := { g.s with rtt := r } }

/-- the caller's contract: a Retry is processed only while no Handshake packet is in flight (the client
has no Handshake keys before it has seen the server's Initial) -/
def GOp.ok (g : Glue) : GOp → Prop
  | .retry => inFlightBytes (g.out.filter fun p => p.sp == 1) = 0
  | _ => True

def Glue.okRun : Glue → List GOp → Prop
  | _, [] => True
  | g, op :: r => op.ok g ∧ Glue.okRun (g.stepG op) r

def Glue.runG (g : Glue) (ops : List GOp) : Glue := ops.foldl Glue.stepG g

end Uquic.Model.Cong
