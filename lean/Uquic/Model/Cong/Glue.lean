/-
Model of the glue between sent_packet_handler.go and the congestion controller (property C20):
which calls `SentPacket`, `ReceivedAck`, `OnLossDetectionTimeout` (detectLostPackets) and
`SetMaxDatagramSize` make on `h.congestion`, in which order and with which packet numbers — for the
application-data packet number space, the only one with ECN.

What the handler decides elsewhere is environment here and is taken from the implementation's own
observable outputs: the packet number `PopPacketNumber` returned, which packets loss detection
declared lost (the frames' `OnLost` callbacks; C06 covers that logic) and whether the ECN tracker
reported congestion for this ACK (`ecnTracker.HandleNewlyAcked`).  The glue logic itself is modelled:

* `ReceivedAck`: nothing at all unless the ACK newly acknowledges a tracked packet; then
  `MaybeExitSlowStart` iff the largest acknowledged is newly acknowledged and some newly acknowledged
  packet is ack-eliciting; then, if the tracker reported congestion,
  `OnCongestionEvent(LARGEST ACKED of this frame, 0, priorInFlight)`; then for every lost ack-eliciting
  packet in ascending order `OnCongestionEvent(ITS OWN number, its size, priorInFlight)`; then
  `OnPacketAcked` for every newly acknowledged in-flight packet in ascending order.
* `detectLostPackets` from the loss timer: the loss events only.
-/
import Uquic.Model.Cong.Sender

namespace Uquic.Model.Cong

structure Pkt where
  pn : Int
  size : Nat
  ae : Bool            -- ack-eliciting = counted in bytes in flight
deriving Repr, BEq, DecidableEq

/-- a call on the `SendAlgorithm` interface -/
inductive Call where
  | sent (t pn : Int) (bytes : Nat) (ae : Bool)
  | exitSS
  | cong (pn : Int) (bytes prior : Nat)
  | acked (pn : Int) (bytes prior : Nat)
  | mds (m : Nat)
deriving Repr, BEq, DecidableEq

def Call.toOp : Call → Op
  | .sent t pn b ae => .sent t pn b ae
  | .exitSS => .exitSS
  | .cong pn b p => .lost pn b p
  | .acked pn b p => .acked pn b p 0
  | .mds m => .setMDS m

structure Glue where
  s : Sender
  /-- tracked packets of the application-data space, ascending packet numbers -/
  out : List Pkt := []
  largestSent : Int := -1
deriving Repr

def Glue.bytesInFlight (g : Glue) : Nat :=
  (g.out.filter (·.ae)).foldl (fun a p => a + p.size) 0

def covered (ranges : List (Int × Int)) (pn : Int) : Bool :=
  ranges.any fun r => decide (r.1 ≤ pn) && decide (pn ≤ r.2)

def largestOf (ranges : List (Int × Int)) : Int :=
  ranges.foldl (fun a r => Max.max a r.2) (-1)

/-- the calls `ReceivedAck` makes for an ACK frame that passed validation -/
def Glue.ackCalls (g : Glue) (ranges : List (Int × Int)) (congested : Bool) (lost : List Int) : List Call :=
  let newly := g.out.filter fun p => covered ranges p.pn
  if newly.isEmpty then []
  else
    let largest := largestOf ranges
    let prior := g.bytesInFlight
    let rest := g.out.filter fun p => !covered ranges p.pn
    let exit := (newly.getLast?.map (·.pn)) == some largest && newly.any (·.ae)
    (if exit then [Call.exitSS] else []) ++
    (if congested then [Call.cong largest 0 prior] else []) ++
    ((rest.filter fun p => p.ae && lost.contains p.pn).map fun p => Call.cong p.pn p.size prior) ++
    ((newly.filter (·.ae)).map fun p => Call.acked p.pn p.size prior)

/-- the calls `detectLostPackets` makes from the loss-detection timer -/
def Glue.timeoutCalls (g : Glue) (lost : List Int) : List Call :=
  let prior := g.bytesInFlight
  (g.out.filter fun p => p.ae && lost.contains p.pn).map fun p => Call.cong p.pn p.size prior

def Glue.apply (g : Glue) (calls : List Call) : Glue :=
  { g with s := g.s.run (calls.map Call.toOp) }

/-- `SentPacket` for a 1-RTT packet -/
def Glue.send (g : Glue) (t pn : Int) (size : Nat) (ae : Bool) : Glue × List Call :=
  let calls := [Call.sent t pn size ae]
  ({ (g.apply calls) with out := g.out ++ [{ pn := pn, size := size, ae := ae }], largestSent := pn }, calls)

/-- `ReceivedAck`; `tracked` = the packet numbers still in the space's history afterwards (environment) -/
def Glue.ack (g : Glue) (ranges : List (Int × Int)) (congested : Bool) (lost tracked : List Int) : Glue × List Call :=
  let calls := g.ackCalls ranges congested lost
  ({ (g.apply calls) with out := g.out.filter fun p => tracked.contains p.pn }, calls)

/-- `OnLossDetectionTimeout` in loss-timer mode -/
def Glue.timeout (g : Glue) (lost tracked : List Int) : Glue × List Call :=
  let calls := g.timeoutCalls lost
  ({ (g.apply calls) with out := g.out.filter fun p => tracked.contains p.pn }, calls)

/-- several ack-eliciting packets of one size sent at one instant -/
def Glue.sendMany (g : Glue) (t : Int) (size : Nat) : List Int → Glue
  | [] => g
  | pn :: r => Glue.sendMany (g.send t pn size true).1 t size r

/-- the variant seeded as C20-r2s2: the ECN-CE event reported with the space's largest SENT packet -/
def Glue.ackCallsWrong (g : Glue) (ranges : List (Int × Int)) (congested : Bool) (lost : List Int) : List Call :=
  (g.ackCalls ranges congested lost).map fun c =>
    match c with
    | .cong _ 0 prior => .cong g.largestSent 0 prior
    | c => c

end Uquic.Model.Cong
