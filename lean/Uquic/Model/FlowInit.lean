/-
C04: how a connection seeds the windows of a new stream flow controller
(connection.go `Conn.newFlowController`, `streamsMap.HandleTransportParameters`, and the
`wire.TransportParameters` literals of `newConnection` / `newClientConnection`).

Which peer parameter the Go closure reads in which branch is a regenerated fact
(`Uquic.Gen.Flowcontrol.newFC*Field`); the branch structure and the stream-id predicates
(`protocol.StreamID.Type`, `.InitiatedBy`) are mirrored here.
-/
import Uquic.Generated.Flowcontrol

namespace Uquic.Model.FlowInit
open Uquic.Gen.Flowcontrol

/-- the flow-control transport parameters of one endpoint (RFC 9000 §18.2) -/
structure Params where
  maxData : Int := 0
  bidiLocal : Int := 0      -- initial_max_stream_data_bidi_local
  bidiRemote : Int := 0     -- initial_max_stream_data_bidi_remote
  uni : Int := 0            -- initial_max_stream_data_uni
deriving Repr, DecidableEq

/-- field selection by the code gofacts emits -/
def Params.field (p : Params) : Nat → Int
  | 0 => p.bidiLocal
  | 1 => p.bidiRemote
  | _ => p.uni

/-- `StreamID.Type() == StreamTypeUni` : `s%4 >= 2` -/
def isUni (id : Nat) : Bool := decide (id % 4 ≥ 2)
/-- `StreamID.InitiatedBy() == PerspectiveClient` : `s%2 == 0` -/
def byClient (id : Nat) : Bool := decide (id % 2 = 0)

/-- `Conn.newFlowController(id)`: the initial send window, from the *peer's* parameters -/
def newFlowControllerSendWindow (weAreClient : Bool) (peer : Params) (id : Nat) : Int :=
  if !isUni id then
    (if byClient id == weAreClient then peer.field newFCOwnBidiField else peer.field newFCPeerBidiField)
  else peer.field newFCUniField

/-- our configuration -/
structure Config where
  initialStreamReceiveWindow : Int
  maxStreamReceiveWindow : Int
  initialConnectionReceiveWindow : Int
  maxConnectionReceiveWindow : Int
deriving Repr, DecidableEq

/-- the parameters we advertise (`newConnection` / `newClientConnection`); `none` if the literals no
    longer have the extracted shape -/
def advertised (c : Config) : Option Params :=
  if advertisedWindowsFromConfig then
    some { maxData := c.initialConnectionReceiveWindow, bidiLocal := c.initialStreamReceiveWindow,
           bidiRemote := c.initialStreamReceiveWindow, uni := c.initialStreamReceiveWindow }
  else none

/-- `Conn.newFlowController(id)`: (receiveWindow, maxReceiveWindow) -/
def newFlowControllerReceiveWindow (c : Config) : Option (Int × Int) :=
  if newFCReceiveWindowFromConfig then some (c.initialStreamReceiveWindow, c.maxStreamReceiveWindow) else none

/-! ### the RFC's assignment (RFC 9000 §2.1 stream ids, §18.2 parameter definitions) -/

/-- The limit that applies to data **we send** on stream `id`, from the parameters the peer sent:
* unidirectional stream (bit 0x02 set): `initial_max_stream_data_uni`;
* bidirectional stream opened by the endpoint that *sent* the parameters (the peer):
  `initial_max_stream_data_bidi_local`;
* bidirectional stream opened by the endpoint that *received* them (us):
  `initial_max_stream_data_bidi_remote`. -/
def rfcSendLimit (weAreClient : Bool) (peer : Params) (id : Nat) : Int :=
  let uni := id % 4 = 2 ∨ id % 4 = 3
  let openedByClient := id % 4 = 0 ∨ id % 4 = 2
  if uni then peer.uni
  else if (openedByClient ∧ weAreClient = true) ∨ (¬ openedByClient ∧ weAreClient = false) then peer.bidiRemote
  else peer.bidiLocal

/-- The limit the peer must respect for data **it sends** on stream `id`, from the parameters we sent
    (same table, roles exchanged: "local" = opened by us). -/
def rfcReceiveLimit (weAreClient : Bool) (ours : Params) (id : Nat) : Int :=
  let uni := id % 4 = 2 ∨ id % 4 = 3
  let openedByClient := id % 4 = 0 ∨ id % 4 = 2
  if uni then ours.uni
  else if (openedByClient ∧ weAreClient = true) ∨ (¬ openedByClient ∧ weAreClient = false) then ours.bidiLocal
  else ours.bidiRemote

/-! ### a spec-driven client: the Config is raised to cover what the QUICSpec advertises
(u_connection.go `configCoveringAdvertised`, applied by `newUClientConnection` before `preSetup`) -/

def pick (isMax : Bool) (a b : Int) : Int := if isMax then max a b else min a b

/-- the four receive-window fields of `configCoveringAdvertised(conf, p)`; which of `max` / `min`
    the Go code applies is a regenerated fact -/
def coveringConfig (c : Config) (adv : Params) : Config :=
  let ic := pick coverConnIsMax c.initialConnectionReceiveWindow adv.maxData
  let is := pick coverStreamOuterIsMax c.initialStreamReceiveWindow
              (pick coverStreamInnerIsMax (pick coverStreamInnerIsMax adv.bidiLocal adv.bidiRemote) adv.uni)
  { initialConnectionReceiveWindow := ic,
    maxConnectionReceiveWindow := if coverMaxWindowsFollow then max c.maxConnectionReceiveWindow ic else c.maxConnectionReceiveWindow,
    initialStreamReceiveWindow := is,
    maxStreamReceiveWindow := if coverMaxWindowsFollow then max c.maxStreamReceiveWindow is else c.maxStreamReceiveWindow }

/-- the configuration a client's flow controllers are built from: a spec-driven client
    (`spec = some advertised`) covers the advertised parameters, a plain client uses the Config -/
def enforcedConfig (c : Config) (spec : Option Params) : Config :=
  match spec with
  | some adv => if coverAppliedInUClient then coveringConfig c adv else c
  | none => c

end Uquic.Model.FlowInit
