/-
C04: how a connection seeds the windows of a new stream flow controller
(connection.go `Conn.newFlowController`, `streamsMap.HandleTransportParameters`, and the
`wire.TransportParameters` literals of `newConnection` / `newClientConnection`).

Which peer parameter the Go closure reads in which branch is a regenerated fact
(`Uquic.Gen.Flowcontrol.newFC*Field`); the branch structure and the stream-id predicates
(`protocol.StreamID.Type`, `.InitiatedBy`) are mirrored here.
-/
import Uquic.Generated.Flowcontrol

namespace Uquic.Model.FlowInit
open Uquic.Gen.Flowcontrol

/-- the flow-control transport parameters of one endpoint (RFC 9000 §18.2) -/
structure Params where
  maxData : Int := 0
  bidiLocal : Int := 0      -- initial_max_stream_data_bidi_local
  bidiRemote : Int := 0     -- initial_max_stream_data_bidi_remote
  uni : Int := 0            -- initial_max_stream_data_uni
deriving Repr, DecidableEq

/-- field selection by the code gofacts emits -/
def Params.field (p : Params) : Nat → Int
  | 0 => p.bidiLocal
  | 1 => p.bidiRemote
  | _ => p.uni

/-- `StreamID.Type() == StreamTypeUni` : `s%4 >= 2` -/
def isUni (id : Nat) : Bool := decide (id % 4 ≥ 2)
/-- `StreamID.InitiatedBy() == PerspectiveClient` : `s%2 == 0` -/
def byClient (id : Nat) : Bool := decide (id % 2 = 0)

/-- `Conn.newFlowController(id)`: the initial send window, from the *peer's* parameters -/
def newFlowControllerSendWindow (weAreClient : Bool) (peer : Params) (id : Nat) : Int :=
  if !isUni id then
    (if byClient id == weAreClient then peer.field newFCOwnBidiField else peer.field newFCPeerBidiField)
  else peer.field newFCUniField

/-- our configuration -/
structure Config where
  initialStreamReceiveWindow : Int
  maxStreamReceiveWindow : Int
  initialConnectionReceiveWindow : Int
  maxConnectionReceiveWindow : Int
deriving Repr, DecidableEq

/-- the parameters we advertise (`newConnection` / `newClientConnection`); `none` if the literals no
    longer have the extracted shape -/
def advertised (c : Config) : Option Params :=
  if advertisedWindowsFromConfig then
    some { maxData := c.initialConnectionReceiveWindow, bidiLocal := c.initialStreamReceiveWindow,
           bidiRemote := c.initialStreamReceiveWindow, uni := c.initialStreamReceiveWindow }
  else none

/-! ### the RFC's assignment (RFC 9000 §2.1 stream ids, §18.2 parameter definitions) -/

/-- The limit that applies to data **we send** on stream `id`, from the parameters the peer sent:
* unidirectional stream (bit 0x02 set): `initial_max_stream_data_uni`;
* bidirectional stream opened by the endpoint that *sent* the parameters (the peer):
  `initial_max_stream_data_bidi_local`;
* bidirectional stream opened by the endpoint that *received* them (us):
  `initial_max_stream_data_bidi_remote`. -/
def rfcSendLimit (weAreClient : Bool) (peer : Params) (id : Nat) : Int :=
  let uni := id % 4 = 2 ∨ id % 4 = 3
  let openedByClient := id % 4 = 0 ∨ id % 4 = 2
  if uni then peer.uni
  else if (openedByClient ∧ weAreClient = true) ∨ (¬ openedByClient ∧ weAreClient = false) then peer.bidiRemote
  else peer.bidiLocal

/-- The limit the peer must respect for data **it sends** on stream `id`, from the parameters we sent
    (same table, roles exchanged: "local" = opened by us). -/
def rfcReceiveLimit (weAreClient : Bool) (ours : Params) (id : Nat) : Int :=
  let uni := id % 4 = 2 ∨ id % 4 = 3
  let openedByClient := id % 4 = 0 ∨ id % 4 = 2
  if uni then ours.uni
  else if (openedByClient ∧ weAreClient = true) ∨ (¬ openedByClient ∧ weAreClient = false) then ours.bidiLocal
  else ours.bidiRemote

/-! ### a spec-driven client: what the QUICSpec advertises is authoritative
(u_connection.go `configCoveringAdvertised` + `uAdvertisedStreamData`, applied by
`newUClientConnection` before `preSetup`; connection.go `Conn.newFlowController`) -/

def pick (isMax : Bool) (a b : Int) : Int := if isMax then max a b else min a b

/-- The shape of the spec-driven window setup, as extracted from the Go source.  The model is a
    function of the shape so that the shape of an earlier revision can be instantiated as well
    (`Shape.old`, used by the kernel-checked witness that it stalls). -/
structure Shape where
  /-- `c.InitialConnectionReceiveWindow = …`: 0 the advertised `initial_max_data`, 1 `max(conf, adv)`, 2 `min` -/
  connMode : Nat
  streamOuterIsMax : Bool
  streamInnerIsMax : Bool
  maxWindowsFollow : Bool
  applied : Bool
  /-- `newFlowController` starts the stream with `uAdvertisedStreamData.forStream(id, perspective)` -/
  specOverride : Bool
  uniField : Nat
  ownBidiField : Nat
  peerBidiField : Nat
deriving Repr, DecidableEq

/-- the shape of the checked-out source (regenerated facts) -/
def Shape.current : Shape :=
  { connMode := coverConnMode, streamOuterIsMax := coverStreamOuterIsMax, streamInnerIsMax := coverStreamInnerIsMax,
    maxWindowsFollow := coverMaxWindowsFollow, applied := coverAppliedInUClient, specOverride := newFCSpecOverride,
    uniField := advForStreamUniField, ownBidiField := advForStreamOwnBidiField, peerBidiField := advForStreamPeerBidiField }

/-- the shape before /repo c32d004: one stream window (the largest advertised value, or the Config's)
    for every kind of stream, and `max(Config, advertised)` as connection window -/
def Shape.old : Shape :=
  { connMode := 1, streamOuterIsMax := true, streamInnerIsMax := true, maxWindowsFollow := true, applied := true,
    specOverride := false, uniField := 9, ownBidiField := 9, peerBidiField := 9 }

/-- the four receive-window fields of `configCoveringAdvertised(conf, p)` -/
def coveringConfigS (sh : Shape) (c : Config) (adv : Params) : Config :=
  let ic := match sh.connMode with
    | 0 => adv.maxData
    | 1 => max c.initialConnectionReceiveWindow adv.maxData
    | _ => min c.initialConnectionReceiveWindow adv.maxData
  let is := pick sh.streamOuterIsMax c.initialStreamReceiveWindow
              (pick sh.streamInnerIsMax (pick sh.streamInnerIsMax adv.bidiLocal adv.bidiRemote) adv.uni)
  { initialConnectionReceiveWindow := ic,
    maxConnectionReceiveWindow := if sh.maxWindowsFollow then max c.maxConnectionReceiveWindow ic else c.maxConnectionReceiveWindow,
    initialStreamReceiveWindow := is,
    maxStreamReceiveWindow := if sh.maxWindowsFollow then max c.maxStreamReceiveWindow is else c.maxStreamReceiveWindow }

/-- the configuration a client's flow controllers are built from: a spec-driven client
    (`spec = some advertised`) runs `configCoveringAdvertised`, a plain client uses the Config -/
def enforcedConfigS (sh : Shape) (c : Config) (spec : Option Params) : Config :=
  match spec with
  | some adv => if sh.applied then coveringConfigS sh c adv else c
  | none => c

/-- `uAdvertisedStreamData.forStream(id, perspective)` -/
def forStreamS (sh : Shape) (weAreClient : Bool) (adv : Params) (id : Nat) : Int :=
  if isUni id then adv.field sh.uniField
  else if byClient id == weAreClient then adv.field sh.ownBidiField else adv.field sh.peerBidiField

/-- `Conn.newFlowController(id)`: (receiveWindow, maxReceiveWindow) handed to `NewStreamFlowController`;
    `c` is the connection's (enforced) configuration, `spec` what `uAdvertisedStreamData` holds
    (`none`: nil, i.e. not a spec-driven client).  `none` if the Go source no longer passes the
    Config's windows. -/
def newFlowControllerReceiveWindowS (sh : Shape) (c : Config) (spec : Option Params) (weAreClient : Bool) (id : Nat) :
    Option (Int × Int) :=
  if !newFCReceiveWindowFromConfig then none else
  match spec with
  | some adv =>
    if sh.specOverride then
      some (forStreamS sh weAreClient adv id, max c.maxStreamReceiveWindow (forStreamS sh weAreClient adv id))
    else some (c.initialStreamReceiveWindow, c.maxStreamReceiveWindow)
  | none => some (c.initialStreamReceiveWindow, c.maxStreamReceiveWindow)

def coveringConfig := coveringConfigS Shape.current
def enforcedConfig := enforcedConfigS Shape.current
def newFlowControllerReceiveWindow := newFlowControllerReceiveWindowS Shape.current

end Uquic.Model.FlowInit
