/-
Model of WHEN a connection discards its Initial keys (property C13; RFC 9001 §4.9.1), i.e. of the glue
around the crypto setup in connection.go:

* `Conn.sendPackedCoalescedPacket`: the loop over `packet.longHdrPackets` — the CLIENT discards the Initial
  keys as soon as it registers the first Handshake packet it sends, WHEREVER that packet sits in the
  datagram (usually behind the Initial packet that acknowledges the ServerHello);
* `Conn.handleUnpackedLongHeaderPacket`: the SERVER discards them when it has unpacked the first
  Handshake packet;
* `Conn.handleHandshakeConfirmed`: both discard them (again) when the handshake is confirmed.

The Initial keys are public (derived from the client's first destination connection ID), so as long as an
endpoint keeps them everybody on the path can make it process Initial packets (e.g. a CONNECTION_CLOSE).
`initialKeys` is what `cryptoSetup.GetInitialOpener` answers, i.e. the `keys` input of the gate model
(`Uquic.Model.Handshake.Gate`) for an Initial packet.
-/
import Uquic.Model.Handshake.Gate

namespace Uquic.Model.Handshake.KeyLife
open Uquic.Model.Handshake

/-- encryption level of a packet of a datagram that is sent -/
inductive Level | initial | handshake | zeroRTT | oneRTT
deriving DecidableEq, Repr

structure KeySt where
  perspective : Perspective := .client
  /-- `c.droppedInitialKeys` (set by `dropEncryptionLevel(EncryptionInitial)` together with
  `cryptoStreamHandler.DiscardInitialKeys()`) -/
  droppedInitial : Bool := false
deriving DecidableEq, Repr

/-- the body of the loop of `sendPackedCoalescedPacket` for ONE long-header packet of the datagram -/
def sentLong (s : KeySt) (l : Level) : KeySt :=
  if s.perspective = .client ∧ l = .handshake ∧ s.droppedInitial = false then { s with droppedInitial := true } else s

/-- `sendPackedCoalescedPacket`: every long-header packet of the datagram, in order (a short-header packet
at the end takes no part in this) -/
def sendDatagram (s : KeySt) : List Level → KeySt
  | [] => s
  | l :: rest => sendDatagram (if l = .oneRTT then s else sentLong s l) rest

/-- `handleUnpackedLongHeaderPacket` for a packet of level `l` that was unpacked -/
def unpackedLong (s : KeySt) (l : Level) : KeySt :=
  if s.perspective = .server ∧ l = .handshake ∧ s.droppedInitial = false then { s with droppedInitial := true } else s

/-- `handleHandshakeConfirmed` -/
def confirmed (s : KeySt) : KeySt := { s with droppedInitial := true }

/-- what `GetInitialOpener` answers -/
def initialKeys (s : KeySt) : Keys := if s.droppedInitial then .dropped else .avail

inductive Ev
  | send (levels : List Level)
  | unpacked (l : Level)
  | confirmed
deriving DecidableEq, Repr

def step (s : KeySt) : Ev → KeySt
  | .send ls => sendDatagram s ls
  | .unpacked l => unpackedLong s l
  | .confirmed => confirmed s

def run (s : KeySt) : List Ev → KeySt
  | [] => s
  | e :: es => run (step s e) es

/-- NOT the code: a rule that looks at the datagram as a whole and takes "its" level to be the level of its
first packet.  Kept to show (`Uquic.Props.C13Keys.first_packet_rule_keeps_keys`) that the position-independent
loop above is what the property needs. -/
def sendDatagramFirstOnly (s : KeySt) : List Level → KeySt
  | [] => s
  | l :: _ => sentLong s l

end Uquic.Model.Handshake.KeyLife
