/-
Model of the handshake deadline logic of connection.go (property C13): `maybeResetTimer` (the branch
taken while the handshake is incomplete), `idleTimeoutStartTime`, and the timeout checks the run loop
performs after every wake-up.  Times are `Int` nanoseconds (monotime), `0` = unset.
-/
import Uquic.Generated.Gate

namespace Uquic.Model.Handshake

def handshakeTimeoutFactor : Int := Uquic.Gen.Gate.handshakeTimeoutFactor
def defaultHandshakeIdleTimeout : Int := Uquic.Gen.Gate.DefaultHandshakeIdleTimeout

structure Clock where
  creationTime : Int
  lastPacketReceivedTime : Int
  /-- `firstAckElicitingPacketAfterIdleSentTime`, `0` = unset -/
  firstAckElicitingSent : Int := 0
  /-- `config.HandshakeIdleTimeout` -/
  handshakeIdleTimeout : Int
deriving DecidableEq, Repr

/-- `config.handshakeTimeout()` -/
def Clock.handshakeTimeout (c : Clock) : Int := handshakeTimeoutFactor * c.handshakeIdleTimeout

/-- `idleTimeoutStartTime` -/
def Clock.idleStart (c : Clock) : Int :=
  if c.firstAckElicitingSent ≠ 0 ∧ c.firstAckElicitingSent > c.lastPacketReceivedTime then c.firstAckElicitingSent
  else c.lastPacketReceivedTime

/-- the alarms `maybeResetTimer` may lower the deadline to (`0` = unset): ACK alarm, loss-detection
timer, pacing deadline -/
structure Alarms where
  ack : Int := 0
  loss : Int := 0
  pacing : Int := 0
deriving DecidableEq, Repr

inductive Blocked | none | congestionLimited | hardBlocked
deriving DecidableEq, Repr

def lower (deadline t : Int) : Int := if t ≠ 0 ∧ t < deadline then t else deadline

/-- the handshake part of the deadline: `creationTime + handshakeTimeout`, lowered to
`idleStart + HandshakeIdleTimeout` -/
def Clock.handshakeDeadline (c : Clock) : Int :=
  let d := c.creationTime + c.handshakeTimeout
  let t := c.idleStart + c.handshakeIdleTimeout
  if t < d then t else d

/-- `maybeResetTimer` while `!handshakeComplete` -/
def maybeResetTimer (c : Clock) (a : Alarms) (b : Blocked) : Int :=
  let deadline := c.handshakeDeadline
  if b = .hardBlocked then deadline
  else
    let deadline := lower deadline a.ack
    let deadline := lower deadline a.loss
    if b = .congestionLimited then deadline
    else lower deadline a.pacing

inductive WakeOutcome | continue | handshakeTimeout | idleTimeout
deriving DecidableEq, Repr

/-- the checks of the run loop after a wake-up at `now`, handshake incomplete.  (`keepAliveDue`: the
keep-alive branch comes first in the `if`/`else if` chain; before handshake completion it is taken only
when `KeepAlivePeriod` is set and the keep-alive time has passed.) -/
def postWake (c : Clock) (now : Int) (keepAliveDue : Bool := false) : WakeOutcome :=
  if keepAliveDue then .continue
  else if now - c.creationTime ≥ c.handshakeTimeout then .handshakeTimeout
  else if now - c.idleStart ≥ c.handshakeIdleTimeout then .idleTimeout
  else .continue

end Uquic.Model.Handshake
