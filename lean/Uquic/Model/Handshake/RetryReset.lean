/-
Model of what the client's loss recovery does with the packets it has in flight when it accepts a Retry
(property C13: "session resumption and 0-RTT", "exactly once if accepted"):
internal/ackhandler/sent_packet_handler.go `ResetForRetry` with `packet.IsAckEliciting` and
`queueFramesForRetransmission`.

At that moment the client has sent Initial packets and — on a resumed session with early data — 0-RTT
packets (the only application-data packets there can be).  The server has thrown all of them away, and
both packet number spaces are replaced, so no acknowledgement or loss detection will ever mention these
packets again: whatever is not handed back to its owner HERE (the `OnLost` callback of every frame) is
never retransmitted.  A 0-RTT packet typically carries only STREAM frames, which live in the separate
slice `p.StreamFrames`; an ACK-only Initial packet carries nothing.

Frames are identified by numbers; the slice layout of the history is C06's subject (here: the list of the
packets the history's iterator yields).
-/
namespace Uquic.Model.Handshake.RetryReset

structure Packet where
  pn : Nat
  /-- `p.Frames`: control frames (CRYPTO, PING, …) -/
  frames : List Nat := []
  /-- `p.StreamFrames` -/
  streamFrames : List Nat := []
  length : Nat := 0
deriving DecidableEq, Repr

/-- `packet.IsAckEliciting` -/
def Packet.isAckEliciting (p : Packet) : Bool := !p.streamFrames.isEmpty || !p.frames.isEmpty

/-- `queueFramesForRetransmission`: the `OnLost` calls, in order -/
def queueFrames (p : Packet) : List Nat := p.frames ++ p.streamFrames

structure Sent where
  /-- `initialPackets.history.Packets()` -/
  initial : List Packet := []
  /-- `appDataPackets.history.Packets()`: 0-RTT packets -/
  appData : List Packet := []
  bytesInFlight : Nat := 0
  /-- every frame handed back through `OnLost` so far -/
  lost : List Nat := []
deriving DecidableEq, Repr

/-- one iteration of either loop of `ResetForRetry` -/
def requeue (p : Packet) : List Nat := if p.isAckEliciting then queueFrames p else []

/-- `ResetForRetry` (the RTT sample and the alarm are C06's subject) -/
def Sent.resetForRetry (s : Sent) : Sent :=
  { initial := [], appData := [], bytesInFlight := 0,
    lost := s.lost ++ s.initial.flatMap requeue ++ s.appData.flatMap requeue }

/-- NOT the code: "nothing to retransmit" decided by `len(p.Frames) == 0` alone -/
def requeueControlOnly (p : Packet) : List Nat := if p.frames.isEmpty then [] else queueFrames p

def Sent.resetForRetryControlOnly (s : Sent) : Sent :=
  { initial := [], appData := [], bytesInFlight := 0,
    lost := s.lost ++ s.initial.flatMap requeueControlOnly ++ s.appData.flatMap requeueControlOnly }

end Uquic.Model.Handshake.RetryReset
