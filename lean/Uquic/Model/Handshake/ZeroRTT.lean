/-
Model of what a client does when the server rejects 0-RTT (property C13), at the level the property
needs: `sentPacketHandler.DropPackets(Encryption0RTT)` on the application-data packet history
(sent_packet_handler.go) and `streamsMap.ResetFor0RTT` / `UseResetMaps` / the `reset` test of the
Open…/Accept… methods (streams_map.go).  The slice layout of the history and the loss-recovery ledger
are C06's subject; here the history is the ascending list of its non-nil entries.
-/
namespace Uquic.Model.Handshake.ZeroRTT

inductive Level | zeroRTT | oneRTT
deriving DecidableEq, Repr

structure Packet where
  pn : Nat
  level : Level
  length : Nat
  includedInBytesInFlight : Bool
deriving DecidableEq, Repr

/-- callbacks a packet's frames can receive from loss recovery -/
inductive Callback | onAcked (pn : Nat) | onLost (pn : Nat)
deriving DecidableEq, Repr

structure Sent where
  /-- `appDataPackets.history.Packets()`: ascending packet numbers, skipped numbers omitted -/
  history : List Packet
  bytesInFlight : Nat
  /-- every frame-handler callback invoked so far -/
  callbacks : List Callback := []
deriving DecidableEq, Repr

/-- `removeFromBytesInFlight`; `none` = the Go code panics ("negative bytes_in_flight") -/
def removeFromBytesInFlight (inFl : Nat) (p : Packet) : Option Nat :=
  if p.includedInBytesInFlight then
    if p.length > inFl then none else some (inFl - p.length)
  else some inFl

/-- the loop of `DropPackets(Encryption0RTT)`: walks the history from the lowest packet number and
stops at the first packet that is not 0-RTT; returns the remaining history and bytes in flight -/
def dropLoop : List Packet → Nat → Option (List Packet × Nat)
  | [], inFl => some ([], inFl)
  | p :: rest, inFl =>
    if p.level ≠ .zeroRTT then some (p :: rest, inFl)
    else
      match removeFromBytesInFlight inFl p with
      | none => none
      | some inFl' => dropLoop rest inFl'

/-- `DropPackets(Encryption0RTT)`; no frame handler is called -/
def Sent.dropZeroRTT (s : Sent) : Option Sent :=
  match dropLoop s.history s.bytesInFlight with
  | none => none
  | some (h, inFl) => some { s with history := h, bytesInFlight := inFl }

/-! ### streams map -/

inductive StreamErr | zeroRTTRejected | other
deriving DecidableEq, Repr

structure Stream where
  id : Nat
  /-- `closeForShutdown(err)`: the error every Read/Write on the stream returns from now on -/
  closedWith : Option StreamErr := none
deriving DecidableEq, Repr

structure StreamsMap where
  reset : Bool := false
  /-- the streams of the four maps currently installed -/
  live : List Stream := []
  /-- streams of maps that were replaced (their handles may still be held by the application) -/
  detached : List Stream := []
deriving DecidableEq, Repr

/-- `ResetFor0RTT`: `reset = true`, `CloseWithError(Err0RTTRejected)` on all four maps, `initMaps()` -/
def StreamsMap.resetFor0RTT (m : StreamsMap) : StreamsMap :=
  { reset := true, live := [],
    detached := m.detached ++ m.live.map fun s =>
      { s with closedWith := match s.closedWith with | some e => some e | none => some .zeroRTTRejected } }

/-- `UseResetMaps` (called by `NextConnection`) -/
def StreamsMap.useResetMaps (m : StreamsMap) : StreamsMap := { m with reset := false }

/-- `OpenStream`/`OpenUniStream`/`AcceptStream`…: the `reset` test; `none` = proceeds to the map -/
def StreamsMap.openCheck (m : StreamsMap) : Option StreamErr :=
  if m.reset then some .zeroRTTRejected else none

end Uquic.Model.Handshake.ZeroRTT
