/-
Model of the pre-decryption decision logic of a connection (property C13):
connection.go `handleOnePacket`, `handleLongHeaderPacket`, `handleShortHeaderPacket`,
`handleUnpackError`, `handleRetryPacket`, `handleVersionNegotiationPacket`, the first-packet
bookkeeping branch of `handleUnpackedLongHeaderPacket`, `tryQueueingUndecryptablePacket`.

`gate : GateState → PacketSummary → GateState × Action` is ONE packet (one part of a possibly
coalesced datagram); `gateDatagram` is the loop of `handleOnePacket` over the parts of a datagram
with its `break`s.  Every function mirrors the Go function branch for branch, in the same order.

Inputs that come from outside this logic are bits of the `PacketSummary`:
* `parse`      result of `wire.ParsePacket` on the part (the codecs are C08's subject),
* `keys`       what `cryptoSetup.Get…Opener` answers for the packet's level at that moment (TLS stack),
* `hdrOK`      the part is long enough to remove header protection (`len ≥ hdrLen+4+16`),
* `opens`      the AEAD opens the packet.  Ideal-AEAD assumption (trusted base, C05): an attacker without
               the keys can only supply `false`, or replay a genuine packet,
* `retryTagFor` the original destination connection ID under which the Retry integrity tag verifies
               (`none`: under none).  Ideal assumption: a tag verifies for at most one such ID,
* `duplicate`  `receivedPacketHandler.IsPotentiallyDuplicate` (C07's subject),
* `fatal`      handling the frames of a processed packet returned an error (TLS / frame layer).
-/
import Uquic.Generated.Gate

namespace Uquic.Model.Handshake

/-- a connection ID: its bytes (Go compares `protocol.ConnectionID` by value: length and bytes) -/
abbrev CID := List Nat

def maxUndecryptablePackets : Nat := Uquic.Gen.Gate.MaxUndecryptablePackets.toNat
def version1 : Nat := Uquic.Gen.Gate.Version1.toNat
def version2 : Nat := Uquic.Gen.Gate.Version2.toNat

inductive Perspective | client | server
deriving DecidableEq, Repr

inductive Kind | retry | vn | initial | handshake | zeroRTT | short
deriving DecidableEq, Repr

/-- outcome of `wire.ParsePacket` for a long-header part -/
inductive Parse | ok | headerErr | unsupportedVersion
deriving DecidableEq, Repr

inductive Keys | avail | notYet | dropped
deriving DecidableEq, Repr

/-- `qlog.PacketDropReason` values used by the connection; `silent` = dropped without any qlog event -/
inductive Reason
  | unexpectedPacket | payloadDecryptError | unexpectedVersion | unknownConnectionID
  | headerParseError | keyUnavailable | duplicate | dosPrevention | unsupportedVersion | silent
deriving DecidableEq, Repr

structure PacketSummary where
  kind : Kind
  parse : Parse := .ok
  version : Nat := 0
  srcConnID : CID := []
  /-- long header: the header's destination connection ID; short header: `ParseConnectionID(data, srcConnIDLen)` -/
  destConnID : CID := []
  /-- `false`: `ParseConnectionID` failed on this part (only checked for the 2nd and later parts of a datagram) -/
  destConnIDParseOK : Bool := true
  retryTagFor : Option CID := none
  token : List Nat := []
  keys : Keys := .avail
  hdrOK : Bool := true
  opens : Bool := false
  duplicate : Bool := false
  fatal : Bool := false
  /-- Version Negotiation: `wire.ParseVersionNegotiationPacket` succeeded, and the versions listed -/
  vnParseOK : Bool := true
  vnVersions : List Nat := []
deriving DecidableEq, Repr

inductive Action
  | drop (r : Reason)
  | restartWithRetry (newDestConnID : CID) (token : List Nat)
  | recreate (version : Nat)      -- errCloseForRecreating: doDial dials again with this version
  | fail                          -- destroyed with VersionNegotiationError
  | buffer                        -- queued until the keys arrive (qlog PacketBuffered)
  | process                       -- unpacked: frames are handled, the packet is registered
  | processFatal                  -- unpacked, and handling its frames closed the connection
  | notReached                    -- a `break`/error in handleOnePacket ended the loop before this part
deriving DecidableEq, Repr

structure GateState where
  perspective : Perspective := .client
  version : Nat := 1
  /-- `config.Versions`, in order of preference -/
  supported : List Nat := [1]
  receivedFirstPacket : Bool := false
  receivedRetry : Bool := false
  versionNegotiated : Bool := false
  handshakeDestConnID : CID := []
  origDestConnID : CID := []
  retrySrcConnID : Option CID := none
  /-- `connIDManager.Get()`: the destination connection ID in use -/
  destConnID : CID := []
  /-- `len(c.undecryptablePackets)` -/
  undecryptable : Nat := 0
deriving DecidableEq, Repr

/-- `newClientConnection` / `newUClientConnection` -/
def GateState.newClient (destConnID : CID) (version : Nat) (supported : List Nat) (hasNegotiatedVersion : Bool) : GateState :=
  { perspective := .client, version := version, supported := supported,
    versionNegotiated := hasNegotiatedVersion,
    handshakeDestConnID := destConnID, origDestConnID := destConnID, destConnID := destConnID }

/-- the `hasNegotiatedVersion` argument `doDial` passes when it dials again after a Version Negotiation packet
(`spec`: UTransport.doDial, else Transport.doDial) — regenerated from the call's source text -/
def recreateMarksNegotiated (spec : Bool) : Bool :=
  if spec then Uquic.Gen.Gate.recreateArgUTransport else Uquic.Gen.Gate.recreateArgTransport

/-- the client connection `doDial` creates after `errCloseForRecreating` -/
def GateState.recreated (spec : Bool) (destConnID : CID) (version : Nat) (supported : List Nat) : GateState :=
  GateState.newClient destConnID version supported (recreateMarksNegotiated spec)

/-- `protocol.ChooseSupportedVersion(ours, theirs)` -/
def chooseSupportedVersion (ours theirs : List Nat) : Option Nat :=
  ours.find? (fun v => theirs.contains v)

/-- `handleRetryPacket` -/
def handleRetry (s : GateState) (p : PacketSummary) : GateState × Action :=
  if s.perspective = .server then (s, .drop .unexpectedPacket)
  else if s.receivedFirstPacket then (s, .drop .unexpectedPacket)
  else if p.srcConnID = s.destConnID then (s, .drop .unexpectedPacket)
  else if s.receivedRetry then (s, .drop .silent)
  else if p.retryTagFor ≠ some s.destConnID then (s, .drop .payloadDecryptError)
  else
    ({ s with receivedRetry := true, handshakeDestConnID := p.srcConnID,
              retrySrcConnID := some p.srcConnID, destConnID := p.srcConnID },
     .restartWithRetry p.srcConnID p.token)

/-- `handleVersionNegotiationPacket` -/
def handleVN (s : GateState) (p : PacketSummary) : GateState × Action :=
  if s.perspective = .server ∨ s.receivedFirstPacket ∨ s.versionNegotiated then (s, .drop .unexpectedPacket)
  else if ¬ p.vnParseOK then (s, .drop .headerParseError)
  else if p.vnVersions.contains s.version then (s, .drop .unexpectedVersion)
  else
    match chooseSupportedVersion s.supported p.vnVersions with
    | none => (s, .fail)
    | some v => (s, .recreate v)

/-- the first-packet branch of `handleUnpackedLongHeaderPacket` (both perspectives adopt the peer's
source connection ID when it differs) -/
def firstPacket (s : GateState) (p : PacketSummary) : GateState :=
  if s.receivedFirstPacket then s
  else if p.srcConnID ≠ s.handshakeDestConnID then
    { s with receivedFirstPacket := true, handshakeDestConnID := p.srcConnID, destConnID := p.srcConnID }
  else { s with receivedFirstPacket := true }

/-- `unpacker.Unpack…` + `handleUnpackError` + duplicate check; `long` selects the first-packet bookkeeping -/
def unpack (s : GateState) (p : PacketSummary) (long : Bool) : GateState × Action :=
  match p.keys with
  | .dropped => (s, .drop .keyUnavailable)
  | .notYet =>
    if s.undecryptable + 1 > maxUndecryptablePackets then (s, .drop .dosPrevention)
    else ({ s with undecryptable := s.undecryptable + 1 }, .buffer)
  | .avail =>
    if ¬ p.hdrOK then (s, .drop .headerParseError)
    else if ¬ p.opens then (s, .drop .payloadDecryptError)
    else if p.duplicate then (s, .drop .duplicate)
    else ((if long then firstPacket s p else s), if p.fatal then .processFatal else .process)

/-- `handleLongHeaderPacket` -/
def handleLong (s : GateState) (p : PacketSummary) : GateState × Action :=
  if p.kind = .retry then handleRetry s p
  else if s.receivedFirstPacket ∧ p.kind = .initial ∧ p.srcConnID ≠ s.handshakeDestConnID then
    (s, .drop .unknownConnectionID)
  else if s.perspective = .client ∧ p.kind = .zeroRTT then (s, .drop .unexpectedPacket)
  else unpack s p true

/-- the checks of `handleOnePacket` on a long-header part that `break` out of its loop -/
def preCheck (s : GateState) (p : PacketSummary) : Option Reason :=
  if p.parse = .headerErr then some .headerParseError
  else if p.parse = .unsupportedVersion then some .unsupportedVersion
  else if p.version ≠ s.version then some .unexpectedVersion
  else none

/-- a long-header part: the parse/version checks of `handleOnePacket`, then `handleLongHeaderPacket` -/
def gateLong (s : GateState) (p : PacketSummary) : GateState × Action :=
  match preCheck s p with
  | some r => (s, .drop r)
  | none => handleLong s p

/-- one packet: the body of the loop in `handleOnePacket` (the coalescing checks are in `gateParts`).
Not modelled: the stateless-reset test on undecryptable short-header packets (C17). -/
def gate (s : GateState) (p : PacketSummary) : GateState × Action :=
  match p.kind with
  | .vn => handleVN s p
  | .short => unpack s p false
  | _ => gateLong s p

/-- does the loop of `handleOnePacket` end after this part: a Version Negotiation packet is the whole
datagram, a short-header packet is always last, the parse/version checks `break`, an error returns -/
def stopsAfter (s : GateState) (p : PacketSummary) (a : Action) : Bool :=
  p.kind = .vn || p.kind = .short || (preCheck s p).isSome || a = .processFatal

/-- the loop of `handleOnePacket`: `last` is the destination connection ID of the previous part -/
def gateParts (s : GateState) (last : Option CID) : List PacketSummary → GateState × List Action
  | [] => (s, [])
  | p :: rest =>
    -- counter > 0: the destination connection ID must parse and equal the previous part's
    if last.isSome ∧ ¬ p.destConnIDParseOK then (s, .drop .headerParseError :: rest.map fun _ => .notReached)
    else if last.isSome ∧ last ≠ some p.destConnID then (s, .drop .unknownConnectionID :: rest.map fun _ => .notReached)
    else
      let r := gate s p
      if stopsAfter s p r.2 then (r.1, r.2 :: rest.map fun _ => .notReached)
      else
        let t := gateParts r.1 (some p.destConnID) rest
        (t.1, r.2 :: t.2)

/-- `handleOnePacket` on one datagram whose parts are `ps` -/
def gateDatagram (s : GateState) (ps : List PacketSummary) : GateState × List Action :=
  gateParts s none ps

/-- run a sequence of single packets (each its own datagram) -/
def runPackets (s : GateState) : List PacketSummary → GateState × List Action
  | [] => (s, [])
  | p :: ps =>
    let r := gate s p
    let t := runPackets r.1 ps
    (t.1, r.2 :: t.2)

/-- run a sequence of datagrams; the actions of all parts in order -/
def runDatagrams (s : GateState) : List (List PacketSummary) → GateState × List Action
  | [] => (s, [])
  | d :: ds =>
    let r := gateDatagram s d
    let t := runDatagrams r.1 ds
    (t.1, r.2 ++ t.2)

end Uquic.Model.Handshake
