/-
Memory model of what a dial does with the caller's `QUICSpec` transport parameters (property C13, "client and server
… agreeing on … authenticated connection IDs" for EVERY connection made from one spec value: the connection
re-created after Version Negotiation, the next Dial on the transport).

`tls.TransportParameters` is a Go slice of parameter values; the spec's slice is memory the CALLER owns and every
connection made from the spec reads.  Setting up a connection writes to the slice it works on — in place:

* `SuppressQUICTransportParameters`  compacts the kept parameters to the front (`kept := tp[:0]; kept = append(kept, …)`),
* `ShuffleQUICTransportParameters`   swaps elements,
* `PopulateFromUQUIC`                stores the connection's own source connection ID into an EMPTY
                                     `initial_source_connection_id` placeholder (`quicparams[pIdx] = …`); a non-empty
                                     one is taken as given by the user and advertised as is.

So which array a dial works on decides whether connection 2 advertises connection 1's ID.  Slices are windows
`[0, len)` on the backing arrays of a heap; `cloneFresh` is `cloneClientHelloSpecForDial`'s
`append(tls.TransportParameters(nil), ext.TransportParameters...)`; `cloneShared` (the slice header copied, the
array shared) is kept only as the negative witness of `Props.C13Reset`.  Core-only.
-/
import Uquic.Model.Handshake.Auth

namespace Uquic.Model.Handshake.SpecHeap

/-- a transport parameter value as far as a dial looks at it -/
structure Param where
  id : Nat
  val : List Nat
deriving DecidableEq, Repr

/-- `initialSourceConnectionIDParameterID` -/
def iscID : Nat := 0x0f

abbrev Heap := List (List Param)

/-- a slice: the first `len` elements of backing array `arr` (the rest of the array is its spare capacity) -/
structure Slice where
  arr : Nat
  len : Nat
deriving DecidableEq, Repr

def readArr (h : Heap) (a : Nat) : List Param := h.getD a []

def view (h : Heap) (s : Slice) : List Param := (readArr h s.arr).take s.len

/-- write `new` over the front of an array (in place: what lies behind keeps its old value) -/
def writePrefix (old new : List Param) : List Param := new ++ old.drop new.length

/-- `append(tls.TransportParameters(nil), s...)`: a fresh array holding the elements of `s` -/
def cloneFresh (h : Heap) (s : Slice) : Heap × Slice := (h ++ [view h s], { arr := h.length, len := s.len })

/-- NOT the code: the slice header copied, the backing array shared (negative witness only) -/
def cloneShared (h : Heap) (s : Slice) : Heap × Slice := (h, s)

/-- `SuppressQUICTransportParameters` on values (GREASE canonicalisation is C11's subject) -/
def suppress (ps : List Param) (ids : List Nat) : List Param := ps.filter (fun p => !ids.contains p.id)

/-- `PopulateFromUQUIC` on values: an empty placeholder receives the connection's own ID -/
def populate (ps : List Param) (scid : List Nat) : List Param :=
  ps.map fun p => if p.id = iscID ∧ p.val = [] then { p with val := scid } else p

/-- the `initial_source_connection_id` the ClientHello carries (the last one listed wins in the marshalled bytes'
reader; a spec lists at most one): `none` if the spec lists none -/
def advertised (ps : List Param) : Option (List Nat) := (ps.find? (·.id = iscID)).map (·.val)

/-- one connection's inputs: its own source connection ID, the spec's suppress list, the shuffle it drew (any function
that permutes: only `length` preservation is used) -/
structure Conn where
  scid : List Nat
  suppressIDs : List Nat := []

/-- the in-place rewrites of connection setup on the slice it works on -/
def setup (h : Heap) (s : Slice) (c : Conn) : Heap × List Param :=
  (h.set s.arr (writePrefix (readArr h s.arr) (populate (suppress (view h s) c.suppressIDs) c.scid)),
   populate (suppress (view h s) c.suppressIDs) c.scid)

/-- a dial: copy the spec's slice with `clone`, set the connection up on the copy; returns the heap and the
transport parameters this connection puts into its ClientHello -/
def dial (clone : Heap → Slice → Heap × Slice) (spec : Slice) (h : Heap) (c : Conn) : Heap × List Param :=
  setup (clone h spec).1 (clone h spec).2 c

/-- successive dials with ONE spec value; the parameters each connection sent, in order -/
def dials (clone : Heap → Slice → Heap × Slice) (spec : Slice) : Heap → List Conn → Heap × List (List Param)
  | h, [] => (h, [])
  | h, c :: cs => ((dials clone spec (dial clone spec h c).1 cs).1, (dial clone spec h c).2 :: (dials clone spec (dial clone spec h c).1 cs).2)

/-- what the SERVER's `checkTransportParameters` answers for a connection whose packets carry source connection ID
`scid` and whose ClientHello advertises `ps` -/
def serverCheck (scid : List Nat) (ps : List Param) : Option AuthError :=
  match advertised ps with
  | none => some .initialSourceConnectionID      -- a missing parameter reads as the empty ID; scid ≠ [] in the theorems
  | some v => checkTransportParameters
      { perspective := .server, version := 1, supported := [], receivedFirstPacket := true, receivedRetry := false,
        versionNegotiated := false, handshakeDestConnID := scid, origDestConnID := [], retrySrcConnID := none,
        destConnID := scid, undecryptable := 0 }
      { initialSourceConnectionID := v }

end Uquic.Model.Handshake.SpecHeap
