/-
Step model of what `Transport.doDial` / `UTransport.doDial` do once the dial context is cancelled (property
C13, "Dial never hangs"), and of the goroutine that runs the connection:

    go func() { err := conn.run()
                if errors.As(err, &recreateErr) { recreateChan <- *recreateErr; return }
                errChan <- err }()
    select {
    case <-ctx.Done():
        conn.destroy(nil)                 // ask the run loop to stop, wait for the connection's context
        select { case <-errChan: case <-recreateChan: }   // wait for the goroutine
        return nil, context.Cause(ctx)
    …

The run loop may end in two ways — with an ordinary error, or with errCloseForRecreating when it was acting on
a Version Negotiation packet at that very moment — and reports on a different (buffered) channel in each case.
Which channels the cancelled dial listens on is regenerated from the source
(`Uquic.Gen.Gate.cancelWaitTransport` / `cancelWaitUTransport`).
-/
import Uquic.Generated.Gate

namespace Uquic.Model.Handshake.DialCancel

/-- how `Conn.run` ended -/
inductive RunEnd | error | recreate
deriving DecidableEq, Repr

def RunEnd.chan : RunEnd → String
  | .error => "errChan"
  | .recreate => "recreateChan"

inductive Pc | destroying | waiting | returned
deriving DecidableEq, Repr

structure St where
  pc : Pc := .destroying
  /-- `Conn.run` returned (the connection's context is done) -/
  runEnded : Option RunEnd := none
  /-- the goroutine's send happened (both channels have capacity 1: the send never blocks) -/
  signalled : Bool := false
deriving DecidableEq, Repr

inductive Ev
  | runReturns (e : RunEnd)   -- the run loop ends (it was asked to by conn.destroy, or it was ending anyway)
  | goroutineSignals          -- errChan <- err  /  recreateChan <- *recreateErr
  | dialStep                  -- the cancelled doDial makes progress if it can
deriving DecidableEq, Repr

/-- `waits`: the channels the inner wait receives from -/
def step (waits : List String) (s : St) : Ev → St
  | .runReturns e => if s.runEnded.isNone then { s with runEnded := some e } else s
  | .goroutineSignals => if s.runEnded.isSome then { s with signalled := true } else s
  | .dialStep =>
    match s.pc with
    | .destroying => if s.runEnded.isSome then { s with pc := .waiting } else s
    | .waiting =>
      match s.runEnded with
      | some e => if s.signalled && waits.contains e.chan then { s with pc := .returned } else s
      | none => s
    | .returned => s

def run (waits : List String) (s : St) : List Ev → St
  | [] => s
  | e :: es => run waits (step waits s e) es

/-- the channels the real code waits on (`spec`: UTransport.doDial) -/
def waitsOf (spec : Bool) : List String :=
  if spec then Uquic.Gen.Gate.cancelWaitUTransport else Uquic.Gen.Gate.cancelWaitTransport

end Uquic.Model.Handshake.DialCancel
