/-
Model of connection.go `checkTransportParameters` / the error wrapping of `handleTransportParameters`
(property C13, authentication of connection IDs, RFC 9000 §7.3).
-/
import Uquic.Model.Handshake.Gate

namespace Uquic.Model.Handshake

/-- the three connection-ID transport parameters as received from the peer -/
structure CIDParams where
  initialSourceConnectionID : CID
  /-- only ever sent by a server; the client's own parameters leave it empty -/
  originalDestinationConnectionID : CID := []
  retrySourceConnectionID : Option CID := none
deriving DecidableEq, Repr

/-- which check of `checkTransportParameters` failed (each is wrapped as TRANSPORT_PARAMETER_ERROR) -/
inductive AuthError
  | initialSourceConnectionID
  | originalDestinationConnectionID
  | missingRetrySourceConnectionID
  | wrongRetrySourceConnectionID
  | unexpectedRetrySourceConnectionID
deriving DecidableEq, Repr

/-- `checkTransportParameters`: `none` = accepted -/
def checkTransportParameters (s : GateState) (p : CIDParams) : Option AuthError :=
  if p.initialSourceConnectionID ≠ s.handshakeDestConnID then some .initialSourceConnectionID
  else if s.perspective = .server then none
  else if p.originalDestinationConnectionID ≠ s.origDestConnID then some .originalDestinationConnectionID
  else
    match s.retrySrcConnID, p.retrySourceConnectionID with
    | some _, none => some .missingRetrySourceConnectionID
    | some r, some r' => if r' ≠ r then some .wrongRetrySourceConnectionID else none
    | none, some _ => some .unexpectedRetrySourceConnectionID
    | none, none => none

/-- the transport error code `handleTransportParameters` closes the connection with -/
inductive ParamOutcome | accepted | transportParameterError
deriving DecidableEq, Repr

def handleTransportParameters (s : GateState) (p : CIDParams) : ParamOutcome :=
  match checkTransportParameters s p with
  | none => .accepted
  | some _ => .transportParameterError

end Uquic.Model.Handshake
