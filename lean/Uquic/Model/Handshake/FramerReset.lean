/-
Model of the framer's bookkeeping (framer.go) as far as a 0-RTT rejection concerns it (property C13, "0-RTT data
is delivered … never if rejected" and what the application re-sends afterwards must go out):

* `addActive`            `AddActiveStream`: a stream that has data registers itself; it is queued iff it was not
                         registered already;
* `removeActive`         `RemoveActiveStream` (the queue keeps the id: it is skipped when it comes up);
* `addCtrl`              `AddStreamWithControlFrames`;
* `queueControl`         `QueueControlFrame` (PATH_RESPONSE frames and the queue limit are not part of this model);
* `appendStreams`        the STREAM-frame loop of `Append` with room for everything: every id that was queued when
                         the call started comes up once, `getNextStreamFrame` asks the stream registered under it;
* `appendControl`        `appendControlFrames` with room for everything: every stream with control frames is emptied
                         (map order: the oracle sorts), then the control-frame queue from its END;
* `handle0RTTRejection`  `Handle0RTTRejection`: queue and registry emptied, flow-control frames dropped; whether the
                         streams that announced control frames (`streamsWithControlFrames`) are forgotten too is READ
                         FROM THE SOURCE (`Gen.FramerReject.handle0RTTRejectionClearsStreamControl`): the handler of
                         the repaired code empties that map, the older one leaves it alone
                         (`handle0RTTRejectionWith true` / `false`).

A stream is represented by its id; `pend id` says how many STREAM frames the stream registered under that id still
has (a stream closed by the rejection has none; the stream the application opens afterwards under the same id starts
with what it is given).  Core-only.
-/
import Uquic.Generated.FramerReject

namespace Uquic.Model.Handshake.FramerReset

/-- control frames as far as `Handle0RTTRejection` tells them apart -/
inductive Ctl
  | maxData | maxStreamData | maxStreams | dataBlocked | streamDataBlocked | streamsBlocked
  | newToken | stopSending | retireConnectionID | ping
deriving DecidableEq, Repr

/-- the frame types `Handle0RTTRejection` removes: their values refer to the rejected 0-RTT limits -/
def Ctl.flowControl : Ctl → Bool
  | .maxData | .maxStreamData | .maxStreams | .dataBlocked | .streamDataBlocked | .streamsBlocked => true
  | _ => false

structure Framer where
  /-- keys of `activeStreams` (a Go map: a set of ids) -/
  active : List Nat := []
  /-- `streamQueue`, front first -/
  queue : List Nat := []
  /-- keys of `streamsWithControlFrames` -/
  ctrl : List Nat := []
  /-- `controlFrames` with a tag per frame (the driver's sequence number), in queue order -/
  frames : List (Ctl × Nat) := []
deriving DecidableEq, Repr

def addActive (f : Framer) (id : Nat) : Framer :=
  if id ∈ f.active then f else { f with queue := f.queue ++ [id], active := f.active ++ [id] }

def removeActive (f : Framer) (id : Nat) : Framer := { f with active := f.active.filter (· != id) }

def addCtrl (f : Framer) (id : Nat) : Framer :=
  if id ∈ f.ctrl then f else { f with ctrl := f.ctrl ++ [id] }

def queueControl (f : Framer) (c : Ctl) (tag : Nat) : Framer := { f with frames := f.frames ++ [(c, tag)] }

/-- `Handle0RTTRejection` for either shape of the source: `clearsCtrl` = the handler also empties
`streamsWithControlFrames` -/
def handle0RTTRejectionWith (clearsCtrl : Bool) (f : Framer) : Framer :=
  { f with queue := [], active := [], ctrl := if clearsCtrl then [] else f.ctrl, frames := f.frames.filter (fun c => !c.1.flowControl) }

/-- `Handle0RTTRejection` as the checked-out source has it -/
def handle0RTTRejection (f : Framer) : Framer :=
  handle0RTTRejectionWith Uquic.Gen.FramerReject.handle0RTTRejectionClearsStreamControl f

/-- NOT the code: the rejection handler that empties the neighbouring map INSTEAD of `activeStreams` (negative
witness only) -/
def handle0RTTRejectionWrongMap (f : Framer) : Framer :=
  { f with queue := [], ctrl := [], frames := f.frames.filter (fun c => !c.1.flowControl) }

/-- loop state of the STREAM-frame part of `Append` -/
structure Loop where
  active : List Nat
  /-- ids pushed back behind the ones that were queued when the call started -/
  back : List Nat := []
  /-- frames left per stream -/
  pend : Nat → Nat
  /-- the stream id of every STREAM frame appended, in order -/
  out : List Nat := []

def setPend (pend : Nat → Nat) (id n : Nat) : Nat → Nat := fun o => if o = id then n else pend o

/-- `getNextStreamFrame` for the id at the front of the queue -/
def loopStep (l : Loop) (id : Nat) : Loop :=
  if id ∈ l.active then
    if l.pend id = 0 then
      { l with active := l.active.filter (· != id) }    -- no frame, no more data: not active any more
    else if l.pend id = 1 then
      { l with active := l.active.filter (· != id), pend := setPend l.pend id 0, out := l.out ++ [id] }
    else
      { l with back := l.back ++ [id], pend := setPend l.pend id (l.pend id - 1), out := l.out ++ [id] }
  else l                                                 -- removed after it was queued

def runLoop (f : Framer) (pend : Nat → Nat) : Loop :=
  f.queue.foldl loopStep { active := f.active, pend := pend }

/-- the STREAM-frame loop of `Append` (room for every frame) -/
def appendStreams (f : Framer) (pend : Nat → Nat) : Framer × (Nat → Nat) × List Nat :=
  ({ f with active := (runLoop f pend).active, queue := (runLoop f pend).back }, (runLoop f pend).pend, (runLoop f pend).out)

/-- `appendControlFrames` (room for everything): per stream with control frames all of its frames, then the queue
from its end.  `cpend id` = control frames the stream has. -/
def appendControl (f : Framer) (cpend : Nat → Nat) : Framer × List Nat × List (Ctl × Nat) :=
  ({ f with ctrl := [], frames := [] },
   f.ctrl.flatMap (fun id => List.replicate (cpend id) id),
   f.frames.reverse)

end Uquic.Model.Handshake.FramerReset
