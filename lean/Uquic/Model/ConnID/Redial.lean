/-
Model of a client transport that is dialled on again and again (property C16; Transport.doDial / UTransport.doDial,
transport.go / u_transport.go): every dial creates a connection and registers its source connection ID in the
transport's handler map with `t.handlers[srcConnID] = conn` - UNCONDITIONALLY, under the transport's mutex. With
zero-length connection IDs (`ConnectionIDGenerator` of length 0; a QUICSpec with SrcConnIDLength 0, e.g. every Chrome
spec) every connection of the transport has the same, empty, ID: when the previous connection was closed a moment
ago (by the application, by the peer, or because a Version Negotiation packet made Dial start over), that ID is still
held by the previous connection's closed stand-in, whose expiry timer is still pending.

State: the `Routing` table, the number of the newest connection and whether it is still open.
-/
import Uquic.Model.ConnID.Routing

namespace Uquic.Model.ConnID

inductive DOp where
  /-- `doDial`: a new connection with this source connection ID -/
  | dial (id : Bytes)
  /-- the newest connection closes: `ReplaceWithClosed(ids, …, expiry)` (`localClose`: a CONNECTION_CLOSE was sent) -/
  | close (localClose : Bool) (expiry : Int)
  /-- the newest connection is destroyed (`RemoveAll`) -/
  | destroy
  /-- time passes -/
  | wait (d : Int)
deriving Repr, DecidableEq

structure DialSys where
  r : Routing := {}
  /-- number of connections dialled so far; the newest is `n` (none yet: 0) -/
  n : Nat := 0
  /-- the newest connection's ID while it is open -/
  cur : Option Bytes := none
deriving Repr, DecidableEq

/-- how a dial registers the ID: `install` (the code: plain assignment) or `add` (`packetHandlerMap.Add`, which refuses
    an ID that is in the table already) -/
def DialSys.step (viaAdd : Bool) (s : DialSys) : DOp → DialSys
  | .dial id =>
    let n := s.n + 1
    let r := if viaAdd then
        (match lookupH id s.r.handlers with
         | some _ => s.r
         | none => { s.r with handlers := s.r.handlers ++ [(id, .conn n)] })
      else s.r.install id n
    { r := r, n := n, cur := some id }
  | .close l e =>
    match s.cur with
    | some id => { s with r := s.r.replaceWithClosed [id] l e, cur := none }
    | none => s
  | .destroy =>
    match s.cur with
    | some id => { s with r := s.r.remove id, cur := none }
    | none => s
  | .wait d => { s with r := s.r.advance d }

def DialSys.run (viaAdd : Bool) (s : DialSys) : List DOp → DialSys
  | [] => s
  | op :: ops => DialSys.run viaAdd (s.step viaAdd op) ops

def kindOf (h : Option Handler) (n : Nat) : String :=
  match h with
  | none => "none"
  | some (.conn c) => if c == n then "conn" else "conn-old"
  | some (.closedLocal _) => "local"
  | some .closedRemote => "remote"

/-- the end-to-end scenario of driver cide2e: dial, the first connection ends (`endOp`: closed by either side with
    closing period `expiry`, or destroyed because the application cancelled the dial), `gap` later dial again, `hold`
    later look again. Result: how many entries route to a live connection when the second dial begins; who the second
    connection's ID is routed to right after the second dial, and `hold` later. -/
def redialScenario (zeroLen : Bool) (endOp : DOp) (gap hold : Int) : Nat × String × String :=
  let id1 : Bytes := if zeroLen then [] else [1]
  let id2 : Bytes := if zeroLen then [] else [2]
  let s0 := DialSys.run false {} [.dial id1, endOp, .wait gap]
  let live := (s0.r.handlers.filter fun kv => match kv.2 with | .conn _ => true | _ => false).length
  let s := s0.step false (.dial id2)
  let s' := s.step false (.wait hold)
  (live, kindOf (lookupH id2 s.r.handlers) s.n, kindOf (lookupH id2 s'.r.handlers) s'.n)

end Uquic.Model.ConnID
