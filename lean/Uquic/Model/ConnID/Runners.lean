/-
Model of the glue between ONE connection ID generator and SEVERAL transports (property C16).

A client connection that probes or migrates to another path is registered with more than one
`Transport`: `Conn.AddPath` (connection.go) hands `connIDGenerator.AddConnRunner` the new transport's
`packetHandlerMap` with the same three callbacks the first transport got.  From then on
`connRunners.AddConnectionID / RemoveConnectionID / ReplaceWithClosed` (conn_id_generator.go) fan every
callback out to EVERY registered runner.

* `Runner`      one transport of the application: is it in `connRunners`, and its routing table (`Routing`).
* `fanG`        fan-out of AddConnectionID / RemoveConnectionID.
* `addRunner`   `AddConnRunner`: nothing if the transport is registered already; otherwise it is registered and
                gets the client's original destination ID (server side) and every ACTIVE connection ID — not the
                retired ones that still wait for their expiry.
* `fanReplace`  `connRunners.ReplaceWithClosed`: ONE slice (`connIDs`, built by `connIDGenerator.ReplaceWithClosed`)
                is handed to every runner, and every runner keeps it for its expiry timer (`time.AfterFunc`).  The
                slice is modelled as what it is, a window on a shared backing array: a runner gets the current
                contents, returns the contents it leaves behind and the length of the window it keeps; its timer reads
                that window when it FIRES, i.e. after every other runner has been handed the same array.
                `ReplaceImpl.faithful` is transport.go as it is (reads only).  `ReplaceImpl.compacting` is the
                tempting rewrite "keep only the IDs this transport routes, filtering in place (`ids[:0]`)"; it exists
                so that the theorems can be shown to tell the two apart (Props.C16Runners.compacting_rewrite_leaks).

Go iterates over the `connRunners` map in random order; the model fans out in list order.  For the faithful
implementation the order is irrelevant (Proofs.ConnIDRunners.fanReplace_faithful: the fan-out is a pointwise map).
-/
import Uquic.Model.ConnID.Routing

namespace Uquic.Model.ConnID

/-- one transport of the application, as far as the connection under study is concerned -/
structure Runner where
  /-- member of `connIDGenerator.connRunners` -/
  registered : Bool := false
  table : Routing := {}
deriving Repr, DecidableEq

/-- `connRunners.AddConnectionID` / `RemoveConnectionID`: every registered runner gets the callback -/
def fanG (ev : GEv) (rs : List Runner) : List Runner :=
  rs.map fun r => if r.registered then { r with table := r.table.applyG ev } else r

def fanAll (evs : List GEv) (rs : List Runner) : List Runner := evs.foldl (fun rs ev => fanG ev rs) rs

/-- the IDs `AddConnRunner` copies to a new runner -/
def Generator.currentIDs (g : Generator) : List Bytes := g.initialClientDest.toList ++ g.active.map (·.2)

/-- `AddConnRunner` for one runner -/
def Runner.enable (g : Generator) (r : Runner) : Runner :=
  if r.registered then r
  else { registered := true, table := g.currentIDs.foldl Routing.add r.table }

def modifyAt {α} (f : α → α) : Nat → List α → List α
  | _, [] => []
  | 0, x :: xs => f x :: xs
  | n + 1, x :: xs => x :: modifyAt f n xs

/-- `AddConnRunner(transport k, …)` -/
def addRunner (g : Generator) (k : Nat) (rs : List Runner) : List Runner := modifyAt (Runner.enable g) k rs

inductive ReplaceImpl where
  /-- transport.go as it is: the slice is only read, and kept for the timer -/
  | faithful
  /-- "only take over the IDs this transport routes", compacted in place into the caller's slice -/
  | compacting
deriving Repr, DecidableEq

/-- what one `packetHandlerMap.ReplaceWithClosed` does with the caller's slice: the contents of the backing array
    afterwards, and the length of the window (from index 0) it installs stand-ins for and keeps for its timer -/
def replaceWindow (impl : ReplaceImpl) (r : Routing) (shared : List Bytes) : List Bytes × Nat :=
  match impl with
  | .faithful => (shared, shared.length)
  | .compacting =>
    let routed := shared.filter fun id => (lookupH id r.handlers).isSome
    (routed ++ shared.drop routed.length, routed.length)

/-- `ReplaceWithClosed` of one handler map when the slice it keeps may change under its feet:
    stand-ins are installed for `installed` (the window as it reads now), the timer will remove `atExpiry`
    (the window as it reads when the timer fires) -/
def Routing.replaceAliased (r : Routing) (installed atExpiry : List Bytes) (localClose : Bool) (expiry : Int) : Routing :=
  let h : Handler := if localClose then .closedLocal r.counters.length else .closedRemote
  { r with handlers := installed.foldl (fun hs id => setH id h hs) r.handlers,
           counters := if localClose then r.counters ++ [0] else r.counters,
           timers := r.timers ++ [(r.now + expiry, atExpiry, h)] }

/-- `connRunners.ReplaceWithClosed(ids, …)`: the same backing array goes through every registered runner.
    Result: the final contents of the array, and the runners. -/
def fanReplace (impl : ReplaceImpl) (localClose : Bool) (expiry : Int) : List Bytes → List Runner → List Bytes × List Runner
  | shared, [] => (shared, [])
  | shared, r :: rs =>
    if r.registered then
      let w := replaceWindow impl r.table shared
      let rest := fanReplace impl localClose expiry w.1 rs
      (rest.1, { r with table := r.table.replaceAliased (w.1.take w.2) (rest.1.take w.2) localClose expiry } :: rest.2)
    else
      let rest := fanReplace impl localClose expiry shared rs
      (rest.1, r :: rest.2)

/-- fake time passes on every transport -/
def advanceAll (d : Int) (rs : List Runner) : List Runner := rs.map fun r => { r with table := r.table.advance d }

/-- the connection's generator and every transport of the application -/
structure MSys where
  g : Generator
  runners : List Runner
deriving Repr, DecidableEq

/-- connection setup: the generator is registered with transport 0 (which routes the handshake connection ID and, on
    the server, the client's original destination connection ID); `n` more transports exist -/
def MSys.new (idLen : Nat) (initial : Bytes) (cd : Option Bytes) (n : Nat) : MSys :=
  { g := Generator.new idLen initial cd,
    runners := { registered := true, table := (initial :: cd.toList).foldl Routing.add {} } :: List.replicate n {} }

inductive MOp where
  | gen (op : GOp)
  | addRunner (k : Nat)
  | tick (d : Int)
deriving Repr, DecidableEq

def MSys.step (mk : Nat → Bytes) (s : MSys) : MOp → MSys
  | .gen op => let r := s.g.step mk op; { g := r.1, runners := fanAll r.2.1 s.runners }
  | .addRunner k => { s with runners := addRunner s.g k s.runners }
  | .tick d => { s with runners := advanceAll d s.runners }

def MSys.run (mk : Nat → Bytes) (s : MSys) (ops : List MOp) : MSys := ops.foldl (MSys.step mk) s

/-- `connIDGenerator.RemoveAll` (immediate close) -/
def MSys.removeAll (s : MSys) : List Runner := fanAll s.g.removeAll s.runners

/-- `connIDGenerator.ReplaceWithClosed` (close with a closing / draining period): builds the list once, fans it out.
    `.1` = the list as the timers will read it. -/
def MSys.replaceWithClosed (impl : ReplaceImpl) (s : MSys) (localClose : Bool) (expiry : Int) : List Bytes × List Runner :=
  fanReplace impl localClose expiry s.g.allIDs s.runners

end Uquic.Model.ConnID
