/-
Model of path_manager.go (`pathManager`, the server-side path probing glue around
`connIDManager.GetConnIDForPath` / `RetireConnIDForPath`) together with the
connection ID manager model it calls into.

Addresses are numbers, times are `Int` nanoseconds. The random PATH_CHALLENGE
data of a path is identified with the path's id (it is unique per path unless
`crypto/rand` repeats an 8-byte value).
-/
import Uquic.Generated.ConnID
import Uquic.Model.ConnID.Manager

namespace Uquic.Model.ConnID

def maxPaths : Nat := Uquic.Gen.ConnID.maxPaths.toNat
def pathTimeout : Int := Uquic.Gen.ConnID.pathTimeout

structure PPath where
  id : Nat
  addr : Nat
  lastT : Int
  validated : Bool := false
  rcvdNonProbing : Bool := false
deriving Repr, DecidableEq

structure PathManager where
  nextID : Nat := 0
  /-- ordered by last packet time, most recently used last -/
  paths : List PPath := []
deriving Repr, DecidableEq

/-- what `HandlePacket` returns -/
structure HPOut where
  /-- destination connection ID for the probe packet (`none`: `ConnectionID{}` and no frames) -/
  connID : Option Bytes := none
  /-- PATH_CHALLENGE for this (new) path id -/
  challenge : Option Nat := none
  /-- PATH_RESPONSE echoing the received PATH_CHALLENGE -/
  response : Bool := false
  shouldSwitch : Bool := false
deriving Repr, DecidableEq

/-- first part of `HandlePacket`: the loop over the known paths. A path with this address is refreshed and moved to the
    end of the list. Returns the refreshed path (if any). -/
def touchPath (pm : PathManager) (addr : Nat) (t : Int) (isNonProbing : Bool) : PathManager × Option PPath :=
  match pm.paths.find? (fun p => p.addr == addr) with
  | some p =>
    let p' : PPath := { p with lastT := t, rcvdNonProbing := p.rcvdNonProbing || isNonProbing }
    ({ pm with paths := pm.paths.filter (fun q => q.id ≠ p.id) ++ [p'] }, some p')
  | none => (pm, none)

/-- second part: with `maxPaths` paths known, either give up (`none`: the oldest path is not silent for `pathTimeout`
    yet) or evict the oldest path and retire its connection ID -/
def makeRoom (pm : PathManager) (m : Manager) (t : Int) : Option (PathManager × Manager × List Ev × Res) :=
  if pm.paths.length ≥ maxPaths then
    match pm.paths with
    | q :: rest =>
      if q.lastT + pathTimeout > t then none
      else
        let r := m.retireConnIDForPath q.id
        if r.2.2 == .panic then some (pm, r.1, r.2.1, .panic)      -- the retire callback comes before `pm.paths = pm.paths[1:]`
        else some ({ pm with paths := rest }, r.1, r.2.1, .ok)
    | [] => some (pm, m, [], .ok)
  else some (pm, m, [], .ok)

/-- third part: get a connection ID for the path and build the frames -/
def probePath (pm : PathManager) (m : Manager) (p' : Option PPath) (addr : Nat) (t : Int) (hasChallenge isNonProbing : Bool)
    (shouldSwitch : Bool) : PathManager × Manager × List Ev × HPOut × Res :=
  let pathID : Nat := match p' with | some p => p.id | none => pm.nextID
  let g := m.getConnIDForPath pathID
  if g.2.2.2 == .panic then (pm, g.1, g.2.1, { shouldSwitch := shouldSwitch }, .panic)
  else match g.2.2.1 with
    | none => (pm, g.1, g.2.1, { shouldSwitch := shouldSwitch }, .ok)
    | some cid =>
      let pm3 : PathManager := match p' with
        | some _ => pm
        | none => { nextID := pm.nextID + 1,
                    paths := pm.paths ++ [{ id := pm.nextID, addr := addr, lastT := t, rcvdNonProbing := isNonProbing }] }
      (pm3, g.1, g.2.1,
       { connID := some cid, challenge := (match p' with | some _ => none | none => some pm.nextID),
         response := hasChallenge, shouldSwitch := shouldSwitch }, .ok)

/-- `HandlePacket` -/
def handlePacket (pm : PathManager) (m : Manager) (addr : Nat) (t : Int) (hasChallenge isNonProbing : Bool) :
    PathManager × Manager × List Ev × HPOut × Res :=
  let tp := touchPath pm addr t isNonProbing
  let shouldSwitch : Bool := match tp.2 with | some p => p.validated && p.rcvdNonProbing | none => false
  if tp.2.isSome && !hasChallenge then (tp.1, m, [], { shouldSwitch := shouldSwitch }, .ok)
  else match makeRoom tp.1 m t with
    | none => (tp.1, m, [], { shouldSwitch := shouldSwitch }, .ok)
    | some (pm2, m2, ev, res) =>
      if res == .panic then (pm2, m2, ev, { shouldSwitch := shouldSwitch }, .panic)
      else
        let r := probePath pm2 m2 tp.2 addr t hasChallenge isNonProbing shouldSwitch
        (r.1, r.2.1, ev ++ r.2.2.1, r.2.2.2.1, r.2.2.2.2)

/-- `HandlePathResponseFrame` with the PATH_CHALLENGE data of path `pid` -/
def handlePathResponse (pm : PathManager) (pid : Nat) : PathManager :=
  { pm with paths := pm.paths.map fun p => if p.id = pid then { p with validated := true } else p }

/-- `pathManagerAckHandler.OnLost` for the PATH_CHALLENGE of path `pid`: the path is dropped and its connection ID retired -/
def onLost (pm : PathManager) (m : Manager) (pid : Nat) : PathManager × Manager × List Ev × Res :=
  if pm.paths.any (fun p => p.id == pid) then
    let r := m.retireConnIDForPath pid
    ({ pm with paths := pm.paths.filter fun p => p.id ≠ pid }, r.1, r.2.1, r.2.2)
  else (pm, m, [], .ok)

/-- the loop of `SwitchToPath`: retire the connection IDs of all other paths (stops at a panic) -/
def retireOthers (addr : Nat) : List PPath → Manager → Manager × List Ev × Res
  | [], m => (m, [], .ok)
  | p :: rest, m =>
    if p.addr == addr then retireOthers addr rest m
    else
      let r := m.retireConnIDForPath p.id
      if r.2.2 == .panic then (r.1, r.2.1, .panic)
      else
        let r2 := retireOthers addr rest r.1
        (r2.1, r.2.1 ++ r2.2.1, r2.2.2)

/-- `SwitchToPath` -/
def switchToPath (pm : PathManager) (m : Manager) (addr : Nat) : PathManager × Manager × List Ev × Res :=
  let r := retireOthers addr pm.paths m
  if r.2.2 == .panic then (pm, r.1, r.2.1, .panic)
  else ({ pm with paths := [] }, r.1, r.2.1, .ok)

end Uquic.Model.ConnID
