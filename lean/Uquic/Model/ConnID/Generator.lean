/-
Model of conn_id_generator.go (`connIDGenerator`, property C16): the connection
IDs *we* issued to the peer, their retirement and the routing callbacks
(`connRunnerCallbacks`) that keep the transport's packet handler map in step.

Time is `Int` nanoseconds (`monotime.Time`); `t.After(u)` is `t > u`.
The application's `ConnectionIDGenerator` is the parameter `mk : Nat → Bytes`
(the k-th call returns `mk k`); it is assumed not to fail.
The Go map `activeSrcConnIDs` is an association list in issue order; callbacks
that come out of an iteration over it are canonicalised (sorted) by the driver.
-/
import Uquic.Generated.Protocol
import Uquic.Model.ConnID.Manager

namespace Uquic.Model.ConnID

def maxIssuedConnectionIDs : Nat := Uquic.Gen.Protocol.MaxIssuedConnectionIDs.toNat

/-- callbacks made by the generator, in order -/
inductive GEv where
  | addRoute (id : Bytes)                                -- connRunners.AddConnectionID
  | rmRoute (id : Bytes)                                 -- connRunners.RemoveConnectionID
  | replaceClosed (ids : List Bytes) (localClose : Bool) (expiry : Int)  -- connRunners.ReplaceWithClosed
  | newFrame (seq : Nat) (id : Bytes)                    -- queueControlFrame(&NewConnectionIDFrame{…})
deriving Repr, DecidableEq

structure Generator where
  /-- `generator.ConnectionIDLen()` -/
  idLen : Nat
  highestSeq : Nat := 0
  /-- `activeSrcConnIDs` -/
  active : List (Nat × Bytes)
  /-- `connIDsToRetire`, sorted by time -/
  toRetire : List (Int × Bytes) := []
  /-- `initialClientDestConnID` (none for the client) -/
  initialClientDest : Option Bytes := none
  /-- number of calls of `GenerateConnectionID` so far -/
  generated : Nat := 0
deriving Repr, DecidableEq

def Generator.new (idLen : Nat) (initial : Bytes) (clientDest : Option Bytes) : Generator :=
  { idLen := idLen, active := [(0, initial)], initialClientDest := clientDest }

/-- `issueNewConnID` -/
def Generator.issueNewConnID (mk : Nat → Bytes) (g : Generator) : Generator × List GEv :=
  let id := mk g.generated
  ({ g with active := g.active ++ [(g.highestSeq + 1, id)], highestSeq := g.highestSeq + 1,
            generated := g.generated + 1 },
   [.addRoute id, .newFrame (g.highestSeq + 1) id])

def Generator.issueN (mk : Nat → Bytes) : Nat → Generator → Generator × List GEv
  | 0, g => (g, [])
  | n + 1, g =>
    let r := g.issueNewConnID mk
    let r2 := Generator.issueN mk n r.1
    (r2.1, r.2 ++ r2.2)

/-- `SetMaxActiveConnIDs` -/
def Generator.setMaxActiveConnIDs (mk : Nat → Bytes) (g : Generator) (limit : Nat) : Generator × List GEv :=
  if g.idLen = 0 then (g, [])
  else Generator.issueN mk (min limit maxIssuedConnectionIDs - g.active.length) g

/-- `queueConnIDForRetiring`: insert before the first element that is later than `expiry` -/
def insertRetire (t : Int) (id : Bytes) : List (Int × Bytes) → List (Int × Bytes)
  | [] => [(t, id)]
  | x :: xs => if x.1 > t then (t, id) :: x :: xs else x :: insertRetire t id xs

def lookupSeq (s : Nat) : List (Nat × Bytes) → Option Bytes
  | [] => none
  | (k, v) :: rest => if k = s then some v else lookupSeq s rest

/-- `Retire` -/
def Generator.retire (mk : Nat → Bytes) (g : Generator) (seq : Nat) (sentWithDest : Bytes) (expiry : Int) :
    Generator × List GEv × Res :=
  if seq > g.highestSeq then (g, [], .err .protocolViolation)
  else match lookupSeq seq g.active with
    | none => (g, [], .ok)                              -- duplicate frame
    | some id =>
      if id = sentWithDest then (g, [], .err .protocolViolation)
      else
        let g1 := { g with toRetire := insertRetire expiry id g.toRetire,
                           active := g.active.filter fun kv => kv.1 ≠ seq }
        if seq = 0 then (g1, [], .ok)
        else let r := g1.issueNewConnID mk; (r.1, r.2, .ok)

/-- `SetHandshakeComplete` -/
def Generator.setHandshakeComplete (g : Generator) (expiry : Int) : Generator :=
  match g.initialClientDest with
  | some id => { g with toRetire := insertRetire expiry id g.toRetire, initialClientDest := none }
  | none => g

/-- `RemoveRetiredConnIDs`: drops the prefix that is not later than `now` -/
def Generator.removeRetiredConnIDs (g : Generator) (now : Int) : Generator × List GEv :=
  ({ g with toRetire := g.toRetire.dropWhile fun c => ¬ c.1 > now },
   (g.toRetire.takeWhile fun c => ¬ c.1 > now).map fun c => GEv.rmRoute c.2)

/-- every connection ID the generator still answers for -/
def Generator.allIDs (g : Generator) : List Bytes :=
  g.initialClientDest.toList ++ g.active.map (·.2) ++ g.toRetire.map (·.2)

/-- `RemoveAll` -/
def Generator.removeAll (g : Generator) : List GEv := g.allIDs.map GEv.rmRoute

/-- `ReplaceWithClosed` -/
def Generator.replaceWithClosed (g : Generator) (localClose : Bool) (expiry : Int) : List GEv :=
  [.replaceClosed g.allIDs localClose expiry]

inductive GOp where
  | setMax (limit : Nat)
  | retire (seq : Nat) (sentWithDest : Bytes) (expiry : Int)
  | hsDone (expiry : Int)
  | removeRetired (now : Int)
deriving Repr, DecidableEq

def Generator.step (mk : Nat → Bytes) (g : Generator) : GOp → Generator × List GEv × Res
  | .setMax l => let r := g.setMaxActiveConnIDs mk l; (r.1, r.2, .ok)
  | .retire s d e => g.retire mk s d e
  | .hsDone e => (g.setHandshakeComplete e, [], .ok)
  | .removeRetired n => let r := g.removeRetiredConnIDs n; (r.1, r.2, .ok)

def Generator.run (mk : Nat → Bytes) (g : Generator) : List GOp → Generator × List GEv
  | [] => (g, [])
  | op :: ops =>
    let r := g.step mk op
    let r2 := Generator.run mk r.1 ops
    (r2.1, r.2.1 ++ r2.2)

end Uquic.Model.ConnID
