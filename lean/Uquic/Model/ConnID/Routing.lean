/-
Model of the transport's `packetHandlerMap` (transport.go) as far as one
connection uses it, and of the closed-connection stand-ins (closed_conn.go).

`handlers`/`resetTokens` are Go maps: association list without duplicate keys /
a list used as a set. The expiry timer of `ReplaceWithClosed` (`time.AfterFunc`)
is an explicit list of pending timers fired by `advance`.
-/
import Uquic.Model.ConnID.Generator

namespace Uquic.Model.ConnID

inductive Handler where
  | conn                          -- the live connection
  | closedLocal (k : Nat)         -- `closedLocalConn` number k (index into `counters`)
  | closedRemote                  -- `closedRemoteConn`
deriving Repr, DecidableEq

structure Routing where
  handlers : List (Bytes × Handler) := []
  tokens : List Bytes := []
  /-- packets seen by each `closedLocalConn` -/
  counters : List Nat := []
  /-- pending `time.AfterFunc` timers: (deadline, ids), in creation order -/
  timers : List (Int × List Bytes) := []
  now : Int := 0
deriving Repr, DecidableEq

def lookupH (id : Bytes) : List (Bytes × Handler) → Option Handler
  | [] => none
  | (k, h) :: rest => if k = id then some h else lookupH id rest

def setH (id : Bytes) (h : Handler) : List (Bytes × Handler) → List (Bytes × Handler)
  | [] => [(id, h)]
  | (k, x) :: rest => if k = id then (k, h) :: rest else (k, x) :: setH id h rest

/-- `Add`: does nothing if the ID is already routed -/
def Routing.add (r : Routing) (id : Bytes) : Routing :=
  match lookupH id r.handlers with
  | some _ => r
  | none => { r with handlers := r.handlers ++ [(id, .conn)] }

/-- `Remove` -/
def Routing.remove (r : Routing) (id : Bytes) : Routing :=
  { r with handlers := r.handlers.filter fun kv => kv.1 ≠ id }

def removeAllIDs (ids : List Bytes) (hs : List (Bytes × Handler)) : List (Bytes × Handler) :=
  hs.filter fun kv => ¬ ids.contains kv.1

/-- `ReplaceWithClosed` -/
def Routing.replaceWithClosed (r : Routing) (ids : List Bytes) (localClose : Bool) (expiry : Int) : Routing :=
  let h : Handler := if localClose then .closedLocal r.counters.length else .closedRemote
  { r with handlers := ids.foldl (fun hs id => setH id h hs) r.handlers,
           counters := if localClose then r.counters ++ [0] else r.counters,
           timers := r.timers ++ [(r.now + expiry, ids)] }

/-- fake time passes: every timer that is due deletes its IDs -/
def Routing.advance (r : Routing) (d : Int) : Routing :=
  let now := r.now + d
  let due := r.timers.filter fun t => t.1 ≤ now
  { r with now := now,
           timers := r.timers.filter (fun t => ¬ t.1 ≤ now),
           handlers := due.foldl (fun hs t => removeAllIDs t.2 hs) r.handlers }

def Routing.addToken (r : Routing) (t : Bytes) : Routing :=
  if r.tokens.contains t then r else { r with tokens := r.tokens ++ [t] }

def Routing.removeToken (r : Routing) (t : Bytes) : Routing :=
  { r with tokens := r.tokens.filter (· ≠ t) }

/-- `bits.OnesCount32(n) == 1` for `n > 0` -/
def isPow2 (n : Nat) : Bool := n > 0 && (n &&& (n - 1)) == 0

inductive Delivery where
  | none                          -- no handler: never reaches a connection
  | conn                          -- handed to the live connection
  | closedLocal (resend : Bool)   -- closed stand-in; retransmits CONNECTION_CLOSE or not
  | closedRemote                  -- absorbed
deriving Repr, DecidableEq

/-- a packet with destination connection ID `id` arrives (`Transport.handlePacket` → `handler.handlePacket`) -/
def Routing.deliver (r : Routing) (id : Bytes) : Routing × Delivery :=
  match lookupH id r.handlers with
  | none => (r, .none)
  | some .conn => (r, .conn)
  | some .closedRemote => (r, .closedRemote)
  | some (.closedLocal k) =>
    let n := r.counters.getD k 0 + 1
    ({ r with counters := r.counters.set k n }, .closedLocal (isPow2 n))

/-- apply the generator's routing callbacks -/
def Routing.applyG (r : Routing) : GEv → Routing
  | .addRoute id => r.add id
  | .rmRoute id => r.remove id
  | .replaceClosed ids l e => r.replaceWithClosed ids l e
  | .newFrame _ _ => r

/-- apply the manager's token callbacks -/
def Routing.applyM (r : Routing) : Ev → Routing
  | .addTok t => r.addToken t
  | .rmTok t => r.removeToken t
  | .retire _ => r

end Uquic.Model.ConnID
