/-
Model of the transport's `packetHandlerMap` (transport.go) as far as one
connection uses it, and of the closed-connection stand-ins (closed_conn.go).

`handlers`/`resetTokens` are Go maps: association list without duplicate keys /
a list used as a set. The expiry timer of `ReplaceWithClosed` (`time.AfterFunc`)
is an explicit list of pending timers fired by `advance`.
-/
import Uquic.Model.ConnID.Generator

namespace Uquic.Model.ConnID

inductive Handler where
  | conn (c : Nat)                -- live connection number c (the connection under study is 0)
  | closedLocal (k : Nat)         -- `closedLocalConn` number k (index into `counters`)
  | closedRemote                  -- `closedRemoteConn`
deriving Repr, DecidableEq

structure Routing where
  handlers : List (Bytes × Handler) := []
  tokens : List Bytes := []
  /-- packets seen by each `closedLocalConn` -/
  counters : List Nat := []
  /-- pending `time.AfterFunc` timers: (deadline, ids, the closed stand-in installed for them), in creation order -/
  timers : List (Int × List Bytes × Handler) := []
  now : Int := 0
deriving Repr, DecidableEq

def lookupH (id : Bytes) : List (Bytes × Handler) → Option Handler
  | [] => none
  | (k, h) :: rest => if k = id then some h else lookupH id rest

def setH (id : Bytes) (h : Handler) : List (Bytes × Handler) → List (Bytes × Handler)
  | [] => [(id, h)]
  | (k, x) :: rest => if k = id then (k, h) :: rest else (k, x) :: setH id h rest

/-- `Add`: does nothing if the ID is already routed -/
def Routing.add (r : Routing) (id : Bytes) : Routing :=
  match lookupH id r.handlers with
  | some _ => r
  | none => { r with handlers := r.handlers ++ [(id, .conn 0)] }

/-- `Remove` -/
def Routing.remove (r : Routing) (id : Bytes) : Routing :=
  { r with handlers := r.handlers.filter fun kv => kv.1 ≠ id }

/-- the expiry callback: `for _, id := range ids { if h.handlers[id] == handler { delete(h.handlers, id) } }` —
    only entries that still are the closed connection's own stand-in are removed.
    (`closedRemoteConn` is a zero-size struct: every `&closedRemoteConn{}` is the same pointer, hence no identity.) -/
def removeOwn (ids : List Bytes) (hd : Handler) (hs : List (Bytes × Handler)) : List (Bytes × Handler) :=
  hs.filter fun kv => ¬ (ids.contains kv.1 ∧ kv.2 = hd)

/-- `t.handlers[srcConnID] = conn` in `Transport.dial`: another connection `c` takes (or overwrites) the entry -/
def Routing.install (r : Routing) (id : Bytes) (c : Nat) : Routing :=
  { r with handlers := setH id (.conn c) r.handlers }

/-- `ReplaceWithClosed` -/
def Routing.replaceWithClosed (r : Routing) (ids : List Bytes) (localClose : Bool) (expiry : Int) : Routing :=
  let h : Handler := if localClose then .closedLocal r.counters.length else .closedRemote
  { r with handlers := ids.foldl (fun hs id => setH id h hs) r.handlers,
           counters := if localClose then r.counters ++ [0] else r.counters,
           timers := r.timers ++ [(r.now + expiry, ids, h)] }

/-- fake time passes: every timer that is due deletes its IDs -/
def Routing.advance (r : Routing) (d : Int) : Routing :=
  let now := r.now + d
  let due := r.timers.filter fun t => t.1 ≤ now
  { r with now := now,
           timers := r.timers.filter (fun t => ¬ t.1 ≤ now),
           handlers := due.foldl (fun hs t => removeOwn t.2.1 t.2.2 hs) r.handlers }

def Routing.addToken (r : Routing) (t : Bytes) : Routing :=
  if r.tokens.contains t then r else { r with tokens := r.tokens ++ [t] }

def Routing.removeToken (r : Routing) (t : Bytes) : Routing :=
  { r with tokens := r.tokens.filter (· ≠ t) }

/-- `bits.OnesCount32(n) == 1` for `n > 0` -/
def isPow2 (n : Nat) : Bool := n > 0 && (n &&& (n - 1)) == 0

inductive Delivery where
  | none                          -- no handler: never reaches a connection
  | conn (c : Nat)                -- handed to live connection c
  | closedLocal (resend : Bool)   -- closed stand-in; retransmits CONNECTION_CLOSE or not
  | closedRemote                  -- absorbed
deriving Repr, DecidableEq

/-- a packet with destination connection ID `id` arrives (`Transport.handlePacket` → `handler.handlePacket`) -/
def Routing.deliver (r : Routing) (id : Bytes) : Routing × Delivery :=
  match lookupH id r.handlers with
  | none => (r, .none)
  | some (.conn c) => (r, .conn c)
  | some .closedRemote => (r, .closedRemote)
  | some (.closedLocal k) =>
    let n := r.counters.getD k 0 + 1
    ({ r with counters := r.counters.set k n }, .closedLocal (isPow2 n))

/-- apply the generator's routing callbacks -/
def Routing.applyG (r : Routing) : GEv → Routing
  | .addRoute id => r.add id
  | .rmRoute id => r.remove id
  | .replaceClosed ids l e => r.replaceWithClosed ids l e
  | .newFrame _ _ => r

/-- apply the manager's token callbacks -/
def Routing.applyM (r : Routing) : Ev → Routing
  | .addTok t => r.addToken t
  | .rmTok t => r.removeToken t
  | .retire _ => r

end Uquic.Model.ConnID
