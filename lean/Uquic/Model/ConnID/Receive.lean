/-
Model of the way of a UDP datagram from the socket to the packet unpacker (property C16, "a retired or foreign ID
never reaches the connection"):

* `Transport.handlePacket` (transport.go): the datagram is routed by ONE connection ID, the destination connection ID
  of its first packet as `wire.ParseConnectionID(data, t.connIDLen)` reads it;
* `Conn.handleOnePacket` (connection.go): the connection walks through the QUIC packets coalesced into the datagram;
  every packet after the first one must carry the connection ID of the packet before it (`lastConnID`), otherwise
  the rest of the datagram is dropped; a short header packet ends the datagram;
* `handleLongHeaderPacket`: which long header packets are dropped before the unpacker sees them.

A packet is abstract: its header form, type, version class, the connection ID bytes and whether the datagram holds
the whole header. Header and payload protection are outside (the driver replaces the unpacker by a recorder).
-/
import Uquic.Model.ConnID.Routing

namespace Uquic.Model.ConnID

structure Pkt where
  /-- long header packet (Initial, 0-RTT, Handshake) or short header packet (1-RTT) -/
  long : Bool
  /-- long: 0 Initial, 1 0-RTT, 2 Handshake -/
  typ : Nat := 0
  /-- long: 0 the connection's version, 1 another supported version, 2 an unsupported version -/
  ver : Nat := 0
  /-- long: the Destination Connection ID field. short: EVERY byte of the datagram after the packet's first byte
      (a short header does not say how long its connection ID is) -/
  dcid : Bytes
  /-- long: the Source Connection ID field -/
  scid : Bytes := []
  /-- long: the datagram holds the header up to the end of the destination connection ID -/
  cidOK : Bool := true
  /-- long: the datagram holds the whole header and the `Length` bytes it announces -/
  hdrOK : Bool := true
deriving Repr, DecidableEq

/-- `wire.ParseConnectionID(data, L)`: the destination connection ID of a packet as an endpoint whose own connection
    IDs are `L` bytes long reads it (`none`: error) -/
def wireDcid (L : Nat) (p : Pkt) : Option Bytes :=
  if p.long then (if p.cidOK then some p.dcid else none)
  else if L ≤ p.dcid.length then some (p.dcid.take L) else none

/-- a packet handed to the unpacker -/
structure Seen where
  long : Bool
  typ : Nat
  dcid : Bytes
deriving Repr, DecidableEq

/-- what `handleOnePacket` needs of the connection -/
structure RxConn where
  /-- `srcConnIDLen` -/
  idLen : Nat
  server : Bool
  /-- `receivedFirstPacket` -/
  receivedFirst : Bool := false
  /-- `handshakeDestConnID` -/
  hsDest : Bytes
  /-- `droppedInitialKeys` (a server drops the Initial keys with the first Handshake packet it opens) -/
  initialDropped : Bool := false
deriving Repr, DecidableEq

/-- Can the unpacker open the packet? (The keys are the environment of this model: 0-RTT is not accepted, Initial
    packets cannot be opened once the Initial keys are dropped; an unopened packet is dropped, `handleUnpackError`.) -/
def RxConn.opens (c : RxConn) (p : Pkt) : Bool := p.typ != 1 && !(p.typ == 0 && c.initialDropped)

/-- `handleLongHeaderPacket`: is the packet handed to the unpacker, and the connection afterwards
    (`handleUnpackedLongHeaderPacket` notes the first opened packet and follows the peer's source connection ID; a
    server drops the Initial keys with the first Handshake packet) -/
def RxConn.longPacket (c : RxConn) (p : Pkt) : RxConn × Bool :=
  if c.receivedFirst && p.typ == 0 && p.scid != c.hsDest then (c, false)       -- Initial with an unexpected SCID
  else if !c.server && p.typ == 1 then (c, false)                               -- a client drops 0-RTT packets
  else if !c.opens p then (c, true)
  else
    let c1 := if c.receivedFirst then c else { c with receivedFirst := true, hsDest := p.scid }
    ({ c1 with initialDropped := c1.initialDropped || (c1.server && p.typ == 2) }, true)

/-- the loop of `handleOnePacket`: `counter` packets of the datagram were parsed so far, `last` = `lastConnID` -/
def rxLoop (c : RxConn) : List Pkt → Nat → Bytes → RxConn × List Seen
  | [], _, _ => (c, [])
  | p :: rest, counter, last =>
    if counter > 0 ∧ wireDcid c.idLen p ≠ some last then (c, [])               -- unparsable or another connection ID
    else if p.long then
      if !p.hdrOK || p.ver != 0 then (c, [])                                    -- parse error / unsupported or unexpected version
      else
        let r := c.longPacket p
        let r2 := rxLoop r.1 rest (counter + 1) p.dcid
        (r2.1, (if r.2 then [Seen.mk true p.typ p.dcid] else []) ++ r2.2)
    else
      match wireDcid c.idLen p with
      | none => (c, [])                                                         -- `handleShortHeaderPacket`: parse error
      | some d => (c, [Seen.mk false 0 d])                                      -- a short header packet ends the datagram

/-- `handleOnePacket` -/
def RxConn.datagram (c : RxConn) (pkts : List Pkt) : RxConn × List Seen := rxLoop c pkts 0 []

/-- `Transport.handlePacket` for a QUIC datagram: the connection ID the datagram is routed by -/
def routeID (L : Nat) : List Pkt → Option Bytes
  | [] => none
  | p :: _ => wireDcid L p

/-- The variant the property rules out (and a 'de-duplication' of the check produces): the connection ID of a coalesced
    packet is compared only where a long header was parsed anyway. -/
def rxLoopLongOnly (c : RxConn) : List Pkt → Nat → Bytes → RxConn × List Seen
  | [], _, _ => (c, [])
  | p :: rest, counter, last =>
    if p.long then
      if !p.hdrOK || p.ver != 0 then (c, [])
      else if counter > 0 ∧ p.dcid ≠ last then (c, [])
      else
        let r := c.longPacket p
        let r2 := rxLoopLongOnly r.1 rest (counter + 1) p.dcid
        (r2.1, (if r.2 then [Seen.mk true p.typ p.dcid] else []) ++ r2.2)
    else
      match wireDcid c.idLen p with
      | none => (c, [])
      | some d => (c, [Seen.mk false 0 d])

end Uquic.Model.ConnID
