/-
Model of conn_id_manager.go (`connIDManager`, property C16): the connection IDs
the *peer* issued to us, which one is active, which are reserved for path
probing, and which RETIRE_CONNECTION_ID frames / stateless-reset-token
registrations result.

Conventions: sequence numbers, path ids, counters are `Nat` (Go uint64 /
int64 ≥ 0 / uint32); connection IDs and stateless reset tokens are byte lists.
The Go map `pathProbing` is an association list in insertion order (the oracle
canonicalises the order of callbacks that come out of a Go map iteration).
Every function mirrors the Go function of the same name branch for branch and
returns the callbacks it made, in order, plus an outcome; a Go panic is the
outcome `panic` together with the partially updated state.
-/
import Uquic.Generated.Protocol
import Uquic.Generated.ConnID

namespace Uquic.Model.ConnID

abbrev Bytes := List Nat

def maxActiveConnectionIDs : Nat := Uquic.Gen.Protocol.MaxActiveConnectionIDs.toNat
def packetsPerConnectionID : Nat := Uquic.Gen.Protocol.PacketsPerConnectionID.toNat
/-- the constant `Add` compares `len(h.queue)` with (extracted from the call site) -/
def enforcedQueueBound : Nat := Uquic.Gen.ConnID.enforcedQueueBound.toNat

/-- `newConnID` -/
structure Entry where
  seq : Nat
  id : Bytes
  tok : Bytes
deriving Repr, DecidableEq

/-- callbacks made by the manager, in order -/
inductive Ev where
  | retire (seq : Nat)          -- queueControlFrame(&RetireConnectionIDFrame{seq})
  | addTok (t : Bytes)          -- addStatelessResetToken
  | rmTok (t : Bytes)           -- removeStatelessResetToken
deriving Repr, DecidableEq

inductive Err where
  | protocolViolation           -- qerr.ProtocolViolation
  | limitError                  -- qerr.ConnectionIDLimitError
  | conflictID                  -- "received conflicting connection IDs for sequence number"
  | conflictToken               -- "received conflicting stateless reset tokens for sequence number"
deriving Repr, DecidableEq

inductive Res where
  | ok
  | err (e : Err)
  | panic
deriving Repr, DecidableEq

structure Manager where
  queue : List Entry := []
  highestProbing : Nat := 0
  /-- pathID ↦ entry -/
  probing : List (Nat × Entry) := []
  hsComplete : Bool := false
  activeSeq : Nat := 0
  highestRetired : Nat := 0
  activeID : Bytes
  activeTok : Option Bytes := none
  sinceChange : Nat := 0
  perID : Nat := 0
  closed : Bool := false
  /-- [UQUIC] `connIDLimit`: the active_connection_id_limit a QUICSpec advertised (0 otherwise) -/
  connIDLimit : Nat := 0
deriving Repr, DecidableEq

def Manager.new (initialDest : Bytes) : Manager := { activeID := initialDest }

/-! ### addConnectionID -/

/-- the "slow path" loop of `addConnectionID` -/
def insertSlow (e : Entry) : List Entry → Except Err (List Entry)
  | [] => .ok []                                   -- "unreachable": falls off the loop, queue unchanged
  | x :: xs =>
    if x.seq = e.seq then
      if x.id ≠ e.id then .error .conflictID
      else if x.tok ≠ e.tok then .error .conflictToken
      else .ok (x :: xs)
    else if x.seq > e.seq then .ok (e :: x :: xs)
    else match insertSlow e xs with
      | .ok r => .ok (x :: r)
      | .error er => .error er

def addConnectionID (q : List Entry) (e : Entry) : Except Err (List Entry) :=
  match q.getLast? with
  | none => .ok (q ++ [e])                          -- fast path: empty queue
  | some l => if l.seq < e.seq then .ok (q ++ [e])  -- fast path: append
              else insertSlow e q

/-! ### updateConnectionID -/

/-- `if h.activeStatelessResetToken != nil { h.removeStatelessResetToken(*…) }` -/
def rmTokOpt : Option Bytes → List Ev
  | some t => [Ev.rmTok t]
  | none => []

/-- `draw` is the value of `rand.Int31n(PacketsPerConnectionID)` (an input). -/
def Manager.updateConnectionID (m : Manager) (draw : Nat) : Manager × List Ev × Res :=
  if m.closed then (m, [], .panic)                  -- assertNotClosed
  else
    let ev := Ev.retire m.activeSeq :: rmTokOpt m.activeTok
    let m1 := { m with highestRetired := max m.highestRetired m.activeSeq }
    match m1.queue with
    | [] => (m1, ev, .panic)                        -- h.queue[0] on an empty queue
    | front :: rest =>
      ({ m1 with queue := rest, activeSeq := front.seq, activeID := front.id, activeTok := some front.tok,
                 sinceChange := 0, perID := packetsPerConnectionID / 2 + draw },
       ev ++ [Ev.addTok front.tok], .ok)

/-! ### add / Add -/

/-- the early-out of `add`: a reordered / already retired sequence number is answered with RETIRE_CONNECTION_ID at once.
    Not for the active sequence number; also for the number most recently used for path probing (it is not in
    `pathProbing` any more at that point, i.e. it was retired). -/
def Manager.retireNow (m : Manager) (seq : Nat) : Bool :=
  decide (seq ≠ m.activeSeq) &&
    (decide (seq < max m.activeSeq m.highestProbing) || (decide (m.highestProbing ≠ 0) && decide (seq = m.highestProbing))
      || decide (seq < m.highestRetired))

def retireProbingEvs (l : List (Nat × Entry)) : List Ev :=
  l.flatMap fun pe => [Ev.retire pe.2.seq, Ev.rmTok pe.2.tok]

/-- first Retire-Prior-To loop of `add`: path-probing IDs below `rpt` -/
def Manager.retireProbingBelow (m : Manager) (rpt : Nat) : Manager × List Ev :=
  ({ m with probing := m.probing.filter fun pe => ¬ pe.2.seq < rpt },
   retireProbingEvs (m.probing.filter fun pe => pe.2.seq < rpt))

/-- second Retire-Prior-To block of `add`: queued IDs below `rpt` (not the active one) -/
def Manager.retireQueueBelow (m : Manager) (rpt : Nat) : Manager × List Ev :=
  if rpt > m.highestRetired then
    ({ m with queue := m.queue.filter (fun e => e.seq ≥ rpt), highestRetired := rpt },
     (m.queue.filter fun e => ¬ e.seq ≥ rpt).map (fun e => Ev.retire e.seq))
  else (m, [])

/-- `add` -/
def Manager.add (m : Manager) (seq rpt : Nat) (id tok : Bytes) (draw : Nat) : Manager × List Ev × Res :=
  if m.activeID = [] then (m, [], .err .protocolViolation)
  else if m.probing.any (fun pe => pe.2.seq == seq) then (m, [], .ok)
  else if m.retireNow seq then (m, [.retire seq], .ok)
  else
    let r1 := m.retireProbingBelow rpt
    let r2 := r1.1.retireQueueBelow rpt
    let m2 := r2.1
    let ev := r1.2 ++ r2.2
    if seq = m2.activeSeq then (m2, ev, .ok)
    else match addConnectionID m2.queue ⟨seq, id, tok⟩ with
      | .error e => (m2, ev, .err e)
      | .ok q =>
        let m3 := { m2 with queue := q }
        if m3.activeSeq < rpt then
          -- retire the active connection ID
          let r := m3.updateConnectionID draw
          (r.1, ev ++ r.2.1, r.2.2)
        else (m3, ev, .ok)

/-- number of path-probing IDs that `add` retires because of Retire Prior To (they come out of a Go map
    iteration, so the oracle compares that group of callbacks up to order) -/
def Manager.addProbingRetired (m : Manager) (seq rpt : Nat) : Nat :=
  if m.activeID = [] then 0
  else if m.probing.any (fun pe => pe.2.seq == seq) then 0
  else if m.retireNow seq then 0
  else (m.probing.filter fun pe => pe.2.seq < rpt).length

/-- `Add` -/
def Manager.addFrame (m : Manager) (seq rpt : Nat) (id tok : Bytes) (draw : Nat) : Manager × List Ev × Res :=
  let r := m.add seq rpt id tok draw
  match r.2.2 with
  | .ok => if r.1.queue.length ≥ max enforcedQueueBound r.1.connIDLimit then (r.1, r.2.1, .err .limitError) else r
  | _ => r

/-- `AddFromPreferredAddress` -/
def Manager.addFromPreferredAddress (m : Manager) (id tok : Bytes) : Manager × List Ev × Res :=
  match addConnectionID m.queue ⟨1, id, tok⟩ with
  | .error e => (m, [], .err e)
  | .ok q => ({ m with queue := q }, [], .ok)

/-! ### the rest of the API -/

def Manager.close (m : Manager) : Manager × List Ev :=
  ({ m with closed := true },
   rmTokOpt m.activeTok ++ m.probing.map (fun pe => Ev.rmTok pe.2.tok))

def Manager.changeInitialConnID (m : Manager) (id : Bytes) : Manager × Res :=
  if m.activeSeq ≠ 0 then (m, .panic) else ({ m with activeID := id }, .ok)

def Manager.setStatelessResetToken (m : Manager) (t : Bytes) : Manager × List Ev × Res :=
  if m.closed then (m, [], .panic)
  else if m.activeSeq ≠ 0 then (m, [], .panic)
  else ({ m with activeTok := some t }, [.addTok t], .ok)

def Manager.sentPacket (m : Manager) : Manager :=
  { m with sinceChange := (m.sinceChange + 1) % 4294967296 }

def Manager.shouldUpdateConnID (m : Manager) : Bool :=
  if !m.hsComplete then false
  else if m.queue.length > 0 ∧ m.activeSeq = 0 then true
  else decide (2 * m.queue.length ≥ maxActiveConnectionIDs) && decide (m.sinceChange ≥ m.perID)

/-- `Get`; the returned bytes are the active connection ID afterwards -/
def Manager.get (m : Manager) (draw : Nat) : Manager × List Ev × Res :=
  if m.closed then (m, [], .panic)
  else if m.shouldUpdateConnID then m.updateConnectionID draw
  else (m, [], .ok)

/-- `SetConnectionIDLimit` (u_conn_id_manager.go) -/
def Manager.setConnectionIDLimit (m : Manager) (n : Nat) : Manager := { m with connIDLimit := n }

def Manager.setHandshakeComplete (m : Manager) : Manager := { m with hsComplete := true }

def lookupPath (p : Nat) : List (Nat × Entry) → Option Entry
  | [] => none
  | (k, e) :: rest => if k = p then some e else lookupPath p rest

/-- `GetConnIDForPath`: `(id, ok)`; `none` = `(ConnectionID{}, false)` -/
def Manager.getConnIDForPath (m : Manager) (p : Nat) : Manager × List Ev × Option Bytes × Res :=
  if m.closed then (m, [], none, .panic)
  else if m.activeID = [] then (m, [], some [], .ok)
  else match lookupPath p m.probing with
    | some e => (m, [], some e.id, .ok)
    | none =>
      match m.queue with
      | [] => (m, [], none, .ok)
      | front :: rest =>
        ({ m with queue := rest, probing := m.probing ++ [(p, front)], highestProbing := front.seq },
         [.addTok front.tok], some front.id, .ok)

/-- `RetireConnIDForPath` -/
def Manager.retireConnIDForPath (m : Manager) (p : Nat) : Manager × List Ev × Res :=
  if m.closed then (m, [], .panic)
  else if m.activeID = [] then (m, [], .ok)
  else match lookupPath p m.probing with
    | none => (m, [], .ok)
    | some e =>
      ({ m with probing := m.probing.filter fun pe => pe.1 ≠ p }, [.retire e.seq, .rmTok e.tok], .ok)

/-- `IsActiveStatelessResetToken` -/
def Manager.isActiveStatelessResetToken (m : Manager) (t : Bytes) : Bool :=
  (match m.activeTok with | some a => a == t | none => false) || m.probing.any (fun pe => pe.2.tok == t)

/-! ### operations as data (for histories) -/

inductive Op where
  | new (seq rpt : Nat) (id tok : Bytes) (draw : Nat)
  | pref (id tok : Bytes)
  | get (draw : Nat)
  | sentPacket
  | path (p : Nat)
  | retirePath (p : Nat)
  | hsDone
  | close
  | setTok (t : Bytes)
  | changeInitial (id : Bytes)
  | setLimit (n : Nat)
deriving Repr, DecidableEq

/-- one step: new state, callbacks in order, outcome -/
def Manager.step (m : Manager) : Op → Manager × List Ev × Res
  | .new seq rpt id tok draw => m.addFrame seq rpt id tok draw
  | .pref id tok => m.addFromPreferredAddress id tok
  | .get draw => m.get draw
  | .sentPacket => (m.sentPacket, [], .ok)
  | .path p => let r := m.getConnIDForPath p; (r.1, r.2.1, r.2.2.2)
  | .retirePath p => m.retireConnIDForPath p
  | .hsDone => (m.setHandshakeComplete, [], .ok)
  | .close => let r := m.close; (r.1, r.2, .ok)
  | .setTok t => m.setStatelessResetToken t
  | .changeInitial id => let r := m.changeInitialConnID id; (r.1, [], r.2)
  | .setLimit n => (m.setConnectionIDLimit n, [], .ok)

/-- run a history; returns the final state and all callbacks in order -/
def Manager.run (m : Manager) : List Op → Manager × List Ev
  | [] => (m, [])
  | op :: ops =>
    let r := m.step op
    let r2 := Manager.run r.1 ops
    (r2.1, r.2.1 ++ r2.2)

end Uquic.Model.ConnID
