/-
Packet-number spaces of the sent packet handler across the whole life of a connection (property C05):
model of internal/ackhandler/sent_packet_handler.go — `newPacketNumberSpace`, `PeekPacketNumber`,
`PopPacketNumber`, `ResetForRetry` (the seeding rule of the new spaces) and `DropPackets` (Initial and
Handshake spaces disappear; dropping 0-RTT keeps the shared application-data space).

Initial and Handshake use the sequential generator, application data (0-RTT and 1-RTT share it) the
skipping one with the production periods. The random skip draw is an input.
-/
import Uquic.Model.Crypto.PN

namespace Uquic.Model.PNSpace
open Uquic.Model.PN

def skipInitialPeriod : Int := Uquic.Gen.Protocol.SkipPacketInitialPeriod
def skipMaxPeriod : Int := Uquic.Gen.Protocol.SkipPacketMaxPeriod

inductive Level where
  | initial | handshake | zeroRTT | oneRTT
deriving Repr, DecidableEq

/-- one space: its generator and `largestAcked` (Invalid in a fresh space) -/
structure Spaces where
  initial : Option SeqGen
  handshake : Option SeqGen := some { next := 0 }
  app : SkipGen
deriving Repr

/-- `NewSentPacketHandler(initialPN, …)`; `d` = the draw of the application-data generator -/
def Spaces.new (initialPN d : Int) : Spaces :=
  { initial := some { next := initialPN }, app := SkipGen.new 0 skipInitialPeriod skipMaxPeriod d }

/-- `PeekPacketNumber` (`none`: the space was dropped — nil dereference in Go) -/
def Spaces.peek (s : Spaces) : Level → Option Int
  | .initial => s.initial.map (·.peek)
  | .handshake => s.handshake.map (·.peek)
  | _ => some s.app.peek

/-- `PopPacketNumber`: new state and the number (`none`: space dropped); `d` only used on a skip -/
def Spaces.pop (s : Spaces) (l : Level) (d : Int) : Spaces × Option Int :=
  match l with
  | .initial => match s.initial with
    | some g => ({ s with initial := some g.pop.1 }, some g.pop.2.2)
    | none => (s, none)
  | .handshake => match s.handshake with
    | some g => ({ s with handshake := some g.pop.1 }, some g.pop.2.2)
    | none => (s, none)
  | _ => let r := s.app.pop d; ({ s with app := r.1 }, some r.2.2)

/-- the seeding rule of `ResetForRetry`: EACH new space continues from ITS OWN old space's next number
    (`h.initialPackets.pns.Peek()` resp. `h.appDataPackets.pns.Peek()`); `none`: Initial space already dropped -/
def Spaces.resetForRetry (s : Spaces) (d : Int) : Option Spaces :=
  match s.initial with
  | none => none
  | some g => some { s with initial := some { next := g.peek },
                            app := SkipGen.new s.app.peek skipInitialPeriod skipMaxPeriod d }

/-- `DropPackets` -/
def Spaces.drop (s : Spaces) : Level → Spaces
  | .initial => { s with initial := none }
  | .handshake => { s with handshake := none }
  | _ => s

/-! ### histories of the application-data space (the only one whose KEY survives a Retry: 0-RTT) -/

inductive AppOp where
  | pop (d : Int)
  | retry (d : Int)
deriving Repr

/-- packet numbers handed out for application data over a history of Pops and Retries -/
def runApp (g : SkipGen) : List AppOp → List Int
  | [] => []
  | .pop d :: rest => (g.pop d).2.2 :: runApp (g.pop d).1 rest
  | .retry d :: rest => runApp (SkipGen.new g.peek skipInitialPeriod skipMaxPeriod d) rest

/-- the same for a sequential space (Initial) -/
inductive SeqOp where
  | pop | retry
deriving Repr

def runSeq (g : SeqGen) : List SeqOp → List Int
  | [] => []
  | .pop :: rest => g.pop.2.2 :: runSeq g.pop.1 rest
  | .retry :: rest => runSeq { next := g.peek } rest

end Uquic.Model.PNSpace
