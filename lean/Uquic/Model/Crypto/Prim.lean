/-
Executable cryptographic primitives written from the specifications (no table is copied from the Go
code or from memory: the SHA-256 constants are computed from the primes, the AES S-box from the field
inverse), used by the C05 oracle as the INDEPENDENT reference for RFC 9001 §5 / RFC 9369 §3 derivations:

* SHA-256 (FIPS 180-4), HMAC (RFC 2104), HKDF-Extract / HKDF-Expand (RFC 5869),
  HKDF-Expand-Label (RFC 8446 §7.1),
* AES-128 block encryption (FIPS 197), AES-128-GCM (NIST SP 800-38D) with 96-bit nonces,
* the QUIC Initial secrets, packet-protection key / IV / header-protection key for any Destination
  Connection ID and both versions, the header-protection mask (RFC 9001 §5.4.3) and the Retry integrity
  tag (RFC 9001 §5.8).

`#guard`s at the end check the implementation against published vectors (FIPS / NIST / RFC 9001
Appendix A / RFC 9369 Appendix A); they are tests, not proof obligations.
-/
import Uquic.Model.Crypto.Bytes
import Uquic.Model.Crypto.RfcConst

namespace Uquic.Model.Prim
open Uquic.Model.Bytes

abbrev Bytes := List UInt8

/-! ### integer roots and primes (for the SHA-256 constants) -/

/-- floor of the k-th root, by bisection -/
partial def irootGo (k n lo hi : Nat) : Nat :=
  if lo + 1 ≥ hi then lo
  else
    let mid := (lo + hi) / 2
    if mid ^ k ≤ n then irootGo k n mid hi else irootGo k n lo mid

def iroot (k n : Nat) : Nat := irootGo k n 0 (n + 1)

def isPrime (n : Nat) : Bool := n ≥ 2 && (List.range (n - 2)).all (fun i => n % (i + 2) ≠ 0)

def firstPrimes (count : Nat) : List Nat := ((List.range 320).filter isPrime).take count

/-- first 32 bits of the fractional part of the k-th root of p -/
def fracRoot (k p : Nat) : UInt32 := UInt32.ofNat (iroot k (p * 2 ^ (32 * k)) % 2 ^ 32)

def sha256K : Array UInt32 := ((firstPrimes 64).map (fracRoot 3)).toArray
def sha256H0 : Array UInt32 := ((firstPrimes 8).map (fracRoot 2)).toArray

/-! ### SHA-256 -/

def rotr (x : UInt32) (n : UInt32) : UInt32 := (x >>> n) ||| (x <<< (32 - n))

def be32 (a b c d : UInt8) : UInt32 :=
  (a.toUInt32 <<< 24) ||| (b.toUInt32 <<< 16) ||| (c.toUInt32 <<< 8) ||| d.toUInt32

def u32Bytes (x : UInt32) : Bytes :=
  [(x >>> 24).toUInt8, (x >>> 16).toUInt8, (x >>> 8).toUInt8, x.toUInt8]

def words32 : Bytes → List UInt32
  | a :: b :: c :: d :: rest => be32 a b c d :: words32 rest
  | _ => []

/-- message schedule of one 64-byte block -/
def schedule (block : Bytes) : Array UInt32 := Id.run do
  let mut w : Array UInt32 := (words32 block).toArray
  for i in [16:64] do
    let w15 := w[i - 15]!; let w2 := w[i - 2]!
    let s0 := rotr w15 7 ^^^ rotr w15 18 ^^^ (w15 >>> 3)
    let s1 := rotr w2 17 ^^^ rotr w2 19 ^^^ (w2 >>> 10)
    w := w.push (w[i - 16]! + s0 + w[i - 7]! + s1)
  return w

def compress (h : Array UInt32) (block : Bytes) : Array UInt32 := Id.run do
  let w := schedule block
  let mut a := h[0]!; let mut b := h[1]!; let mut c := h[2]!; let mut d := h[3]!
  let mut e := h[4]!; let mut f := h[5]!; let mut g := h[6]!; let mut hh := h[7]!
  for i in [0:64] do
    let s1 := rotr e 6 ^^^ rotr e 11 ^^^ rotr e 25
    let ch := (e &&& f) ^^^ ((~~~ e) &&& g)
    let t1 := hh + s1 + ch + sha256K[i]! + w[i]!
    let s0 := rotr a 2 ^^^ rotr a 13 ^^^ rotr a 22
    let maj := (a &&& b) ^^^ (a &&& c) ^^^ (b &&& c)
    let t2 := s0 + maj
    hh := g; g := f; f := e; e := d + t1; d := c; c := b; b := a; a := t1 + t2
  return #[h[0]! + a, h[1]! + b, h[2]! + c, h[3]! + d, h[4]! + e, h[5]! + f, h[6]! + g, h[7]! + hh]

def sha256Pad (msg : Bytes) : Bytes :=
  let l := msg.length
  let k := (119 - l % 64) % 64      -- zero bytes so that (l + 1 + k + 8) % 64 = 0
  msg ++ [0x80] ++ List.replicate k 0 ++ beBytes 8 (8 * l)

partial def blocks (bs : Bytes) : List Bytes :=
  if bs.isEmpty then [] else bs.take 64 :: blocks (bs.drop 64)

def sha256 (msg : Bytes) : Bytes :=
  let h := (blocks (sha256Pad msg)).foldl compress sha256H0
  h.toList.flatMap u32Bytes

/-! ### HMAC / HKDF -/

def hmacSha256 (key msg : Bytes) : Bytes :=
  let key := if key.length > 64 then sha256 key else key
  let key := key ++ List.replicate (64 - key.length) 0
  let ipad := key.map (· ^^^ 0x36)
  let opad := key.map (· ^^^ 0x5c)
  sha256 (opad ++ sha256 (ipad ++ msg))

/-- RFC 5869 §2.2 -/
def hkdfExtract (salt ikm : Bytes) : Bytes := hmacSha256 salt ikm

/-- RFC 5869 §2.3 -/
def hkdfExpand (prk info : Bytes) (len : Nat) : Bytes := Id.run do
  let n := (len + 31) / 32
  let mut t : Bytes := []
  let mut out : Bytes := []
  for i in [1:n + 1] do
    t := hmacSha256 prk (t ++ info ++ [UInt8.ofNat i])
    out := out ++ t
  return out.take len

/-- RFC 8446 §7.1 with an empty context: `HkdfLabel = uint16 length ‖ opaque label<7..255> = "tls13 " + Label ‖ opaque context<0..255>` -/
def hkdfExpandLabel (secret : Bytes) (label : String) (len : Nat) : Bytes :=
  let l := ("tls13 " ++ label).toUTF8.toList
  hkdfExpand secret (beBytes 2 len ++ [UInt8.ofNat l.length] ++ l ++ [0]) len

/-! ### AES-128 -/

/-- multiplication by x in GF(2^8) modulo x^8 + x^4 + x^3 + x + 1 -/
def xtime (a : UInt8) : UInt8 := (a <<< 1) ^^^ (if a &&& 0x80 ≠ 0 then 0x1b else 0)

def gmul (a b : UInt8) : UInt8 := Id.run do
  let mut p : UInt8 := 0; let mut a := a; let mut b := b
  for _ in [0:8] do
    if b &&& 1 ≠ 0 then p := p ^^^ a
    a := xtime a
    b := b >>> 1
  return p

/-- field inverse (0 ↦ 0): a^254 -/
def ginv (a : UInt8) : UInt8 := Id.run do
  let mut r : UInt8 := 1
  for _ in [0:254] do r := gmul r a
  return r

def rotl8 (x : UInt8) (n : UInt8) : UInt8 := (x <<< n) ||| (x >>> (8 - n))

/-- FIPS 197 §5.1.1 -/
def sboxAt (x : UInt8) : UInt8 :=
  let b := ginv x
  b ^^^ rotl8 b 1 ^^^ rotl8 b 2 ^^^ rotl8 b 3 ^^^ rotl8 b 4 ^^^ 0x63

def sbox : Array UInt8 := ((List.range 256).map (fun i => sboxAt (UInt8.ofNat i))).toArray
def sub (b : UInt8) : UInt8 := sbox[b.toNat]!

/-- key expansion: 11 round keys of 16 bytes -/
def expandKey (key : Bytes) : Array Bytes := Id.run do
  let mut w : Array Bytes := #[key.take 4, (key.drop 4).take 4, (key.drop 8).take 4, (key.drop 12).take 4]
  let mut rcon : UInt8 := 1
  for i in [4:44] do
    let mut t := w[i - 1]!
    if i % 4 == 0 then
      t := match t with
        | [a, b, c, d] => [sub b ^^^ rcon, sub c, sub d, sub a]
        | _ => t
      rcon := xtime rcon
    w := w.push (xorBytes w[i - 4]! t)
  return ((List.range 11).map fun r => w[4 * r]! ++ w[4 * r + 1]! ++ w[4 * r + 2]! ++ w[4 * r + 3]!).toArray

/-- state is column-major: byte `4*c + r` is row r, column c -/
def shiftRows (s : Bytes) : Bytes :=
  (List.range 16).map fun i => let c := i / 4; let r := i % 4; s.getD (4 * ((c + r) % 4) + r) 0

def mixColumns (s : Bytes) : Bytes :=
  (List.range 4).flatMap fun c =>
    let a0 := s.getD (4 * c) 0; let a1 := s.getD (4 * c + 1) 0; let a2 := s.getD (4 * c + 2) 0; let a3 := s.getD (4 * c + 3) 0
    [gmul 2 a0 ^^^ gmul 3 a1 ^^^ a2 ^^^ a3, a0 ^^^ gmul 2 a1 ^^^ gmul 3 a2 ^^^ a3,
     a0 ^^^ a1 ^^^ gmul 2 a2 ^^^ gmul 3 a3, gmul 3 a0 ^^^ a1 ^^^ a2 ^^^ gmul 2 a3]

def aesEncryptWith (rk : Array Bytes) (block : Bytes) : Bytes := Id.run do
  let mut s := xorBytes block rk[0]!
  for r in [1:10] do
    s := xorBytes (mixColumns (shiftRows (s.map sub))) rk[r]!
  return xorBytes (shiftRows (s.map sub)) rk[10]!

def aes128 (key block : Bytes) : Bytes := aesEncryptWith (expandKey key) block

/-! ### GCM (96-bit nonce) -/

def natOfBytes (b : Bytes) : Nat := fromBE b

/-- multiplication in GF(2^128) as in SP 800-38D §6.3 (blocks as big-endian numbers, bit 0 = MSB) -/
def gf128Mul (x y : Nat) : Nat := Id.run do
  let mut z := 0; let mut v := y
  for i in [0:128] do
    if x.testBit (127 - i) then z := z ^^^ v
    v := if v.testBit 0 then (v >>> 1) ^^^ (0xe1 <<< 120) else v >>> 1
  return z

def pad16 (b : Bytes) : Bytes := b ++ List.replicate ((16 - b.length % 16) % 16) 0

partial def blocks16 (bs : Bytes) : List Bytes :=
  if bs.isEmpty then [] else bs.take 16 :: blocks16 (bs.drop 16)

def ghash (h : Nat) (aad ct : Bytes) : Nat :=
  let data := pad16 aad ++ pad16 ct ++ beBytes 8 (8 * aad.length) ++ beBytes 8 (8 * ct.length)
  (blocks16 data).foldl (fun y b => gf128Mul (y ^^^ natOfBytes b) h) 0

def ctr (rk : Array Bytes) (nonce : Bytes) (start : Nat) (data : Bytes) : Bytes :=
  let bs := blocks16 data
  (bs.zipIdx.flatMap fun (b, i) => xorBytes b (aesEncryptWith rk (nonce ++ beBytes 4 (start + i))))

def gcmTag (rk : Array Bytes) (nonce aad ct : Bytes) : Bytes :=
  let h := natOfBytes (aesEncryptWith rk (List.replicate 16 0))
  xorBytes (beBytes 16 (ghash h aad ct)) (aesEncryptWith rk (nonce ++ [0, 0, 0, 1]))

/-- AES-128-GCM seal with an expanded key: ciphertext ‖ 16-byte tag -/
def gcmSealWith (rk : Array Bytes) (nonce aad msg : Bytes) : Bytes :=
  let ct := ctr rk nonce 2 msg
  ct ++ gcmTag rk nonce aad ct

/-- AES-128-GCM seal: ciphertext ‖ 16-byte tag -/
def gcmSeal (key nonce aad msg : Bytes) : Bytes := gcmSealWith (expandKey key) nonce aad msg

def gcmOpen (key nonce aad sealed : Bytes) : Option Bytes :=
  if sealed.length < 16 then none else
  let rk := expandKey key
  let ct := sealed.take (sealed.length - 16)
  if gcmTag rk nonce aad ct == sealed.drop (sealed.length - 16) then some (ctr rk nonce 2 ct) else none

/-! ### QUIC (RFC 9001 §5.2, RFC 9369 §3.3.1–3.3.3) -/


structure InitialKeys where
  secret : Bytes
  key : Bytes
  iv : Bytes
  hp : Bytes
deriving Repr, BEq

/-- RFC 9001 §5.1 / RFC 9369 §3.3.2: packet protection key, IV and header protection key of a traffic
    secret, for a cipher suite with SHA-256 and 16-byte keys (Initial packets; TLS_AES_128_GCM_SHA256) -/
def trafficKeys (ver : Nat) (secret : Bytes) : InitialKeys :=
  { secret := secret, key := hkdfExpandLabel secret (Rfc.keyLabel ver) 16, iv := hkdfExpandLabel secret (Rfc.ivLabel ver) 12,
    hp := hkdfExpandLabel secret (Rfc.hpLabel ver) 16 }

/-- RFC 9001 §6.1 / RFC 9369 §3.3.2: the next generation's secret ("quic ku", for QUIC v2 "quicv2 ku") -/
def nextSecret (ver : Nat) (secret : Bytes) : Bytes :=
  hkdfExpandLabel secret (Rfc.kuLabel ver) 32

/-- `ver` is 1 or 2. Returns (client, server). -/
def initialKeys (ver : Nat) (dcid : Bytes) : InitialKeys × InitialKeys :=
  let initial := hkdfExtract (Rfc.salt ver) dcid
  (trafficKeys ver (hkdfExpandLabel initial "client in" 32), trafficKeys ver (hkdfExpandLabel initial "server in" 32))

/-- RFC 9001 §5.4.3: `mask = AES-ECB(hp_key, sample)`, first 5 bytes -/
def aesHPMask (hpKey sample : Bytes) : Bytes := (aes128 hpKey sample).take 5

/-! ### ChaCha20 (RFC 8439 §2.3) for the header protection of TLS_CHACHA20_POLY1305_SHA256 -/

def rotl32 (x : UInt32) (n : UInt32) : UInt32 := (x <<< n) ||| (x >>> (32 - n))
def le32 (a b c d : UInt8) : UInt32 := be32 d c b a
def wordsLE : Bytes → List UInt32
  | a :: b :: c :: d :: rest => le32 a b c d :: wordsLE rest
  | _ => []
def u32BytesLE (x : UInt32) : Bytes := (u32Bytes x).reverse

/-- RFC 8439 §2.1 quarter round on the state words `a b c d` -/
def quarterRound (s : Array UInt32) (a b c d : Nat) : Array UInt32 := Id.run do
  let mut s := s
  s := s.set! a (s[a]! + s[b]!); s := s.set! d (rotl32 (s[d]! ^^^ s[a]!) 16)
  s := s.set! c (s[c]! + s[d]!); s := s.set! b (rotl32 (s[b]! ^^^ s[c]!) 12)
  s := s.set! a (s[a]! + s[b]!); s := s.set! d (rotl32 (s[d]! ^^^ s[a]!) 8)
  s := s.set! c (s[c]! + s[d]!); s := s.set! b (rotl32 (s[b]! ^^^ s[c]!) 7)
  return s

/-- RFC 8439 §2.3: one 64-byte key stream block; the constants are the ASCII string "expand 32-byte k" -/
def chacha20Block (key : Bytes) (counter : UInt32) (nonce : Bytes) : Bytes := Id.run do
  let init : Array UInt32 := (wordsLE "expand 32-byte k".toUTF8.toList ++ wordsLE key ++ [counter] ++ wordsLE nonce).toArray
  let mut s := init
  for _ in [0:10] do
    s := quarterRound s 0 4 8 12; s := quarterRound s 1 5 9 13; s := quarterRound s 2 6 10 14; s := quarterRound s 3 7 11 15
    s := quarterRound s 0 5 10 15; s := quarterRound s 1 6 11 12; s := quarterRound s 2 7 8 13; s := quarterRound s 3 4 9 14
  return (List.range 16).flatMap fun i => u32BytesLE (s[i]! + init[i]!)

/-- RFC 9001 §5.4.4: `counter = sample[0..3]` (little endian), `nonce = sample[4..15]`,
    `mask = ChaCha20(hp_key, counter, nonce, {0,0,0,0,0})` — a function of key and sample ONLY -/
def chachaHPMask (hpKey sample : Bytes) : Bytes :=
  match wordsLE (sample.take 4) with
  | [c] => (chacha20Block hpKey c (sample.drop 4)).take 5
  | _ => []

/-- header protection key of a traffic secret for TLS_CHACHA20_POLY1305_SHA256 (SHA-256, 32-byte key) -/
def chachaHPKey (ver : Nat) (secret : Bytes) : Bytes := hkdfExpandLabel secret (Rfc.hpLabel ver) 32

/-- RFC 9001 §5.8 / RFC 9369 §3.3.3 -/

def retryIntegrityTag (ver : Nat) (odcid retry : Bytes) : Bytes :=
  gcmSeal (Rfc.retryKey ver) (Rfc.retryNonce ver) ([UInt8.ofNat odcid.length] ++ odcid ++ retry) []

/-! ### tests against published vectors (not obligations) -/

private def h (s : String) : Bytes := (ofHex s).getD []

-- FIPS 180-4: first constants, SHA-256("abc"), SHA-256("")
#guard sha256K[0]! == 0x428a2f98 && sha256K[63]! == 0xc67178f2 && sha256H0[0]! == 0x6a09e667 && sha256H0[7]! == 0x5be0cd19
#guard toHex (sha256 "abc".toUTF8.toList) == "ba7816bf8f01cfea414140de5dae2223b00361a396177a9cb410ff61f20015ad"
#guard toHex (sha256 []) == "e3b0c44298fc1c149afbf4c8996fb92427ae41e4649b934ca495991b7852b855"
-- FIPS 197 Appendix C.1
#guard sub 0x00 == 0x63 && sub 0x53 == 0xed
#guard toHex (aes128 (h "000102030405060708090a0b0c0d0e0f") (h "00112233445566778899aabbccddeeff")) == "69c4e0d86a7b0430d8cdb78070b4c55a"
-- GCM specification test case 2
#guard toHex (gcmSeal (List.replicate 16 0) (List.replicate 12 0) [] (List.replicate 16 0)) == "0388dace60b6a392f328c2b971b2fe78ab6e47d42cec13bdf53a67b21257bddf"
-- RFC 9001 Appendix A.1 / RFC 9369 Appendix A.1 (DCID 8394c8f03e515708)
#guard (initialKeys 1 (h "8394c8f03e515708")).1 ==
  { secret := h "c00cf151ca5be075ed0ebfb5c80323c42d6b7db67881289af4008f1f6c357aea", key := h "1f369613dd76d5467730efcbe3b1a22d",
    iv := h "fa044b2f42a3fd3b46fb255c", hp := h "9f50449e04a0e810283a1e9933adedd2" }
#guard (initialKeys 1 (h "8394c8f03e515708")).2 ==
  { secret := h "3c199828fd139efd216c155ad844cc81fb82fa8d7446fa7d78be803acdda951b", key := h "cf3a5331653c364c88f0f379b6067e37",
    iv := h "0ac1493ca1905853b0bba03e", hp := h "c206b8d9b9f0f37644430b490eeaa314" }
#guard ((initialKeys 2 (h "8394c8f03e515708")).1.secret, (initialKeys 2 (h "8394c8f03e515708")).1.key, (initialKeys 2 (h "8394c8f03e515708")).1.iv) ==
  (h "14ec9d6eb9fd7af83bf5a668bc17a7e283766aade7ecd0891f70f9ff7f4bf47b", h "8b1a0bc121284290a29e0971b5cd045d", h "91f73e2351d8fa91660e909f")
#guard ((initialKeys 2 (h "8394c8f03e515708")).2.secret, (initialKeys 2 (h "8394c8f03e515708")).2.key, (initialKeys 2 (h "8394c8f03e515708")).2.iv) ==
  (h "0263db1782731bf4588e7e4d93b7463907cb8cd8200b5da55a8bd488eafc37c1", h "82db637861d55e1d011f19ea71d5d2a7", h "dd13c276499c0249d3310652")
-- RFC 9001 A.2: sample of the client Initial and its mask
#guard toHex (aesHPMask (h "9f50449e04a0e810283a1e9933adedd2") (h "d1b1c98dd7689fb8ec11d242b123dc9b")) == "437b9aec36"
-- RFC 8439 §2.3.2 block function vector, RFC 9001 Appendix A.5 (ChaCha20-Poly1305 short header packet)
#guard toHex ((chacha20Block (h "000102030405060708090a0b0c0d0e0f101112131415161718191a1b1c1d1e1f") 1 (h "000000090000004a00000000")).take 16) == "10f1e7e4d13b5915500fdd1fa32071c4"
#guard toHex (chachaHPMask (h "25a282b9e82f06f21f488917a4fc8f1b73573685608597d0efcb076b0ab7a7a4") (h "5e5cd55c41f69080575d7999c25a5bfb")) == "aefefe7d03"
#guard toHex (chachaHPKey 1 (h "9ac312a7f877468ebe69422748ad00a15443f18203a07d6060f688f30f21632b")) == "25a282b9e82f06f21f488917a4fc8f1b73573685608597d0efcb076b0ab7a7a4"

end Uquic.Model.Prim
