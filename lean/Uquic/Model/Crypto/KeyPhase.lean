/-
Model of internal/handshake/updatable_aead.go (property C05): `updatableAEAD` as a state machine over
key *generations*.  The receive key of generation `g` is "the g-th `quic ku` successor of the initial
read secret"; the object always holds the generations `keyPhase` (rcvAEAD / sendAEAD), `keyPhase+1`
(nextRcvAEAD / nextSendAEAD) and, while `prevPresent`, `keyPhase-1` (prevRcvAEAD) — `rollKeys` shifts all
of them by one, so the three Go fields are functions of `keyPhase`.

The AEAD itself is abstract (ideal): a packet carries the generation its sender sealed it with and an
`authentic` bit (nonce = the packet number given to Open, AAD and ciphertext untouched, sealed by the
peer's write key); `Open` with the key of generation `k` succeeds iff `authentic ∧ gen = k`.

Times are `Int` nanoseconds (monotime), `0` = unset.  Packet numbers are `Int`, `-1` = Invalid.
Every function mirrors the Go method of the same name branch for branch.
-/
import Uquic.Generated.Protocol

namespace Uquic.Model.KeyPhase

def invalidPN : Int := Uquic.Gen.Protocol.InvalidPacketNumber

/-- the environment of one `updatableAEAD`: package variables and the RTT estimator's answer -/
structure Env where
  /-- `3 * rttStats.PTO(true)` in ns -/
  pto3 : Int
  /-- `keyUpdateInterval.Load()` -/
  keyUpdateInterval : Int
  /-- `FirstKeyUpdateInterval` -/
  firstKeyUpdateInterval : Int
  /-- `invalidPacketLimit` of the cipher suite -/
  invalidPacketLimit : Int
deriving Repr, DecidableEq

structure KA where
  keyPhase : Int := 0
  largestAcked : Int := invalidPN
  firstPacketNumber : Int := invalidPN
  handshakeConfirmed : Bool := false
  invalidPacketCount : Int := 0
  prevRcvAEADExpiry : Int := 0
  /-- `prevRcvAEAD != nil` (its generation is `keyPhase - 1`) -/
  prevPresent : Bool := false
  firstRcvdWithCurrentKey : Int := invalidPN
  firstSentWithCurrentKey : Int := invalidPN
  /-- zero value in `newUpdatableAEAD` (not Invalid) -/
  highestRcvdPN : Int := 0
  numRcvdWithCurrentKey : Int := 0
  numSentWithCurrentKey : Int := 0
deriving Repr, DecidableEq

/-- a protected packet as the abstract AEAD sees it -/
structure Pkt where
  /-- generation of the write key that sealed it -/
  gen : Int
  /-- sealed by the peer, nothing modified, and the packet number handed to `Open` is the one used to seal -/
  authentic : Bool
deriving Repr, DecidableEq

/-- ideal AEAD: opening with the key of generation `k` -/
def aeadOpens (k : Int) (p : Pkt) : Bool := p.authentic && p.gen == k

/-- `KeyPhase.Bit()`: 0 ↦ KeyPhaseZero, 1 ↦ KeyPhaseOne (as the bit on the wire) -/
def bit (kp : Int) : Int := kp % 2

inductive Res where
  | ok | decryptionFailed | keysDropped | keyUpdateError | aeadLimitReached
deriving Repr, DecidableEq

/-- which key generation an `Open` call used (for the reordering rule) -/
inductive Used where
  | none | prev | cur | next
deriving Repr, DecidableEq

/-- `rollKeys` -/
def KA.rollKeys (a : KA) : KA :=
  { a with
    prevRcvAEADExpiry := if a.prevPresent then 0 else a.prevRcvAEADExpiry
    keyPhase := a.keyPhase + 1
    firstRcvdWithCurrentKey := invalidPN
    firstSentWithCurrentKey := invalidPN
    numRcvdWithCurrentKey := 0
    numSentWithCurrentKey := 0
    prevPresent := true }

/-- `startKeyDropTimer(now)` -/
def KA.startKeyDropTimer (a : KA) (e : Env) (now : Int) : KA :=
  { a with prevRcvAEADExpiry := now + e.pto3 }

/-- the first statement of `open`: drop the previous key once its timer has expired -/
def KA.dropExpired (a : KA) (rcvTime : Int) : KA :=
  if a.prevPresent ∧ a.prevRcvAEADExpiry ≠ 0 ∧ rcvTime > a.prevRcvAEADExpiry then
    { a with prevPresent := false, prevRcvAEADExpiry := 0 }
  else a

/-- the reordering rule: a packet with the other key-phase bit belongs to the PREVIOUS generation when we
    rolled but have not received anything with the current key yet, or when it is older than the first
    packet received with the current key -/
def KA.isOld (a : KA) (pn : Int) : Bool :=
  (decide (a.keyPhase > 0) && decide (a.firstRcvdWithCurrentKey = invalidPN)) || decide (pn < a.firstRcvdWithCurrentKey)

/-- the peer may update only after we have sent something in the current phase (or in phase 0) -/
def KA.remoteUpdateTooQuick (a : KA) : Bool :=
  decide (a.keyPhase > 0) && decide (a.firstSentWithCurrentKey = invalidPN)

/-- the branch structure of the unexported `open` on the state after the expiry check: the result and
    which key was tried.  (The Go function is this decision interleaved with the state updates of
    `openApply`; they are separated here so that each can be reasoned about on its own.) -/
def KA.openDecide (b : KA) (pn kp : Int) (p : Pkt) : Res × Used :=
  if kp ≠ bit b.keyPhase then
    if b.isOld pn then
      if !b.prevPresent then (.keysDropped, .none)
      else if aeadOpens (b.keyPhase - 1) p then (.ok, .prev)
      else (.decryptionFailed, .prev)
    else if !aeadOpens (b.keyPhase + 1) p then (.decryptionFailed, .next)
    else if b.remoteUpdateTooQuick then (.keyUpdateError, .next)
    else (.ok, .next)
  else if !aeadOpens b.keyPhase p then (.decryptionFailed, .cur)
  else (.ok, .cur)

/-- the state updates of `open` for each outcome -/
def KA.openApply (b : KA) (e : Env) (rcvTime pn : Int) : Res × Used → KA
  | (.ok, .next) =>
    -- rollKeys(); startKeyDropTimer(rcvTime); firstRcvdWithCurrentKey = pn
    { (b.rollKeys.startKeyDropTimer e rcvTime) with firstRcvdWithCurrentKey := pn }
  | (.ok, .cur) =>
    let b := { b with numRcvdWithCurrentKey := b.numRcvdWithCurrentKey + 1 }
    if b.firstRcvdWithCurrentKey = invalidPN then
      { (if b.keyPhase > 0 then b.startKeyDropTimer e rcvTime else b) with firstRcvdWithCurrentKey := pn }
    else b
  | _ => b

/-- the unexported `open` -/
def KA.openInner (a : KA) (e : Env) (rcvTime pn kp : Int) (p : Pkt) : KA × Res × Used :=
  let b := a.dropExpired rcvTime
  let d := b.openDecide pn kp p
  (b.openApply e rcvTime pn d, d.1, d.2)

/-- `Open` -/
def KA.openU (a : KA) (e : Env) (rcvTime pn kp : Int) (p : Pkt) : KA × Res × Used :=
  let (a, r, u) := a.openInner e rcvTime pn kp p
  match r with
  | .decryptionFailed =>
    let a := { a with invalidPacketCount := a.invalidPacketCount + 1 }
    if a.invalidPacketCount ≥ e.invalidPacketLimit then (a, .aeadLimitReached, u) else (a, .decryptionFailed, u)
  | .ok => ({ a with highestRcvdPN := max a.highestRcvdPN pn }, .ok, u)
  | r => (a, r, u)

def KA.open (a : KA) (e : Env) (rcvTime pn kp : Int) (p : Pkt) : KA × Res :=
  let (a, r, _) := a.openU e rcvTime pn kp p; (a, r)

/-- `Seal(pn)`: new state and the generation of the key used -/
def KA.seal (a : KA) (pn : Int) : KA × Int :=
  let a := if a.firstSentWithCurrentKey = invalidPN then { a with firstSentWithCurrentKey := pn } else a
  let a := if a.firstPacketNumber = invalidPN then { a with firstPacketNumber := pn } else a
  ({ a with numSentWithCurrentKey := a.numSentWithCurrentKey + 1 }, a.keyPhase)

/-- `SetLargestAcked(pn)`: `false` = KEY_UPDATE_ERROR -/
def KA.setLargestAcked (a : KA) (pn : Int) : KA × Bool :=
  if a.firstSentWithCurrentKey ≠ invalidPN ∧ pn ≥ a.firstSentWithCurrentKey ∧ a.numRcvdWithCurrentKey = 0 then
    (a, false)
  else ({ a with largestAcked := pn }, true)

def KA.setHandshakeConfirmed (a : KA) : KA := { a with handshakeConfirmed := true }

/-- `updateAllowed` -/
def KA.updateAllowed (a : KA) : Bool :=
  a.handshakeConfirmed &&
    (decide (a.keyPhase = 0) ||
      (decide (a.firstSentWithCurrentKey ≠ invalidPN) && decide (a.largestAcked ≠ invalidPN) &&
        decide (a.largestAcked ≥ a.firstSentWithCurrentKey)))

/-- `shouldInitiateKeyUpdate` -/
def KA.shouldInitiateKeyUpdate (a : KA) (e : Env) : Bool :=
  a.updateAllowed &&
    ((decide (a.keyPhase = 0) &&
        (decide (a.numRcvdWithCurrentKey ≥ e.firstKeyUpdateInterval) || decide (a.numSentWithCurrentKey ≥ e.firstKeyUpdateInterval))) ||
      decide (a.numRcvdWithCurrentKey ≥ e.keyUpdateInterval) ||
      decide (a.numSentWithCurrentKey ≥ e.keyUpdateInterval))

/-- `KeyPhase()`: may roll the keys; returns the key-phase bit to put on the wire -/
def KA.keyPhaseBit (a : KA) (e : Env) : KA × Int :=
  let a := if a.shouldInitiateKeyUpdate e then a.rollKeys else a
  (a, bit a.keyPhase)

/-- `DecodePacketNumber` uses `highestRcvdPN` as the receiver state -/
def KA.decodeBase (a : KA) : Int := a.highestRcvdPN

end Uquic.Model.KeyPhase
