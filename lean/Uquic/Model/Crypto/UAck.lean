/-
uQUIC glue around packet numbers and handshake confirmation (property C05, round 4):

* `uPeekLen` — internal/ackhandler/u_sent_packet_handler.go `uSentPacketHandler.PeekPacketNumber`: which wire
  length a packet number gets, per encryption level, given the pins a QUICSpec installs
  (u_connection.go `newUClientConnection`: `SetInitialPacketNumberLengths(initialPN(), list)` when the list
  is non-empty, else `SetInitialPacketNumberLength(single)` when non-zero). Only Initial packets may be
  pinned; every other level uses `protocol.PacketNumberLengthForHeader(pn, largestAcked)`.
* `acked1RTT` — the `acknowledged a 1-RTT packet` result of `sentPacketHandler.ReceivedAck`: true iff one of
  the NEWLY acknowledged packets was SENT at the 1-RTT level (0-RTT packets share the number space and the
  ACK frame always arrives in a 1-RTT packet, so the level of the ACK frame says nothing).
* `Conn.step` — connection.go `handleAckFrame` / `handleHandshakeDoneFrame` / `handleHandshakeConfirmed`:
  a client confirms the handshake (drops Initial/Handshake keys, opens the key-update gate
  `updatableAEAD.handshakeConfirmed`) on HANDSHAKE_DONE or when ReceivedAck reports an acknowledged 1-RTT packet.
-/
import Uquic.Model.Crypto.PNSpace

namespace Uquic.Model.UAck
open Uquic.Model.PN Uquic.Model.PNSpace

/-! ### packet number length pins -/

/-- the pins as installed in the `uSentPacketHandler` (`single = 0`: unset) -/
structure Pins where
  single : Nat := 0
  list : List Nat := []
  base : Int := 0
deriving Repr

/-- `InitialPacketSpec.initialPN()`: values above 2^62-1 fall back to 0 -/
def initialPN (raw : Nat) : Int := if raw > 2 ^ 62 - 1 then 0 else (raw : Int)

/-- what `newUClientConnection` installs for a spec: the list wins, then the single value -/
def Pins.ofSpec (rawPN single : Nat) (list : List Nat) : Pins :=
  if list.isEmpty then { single := single } else { list := list, base := initialPN rawPN }

/-- the index clamp of `PeekPacketNumber` (`idx < 0 → 0`, `idx ≥ len → len-1`) -/
def clampIdx (n : Nat) (i : Int) : Nat :=
  if i < 0 then 0 else if i ≥ (n : Int) then n - 1 else i.toNat

/-- `uSentPacketHandler.PeekPacketNumber`: the wire length for packet number `pn` at level `l` when the
    space's `largestAcked` is `la` -/
def uPeekLen (c : Pins) (l : Level) (pn la : Int) : Nat :=
  if l = Level.initial ∧ c.list ≠ [] then c.list.getD (clampIdx c.list.length (pn - c.base)) 0
  else if l = Level.initial ∧ c.single ≠ 0 then c.single
  else pnLenForHeader pn la

/-! ### ReceivedAck's `acknowledged a 1-RTT packet` result and the confirmation glue -/

/-- an ACK frame: its ranges as (largest, smallest) -/
abbrev Ranges := List (Int × Int)

def inRanges (rs : Ranges) (p : Int) : Bool := rs.any fun r => decide (r.2 ≤ p) && decide (p ≤ r.1)

/-- the packets of the history that an ACK frame newly acknowledges (`detectAndRemoveAckedPackets`) -/
def newlyAcked (outstanding : List (Int × Level)) (rs : Ranges) : List (Int × Level) :=
  outstanding.filter fun p => inRanges rs p.1

/-- `acked1RTTPacket`: some newly acknowledged packet was sent at the 1-RTT level -/
def acked1RTT (newly : List (Int × Level)) : Bool := newly.any fun p => p.2 == Level.oneRTT

/-- events of the application-data space of a client connection -/
inductive Ev where
  /-- a packet is sent (0-RTT or 1-RTT level; both live in the application-data space) -/
  | send (pn : Int) (lvl : Level)
  /-- an ACK frame for the application-data space arrives (necessarily in a 1-RTT packet); afterwards loss
      detection removes the packets `lost` from the history (arbitrary: the theorems hold for any choice) -/
  | ack (rs : Ranges) (lost : List Int)
  /-- HANDSHAKE_DONE arrives -/
  | done
deriving Repr

structure Conn where
  /-- sent packet history of the application-data space: (packet number, level it was sent at) -/
  outstanding : List (Int × Level) := []
  /-- `Conn.handshakeConfirmed` = `updatableAEAD.handshakeConfirmed` (set together by handleHandshakeConfirmed) -/
  confirmed : Bool := false
deriving Repr

def Conn.ackStep (c : Conn) (rs : Ranges) (lost : List Int) : Conn :=
  { outstanding := (c.outstanding.filter fun p => !inRanges rs p.1).filter fun p => !lost.contains p.1,
    confirmed := c.confirmed || acked1RTT (newlyAcked c.outstanding rs) }

def Conn.step (c : Conn) : Ev → Conn
  | .send pn lvl => { c with outstanding := c.outstanding ++ [(pn, lvl)] }
  | .ack rs lost => c.ackStep rs lost
  | .done => { c with confirmed := true }

def Conn.run (c : Conn) : List Ev → Conn
  | [] => c
  | e :: es => (c.step e).run es

end Uquic.Model.UAck
