/-
Model of the packer glue between the 1-RTT sealer and the wire (property C05, round 5): the eight methods of
`packer` in packet_packer.go (and the two overrides in u_packet_packer.go) that can put a short header packet
on the wire.  What matters for key updates is WHEN a path asks the sealer for the key phase
(`ShortHeaderSealer.KeyPhase()` may roll the keys), WHETHER it then seals, and WHICH key-phase bit it writes
into the short header: RFC 9001 §6 — the bit identifies the keys that protect the packet.

Every path is: find out what there is to send; `kp := sealer.KeyPhase()`; `appendShortHeaderPacket(…, kp, …)`
which writes `kp` into the header and seals with the sealer's CURRENT keys.  PackCoalescedPacket and
PackPTOProbePacket ask for the key phase before they know whether there is a payload.
-/
import Uquic.Model.Crypto.KeyPhase

namespace Uquic.Model.PackGlue
open Uquic.Model.KeyPhase

/-- the methods of the `packer` interface that can emit a 1-RTT packet -/
inductive Path where
  | append      -- AppendPacket
  | ackOnly     -- PackAckOnlyPacket
  | coalesced   -- PackCoalescedPacket (packetPacker and uPacketPacker)
  | ptoProbe    -- PackPTOProbePacket at the 1-RTT level (packetPacker and uPacketPacker)
  | mtuProbe    -- PackMTUProbePacket
  | pathProbe   -- PackPathProbePacket
  | connClose   -- PackConnectionClose
  | appClose    -- PackApplicationClose
deriving Repr, DecidableEq

/-- what the frame sources hold when the path runs -/
structure Avail where
  /-- the framer (or the retransmission queue) has frames -/
  data : Bool
  /-- an ACK frame is queued for the application-data space -/
  ack : Bool
  /-- `onlyAck` of PackCoalescedPacket / `addPingIfEmpty` of PackPTOProbePacket -/
  flag : Bool
deriving Repr, DecidableEq

/-- does the path end up with a 1-RTT payload -/
def Path.hasPayload : Path → Avail → Bool
  | .append, v => v.data || v.ack
  | .ackOnly, v => v.ack
  | .coalesced, v => if v.flag then v.ack else v.data || v.ack
  | .ptoProbe, v => v.data || v.ack || v.flag
  | _, _ => true

/-- paths that call `KeyPhase()` before they know whether there is anything to send -/
def Path.asksFirst : Path → Bool
  | .coalesced | .ptoProbe => true
  | _ => false

/-- a short header packet as the key-phase machinery sees it -/
structure Packed where
  /-- key-phase bit written into the short header -/
  bit : Int
  /-- generation of the key that sealed it -/
  gen : Int
  pn : Int
deriving Repr, DecidableEq

/-- one call of a pack path on the sealer state `a` with the packet number `pn` the packet number manager
    peeked: new sealer state and the packet, if one was produced -/
def pack (p : Path) (v : Avail) (a : KA) (e : Env) (pn : Int) : KA × Option Packed :=
  if p.hasPayload v then
    -- kp := sealer.KeyPhase(); appendShortHeaderPacket(…, kp, …) → Seal
    (((a.keyPhaseBit e).1.seal pn).1, some { bit := (a.keyPhaseBit e).2, gen := ((a.keyPhaseBit e).1.seal pn).2, pn := pn })
  else if p.asksFirst then ((a.keyPhaseBit e).1, none)
  else (a, none)

/-- the defect class of seed r4s2: a path that takes the sealer but never asks it for the key phase — the
    header carries `KeyPhaseUndefined`, which `AppendShortHeader` writes as bit 0, and no key update is
    initiated on that path -/
def packForgetful (a : KA) (pn : Int) : KA × Packed :=
  ((a.seal pn).1, { bit := 0, gen := (a.seal pn).2, pn := pn })

def Path.ofString : String → Option Path
  | "append" => some .append | "ackonly" => some .ackOnly | "coal" => some .coalesced | "pto" => some .ptoProbe
  | "mtu" => some .mtuProbe | "path" => some .pathProbe | "cclose" => some .connClose | "aclose" => some .appClose
  | _ => none

end Uquic.Model.PackGlue
