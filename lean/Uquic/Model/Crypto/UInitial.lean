/-
The uQUIC Initial serialisation glue (property C05): model of u_packet_packer.go
`uPacketPacker.appendInitialPacketPayload` — exact-size PADDING for a spec'd PacketSize, the RFC 9001
§5.4.2 minimum padding (packet number + payload ≥ 4 bytes so that the header-protection sample exists),
the long-header Length field (fixed AFTER all padding: it must cover packet number, padded payload and
AEAD tag), `encryptPacket`, and the datagram padding up to UDPDatagramMinSize when no exact size is set.
`tmpl` is the header as `ExtendedHeader.Append` writes it with Length = 0 (the Length varint always has
2 bytes there), i.e. everything the glue does not decide.
-/
import Uquic.Model.Crypto.Packet

namespace Uquic.Model.UInitial
open Uquic.Model.Packet

def zeros (n : Nat) : Bytes := List.replicate n 0

/-- the payload after exact-size padding and minimum padding; `hdrLen = header.GetLength(v)` -/
def padPayload (pnLen : Nat) (payload : Bytes) (hdrLen packetSize : Nat) : Bytes :=
  let p1 := if packetSize > hdrLen + payload.length + 16 then payload ++ zeros (packetSize - (hdrLen + payload.length + 16)) else payload
  if pnLen + p1.length < 4 then p1 ++ zeros (4 - pnLen - p1.length) else p1

/-- `header.Length = pnLen + sealer.Overhead() + len(uPayload)` -/
def lengthField (pnLen : Nat) (padded : Bytes) : Nat := pnLen + 16 + padded.length

/-- the template with its 2-byte Length varint (just before the packet number) set to `len < 2^14` -/
def setLength (tmpl : Bytes) (pnLen len : Nat) : Bytes :=
  tmpl.take (tmpl.length - pnLen - 2) ++ [UInt8.ofNat (0x40 + len / 256), UInt8.ofNat (len % 256)] ++ tmpl.drop (tmpl.length - pnLen)

def defaultUDPMin : Nat := 1200

/-- the datagram `appendInitialPacketPayload` leaves in the buffer (`none`: encryptPacket panics) -/
def datagram (k : Keys) (tmpl : Bytes) (pn : Nat) (payload : Bytes) (packetSize udpMin : Nat) : Option Bytes :=
  let pnLen := pnLenOf (tmpl.headD 0)
  let padded := padPayload pnLen payload tmpl.length packetSize
  let hdr := setLength tmpl pnLen (lengthField pnLen padded)
  match protect k hdr pn padded with
  | none => none
  | some pkt =>
    let m := if udpMin == 0 then defaultUDPMin else udpMin
    some (if packetSize == 0 then pkt ++ zeros (m - pkt.length) else pkt)

end Uquic.Model.UInitial
