/-
Model of internal/protocol/packet_number.go (DecodePacketNumber,
PacketNumberLengthForHeader) and internal/ackhandler/packet_number_generator.go
(sequential and skipping generators) — property C05.

Conventions: packet numbers are `Int` (Go int64; `InvalidPacketNumber = -1`).
`len` is the packet number length in bytes (1..4).  The Go expression
`(expected & ^mask) | truncated` is kept as bit operations (on the `Nat` value
of the non-negative operands: `(e >>> k) <<< k ||| t`); `candidate_eq` in
Uquic/Proofs/PN.lean relates it to `e - e % 2^k + t`.
The random skip draw of the skipping generator is an *input* of the model
(`d`, the value returned by `rng.Int31n(2*period)`).
-/
import Uquic.Generated.Protocol

namespace Uquic.Model.PN

def invalidPN : Int := Uquic.Gen.Protocol.InvalidPacketNumber

/-- `(expected & ^mask) | truncated` for `mask = 2^k - 1`, non-negative operands -/
def candidateBits (k : Nat) (expected truncated : Int) : Int :=
  Int.ofNat ((((expected.toNat >>> k) <<< k)) ||| truncated.toNat)

/-- `protocol.DecodePacketNumber(length, largest, truncated)` -/
def decodePN (len : Nat) (largest truncated : Int) : Int :=
  let expected := largest + 1
  let win : Int := 2 ^ (8 * len)
  let hwin := win / 2
  let candidate := candidateBits (8 * len) expected truncated
  if candidate ≤ expected - hwin ∧ candidate < 2 ^ 62 - win then candidate + win
  else if candidate > expected + hwin ∧ candidate ≥ win then candidate - win
  else candidate

/-- `protocol.PacketNumberLengthForHeader(pn, largestAcked)` -/
def pnLenForHeader (pn largestAcked : Int) : Nat :=
  let numUnacked := if largestAcked = invalidPN then pn + 1 else pn - largestAcked
  if numUnacked < 2 ^ 15 then 2
  else if numUnacked < 2 ^ 23 then 3
  else 4

/-- what `appendPacketNumber` puts on the wire, as a number: `uint8(pn)`, `uint16(pn)`, … -/
def truncatePN (len : Nat) (pn : Int) : Int := pn % 2 ^ (8 * len)

/-! ### packet number generators -/

/-- `sequentialPacketNumberGenerator` -/
structure SeqGen where
  next : Int
deriving Repr, DecidableEq

def SeqGen.peek (g : SeqGen) : Int := g.next
/-- `Pop`: (new state, skipped?, packet number) -/
def SeqGen.pop (g : SeqGen) : SeqGen × Bool × Int := ({ next := g.next + 1 }, false, g.next)

/-- `skippingPacketNumberGenerator` -/
structure SkipGen where
  period : Int
  maxPeriod : Int
  next : Int
  nextToSkip : Int
deriving Repr, DecidableEq

/-- `generateNewSkip` with the draw `d = rng.Int31n(int32(2*period))` -/
def SkipGen.generateNewSkip (g : SkipGen) (d : Int) : SkipGen :=
  { g with nextToSkip := g.next + 3 + d, period := min (2 * g.period) g.maxPeriod }

/-- `newSkippingPacketNumberGenerator(initial, initialPeriod, maxPeriod)` -/
def SkipGen.new (initial initialPeriod maxPeriod d : Int) : SkipGen :=
  ({ period := initialPeriod, maxPeriod := maxPeriod, next := initial, nextToSkip := 0 } : SkipGen).generateNewSkip d

def SkipGen.peek (g : SkipGen) : Int :=
  if g.next = g.nextToSkip then g.next + 1 else g.next

/-- `Pop`: (new state, skipped?, packet number); the draw `d` is only consumed when a number is skipped -/
def SkipGen.pop (g : SkipGen) (d : Int) : SkipGen × Bool × Int :=
  if g.next = g.nextToSkip then
    (({ g with next := g.next + 2 } : SkipGen).generateNewSkip d, true, g.next + 1)
  else
    ({ g with next := g.next + 1 }, false, g.next)

/-- the draw is in the range of `Int31n(2*period)` -/
def SkipGen.drawOk (g : SkipGen) (d : Int) : Bool := 0 ≤ d ∧ d < 2 * g.period

/-- outputs `(skipped?, pn)` of a sequence of `Pop`s, one draw offered per call -/
def SkipGen.run (g : SkipGen) : List Int → List (Bool × Int)
  | [] => []
  | d :: ds => let (g', s, p) := g.pop d; (s, p) :: SkipGen.run g' ds

/-- state after a sequence of `Pop`s -/
def SkipGen.after (g : SkipGen) : List Int → SkipGen
  | [] => g
  | d :: ds => SkipGen.after (g.pop d).1 ds

/-- the numbers reported as skipped by a run: the one before each output flagged `skipped` -/
def skippedOf (outs : List (Bool × Int)) : List Int :=
  outs.filterMap fun (s, p) => if s then some (p - 1) else none

end Uquic.Model.PN
