/-
Byte-level helpers shared by the C05 models: big-endian encodings, XOR of byte strings and the
AEAD nonce `IV xor (0^4 ‖ be64(pn))` of handshake/cipher_suite.go (xorNonceAEAD) with
aead.go / updatable_aead.go (`binary.BigEndian.PutUint64(nonceBuf[len-8:], uint64(pn))`).
-/
namespace Uquic.Model.Bytes

/-- `k` bytes big-endian of `n mod 256^k` (what `uint8(pn)`, `PutUint16`, `PutUint32`, `PutUint64` write) -/
def beBytes : Nat → Nat → List UInt8
  | 0, _ => []
  | k + 1, n => beBytes k (n / 256) ++ [UInt8.ofNat (n % 256)]

/-- big-endian value of a byte string (`readPacketNumber`) -/
def fromBE (bs : List UInt8) : Nat := bs.foldl (fun acc b => acc * 256 + b.toNat) 0

def xorBytes (a b : List UInt8) : List UInt8 := List.zipWith (· ^^^ ·) a b

/-- the per-packet nonce: the packet number, 8 bytes big-endian, XORed into the last 8 bytes of the IV -/
def nonce (iv : List UInt8) (pn : Nat) : List UInt8 :=
  xorBytes iv (List.replicate (iv.length - 8) 0 ++ beBytes 8 pn)

def hexDigit (n : Nat) : Char := if n < 10 then Char.ofNat (48 + n) else Char.ofNat (87 + n)
def toHex (bs : List UInt8) : String :=
  String.ofList (bs.flatMap fun b => [hexDigit (b.toNat / 16), hexDigit (b.toNat % 16)])
def hexVal (c : Char) : Option Nat :=
  if '0' ≤ c ∧ c ≤ '9' then some (c.toNat - 48)
  else if 'a' ≤ c ∧ c ≤ 'f' then some (c.toNat - 87)
  else if 'A' ≤ c ∧ c ≤ 'F' then some (c.toNat - 55) else none
def ofHexChars : List Char → Option (List UInt8)
  | [] => some []
  | [_] => none
  | a :: b :: rest => do
    let x ← hexVal a; let y ← hexVal b; let r ← ofHexChars rest
    pure (UInt8.ofNat (16 * x + y) :: r)
/-- parse lower/upper-case hex; "-" or "" is the empty string -/
def ofHex (s : String) : Option (List UInt8) := if s = "-" then some [] else ofHexChars s.toList

end Uquic.Model.Bytes
