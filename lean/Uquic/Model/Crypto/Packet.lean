/-
Byte-level packet protection (property C05): model of packet_packer.go `encryptPacket`,
packet_unpacker.go `unpackLongHeader` / `unpackShortHeader` / `unpack{Long,Short}HeaderPacket`,
handshake/header_protector.go `apply` and the nonce construction of handshake/aead.go,
updatable_aead.go and cipher_suite.go (xorNonceAEAD).

Parametric in
* an abstract AEAD for one key (`enc nonce aad msg` = Seal, `dec nonce aad ct` = Open) and its IV,
* the header-protection mask function `hp : sample → (i ↦ mask byte i)` (AES-ECB or ChaCha20 of the
  16-byte sample under the hp key),
* `long` (long header: first-byte mask 0x0f, short header: 0x1f).

A packet is `hdr ++ payload` where `hdr` is the complete header INCLUDING the truncated packet number
(its last `pnLen` bytes), `pnLen = (hdr[0] & 3) + 1`; `pnOffset = |hdr| - pnLen`.
The Go unpacker unmasks 4 packet-number bytes and then restores the ones beyond `pnLen` from a saved
copy; the model unmasks exactly `pnLen` bytes, which is the same function of the input.
-/
import Uquic.Model.Crypto.Bytes
import Uquic.Model.Crypto.PN
import Uquic.Generated.Handshake

namespace Uquic.Model.Packet
open Uquic.Model.Bytes Uquic.Model.PN

abbrev Bytes := List UInt8

structure AEAD where
  /-- `Seal(nonce, aad, plaintext)` (the words `seal`/`open` are Lean keywords) -/
  enc : Bytes → Bytes → Bytes → Bytes
  /-- `Open(nonce, aad, ciphertext)` -/
  dec : Bytes → Bytes → Bytes → Option Bytes

structure Keys where
  aead : AEAD
  iv : Bytes
  hp : Bytes → Nat → UInt8
  long : Bool

/-- header_protector.go: `mask[0] & 0xf` (long) / `mask[0] & 0x1f` (short) — the literals are regenerated
    from the source (`Uquic.Gen.Handshake`); `hp_mask_bits_rfc` in Props/C05 states that they are the RFC's -/
def firstMask (long : Bool) : UInt8 :=
  if long then UInt8.ofNat Uquic.Gen.Handshake.aesFirstByteMaskLong else UInt8.ofNat Uquic.Gen.Handshake.aesFirstByteMaskShort

/-- `protocol.PacketNumberLen(typeByte&0x3) + 1` -/
def pnLenOf (first : UInt8) : Nat := (first &&& 3).toNat + 1

/-- `hdrBytes[i] ^= mask[i+1]`, starting at mask index `i` -/
def xorAt (m : Nat → UInt8) : Nat → Bytes → Bytes
  | _, [] => []
  | i, b :: bs => (b ^^^ m i) :: xorAt m (i + 1) bs

/-- header protection applied to / removed from a packet: first byte and `pnLen` bytes at `pnOffset`
    (`pnOffset ≥ 1`). XOR, so the same function protects and unprotects. -/
def applyHP (long : Bool) (m : Nat → UInt8) (pnOffset pnLen : Nat) : Bytes → Bytes
  | [] => []
  | f :: tl =>
    (f ^^^ (m 0 &&& firstMask long)) ::
      (tl.take (pnOffset - 1) ++ xorAt m 1 ((tl.drop (pnOffset - 1)).take pnLen) ++ tl.drop (pnOffset - 1 + pnLen))

/-- `raw[pnOffset+4 : pnOffset+4+16]` -/
def sample (raw : Bytes) (pnOffset : Nat) : Bytes := (raw.drop (pnOffset + 4)).take 16

/-- `encryptPacket`: seal the payload with AAD = header, nonce = IV xor pn, then protect the header.
    `none` = the Go slice expression for the sample panics (packet shorter than `pnOffset+4+16`; the
    packer pads the payload to `4 - pnLen` bytes so that this cannot happen). -/
def protect (k : Keys) (hdr : Bytes) (pn : Nat) (payload : Bytes) : Option Bytes :=
  let pnLen := pnLenOf (hdr.headD 0)
  let pnOffset := hdr.length - pnLen
  let raw := hdr ++ k.aead.enc (nonce k.iv pn) hdr payload
  if raw.length < pnOffset + 4 + 16 then none
  else some (applyHP k.long (k.hp (sample raw pnOffset)) pnOffset pnLen raw)

inductive Err where
  | tooSmall | decrypt | reserved
deriving Repr, DecidableEq

structure Opened where
  hdr : Bytes
  pn : Int
  pnLen : Nat
  payload : Bytes
deriving Repr, DecidableEq

/-- reserved bits of the unprotected first byte: `0x0c` (long) / `0x18` (short) must be zero -/
def reservedOK (long : Bool) (first : UInt8) : Bool :=
  if long then first &&& 0x0c == 0 else first &&& 0x18 == 0

/-- `unpackLongHeaderPacket` / `unpackShortHeaderPacket` up to and including the AEAD `Open` call, for a
    packet whose header up to the packet number has length `pnOffset`; `largest` is the opener's
    `highestRcvdPN`.  Also returns whether the reserved bits of the unprotected first byte are valid:
    the Go code reports invalid reserved bits only AFTER a successful decryption (timing side channel),
    so the opener's state (`highestRcvdPN`, key phase) has already advanced then. -/
def unprotectCore (k : Keys) (data : Bytes) (pnOffset : Nat) (largest : Int) : Except Err (Opened × Bool) :=
  if data.length < pnOffset + 4 + 16 then .error .tooSmall
  else
    let m := k.hp (sample data pnOffset)
    let first := data.headD 0 ^^^ (m 0 &&& firstMask k.long)
    let pnLen := pnLenOf first
    let un := applyHP k.long m pnOffset pnLen data
    let hdr := un.take (pnOffset + pnLen)
    let trunc := fromBE ((un.drop pnOffset).take pnLen)
    let pn := decodePN pnLen largest trunc
    match k.aead.dec (nonce k.iv pn.toNat) hdr (data.drop (pnOffset + pnLen)) with
    | none => .error .decrypt
    | some msg => .ok ({ hdr := hdr, pn := pn, pnLen := pnLen, payload := msg }, reservedOK k.long first)

/-- what the unpacker returns to the connection -/
def unprotect (k : Keys) (data : Bytes) (pnOffset : Nat) (largest : Int) : Except Err Opened :=
  match unprotectCore k data pnOffset largest with
  | .error e => .error e
  | .ok (o, true) => .ok o
  | .ok (_, false) => .error .reserved

end Uquic.Model.Packet
