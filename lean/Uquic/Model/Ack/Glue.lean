/-
Model of the GLUE in connection.go between the connection and the received-packet handler (property C07):

* `Conn.sendPackedCoalescedPacket` / `Conn.registerPackedShortHeaderPacket`: with which `largestAcked` every packet
  of a (coalesced) datagram is registered with the sent-packet handler, and the step of
  `sentPacketHandler.detectAndRemoveAckedPackets` that turns acknowledged packets into
  `receivedPacketHandler.IgnorePacketsBelow` calls (the forget threshold of the application-data space);
* `Conn.maybeResetTimer` (with `idleTimeoutStartTime`, `nextIdleTimeoutTime`, `nextKeepAliveTime`): which deadlines
  are folded into the connection timer under which blocking mode.

Conventions as in `Uquic.Model.Rcv`: packet numbers and times are `Int` (Go int64); `InvalidPacketNumber = -1`;
a time `0` is "unset" (`monotime.Time.IsZero`).  Every function mirrors the Go function branch for branch.
-/
import Uquic.Model.Ack.Rcv

namespace Uquic.Model.AckGlue
open Uquic.Model.Rcv

/-! ### registration of sent packets -/

/-- a long header packet of a coalesced datagram: level, packet number, largest acked of its ACK frame (if any) -/
structure LongPart where
  lvl : Level
  pn : Int
  ack : Option Int
deriving Repr, DecidableEq

/-- the short header (1-RTT) packet of a datagram -/
structure ShortPart where
  pn : Int
  ack : Option Int
deriving Repr, DecidableEq

/-- one `sentPacketHandler.SentPacket` call -/
structure Reg where
  lvl : Level
  pn : Int
  largestAcked : Int
deriving Repr, DecidableEq

/-- `largestAcked := protocol.InvalidPacketNumber; if p.ack != nil { largestAcked = p.ack.LargestAcked() }` -/
def largestAckedOf : Option Int → Int
  | some la => la
  | none => invalidPN

def regLong (p : LongPart) : Reg := { lvl := p.lvl, pn := p.pn, largestAcked := largestAckedOf p.ack }
def regShort (p : ShortPart) : Reg := { lvl := .oneRTT, pn := p.pn, largestAcked := largestAckedOf p.ack }

/-- `Conn.sendPackedCoalescedPacket`: the loop over `packet.longHdrPackets`, then `packet.shortHdrPacket` -/
def sendPackedCoalesced (long : List LongPart) (short : Option ShortPart) : List Reg :=
  long.map regLong ++ (match short with | some p => [regShort p] | none => [])

/-- `Conn.registerPackedShortHeaderPacket`: a path probe is registered without a largest acked -/
def registerShort (p : ShortPart) (isPathProbe : Bool) : Reg :=
  if isPathProbe then { lvl := .oneRTT, pn := p.pn, largestAcked := invalidPN } else regShort p

/-- the `IgnorePacketsBelow` calls made by `detectAndRemoveAckedPackets` for newly acknowledged packets:
    `if p.LargestAcked != InvalidPacketNumber && encLevel == Encryption1RTT { ignorePacketsBelow(p.LargestAcked + 1) }` -/
def forgetCalls (acked : List Reg) : List Int :=
  acked.filterMap fun r => if r.largestAcked ≠ invalidPN ∧ r.lvl = .oneRTT then some (r.largestAcked + 1) else none

/-! ### the connection timer -/

inductive BlockMode
  | none | congestionLimited | hardBlocked
deriving Repr, DecidableEq

/-- everything `Conn.maybeResetTimer` reads -/
structure TimerIn where
  handshakeComplete : Bool := true
  creationTime : Int := 0
  handshakeIdleTimeout : Int := 0      -- config.HandshakeIdleTimeout; config.handshakeTimeout() is twice that
  lastPacketReceivedTime : Int := 0
  firstAckElicitingAfterIdle : Int := 0 -- firstAckElicitingPacketAfterIdleSentTime, 0 = unset
  idleTimeout : Int := 0
  pto : Int := 0                        -- rttStats.PTO(true)
  keepAlivePeriod : Int := 0            -- config.KeepAlivePeriod
  keepAlivePingSent : Bool := false
  keepAliveInterval : Int := 0
  blocked : BlockMode := .none
  ackAlarm : Int := 0                   -- receivedPacketHandler.GetAlarmTimeout(), 0 = unset
  lossTimeout : Int := 0                -- sentPacketHandler.GetLossDetectionTimeout(), 0 = unset
  pacingDeadline : Int := 0             -- 0 = unset
deriving Repr

def idleTimeoutStartTime (i : TimerIn) : Int :=
  if i.firstAckElicitingAfterIdle ≠ 0 ∧ i.firstAckElicitingAfterIdle > i.lastPacketReceivedTime then
    i.firstAckElicitingAfterIdle
  else i.lastPacketReceivedTime

def nextIdleTimeoutTime (i : TimerIn) : Int :=
  idleTimeoutStartTime i + max i.idleTimeout (i.pto * 3)

def nextKeepAliveTime (i : TimerIn) : Int :=
  if i.keepAlivePeriod = 0 ∨ i.keepAlivePingSent then 0
  else i.lastPacketReceivedTime + max i.keepAliveInterval (i.pto * 3 / 2)

/-- the first `if … else` of `maybeResetTimer`: handshake / keep-alive / idle deadline -/
def baseDeadline (i : TimerIn) : Int :=
  if !i.handshakeComplete then
    let deadline := i.creationTime + 2 * i.handshakeIdleTimeout
    let t := idleTimeoutStartTime i + i.handshakeIdleTimeout
    if t < deadline then t else deadline
  else if i.blocked ≠ .none then nextIdleTimeoutTime i
  else if nextKeepAliveTime i ≠ 0 then nextKeepAliveTime i
  else nextIdleTimeoutTime i

/-- `if t := …; !t.IsZero() && t.Before(deadline) { deadline = t }` -/
def fold (deadline t : Int) : Int := if t ≠ 0 ∧ t < deadline then t else deadline

/-- the deadline `Conn.maybeResetTimer` arms the connection timer with -/
def timerDeadline (i : TimerIn) : Int :=
  let deadline := baseDeadline i
  if i.blocked = .hardBlocked then deadline
  else
    let deadline := fold deadline i.ackAlarm
    let deadline := fold deadline i.lossTimeout
    if i.blocked = .congestionLimited then deadline
    else fold deadline i.pacingDeadline

/-- what is observable: the time until the timer fires (`timer.Reset(monotime.Until(deadline))`) -/
def fireAfter (i : TimerIn) (now : Int) : Int := max 0 (timerDeadline i - now)

end Uquic.Model.AckGlue
