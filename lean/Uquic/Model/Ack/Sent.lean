/-
Model of internal/ackhandler/sent_packet_handler.go (property C06): the
per-space state and the handler, function for function.

Environment inputs (DESIGN §5): the RTT estimator's outputs (`Env`, read from
the real `utils.RTTStats` after each operation), the random `nextToSkip` of
the skipping packet-number generator (`nts`, read back from the
implementation), and the congestion controller's answers (`SendMode`).  The
congestion controller, ECN tracker, qlog recorder and the lost-packet
tracker used only for spurious-loss logging do not influence any modelled
field and are not represented.

Loops over `history.Packets()` are rendered as a counter running over the
packet numbers of the slice *as it was when the loop started* (the Go
iterator saves `firstPacketNumber` and ranges over the saved slice header,
whose backing array is shared with the live history), looking every number
up in the current history.
-/
import Uquic.Model.Ack.SentHist

namespace Uquic.Model.Sent

def sendNone : Int := Uquic.Gen.Ackhandler.SendNone
def sendAck : Int := Uquic.Gen.Ackhandler.SendAck
def sendPTOInitial : Int := Uquic.Gen.Ackhandler.SendPTOInitial
def sendPTOHandshake : Int := Uquic.Gen.Ackhandler.SendPTOHandshake
def sendPTOAppData : Int := Uquic.Gen.Ackhandler.SendPTOAppData
def sendPacingLimited : Int := Uquic.Gen.Ackhandler.SendPacingLimited
def sendAny : Int := Uquic.Gen.Ackhandler.SendAny

/-- `packetNumberSpace` -/
structure Space where
  hist : Hist := {}
  gen : Gen := {}
  lossTime : Time := 0
  lastAETime : Time := 0
  largestAcked : PN := invalidPN
  largestSent : PN := invalidPN
deriving DecidableEq, Repr

/-- `newPacketNumberSpace` -/
def Space.new (initialPN : PN) (isAppData : Bool) (nts : PN) : Space :=
  { gen := Gen.new isAppData initialPN nts }

inductive TimerType | none | ack | pto | pathProbe
deriving DecidableEq, Repr

/-- `alarmTimer` -/
structure Alarm where
  time : Time := 0
  typ : TimerType := .none
  level : Level := .invalid
deriving DecidableEq, Repr

/-- RTT estimator outputs at the time they are read -/
structure Env where
  latestRTT : Int := 0
  smoothedRTT : Int := 0
  /-- `rttStats.PTO(false)` -/
  pto0 : Int := 0
  /-- `rttStats.PTO(true)` -/
  pto1 : Int := 0
deriving DecidableEq, Repr

/-- `sentPacketHandler` -/
structure State where
  initial : Option Space := none
  handshake : Option Space := none
  app : Space := {}
  peerCompleted : Bool := false
  bytesReceived : Int := 0
  bytesSent : Int := 0
  peerValidated : Bool := false
  handshakeConfirmed : Bool := false
  /-- `len(h.ackedPackets)` left over by an aborted `detectAndRemoveAckedPackets` -/
  ackedBuf : Nat := 0
  bytesInFlight : Int := 0
  ptoCount : Nat := 0
  ptoMode : Int := sendNone
  numProbesToSend : Int := 0
  alarm : Alarm := {}
  isClient : Bool := true
deriving DecidableEq, Repr

/-- `NewSentPacketHandler` -/
def State.new (initialPN : PN) (clientAddressValidated isClient : Bool) (nts : PN) : State :=
  { initial := some (Space.new initialPN false 0),
    handshake := some (Space.new 0 false 0),
    app := Space.new 0 true nts,
    peerCompleted := !isClient,
    peerValidated := isClient || clientAddressValidated,
    isClient := isClient }

inductive Ev
  | acked (f : Frame)
  | lost (f : Frame)
  /-- the `ignorePacketsBelow` callback -/
  | ignore (pn : PN)
deriving DecidableEq, Repr

inductive ErrCode
  /-- PROTOCOL_VIOLATION "received ACK for an unsent packet" -/
  | ackUnsent
  /-- PROTOCOL_VIOLATION "received an ACK for skipped packet number" -/
  | ackSkipped
  | bugAckedNotEmpty
  | bugWrongPacket
  | notFound
  | bugPTO
  | ptoLevel
deriving DecidableEq, Repr

inductive Res
  | ok
  | err (c : ErrCode)
  | panic (c : PanicCause)
deriving DecidableEq, Repr

def Res.isPanic : Res → Bool
  | .panic _ => true
  | _ => false

/-- outcomes after which the connection is gone and the handler is not used any more: a panic, or one of
    the internal errors of `detectAndRemoveAckedPackets` that leave the ACK half processed -/
def Res.fatal : Res → Bool
  | .panic _ => true
  | .err .notFound => true
  | .err .bugWrongPacket => true
  | _ => false

structure Out where
  res : Res := .ok
  evs : List Ev := []
  /-- ghost: frames dropped from the histories without any callback -/
  disc : List Frame := []
  /-- `ReceivedAck`: a 1-RTT packet was acked; `QueueProbePacket`: a packet was queued -/
  flag : Bool := false
  /-- popped packet number -/
  pn : PN := invalidPN
  /-- ghost: packet numbers recorded as skipped by this operation -/
  skipped : List PN := []
deriving Repr

/-- `getPacketNumberSpace`; `none`: the space was dropped (nil) or the level is invalid — every caller
    dereferences the result at once, so both end in a panic -/
def State.getSpace (s : State) : Level → Option Space
  | .initial => s.initial
  | .handshake => s.handshake
  | .zeroRTT => some s.app
  | .oneRTT => some s.app
  | .invalid => none

def State.setSpace (s : State) (l : Level) (sp : Space) : State :=
  match l with
  | .initial => { s with initial := some sp }
  | .handshake => { s with handshake := some sp }
  | .zeroRTT => { s with app := sp }
  | .oneRTT => { s with app := sp }
  | .invalid => s

/-- `removeFromBytesInFlight`; `none` = panic("negative bytes_in_flight") -/
def removeBif (bfl : Int) (p : Packet) : Option Int :=
  if p.inFlight then (if p.length > bfl then none else some (bfl - p.length)) else some bfl

/-! ### timers -/

/-- `isAmplificationLimited` -/
def State.isAmplificationLimited (s : State) : Bool :=
  if s.peerValidated then false else s.bytesSent ≥ amplificationFactor * s.bytesReceived

def spaceOutstanding : Option Space → Bool
  | some sp => sp.hist.hasOutstandingPackets
  | none => false

/-- `hasOutstandingCryptoPackets` -/
def State.hasOutstandingCrypto (s : State) : Bool :=
  spaceOutstanding s.initial || spaceOutstanding s.handshake

/-- `getLossTimeAndSpace` -/
def State.getLossTimeAndSpace (s : State) : Time × Level :=
  let r : Time × Level := match s.initial with
    | some sp => (sp.lossTime, .initial)
    | none => (0, .invalid)
  let r : Time × Level := match s.handshake with
    | some sp => if r.1 = 0 ∨ (sp.lossTime ≠ 0 ∧ sp.lossTime < r.1) then (sp.lossTime, .handshake) else r
    | none => r
  if r.1 = 0 ∨ (s.app.lossTime ≠ 0 ∧ s.app.lossTime < r.1) then (s.app.lossTime, .oneRTT) else r

def wrap64 (x : Int) : Int :=
  let m := x % 18446744073709551616
  if m ≥ 9223372036854775808 then m - 18446744073709551616 else m

/-- Go `int64 << uint32` -/
def shl64 (x : Int) (k : Nat) : Int := if k ≥ 64 then 0 else wrap64 (x * (2 ^ k : Nat))

/-- `getScaledPTO` -/
def State.getScaledPTO (s : State) (env : Env) (includeMaxAckDelay : Bool) : Int :=
  let pto := shl64 (if includeMaxAckDelay then env.pto1 else env.pto0) s.ptoCount
  if pto > maxPTODuration ∨ pto ≤ 0 then maxPTODuration else pto

/-- candidate PTO deadline of one space in `getPTOTimeAndSpace`: `lastAckElicitingPacketTime.Add(pto)` if the
    space exists, has outstanding packets and that time is set -/
def ptoCandidate (o : Option Space) (pto : Int) : Option Time :=
  match o with
  | some sp => if sp.hist.hasOutstandingPackets ∧ sp.lastAETime ≠ 0 then some (sp.lastAETime + pto) else none
  | none => none

/-- `if pto.IsZero() || (!t.IsZero() && t.Before(pto)) { pto = t; encLevel = l }` -/
def takeEarlier (r : Time × Level) (t : Time) (l : Level) : Time × Level :=
  if r.1 = 0 ∨ (t ≠ 0 ∧ t < r.1) then (t, l) else r

/-- `getPTOTimeAndSpace`, after looking at the Initial space -/
def State.ptoInitial (s : State) (env : Env) : Time × Level :=
  match ptoCandidate s.initial (s.getScaledPTO env false) with
  | some t => (t, .initial)
  | none => (0, .invalid)

/-- … and at the Handshake space -/
def State.ptoHandshake (s : State) (env : Env) : Time × Level :=
  match ptoCandidate s.handshake (s.getScaledPTO env false) with
  | some t => takeEarlier (s.ptoInitial env) t .handshake
  | none => s.ptoInitial env

/-- … and at the application-data space (only once the handshake is confirmed) -/
def State.ptoApp (s : State) (env : Env) : Time × Level :=
  match (if s.handshakeConfirmed then ptoCandidate (some s.app) (s.getScaledPTO env true) else none) with
  | some t => takeEarlier (s.ptoHandshake env) t .oneRTT
  | none => s.ptoHandshake env

/-- `getPTOTimeAndSpace` -/
def State.getPTOTimeAndSpace (s : State) (env : Env) (now : Time) : Time × Level :=
  if !s.handshakeConfirmed ∧ !s.hasOutstandingCrypto then
    if s.peerCompleted then (0, .invalid)
    else
      let t := now + s.getScaledPTO env false
      if s.initial.isSome then (t, .initial) else (t, .handshake)
  else s.ptoApp env

/-- `pathProbeLossTime` in `lossDetectionTime`: send time of the first outstanding path probe plus
    `pathProbePacketLossTimeout`, 0 if there is none -/
def State.pathProbeLossTime (s : State) : Time :=
  match s.app.hist.probes with
  | (_, p) :: _ => p.sendTime + pathProbePacketLossTimeout
  | [] => 0

/-- `lossDetectionTime` -/
def State.lossDetectionTime (s : State) (env : Env) (now : Time) : Alarm :=
  -- cancel the alarm if no packets are outstanding
  if s.peerCompleted ∧ !s.hasOutstandingCrypto ∧ !s.app.hist.hasOutstandingPackets ∧
      !s.app.hist.hasOutstandingPathProbes then {}
  -- cancel the alarm if amplification limited
  else if s.isAmplificationLimited then {}
  -- early retransmit timer or time loss detection
  else if s.getLossTimeAndSpace.1 ≠ 0 ∧ (s.pathProbeLossTime = 0 ∨ s.getLossTimeAndSpace.1 < s.pathProbeLossTime) then
    { time := s.getLossTimeAndSpace.1, typ := .ack, level := s.getLossTimeAndSpace.2 }
  else if (s.getPTOTimeAndSpace env now).1 ≠ 0 ∧
      (s.pathProbeLossTime = 0 ∨ (s.getPTOTimeAndSpace env now).1 < s.pathProbeLossTime) then
    { time := (s.getPTOTimeAndSpace env now).1, typ := .pto, level := (s.getPTOTimeAndSpace env now).2 }
  else if s.pathProbeLossTime ≠ 0 then
    { time := s.pathProbeLossTime, typ := .pathProbe, level := .oneRTT }
  else {}

/-- `setLossDetectionTimer` -/
def State.setTimer (s : State) (env : Env) (now : Time) : State :=
  { s with alarm := s.lossDetectionTime env now }

/-! ### PopPacketNumber / SentPacket -/

/-- `PopPacketNumber` on one space: (space, pn, numbers recorded as skipped); `none` = panic -/
def Space.pop (sp : Space) (nts : PN) : Option (Space × PN × List PN) :=
  match sp.gen.pop nts with
  | (true, pn, g) =>
    match sp.hist.skippedPacket (pn - 1) with
    | none => none
    | some h => some ({ sp with gen := g, hist := h }, pn, [pn - 1])
  | (false, pn, g) => some ({ sp with gen := g }, pn, [])

/-- `PopPacketNumber` -/
def State.popPacketNumber (s : State) (lvl : Level) (nts : PN) : State × Out :=
  match s.getSpace lvl with
  | none => (s, { res := .panic .nilSpace })
  | some sp =>
    match sp.pop nts with
    | none => (s, { res := .panic .nonSequential })
    | some (sp', pn, sk) => (s.setSpace lvl sp', { pn := pn, skipped := sk })

/-- `h.bytesInFlight += size; if h.numProbesToSend > 0 { h.numProbesToSend-- }` -/
def State.aeSent (s : State) (size : Int) : State :=
  { s with bytesInFlight := s.bytesInFlight + size,
           numProbesToSend := if s.numProbesToSend > 0 then s.numProbesToSend - 1 else s.numProbesToSend }

/-- `SentPacket` -/
def State.sentPacket (s : State) (env : Env) (t : Time) (pn largestAcked : PN) (sframes frames : List Frame)
    (lvl : Level) (size : Int) (mtu probe : Bool) : State × Res :=
  let s := { s with bytesSent := s.bytesSent + size }
  match s.getSpace lvl with
  | none => (s, .panic .nilSpace)
  | some sp =>
    let sp := { sp with largestSent := pn }
    let p : Packet := { sendTime := t, level := lvl, length := size, frames := frames, sframes := sframes,
                        largestAcked := largestAcked, mtuProbe := mtu, pathProbe := probe }
    if probe then
      match sp.hist.sentPathProbePacket pn p with
      | none => (s.setSpace lvl sp, .panic .nonSequential)
      | some h => ((s.setSpace lvl { sp with hist := h }).setTimer env t, .ok)
    else if p.ackEliciting then
      let sp := { sp with lastAETime := t }
      let s := s.aeSent size
      match sp.hist.sentPacket pn { p with inFlight := true } with
      | none => (s.setSpace lvl sp, .panic .nonSequential)
      | some h => ((s.setSpace lvl { sp with hist := h }).setTimer env t, .ok)
    else
      match sp.hist.sentPacket pn p with
      | none => (s.setSpace lvl sp, .panic .nonSequential)
      | some h =>
        let s := s.setSpace lvl { sp with hist := h }
        (if !s.peerCompleted then s.setTimer env t else s, .ok)

/-! ### ReceivedAck -/

/-- what `wire.AckFrame.AcksPacket` computes on frames accepted by `validateAckRanges` (`ranges` in wire order:
    index 0 is the highest range), as a linear search: "first range whose Smallest ≤ p".  Specification-level
    rendering used by the property statements; the handler model calls `acksPacketBin`, the binary search of the
    source, and Proofs/SentAcksBin proves the two equal on validated frames. -/
def acksPacket (ranges : List Range) (lowest largest p : PN) : Bool :=
  if p < lowest ∨ p > largest then false
  else match ranges.find? (fun r => p ≥ r.1) with
    | some r => p ≤ r.2
    | none => false

/-- Go `sort.Search(n, f)`: its loop `for i < j { h := int(uint(i+j) >> 1); if !f(h) { i = h + 1 } else { j = h } }`
    with the iteration count as fuel -/
def searchLoop (f : Nat → Bool) : Nat → Nat → Nat → Nat
  | 0, i, _ => i
  | fuel + 1, i, j =>
    if i < j then
      if !f ((i + j) / 2) then searchLoop f fuel ((i + j) / 2 + 1) j else searchLoop f fuel i ((i + j) / 2)
    else i

/-- `sort.Search(n, f)` (`j - i` shrinks in every iteration, so `n` iterations are enough) -/
def sortSearch (n : Nat) (f : Nat → Bool) : Nat := searchLoop f n 0 n

/-- the predicate `AcksPacket` hands to `sort.Search`: `p >= f.AckRanges[i].Smallest` -/
def geSmallest (ranges : List Range) (p : PN) (i : Nat) : Bool :=
  match ranges[i]? with
  | some r => decide (p ≥ r.1)
  | none => false

/-- `wire.AckFrame.AcksPacket` as written: the range check, then `sort.Search` over the ranges and
    `p <= f.AckRanges[i].Largest`.  `lowest` is `LowestAcked()` = the Smallest of the last range, so the index is
    always in range (Proofs/SentAcksBin `acksPacketBin_index_in_range`, for every list of ranges) and the
    `none` arm — where Go would panic with an index out of range — is unreachable. -/
def acksPacketBin (ranges : List Range) (lowest largest p : PN) : Bool :=
  if p < lowest ∨ p > largest then false
  else match ranges[sortSearch ranges.length (geSmallest ranges p)]? with
    | some r => p ≤ r.2
    | none => false

/-- the inner `for pn > ackRange.Largest && ackRangeIndex < len(ack.AckRanges)-1` loop; the argument is
    the ascending remainder `AckRanges[: len-ackRangeIndex]` reversed -/
def advance (pn : PN) : List Range → List Range
  | r :: r' :: rest => if pn > r.2 then advance pn (r' :: rest) else r :: r' :: rest
  | l => l

/-- `if ack.HasMissingRanges() { for pn > ackRange.Largest && … }` -/
def nextRem (multi : Bool) (pn : PN) (rem : List Range) : List Range := if multi then advance pn rem else rem

/-- position of `pn` relative to the current ACK range: (below its Smallest, above its Largest);
    only evaluated `if ack.HasMissingRanges()` -/
def rangeCheck (multi : Bool) (pn : PN) (rem : List Range) : Bool × Bool :=
  match multi, rem with
  | true, r :: _ => (decide (pn < r.1), decide (pn > r.2))
  | _, _ => (false, false)

inductive CollectRes
  | done (probes stash : List (PN × Packet)) (acc : List PN)
  /-- "BUG: ackhandler would have acked wrong packet" -/
  | bug (probes stash : List (PN × Packet)) (acc : List PN)
deriving Repr

/-- first loop of `detectAndRemoveAckedPackets`.  `acc` are the packet numbers appended to `h.ackedPackets`;
    an entry stands for the `*packet` stored at that number, except for path probes, whose real packet was
    taken out of `pathProbePackets` and is kept in `stash` under the same number. -/
def collect (multi : Bool) (lowest largest : PN) :
    PN → List (Option Packet) → List Range → List (PN × Packet) → List (PN × Packet) → List PN → CollectRes
  | _, [], _, probes, stash, acc => .done probes stash acc
  | pn, none :: rest, rem, probes, stash, acc => collect multi lowest largest (pn + 1) rest rem probes stash acc
  | pn, some p :: rest, rem, probes, stash, acc =>
    if pn < lowest then collect multi lowest largest (pn + 1) rest rem probes stash acc
    else if pn > largest then .done probes stash acc
    else
      let rem := nextRem multi pn rem
      if (rangeCheck multi pn rem).1 then collect multi lowest largest (pn + 1) rest rem probes stash acc
      else if (rangeCheck multi pn rem).2 then .bug probes stash acc
      else if p.pathProbe then
        match removeProbe pn probes with
        | (some q, probes') => collect multi lowest largest (pn + 1) rest rem probes' (stash ++ [(pn, q)]) (acc ++ [pn])
        | (none, probes') => collect multi lowest largest (pn + 1) rest rem probes' stash acc
      else collect multi lowest largest (pn + 1) rest rem probes stash (acc ++ [pn])

/-- second loop of `detectAndRemoveAckedPackets`: callbacks, then `history.Remove`.  The packet whose frames
    are reported is the one stored at `pn` (the Go code holds that pointer) — or, when that is the
    placeholder of a path probe, the real probe packet kept under `pn`.
    Returns (history, unused stash, callbacks, acked packets, outcome). -/
def ackedLoop (lvl : Level) : List PN → Hist → List (PN × Packet) → List Ev → List (PN × Packet) →
    Hist × List (PN × Packet) × List Ev × List (PN × Packet) × Res
  | [], h, stash, evs, done => (h, stash, evs, done, .ok)
  | pn :: rest, h, stash, evs, done =>
    match h.remove pn with
    | .panic c => (h, stash, evs, done, .panic c)
    | .notFound => (h, stash, evs, done, .err .notFound)
    | .ok h' removed =>
      let (p, stash') : Packet × List (PN × Packet) :=
        if removed.pathProbe then
          match removeProbe pn stash with
          | (some q, st') => (q, st')
          | (none, st') => (removed, st')
        else (removed, stash)
      let ign := if p.largestAcked ≠ invalidPN ∧ lvl = .oneRTT then [Ev.ignore (p.largestAcked + 1)] else []
      ackedLoop lvl rest h' stash' (evs ++ ign ++ p.allFrames.map Ev.acked) (done ++ [(pn, p)])

structure LossAcc where
  hist : Hist
  lossTime : Time := 0
  bfl : Int
  evs : List Ev := []
  panic : Option PanicCause := none
deriving Repr

/-- body of the loop of `detectLostPackets` for the packet `p` stored at `pn` -/
def lossStep (largestAcked lostSendTime lossDelay : Int) (pn : PN) (p : Packet) (a : LossAcc) : LossAcc :=
  if p.sendTime ≤ lostSendTime ∨ a.hist.difference largestAcked pn ≥ packetThreshold then
    match a.hist.declareLost pn with
    | .panic c => { a with panic := some c }
    | .ok h' =>
      if !p.pathProbe ∧ p.ackEliciting then
        match removeBif a.bfl p with
        | none => { a with hist := h', panic := some .negativeBytesInFlight }
        | some b => { a with hist := h', bfl := b, evs := a.evs ++ p.allFrames.map Ev.lost }
      else { a with hist := h' }
  else if a.lossTime = 0 then { a with lossTime := p.sendTime + lossDelay }
  else a

def lossLoop (largestAcked lostSendTime lossDelay : Int) : Nat → PN → LossAcc → LossAcc
  | 0, _, a => a
  | n + 1, pn, a =>
    if a.panic.isSome then a
    else match a.hist.lookup pn with
      | none => lossLoop largestAcked lostSendTime lossDelay n (pn + 1) a
      | some p =>
        if pn > largestAcked then a
        else lossLoop largestAcked lostSendTime lossDelay n (pn + 1) (lossStep largestAcked lostSendTime lossDelay pn p a)

/-- `time.Duration(timeThreshold * float64(max(latest, smoothed)))`, then at least the timer granularity
    (exact for RTTs below 2^49 ns) -/
def lossDelayOf (env : Env) : Int :=
  max (timeThresholdNum * max env.latestRTT env.smoothedRTT / timeThresholdDen) timerGranularity

/-- `detectLostPackets`: (state, callbacks, panic) -/
def State.detectLostPackets (s : State) (env : Env) (now : Time) (lvl : Level) : State × List Ev × Option PanicCause :=
  match s.getSpace lvl with
  | none => (s, [], some .nilSpace)
  | some sp =>
    let lossDelay := lossDelayOf env
    let a := lossLoop sp.largestAcked (now - lossDelay) lossDelay sp.hist.packets.length sp.hist.first
      { hist := sp.hist, bfl := s.bytesInFlight }
    ({ s.setSpace lvl { sp with hist := a.hist, lossTime := a.lossTime } with bytesInFlight := a.bfl }, a.evs, a.panic)

/-- the removal loop of `detectLostPathProbes`; only `Frames` are reported (`StreamFrames` of a path probe are dropped) -/
def lostProbesLoop : List PN → List (PN × Packet) → List Ev → List Frame → List (PN × Packet) × List Ev × List Frame
  | [], pr, evs, disc => (pr, evs, disc)
  | pn :: rest, pr, evs, disc =>
    match removeProbe pn pr with
    | (some p, pr') => lostProbesLoop rest pr' (evs ++ p.frames.map Ev.lost) (disc ++ p.sframes)
    | (none, pr') => lostProbesLoop rest pr' evs disc

/-- the path probes `detectLostPathProbes` declares lost: sent at least `pathProbePacketLossTimeout` ago -/
def lostProbePNs (probes : List (PN × Packet)) (now : Time) : List PN :=
  (probes.filter fun x => x.2.sendTime ≤ now - pathProbePacketLossTimeout).map (·.1)

/-- `detectLostPathProbes` (on the application-data space) -/
def detectLostPathProbes (sp : Space) (now : Time) : Space × List Ev × List Frame :=
  if sp.hist.probes.isEmpty then (sp, [], [])
  else
    let r := lostProbesLoop (lostProbePNs sp.hist.probes now) sp.hist.probes [] []
    ({ sp with hist := { sp.hist with probes := r.1 } }, r.2.1, r.2.2)

/-- the final loop of `ReceivedAck` over the acked packets: `removeFromBytesInFlight` -/
def removeBifAll : Int → List (PN × Packet) → Option Int
  | b, [] => some b
  | b, (_, p) :: rest =>
    match removeBif b p with
    | none => none
    | some b' => removeBifAll b' rest

/-- `ReceivedAck` after `detectAndRemoveAckedPackets` returned the non-empty list `removed` (the history `h2`
    is what it left behind; `evs` its callbacks; `sdisc`/`n` ghost bookkeeping: frames of unused stash entries,
    `len(h.ackedPackets)`) -/
def State.ackTail (s : State) (env : Env) (lvl : Level) (now : Time) (largest : PN) (sp : Space) (h2 : Hist)
    (evs : List Ev) (removed : List (PN × Packet)) (sdisc : List Frame) (n : Nat) : State × Out :=
  let s := s.setSpace lvl { sp with hist := h2, largestAcked := max sp.largestAcked largest }
  match s.detectLostPackets env now lvl with
  | (s, evsL, some c) => ({ s with ackedBuf := n }, { res := .panic c, evs := evs ++ evsL, disc := sdisc })
  | (s, evsL, none) =>
    let r := if lvl = .oneRTT then detectLostPathProbes s.app now else (s.app, [], [])
    let s := { s with app := r.1 }
    match removeBifAll s.bytesInFlight removed with
    | none =>
      ({ s with ackedBuf := n }, { res := .panic .negativeBytesInFlight, evs := evs ++ evsL ++ r.2.1, disc := sdisc ++ r.2.2 })
    | some b =>
      let s := { s with bytesInFlight := b, ptoCount := if s.peerCompleted then 0 else s.ptoCount, numProbesToSend := 0 }
      (s.setTimer env now,
       { evs := evs ++ evsL ++ r.2.1, disc := sdisc ++ r.2.2, flag := removed.any fun x => x.2.level = .oneRTT })

/-- `ReceivedAck` from the call of `detectAndRemoveAckedPackets` on (`s` is the state after the address
    validation step, `sp` the packet number space of the ACK) -/
def State.ackCore (s : State) (env : Env) (ranges : List Range) (lvl : Level) (now : Time) (sp : Space)
    (lowest largest : PN) : State × Out :=
  if s.ackedBuf > 0 then (s, { res := .err .bugAckedNotEmpty })
  else if lvl = .oneRTT ∧ sp.hist.skipped.any (acksPacketBin ranges lowest largest) then (s, { res := .err .ackSkipped })
  else
    match collect (ranges.length > 1) lowest largest sp.hist.first sp.hist.packets ranges.reverse sp.hist.probes [] [] with
    | .bug probes stash acc =>
      ({ s.setSpace lvl { sp with hist := { sp.hist with probes := probes } } with ackedBuf := acc.length },
       { res := .err .bugWrongPacket, disc := probesFrames stash })
    | .done probes stash acc =>
      match ackedLoop lvl acc { sp.hist with probes := probes } stash [] [] with
      | (h2, stash', evs, _, .panic c) =>
        ({ s.setSpace lvl { sp with hist := h2 } with ackedBuf := acc.length },
         { res := .panic c, evs := evs, disc := probesFrames stash' })
      | (h2, stash', evs, _, .err e) =>
        ({ s.setSpace lvl { sp with hist := h2 } with ackedBuf := acc.length },
         { res := .err e, evs := evs, disc := probesFrames stash' })
      | (h2, stash', evs, removed, .ok) =>
        if removed.isEmpty then (s, {})
        else s.ackTail env lvl now largest sp h2 evs removed (probesFrames stash') acc.length

/-- `ReceivedAck`: "Servers complete address validation when a protected packet is received." -/
def State.completeValidation (s : State) (env : Env) (lvl : Level) (now : Time) : State :=
  if s.isClient ∧ !s.peerCompleted ∧ (lvl = .handshake ∨ lvl = .oneRTT)
  then ({ s with peerCompleted := true } : State).setTimer env now else s

/-- `ReceivedAck` -/
def State.receivedAck (s : State) (env : Env) (ranges : List Range) (lvl : Level) (now : Time) : State × Out :=
  match s.getSpace lvl, ranges.head?, ranges.getLast? with
  | some sp, some top, some bot =>
    if top.2 > sp.largestSent then (s, { res := .err .ackUnsent })
    else
      (s.completeValidation env lvl now).ackCore env ranges lvl now sp bot.1 top.2
  | none, _, _ => (s, { res := .panic .nilSpace })
  | _, _, _ => (s, { res := .panic .emptyAck })

/-! ### OnLossDetectionTimeout -/

/-- `h.ptoCount++; h.numProbesToSend += 2; switch encLevel { … }` of `OnLossDetectionTimeout` -/
def State.ptoSwitch (s : State) (lvl : Level) (nts : PN) (evs0 : List Ev) (disc0 : List Frame) : State × Out :=
  let s := { s with ptoCount := s.ptoCount + 1, numProbesToSend := s.numProbesToSend + 2 }
  match lvl with
  | .initial => ({ s with ptoMode := sendPTOInitial }, { evs := evs0, disc := disc0 })
  | .handshake => ({ s with ptoMode := sendPTOHandshake }, { evs := evs0, disc := disc0 })
  | .oneRTT =>
    -- skip a packet number in order to elicit an immediate ACK
    match s.app.pop nts with
    | none => (s, { res := .panic .nonSequential, evs := evs0, disc := disc0 })
    | some (sp, pn, sk) =>
      match sp.hist.skippedPacket pn with
      | none => ({ s with app := sp }, { res := .panic .nonSequential, evs := evs0, disc := disc0, skipped := sk })
      | some h =>
        ({ s with app := { sp with hist := h }, ptoMode := sendPTOAppData },
         { evs := evs0, disc := disc0, pn := pn, skipped := sk ++ [pn] })
  | _ => (s, { res := .err .ptoLevel, evs := evs0, disc := disc0 })

/-- the PTO branch of `OnLossDetectionTimeout`, from `ptoTime, encLevel := h.getPTOTimeAndSpace(now)` on -/
def State.ptoFire (s : State) (env : Env) (now : Time) (nts : PN) (evs0 : List Ev) (disc0 : List Frame) : State × Out :=
  if (s.getPTOTimeAndSpace env now).1 = 0 then (s, { evs := evs0, disc := disc0 })
  else match s.getSpace (s.getPTOTimeAndSpace env now).2 with
    | none => (s, { res := .panic .nilSpace, evs := evs0, disc := disc0 })
    | some ps =>
      if !ps.hist.hasOutstandingPackets ∧ !ps.hist.hasOutstandingPathProbes ∧ !s.peerCompleted then
        (s, { evs := evs0, disc := disc0 })
      else
        s.ptoSwitch (s.getPTOTimeAndSpace env now).2 nts evs0 disc0

/-- which guard the anti-deadlock branch of `OnLossDetectionTimeout` has in the current source (generated shape
    fact, gofacts/x_sent.go): `true` since /repo 23a90f5 -/
def antiDeadlockWhenArmed : Bool := Uquic.Gen.AckhandlerX.antiDeadlockWhenArmed

/-- the guard of the anti-deadlock branch of `OnLossDetectionTimeout`.
    `whenArmed = true` (since /repo 23a90f5): `!h.peerCompletedAddressValidation && (h.bytesInFlight == 0 ||
    (!h.handshakeConfirmed && !h.hasOutstandingCryptoPackets()))` — the probe is due whenever `getPTOTimeAndSpace`
    armed the timer for it; `whenArmed = false` (before): `h.bytesInFlight == 0 && !h.peerCompletedAddressValidation`. -/
def State.antiDeadlockDue (s : State) (whenArmed : Bool) : Bool :=
  if whenArmed then !s.peerCompleted && (s.bytesInFlight == 0 || (!s.handshakeConfirmed && !s.hasOutstandingCrypto))
  else s.bytesInFlight == 0 && !s.peerCompleted

/-- `h.ptoCount++; h.numProbesToSend++; if h.initialPackets != nil { … }` of `OnLossDetectionTimeout` -/
def State.antiDeadlockProbe (s : State) (evs0 : List Ev) (disc0 : List Frame) : State × Out :=
  let s := { s with ptoCount := s.ptoCount + 1, numProbesToSend := s.numProbesToSend + 1 }
  if s.initial.isSome then ({ s with ptoMode := sendPTOInitial }, { evs := evs0, disc := disc0 })
  else if s.handshake.isSome then ({ s with ptoMode := sendPTOHandshake }, { evs := evs0, disc := disc0 })
  else (s, { res := .err .bugPTO, evs := evs0, disc := disc0 })

/-- `OnLossDetectionTimeout` after the path-probe check (`evs0`/`disc0`: what that check reported), with the
    anti-deadlock guard in the shape `whenArmed` -/
def State.timeoutMainG (whenArmed : Bool) (s : State) (env : Env) (now : Time) (nts : PN) (evs0 : List Ev) (disc0 : List Frame) :
    State × Out :=
  if s.getLossTimeAndSpace.1 ≠ 0 then
    -- Early retransmit or time loss detection
    let r := s.detectLostPackets env now s.getLossTimeAndSpace.2
    (r.1, { res := match r.2.2 with | some c => .panic c | none => .ok, evs := evs0 ++ r.2.1, disc := disc0 })
  else if s.antiDeadlockDue whenArmed then s.antiDeadlockProbe evs0 disc0
  else s.ptoFire env now nts evs0 disc0

/-- body of `OnLossDetectionTimeout` (the deferred `setLossDetectionTimer` is added by the caller) -/
def State.timeoutBodyG (whenArmed : Bool) (s : State) (env : Env) (now : Time) (nts : PN) : State × Out :=
  let r := if s.handshakeConfirmed then detectLostPathProbes s.app now else (s.app, [], [])
  ({ s with app := r.1 } : State).timeoutMainG whenArmed env now nts r.2.1 r.2.2

/-- `OnLossDetectionTimeout` with the anti-deadlock guard in the shape `whenArmed` -/
def State.onLossDetectionTimeoutG (whenArmed : Bool) (s : State) (env : Env) (now : Time) (nts : PN) : State × Out :=
  let (s, out) := s.timeoutBodyG whenArmed env now nts
  (s.setTimer env now, out)

/-- `OnLossDetectionTimeout` after the path-probe check, as in the current source -/
def State.timeoutMain (s : State) (env : Env) (now : Time) (nts : PN) (evs0 : List Ev) (disc0 : List Frame) : State × Out :=
  s.timeoutMainG antiDeadlockWhenArmed env now nts evs0 disc0

/-- body of `OnLossDetectionTimeout`, as in the current source -/
def State.timeoutBody (s : State) (env : Env) (now : Time) (nts : PN) : State × Out :=
  let r := if s.handshakeConfirmed then detectLostPathProbes s.app now else (s.app, [], [])
  ({ s with app := r.1 } : State).timeoutMain env now nts r.2.1 r.2.2

/-- `OnLossDetectionTimeout` (the guard of its anti-deadlock branch as in the current source) -/
def State.onLossDetectionTimeout (s : State) (env : Env) (now : Time) (nts : PN) : State × Out :=
  let (s, out) := s.timeoutBody env now nts
  (s.setTimer env now, out)

/-! ### QueueProbePacket, DropPackets, ResetForRetry, MigratedPath, ReceivedBytes/Packet, SendMode -/

/-- `QueueProbePacket` -/
def State.queueProbePacket (s : State) (lvl : Level) : State × Out :=
  match s.getSpace lvl with
  | none => (s, { res := .panic .nilSpace })
  | some sp =>
    match sp.hist.firstOutstanding with
    | none => (s, { flag := false })
    | some (pn, p) =>
      match sp.hist.declareLost pn with
      | .panic c => (s, { res := .panic c })
      | .ok h =>
        let s := s.setSpace lvl { sp with hist := h }
        match removeBif s.bytesInFlight p with
        | none => (s, { res := .panic .negativeBytesInFlight })
        | some b => ({ s with bytesInFlight := b }, { evs := p.allFrames.map Ev.lost, flag := true })

/-- `for _, p := range pnSpace.history.Packets() { h.removeFromBytesInFlight(p) }` -/
def removeBifPackets : Int → List (Option Packet) → Option Int
  | b, [] => some b
  | b, none :: rest => removeBifPackets b rest
  | b, some p :: rest =>
    match removeBif b p with
    | none => none
    | some b' => removeBifPackets b' rest

/-- the 0-RTT branch of `DropPackets`: (history, bytesInFlight, dropped frames, panic) -/
def drop0RTTLoop : Nat → PN → Hist → Int → List Frame → Hist × Int × List Frame × Option PanicCause
  | 0, _, h, bfl, disc => (h, bfl, disc, none)
  | n + 1, pn, h, bfl, disc =>
    match h.lookup pn with
    | none => drop0RTTLoop n (pn + 1) h bfl disc
    | some p =>
      if p.level ≠ .zeroRTT then (h, bfl, disc, none)
      else match removeBif bfl p with
        | none => (h, bfl, disc, some .negativeBytesInFlight)
        | some b =>
          match h.remove pn with
          | .ok h' q => drop0RTTLoop n (pn + 1) h' b (disc ++ q.allFrames)
          | .notFound => drop0RTTLoop n (pn + 1) h b disc
          | .panic c => (h, b, disc, some c)

def State.afterDrop (s : State) (env : Env) (now : Time) : State :=
  ({ s with ptoCount := 0, numProbesToSend := 0, ptoMode := sendNone } : State).setTimer env now

/-- `DropPackets` -/
def State.dropPackets (s : State) (env : Env) (lvl : Level) (now : Time) : State × Out :=
  let s := if s.isClient ∧ lvl = .handshake then { s with peerCompleted := true } else s
  match lvl with
  | .initial =>
    match s.initial with
    | none => (s, {})
    | some sp =>
      match removeBifPackets s.bytesInFlight sp.hist.packets with
      | none => (s, { res := .panic .negativeBytesInFlight })
      | some b => (({ s with bytesInFlight := b, initial := none } : State).afterDrop env now, { disc := sp.hist.pending })
  | .handshake =>
    match s.handshake with
    | none => (s, {})
    | some sp =>
      match removeBifPackets s.bytesInFlight sp.hist.packets with
      | none => (s, { res := .panic .negativeBytesInFlight })
      | some b =>
        (({ s with bytesInFlight := b, handshakeConfirmed := true, handshake := none } : State).afterDrop env now,
         { disc := sp.hist.pending })
  | .zeroRTT =>
    let r := drop0RTTLoop s.app.hist.packets.length s.app.hist.first s.app.hist s.bytesInFlight []
    let s := { s with app := { s.app with hist := r.1 }, bytesInFlight := r.2.1 }
    match r.2.2.2 with
    | some c => (s, { res := .panic c, disc := r.2.2.1 })
    | none => (s.afterDrop env now, { disc := r.2.2.1 })
  | _ => (s, { res := .panic .dropLevel })   -- panic("Cannot drop keys for encryption level …")

/-- `ReceivedBytes` -/
def State.receivedBytes (s : State) (env : Env) (n : Int) (t : Time) : State :=
  let was := s.isAmplificationLimited
  let s := { s with bytesReceived := s.bytesReceived + n }
  if was ∧ !s.isAmplificationLimited then s.setTimer env t else s

/-- `ReceivedPacket` -/
def State.receivedPacket (s : State) (env : Env) (l : Level) (t : Time) : State :=
  if !s.isClient ∧ l = .handshake ∧ !s.peerValidated then ({ s with peerValidated := true } : State).setTimer env t
  else s

def lostFramesOf (pk : List (Option Packet)) : List Ev :=
  ((pk.filterMap id).filter Packet.ackEliciting).flatMap fun p => p.allFrames.map Ev.lost

/-- `ResetForRetry` -/
def State.resetForRetry (s : State) (nts : PN) : State × Out :=
  let s := { s with bytesInFlight := 0 }
  match s.initial with
  | none => (s, { res := .panic .nilSpace })
  | some ini =>
    let evs := lostFramesOf ini.hist.packets ++ lostFramesOf s.app.hist.packets
    let disc := probesFrames ini.hist.probes ++ probesFrames s.app.hist.probes
    ({ s with initial := some (Space.new ini.gen.peek false 0),
              app := Space.new s.app.gen.peek true nts,
              alarm := {}, ptoCount := 0 },
     { evs := evs, disc := disc })

/-- first loop of `MigratedPath`: (history, bytesInFlight, callbacks, panic) -/
def migrateLoop : Nat → PN → Hist → Int → List Ev → Hist × Int × List Ev × Option PanicCause
  | 0, _, h, bfl, evs => (h, bfl, evs, none)
  | n + 1, pn, h, bfl, evs =>
    match h.lookup pn with
    | none => migrateLoop n (pn + 1) h bfl evs
    | some p =>
      match h.declareLost pn with
      | .panic c => (h, bfl, evs, some c)
      | .ok h' =>
        if !p.pathProbe then
          match removeBif bfl p with
          | none => (h', bfl, evs, some .negativeBytesInFlight)
          | some b =>
            if p.ackEliciting then migrateLoop n (pn + 1) h' b (evs ++ p.allFrames.map Ev.lost)
            else migrateLoop n (pn + 1) h' b evs
        else migrateLoop n (pn + 1) h' bfl evs

/-- second loop of `MigratedPath`: `for pn := range PathProbes() { RemovePathProbe(pn) }`.  The range loop
    walks the backing array of the slice as it was at the start (`cur ++ stale`: live part, then the
    stale tail left behind by `copy`), while every removal shifts the live part — so only every other
    probe is visited.  Returns the remaining probes and the removed ones. -/
def migrateProbes : Nat → Nat → List (PN × Packet) → List (PN × Packet) → List (PN × Packet) →
    List (PN × Packet) × List (PN × Packet)
  | 0, _, cur, _, removed => (cur, removed)
  | n + 1, i, cur, stale, removed =>
    match (cur ++ stale)[i]? with
    | none => (cur, removed)
    | some (pn, _) =>
      match removeProbe pn cur, cur.getLast? with
      | (some p, cur'), some last => migrateProbes n (i + 1) cur' (last :: stale) (removed ++ [(pn, p)])
      | (_, _), _ => migrateProbes n (i + 1) cur stale removed

/-- `MigratedPath` -/
def State.migratedPath (s : State) (env : Env) (now : Time) : State × Out :=
  let r := migrateLoop s.app.hist.packets.length s.app.hist.first s.app.hist s.bytesInFlight []
  match r.2.2.2 with
  | some c => ({ s with app := { s.app with hist := r.1 }, bytesInFlight := r.2.1 }, { res := .panic c, evs := r.2.2.1 })
  | none =>
    let q := migrateProbes r.1.probes.length 0 r.1.probes [] []
    let s := { s with app := { s.app with hist := { r.1 with probes := q.1 } }, bytesInFlight := r.2.1 }
    (s.setTimer env now, { evs := r.2.2.1, disc := probesFrames q.2 })

def optLen : Option Space → Int
  | some sp => sp.hist.len
  | none => 0

/-- `SendMode`; `canSend` / `pacingBudget` are the congestion controller's answers -/
def State.sendMode (s : State) (canSend pacingBudget : Bool) : Int :=
  let numTracked := s.app.hist.len + optLen s.initial + optLen s.handshake
  if s.isAmplificationLimited then sendNone
  else if numTracked ≥ maxTrackedSentPackets then sendNone
  else if s.numProbesToSend > 0 then s.ptoMode
  else if !canSend then sendAck
  else if numTracked ≥ maxOutstandingSentPackets then sendAck
  else if !pacingBudget then sendPacingLimited
  else sendAny

/-- `protocol.PacketNumberLengthForHeader` -/
def packetNumberLengthForHeader (pn largestAcked : PN) : Int :=
  let numUnacked := if largestAcked = invalidPN then pn + 1 else pn - largestAcked
  if numUnacked < 32768 then 2 else if numUnacked < 8388608 then 3 else 4

/-- `PeekPacketNumber` -/
def State.peekPacketNumber (s : State) (lvl : Level) : Option (PN × Int) :=
  match s.getSpace lvl with
  | none => none
  | some sp => some (sp.gen.peek, packetNumberLengthForHeader sp.gen.peek sp.largestAcked)

/-! ### operations (histories are lists of these) -/

inductive Op
  /-- `PopPacketNumber` immediately followed by `SentPacket` with the popped number (what the packer and the
      connection do for every packet) -/
  | send (lvl : Level) (now : Time) (largestAcked : PN) (size : Int) (mtu probe : Bool) (frames sframes : List Frame)
  | ack (lvl : Level) (now : Time) (ranges : List Range)
  | timeout (now : Time)
  | probe (lvl : Level)
  | drop (lvl : Level) (now : Time)
  | retry
  | migrate (now : Time)
  | rcvBytes (n : Int) (now : Time)
  | rcvPacket (lvl : Level) (now : Time)
deriving Repr

/-- environment of one step: RTT estimator outputs after the step and the generator's `nextToSkip` after it -/
structure StepEnv where
  env : Env := {}
  nts : PN := 0
deriving Repr

/-- one operation of the handler -/
def State.step (s : State) (op : Op) (e : StepEnv) : State × Out :=
  match op with
  | .send lvl now la size mtu probe frames sframes =>
    let (s1, o) := s.popPacketNumber lvl e.nts
    match o.res with
    | .ok =>
      let (s2, r) := s1.sentPacket e.env now o.pn la sframes frames lvl size mtu probe
      (s2, { res := r, pn := o.pn, skipped := o.skipped })
    | _ => (s1, o)
  | .ack lvl now ranges => s.receivedAck e.env ranges lvl now
  | .timeout now => s.onLossDetectionTimeout e.env now e.nts
  | .probe lvl => s.queueProbePacket lvl
  | .drop lvl now => s.dropPackets e.env lvl now
  | .retry => s.resetForRetry e.nts
  | .migrate now => s.migratedPath e.env now
  | .rcvBytes n now => (s.receivedBytes e.env n now, {})
  | .rcvPacket lvl now => (s.receivedPacket e.env lvl now, {})

/-- the frames an operation hands to loss recovery -/
def Op.handed : Op → List Frame
  | .send _ _ _ _ _ _ frames sframes => frames ++ sframes
  | _ => []

/-- outcome of a history: final state, all frames handed over (ghost), all callbacks, all silently discarded frames (ghost), all packet
    numbers recorded as skipped (ghost), and the result of the last operation executed.  The history stops at
    the first operation that does not return normally: the connection closes on every error these methods
    return, and a Go panic ends it as well. -/
structure RunRes where
  s : State
  handed : List Frame := []
  evs : List Ev := []
  disc : List Frame := []
  skipped : List PN := []
  res : Res := .ok
deriving Repr

/-- run a history of operations, each with its environment inputs -/
def State.run (s : State) : List (Op × StepEnv) → RunRes
  | [] => { s := s }
  | (op, e) :: rest =>
    match (s.step op e).2.res with
    | .ok =>
      let t := State.run (s.step op e).1 rest
      { s := t.s, handed := op.handed ++ t.handed, evs := (s.step op e).2.evs ++ t.evs, disc := (s.step op e).2.disc ++ t.disc,
        skipped := (s.step op e).2.skipped ++ t.skipped, res := t.res }
    | x => { s := (s.step op e).1, handed := op.handed, evs := (s.step op e).2.evs, disc := (s.step op e).2.disc,
             skipped := (s.step op e).2.skipped, res := x }

end Uquic.Model.Sent
