/-
Model of internal/ackhandler/received_packet_history.go,
received_packet_tracker.go and received_packet_handler.go (property C07).

Conventions: packet numbers and times are `Int` (Go int64; `InvalidPacketNumber
= -1`, time `0` = unset).  The Go slice `ranges` is ascending; the model keeps
the *same sequence reversed* (`ranges.head` is the highest range), because all
Go loops over it run from the top index down, and `Backward()` is then the
list itself.  Every function mirrors the Go function of the same name branch
for branch.
-/
import Uquic.Generated.Protocol
import Uquic.Generated.Ackhandler

namespace Uquic.Model.Rcv

-- packet numbers are `Int` (written out: `omega` does not unfold abbreviations)
/-- (Start, End) -/
abbrev Range := Int × Int

def maxNumAckRanges : Nat := Uquic.Gen.Protocol.MaxNumAckRanges.toNat
def maxAckDelay : Int := Uquic.Gen.Protocol.MaxAckDelay
def packetsBeforeAck : Int := Uquic.Gen.Ackhandler.packetsBeforeAck
def reorderingThreshold : Int := Uquic.Gen.Ackhandler.reorderingThreshold
def invalidPN : Int := Uquic.Gen.Protocol.InvalidPacketNumber

/-! ### receivedPacketHistory -/

structure Hist where
  /-- descending: head = Go's `ranges[len-1]` -/
  ranges : List Range := []
  deletedBelow : Int := invalidPN
deriving Repr, BEq, DecidableEq

/-- `addToRanges`, scanning from the highest range down. -/
def addRev (p : Int) : List Range → List Range × Bool
  | [] => ([(p, p)], true)                         -- empty, or "create a new range at the beginning"
  | r :: rest =>
    if r.1 ≤ p ∧ p ≤ r.2 then (r :: rest, false)    -- already included
    else if r.2 = p - 1 then ((r.1, p) :: rest, true)  -- extend at the end
    else if r.1 = p + 1 then                        -- extend at the beginning
      match rest with
      | q :: rest' =>
        if q.2 + 1 = p then ((q.1, r.2) :: rest', true)   -- merge two ranges
        else ((p, r.2) :: q :: rest', true)
      | [] => ([(p, r.2)], true)
    else if p > r.2 then ((p, p) :: r :: rest, true) -- new range after the current one
    else
      let (rest', b) := addRev p rest
      (r :: rest', b)

def Hist.receivedPacket (h : Hist) (p : Int) : Hist × Bool :=
  if p < h.deletedBelow then (h, false)
  else
    let (rs, isNew) := addRev p h.ranges
    -- slices.Delete(ranges, 0, len-Max): keep the `Max` highest
    let rs := if rs.length > maxNumAckRanges then rs.take maxNumAckRanges else rs
    ({ h with ranges := rs }, isNew)

/-- The ascending loop of `DeleteBelow`, run over the descending list: the recursion handles the
    lower ranges (the tail) first, exactly as the Go loop index runs upwards; the flag says that the
    loop has already hit `break`. While it has not, every lower range was deleted (`idx` advanced). -/
def delBelowDesc (p : Int) : List Range → List Range × Bool
  | [] => ([], false)
  | r :: rest =>
    let (rest', stopped) := delBelowDesc p rest
    if stopped then (r :: rest', true)
    else if r.2 < p then ([], false)                        -- delete a whole range
    else if p > r.1 ∧ p ≤ r.2 then ((p, r.2) :: rest', true)  -- clip, break
    else (r :: rest', true)                                  -- no ranges affected, break

def Hist.deleteBelow (h : Hist) (p : Int) : Hist :=
  if p < h.deletedBelow then h
  else { ranges := (delBelowDesc p h.ranges).1, deletedBelow := p }

/-- scan of `HighestMissingUpTo` after clamping `p`; list is descending -/
def highestMissingScan (delBelow : Int) (p : Int) : List Range → Int
  | [] => p
  | r :: rest =>
    if r.1 ≤ p ∧ p ≤ r.2 then
      let highest := r.1 - 1
      if delBelow ≠ invalidPN ∧ highest < delBelow then invalidPN else highest
    else
      match rest with
      | q :: _ => if p > q.2 ∧ p ≤ r.1 then p else highestMissingScan delBelow p rest
      | [] => highestMissingScan delBelow p rest

def Hist.highestMissingUpTo (h : Hist) (p : Int) : Int :=
  match h.ranges with
  | [] => invalidPN
  | top :: _ =>
    if h.deletedBelow ≠ invalidPN ∧ p < h.deletedBelow then invalidPN
    else highestMissingScan h.deletedBelow (min top.2 p) h.ranges

def dupScan (p : Int) : List Range → Bool
  | [] => false
  | r :: rest =>
    if p > r.2 then false
    else if p ≤ r.2 ∧ p ≥ r.1 then true
    else dupScan p rest

def Hist.isPotentiallyDuplicate (h : Hist) (p : Int) : Bool :=
  if p < h.deletedBelow then true else dupScan p h.ranges

/-! ### wire.AckFrame as used here -/

structure Ack where
  /-- (Smallest, Largest), highest first — exactly `Backward()` of the history -/
  ranges : List Range
  delay : Int := 0
  ect0 : Nat := 0
  ect1 : Nat := 0
  ecnce : Nat := 0
deriving Repr, BEq, DecidableEq

def Ack.largestAcked (a : Ack) : Int := match a.ranges with | r :: _ => r.2 | [] => 0
def Ack.lowestAcked (a : Ack) : Int := match a.ranges.getLast? with | some r => r.1 | none => 0

/-- `AcksPacket`: `sort.Search` for the first range with `p ≥ Smallest` -/
def Ack.acksPacket (a : Ack) (p : Int) : Bool :=
  if p < a.lowestAcked ∨ p > a.largestAcked then false
  else match a.ranges.find? (fun r => p ≥ r.1) with
    | some r => p ≤ r.2
    | none => false

/-! ### receivedPacketTracker (Initial / Handshake) -/

structure Tracker where
  ect0 : Nat := 0
  ect1 : Nat := 0
  ecnce : Nat := 0
  hist : Hist := {}
  lastAck : Option Ack := none
  hasNewAck : Bool := false
deriving Repr, BEq, DecidableEq

/-- ECN codes as in `protocol.ECN`: 0 unsupported, 1 Not-ECT, 2 ECT(1), 3 ECT(0), 4 CE -/
def ecnECT1 : Nat := Uquic.Gen.Protocol.ECT1.toNat
def ecnECT0 : Nat := Uquic.Gen.Protocol.ECT0.toNat
def ecnCE : Nat := Uquic.Gen.Protocol.ECNCE.toNat

/-- returns `none` for the "BUG" error. The Go `switch ecn` has distinct constant cases, so the
    three counters are updated independently. -/
def Tracker.receivedPacket (t : Tracker) (pn : Int) (ecn : Nat) (ackEliciting : Bool) : Option Tracker :=
  let r := t.hist.receivedPacket pn
  if !r.2 then none
  else some
    { ect0 := if ecn = ecnECT0 then t.ect0 + 1 else t.ect0
      ect1 := if ecn = ecnECT1 then t.ect1 + 1 else t.ect1
      ecnce := if ecn = ecnCE then t.ecnce + 1 else t.ecnce
      hist := r.1
      lastAck := t.lastAck
      hasNewAck := t.hasNewAck || ackEliciting }

def Tracker.getAckFrame (t : Tracker) : Tracker × Option Ack :=
  if !t.hasNewAck then (t, none)
  else
    let a : Ack := { ranges := t.hist.ranges, ect0 := t.ect0, ect1 := t.ect1, ecnce := t.ecnce }
    ({ t with lastAck := some a, hasNewAck := false }, some a)

/-! ### appDataReceivedPacketTracker -/

structure AppTracker where
  t : Tracker := {}
  largestObservedRcvdTime : Int := 0
  largestObserved : Int := 0
  ignoreBelow : Int := 0
  ackQueued : Bool := false
  count : Int := 0
  ackAlarm : Int := 0
deriving Repr, BEq, DecidableEq

/-- `LargestAcked()` indexes `AckRanges[0]`: `none` = index-out-of-range panic on an ACK without ranges -/
def Ack.largestAcked? (a : Ack) : Option Int := match a.ranges with | r :: _ => some r.2 | [] => none

/-- `none` = panic -/
def AppTracker.isMissing (a : AppTracker) (p : Int) : Option Bool :=
  match a.t.lastAck with
  | none => some false
  | some la =>
    if p < a.ignoreBelow then some false
    else match la.largestAcked? with
      | none => none
      | some L => some (decide (p < L) && !la.acksPacket p)

/-- `none` = panic -/
def AppTracker.hasNewMissingPackets (a : AppTracker) : Option Bool :=
  match a.t.lastAck with
  | none => some false
  | some la =>
    if a.largestObserved < reorderingThreshold then some false
    else
      let hm := a.t.hist.highestMissingUpTo (a.largestObserved - reorderingThreshold)
      if hm = invalidPN then some false
      else match la.largestAcked? with
        | none => none
        | some L =>
          if hm < L then some false
          else some (decide (hm > L - reorderingThreshold))

/-- `none` = panic -/
def AppTracker.shouldQueueACK (a : AppTracker) (ecn : Nat) (wasMissing : Bool) : Option Bool :=
  if wasMissing then some true
  else if a.count ≥ packetsBeforeAck then some true
  else match a.hasNewMissingPackets with
    | none => none
    | some true => some true
    | some false => some (decide (ecn = ecnCE))

inductive RecvOut | ok | bug | zeroRTTAfter1RTT | panic
deriving Repr, BEq, DecidableEq

def AppTracker.noteLargest (a : AppTracker) (pn rcvTime : Int) : AppTracker :=
  if pn ≥ a.largestObserved then { a with largestObserved := pn, largestObservedRcvdTime := rcvTime } else a

/-- the queueing decision for an ack-eliciting packet (the counter is already incremented);
    `none` = panic inside `isMissing` / `hasNewMissingPackets` -/
def AppTracker.queueStep (a : AppTracker) (pn : Int) (ecn : Nat) (rcvTime : Int) : Option AppTracker :=
  match a.isMissing pn with
  | none => none
  | some isMissing =>
    match (if a.ackQueued then some false else a.shouldQueueACK ecn isMissing) with
    | none => none
    | some q =>
      let a := if q then { a with ackQueued := true, ackAlarm := 0 } else a
      some (if !a.ackQueued then { a with ackAlarm := rcvTime + maxAckDelay } else a)

/-- On `panic` the returned state is what the Go object holds at the moment of the panic
    (history, counters and `largestObserved` are already updated). -/
def AppTracker.receivedPacket (a : AppTracker) (pn : Int) (ecn : Nat) (rcvTime : Int) (ackEliciting : Bool) :
    AppTracker × RecvOut :=
  match a.t.receivedPacket pn ecn ackEliciting with
  | none => (a, .bug)
  | some t =>
    let a1 := ({ a with t := t }).noteLargest pn rcvTime
    if !ackEliciting then (a1, .ok)
    else
      let a2 := { a1 with count := a1.count + 1 }
      match a2.queueStep pn ecn rcvTime with
      | none => (a2, .panic)
      | some a3 => (a3, .ok)

def AppTracker.ignoreBelowOp (a : AppTracker) (pn : Int) : AppTracker :=
  if pn ≤ a.ignoreBelow then a
  else { a with ignoreBelow := pn, t := { a.t with hist := a.t.hist.deleteBelow pn } }

def AppTracker.getAckFrame (a : AppTracker) (now : Int) (onlyIfQueued : Bool) : AppTracker × Option Ack :=
  if onlyIfQueued && !a.ackQueued && (a.ackAlarm = 0 || a.ackAlarm > now) then (a, none)
  else
    let (t, ack) := a.t.getAckFrame
    match ack with
    | none => ({ a with t := t }, none)
    | some ack =>
      let ack := { ack with delay := max 0 (now - a.largestObservedRcvdTime) }
      -- `lastAck` aliases the returned frame, so it sees the DelayTime too
      ({ a with t := { t with lastAck := some ack }, ackQueued := false, ackAlarm := 0, count := 0 }, some ack)

/-! ### ReceivedPacketHandler -/

inductive Level | initial | handshake | zeroRTT | oneRTT
deriving Repr, BEq, DecidableEq

structure Handler where
  initial : Option Tracker := some {}
  handshake : Option Tracker := some {}
  app : AppTracker := {}
  lowest1RTT : Int := invalidPN
deriving Repr, BEq, DecidableEq

def Handler.receivedPacket (h : Handler) (pn : Int) (ecn : Nat) (lvl : Level) (rcvTime : Int) (ae : Bool) :
    Handler × RecvOut :=
  match lvl with
  | .initial =>
    match h.initial with
    | none => (h, .panic)          -- nil pointer dereference: the Initial case has no nil check
    | some t => match t.receivedPacket pn ecn ae with
      | none => (h, .bug)
      | some t' => ({ h with initial := some t' }, .ok)
  | .handshake =>
    match h.handshake with
    | none => (h, .ok)
    | some t => match t.receivedPacket pn ecn ae with
      | none => (h, .bug)
      | some t' => ({ h with handshake := some t' }, .ok)
  | .zeroRTT =>
    if h.lowest1RTT ≠ invalidPN ∧ pn > h.lowest1RTT then (h, .zeroRTTAfter1RTT)
    else
      let (a, out) := h.app.receivedPacket pn ecn rcvTime ae
      ({ h with app := a }, out)
  | .oneRTT =>
    let h := if h.lowest1RTT = invalidPN ∨ pn < h.lowest1RTT then { h with lowest1RTT := pn } else h
    let (a, out) := h.app.receivedPacket pn ecn rcvTime ae
    ({ h with app := a }, out)

/-- `DropPackets`; `none` = panic (1-RTT) -/
def Handler.dropPackets (h : Handler) : Level → Option Handler
  | .initial => some { h with initial := none }
  | .handshake => some { h with handshake := none }
  | .zeroRTT => some h
  | .oneRTT => none

def Handler.getAckFrame (h : Handler) (lvl : Level) (now : Int) (oiq : Bool) : Handler × Option Ack :=
  match lvl with
  | .initial => match h.initial with
    | some t => let (t', a) := t.getAckFrame; ({ h with initial := some t' }, a)
    | none => (h, none)
  | .handshake => match h.handshake with
    | some t => let (t', a) := t.getAckFrame; ({ h with handshake := some t' }, a)
    | none => (h, none)
  | .oneRTT => let (a', ack) := h.app.getAckFrame now oiq; ({ h with app := a' }, ack)
  | .zeroRTT => (h, none)

/-- `none` = panic("unexpected encryption level") for a dropped space -/
def Handler.isPotentiallyDuplicate (h : Handler) (pn : Int) : Level → Option Bool
  | .initial => h.initial.map (·.hist.isPotentiallyDuplicate pn)
  | .handshake => h.handshake.map (·.hist.isPotentiallyDuplicate pn)
  | .zeroRTT | .oneRTT => some (h.app.t.hist.isPotentiallyDuplicate pn)

def Handler.ignorePacketsBelow (h : Handler) (pn : Int) : Handler :=
  { h with app := h.app.ignoreBelowOp pn }

def Handler.alarm (h : Handler) : Int := h.app.ackAlarm

end Uquic.Model.Rcv
