/-
Model of internal/ackhandler/packet.go, sent_packet_history.go and
packet_number_generator.go (property C06).

Conventions: packet numbers, times and byte counts are `Int` (Go int64;
`InvalidPacketNumber = -1`, time `0` = unset).  A Go `*packet` stored in
`sentPacketHistory.packets` is an `Option Packet` (`none` = nil = a skipped or
already removed number).  Frames are opaque ids; `handler = false` renders a
`Frame` whose `Handler` is nil (no callback is made for it).  Go panics are
explicit outcomes (`none` / `.panic`), never totalised away.  Every function
mirrors the Go function of the same name branch for branch.
-/
import Uquic.Generated.Protocol
import Uquic.Generated.Ackhandler
import Uquic.Generated.AckhandlerX

namespace Uquic.Model.Sent

scoped notation "PN" => Int
scoped notation "Time" => Int
/-- (Smallest, Largest) -/
abbrev Range := PN × PN

def invalidPN : Int := Uquic.Gen.Protocol.InvalidPacketNumber
def maxSkippedPackets : Nat := Uquic.Gen.Ackhandler.maxSkippedPackets.toNat
def packetThreshold : Int := Uquic.Gen.Ackhandler.packetThreshold
def amplificationFactor : Int := Uquic.Gen.Ackhandler.amplificationFactor
def maxPTODuration : Int := Uquic.Gen.Ackhandler.maxPTODuration
def pathProbePacketLossTimeout : Int := Uquic.Gen.Ackhandler.pathProbePacketLossTimeout
def timerGranularity : Int := Uquic.Gen.Protocol.TimerGranularity
def timeThresholdNum : Int := Uquic.Gen.AckhandlerX.timeThresholdNum
def timeThresholdDen : Int := Uquic.Gen.AckhandlerX.timeThresholdDen
def maxTrackedSentPackets : Int := Uquic.Gen.Protocol.MaxTrackedSentPackets
def maxOutstandingSentPackets : Int := Uquic.Gen.Protocol.MaxOutstandingSentPackets
def skipPacketInitialPeriod : Int := Uquic.Gen.Protocol.SkipPacketInitialPeriod
def skipPacketMaxPeriod : Int := Uquic.Gen.Protocol.SkipPacketMaxPeriod

/-- `protocol.EncryptionLevel`; `invalid` is the zero value (carried by the placeholder
    `&packet{isPathProbePacket: true}` and rejected by `getPacketNumberSpace`). -/
inductive Level | invalid | initial | handshake | zeroRTT | oneRTT
deriving DecidableEq, Repr

/-- an `ackhandler.Frame` / `ackhandler.StreamFrame`: opaque id, `handler = false` ⇔ `Handler == nil` -/
structure Frame where
  id : Nat
  handler : Bool := true
deriving DecidableEq, Repr

/-- `ackhandler.packet` -/
structure Packet where
  sendTime : Time := 0
  /-- `Frames` -/
  frames : List Frame := []
  /-- `StreamFrames` -/
  sframes : List Frame := []
  largestAcked : PN := 0
  length : Int := 0
  level : Level := .invalid
  mtuProbe : Bool := false
  /-- `includedInBytesInFlight` -/
  inFlight : Bool := false
  pathProbe : Bool := false
deriving DecidableEq, Repr

/-- callback order used by `OnAcked` / `queueFramesForRetransmission`: `Frames`, then `StreamFrames` -/
def Packet.allFrames (p : Packet) : List Frame := p.frames ++ p.sframes

/-- `IsAckEliciting`: `len(p.StreamFrames) > 0 || len(p.Frames) > 0` -/
def Packet.ackEliciting (p : Packet) : Bool := !p.sframes.isEmpty || !p.frames.isEmpty

/-- `Outstanding` -/
def Packet.outstanding (p : Packet) : Bool := !p.mtuProbe && !p.pathProbe && p.ackEliciting

/-- the placeholder `&packet{isPathProbePacket: true}` that `SentPathProbePacket` stores in `packets` -/
def dummyProbe : Packet := { pathProbe := true }

/-- why a Go panic happened (all are printed as `PANIC`) -/
inductive PanicCause
  /-- nil `*packetNumberSpace` (dropped) or "invalid packet number space" -/
  | nilSpace
  /-- "negative bytes_in_flight" -/
  | negativeBytesInFlight
  /-- "non-sequential packet number use" -/
  | nonSequential
  /-- "negative number of outstanding packets" -/
  | negativeOutstanding
  /-- "cleanup failed" -/
  | cleanupFailed
  /-- nil `*packet` dereferenced in `Remove` / `DeclareLost` -/
  | nilPacket
  /-- "Cannot drop keys for encryption level" -/
  | dropLevel
  /-- ACK frame without ranges (index out of range) -/
  | emptyAck
deriving DecidableEq, Repr

/-! ### sentPacketHistory -/

structure Hist where
  packets : List (Option Packet) := []
  /-- `pathProbePackets` -/
  probes : List (PN × Packet) := []
  /-- `skippedPackets` (at most `maxSkippedPackets`, oldest first) -/
  skipped : List PN := []
  numOutstanding : Int := 0
  /-- `firstPacketNumber` -/
  first : PN := invalidPN
  /-- `highestPacketNumber` -/
  highest : PN := invalidPN
deriving DecidableEq, Repr

/-- `checkSequentialPacketNumberUse`; `none` = panic("non-sequential packet number use") -/
def Hist.checkSeq (h : Hist) (pn : PN) : Option Hist :=
  if h.highest ≠ invalidPN ∧ pn ≠ h.highest + 1 then none
  else some { h with highest := pn, first := if h.packets.isEmpty then pn else h.first }

/-- `SkippedPacket` -/
def Hist.skippedPacket (h : Hist) (pn : PN) : Option Hist :=
  match h.checkSeq pn with
  | none => none
  | some h =>
    let pk := if h.packets.isEmpty then h.packets else h.packets ++ [none]
    let sk := if h.skipped.length = maxSkippedPackets then h.skipped.drop 1 else h.skipped
    some { h with packets := pk, skipped := sk ++ [pn] }

/-- `SentPacket` -/
def Hist.sentPacket (h : Hist) (pn : PN) (p : Packet) : Option Hist :=
  match h.checkSeq pn with
  | none => none
  | some h =>
    some { h with packets := h.packets ++ [some p],
                  numOutstanding := if p.outstanding then h.numOutstanding + 1 else h.numOutstanding }

/-- `SentPathProbePacket` -/
def Hist.sentPathProbePacket (h : Hist) (pn : PN) (p : Packet) : Option Hist :=
  match h.checkSeq pn with
  | none => none
  | some h => some { h with packets := h.packets ++ [some dummyProbe], probes := h.probes ++ [(pn, p)] }

/-- `getIndex` -/
def Hist.getIndex (h : Hist) (p : PN) : Option Nat :=
  if h.packets.isEmpty then none
  else if p < h.first then none
  else
    let idx := (p - h.first).toNat
    if idx > h.packets.length - 1 then none else some idx

/-- the `*packet` stored for packet number `pn` (`none`: outside the slice, or nil) -/
def Hist.lookup (h : Hist) (pn : PN) : Option Packet :=
  match h.getIndex pn with
  | none => none
  | some idx => (h.packets[idx]?).join

def dropNones : List (Option Packet) → List (Option Packet)
  | none :: rest => dropNones rest
  | l => l

/-- `cleanupStart` -/
def Hist.cleanupStart (h : Hist) : Hist :=
  let rest := dropNones h.packets
  if rest.isEmpty then { h with packets := [], first := invalidPN }
  else { h with packets := rest, first := h.first + ((h.packets.length - rest.length : Nat) : Int) }

/-- `if p.Outstanding() { h.numOutstanding-- }` -/
def outAfter (n : Int) (p : Packet) : Int := if p.outstanding then n - 1 else n

inductive RemoveRes
  | ok (h : Hist) (p : Packet)
  | notFound
  | panic (c : PanicCause)
deriving Repr

/-- `Remove`; also returns the packet that was stored -/
def Hist.remove (h : Hist) (pn : PN) : RemoveRes :=
  match h.getIndex pn with
  | none => .notFound
  | some idx =>
    match (h.packets[idx]?).join with
    | none => .panic .nilPacket            -- `p.Outstanding()` on a nil entry
    | some p =>
      if outAfter h.numOutstanding p < 0 then .panic .negativeOutstanding
      else
        let pk := h.packets.set idx none
        let h1 : Hist := { h with packets := pk, numOutstanding := outAfter h.numOutstanding p }
        let h2 := if (pk.take idx).any Option.isSome then h1 else h1.cleanupStart
        match h2.packets with
        | none :: _ => .panic .cleanupFailed
        | _ => .ok h2 p

inductive LostRes
  | ok (h : Hist)
  | panic (c : PanicCause)
deriving Repr

/-- `DeclareLost` -/
def Hist.declareLost (h : Hist) (pn : PN) : LostRes :=
  match h.getIndex pn with
  | none => .ok h
  | some idx =>
    match (h.packets[idx]?).join with
    | none => .panic .nilPacket
    | some p =>
      if outAfter h.numOutstanding p < 0 then .panic .negativeOutstanding
      else
        let h1 : Hist := { h with packets := h.packets.set idx none, numOutstanding := outAfter h.numOutstanding p }
        .ok (if idx = 0 then h1.cleanupStart else h1)

/-- `RemovePathProbe` -/
def removeProbe (pn : PN) : List (PN × Packet) → Option Packet × List (PN × Packet)
  | [] => (none, [])
  | (q, p) :: rest =>
    if q = pn then (some p, rest)
    else
      let (r, rest') := removeProbe pn rest
      (r, (q, p) :: rest')

/-- `Difference` -/
def Hist.difference (h : Hist) (a b : PN) : PN :=
  let diff := a - b
  match h.skipped.head?, h.skipped.getLast? with
  | some lo, some hi =>
    if a < lo ∨ b > hi then diff
    else diff - ((h.skipped.filter fun p => p > b ∧ p < a).length : Int)
  | _, _ => diff

def firstOutstandingFrom : PN → List (Option Packet) → Option (PN × Packet)
  | _, [] => none
  | pn, some p :: rest => if p.outstanding then some (pn, p) else firstOutstandingFrom (pn + 1) rest
  | pn, none :: rest => firstOutstandingFrom (pn + 1) rest

/-- `FirstOutstanding` -/
def Hist.firstOutstanding (h : Hist) : Option (PN × Packet) :=
  if h.numOutstanding > 0 then firstOutstandingFrom h.first h.packets else none

def Hist.hasOutstandingPackets (h : Hist) : Bool := h.numOutstanding > 0
def Hist.hasOutstandingPathProbes (h : Hist) : Bool := !h.probes.isEmpty
def Hist.len (h : Hist) : Int := h.packets.length

/-- frames of the packets stored in `packets` -/
def packetsFrames (l : List (Option Packet)) : List Frame := (l.filterMap id).flatMap Packet.allFrames
/-- frames of the packets stored in `pathProbePackets` -/
def probesFrames (l : List (PN × Packet)) : List Frame := l.flatMap fun x => x.2.allFrames

/-- frames still tracked by the history (ghost view used by the ledger) -/
def Hist.pending (h : Hist) : List Frame := packetsFrames h.packets ++ probesFrames h.probes

/-! ### packet number generators -/

/-- `sequentialPacketNumberGenerator` (`skipping = false`) / `skippingPacketNumberGenerator` -/
structure Gen where
  skipping : Bool := false
  next : PN := 0
  nextToSkip : PN := 0
  period : PN := 0
deriving DecidableEq, Repr

/-- `generateNewSkip`; the random term is not modelled: `nts` is the new `nextToSkip` read back from the
    implementation (the oracle checks `next + 3 ≤ nts < next + 3 + 2*period` before the period update). -/
def Gen.generateNewSkip (g : Gen) (nts : PN) : Gen :=
  { g with nextToSkip := nts, period := min (2 * g.period) skipPacketMaxPeriod }

def Gen.new (skipping : Bool) (initial : PN) (nts : PN) : Gen :=
  if skipping then
    ({ skipping := true, next := initial, period := skipPacketInitialPeriod } : Gen).generateNewSkip nts
  else { skipping := false, next := initial }

/-- `Peek` -/
def Gen.peek (g : Gen) : PN :=
  if g.skipping ∧ g.next = g.nextToSkip then g.next + 1 else g.next

/-- `Pop`: (skipped, popped number, generator) -/
def Gen.pop (g : Gen) (nts : PN) : Bool × PN × Gen :=
  if g.skipping ∧ g.next = g.nextToSkip then
    (true, g.next + 1, ({ g with next := g.next + 2 } : Gen).generateNewSkip nts)
  else (false, g.next, { g with next := g.next + 1 })

/-- is `nts` an admissible outcome of `generateNewSkip` for a generator whose `next` is `next` -/
def drawOk (next period nts : PN) : Bool := next + 3 ≤ nts ∧ nts < next + 3 + 2 * period

end Uquic.Model.Sent
