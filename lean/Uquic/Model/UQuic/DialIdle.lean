/-
What a dialled connection's two idle timers end up with (property C02, "… and then moves stream data in both
directions": a connection that completed the handshake stays usable while it is idle for less than every idle timeout
an endpoint has in force).

* `u_connection.go` `configCoveringAdvertised`: a spec-driven client's own `MaxIdleTimeout` is raised to the
  max_idle_timeout its spec puts on the wire;
* `internal/wire/transport_parameters.go`: a RECEIVED max_idle_timeout is raised to `MinRemoteIdleTimeout`; a parameter
  that is not on the wire leaves the field 0;
* `connection.go` `applyTransportParameters` (`Uquic.Model.Idle.negotiate`, shared with property C17): the timeout in
  force is the minimum of the own value and the peer's — and the own value alone when the peer advertised none
  (RFC 9000 §10.1: an endpoint that omits max_idle_timeout does not limit the idle period).

Durations are `Int` nanoseconds as in `Uquic.Model.Idle`; advertised values are whole milliseconds as on the wire,
`-1` = the parameter is not on the wire (a derived spec may suppress it: no peer requires it).
-/
import Uquic.Model.Close.Idle

namespace Uquic.Model.UQuic.DialIdle
open Uquic.Model.Idle

def msNs : Int := 1000000

/-- `TransportParameters.MaxIdleTimeout` as the receiver's `applyTransportParameters` sees it -/
def peerSeen (advMs : Int) : Int := if advMs < 0 then 0 else peerIdleSeen advMs

/-- the client's own `Config.MaxIdleTimeout` after `configCoveringAdvertised` (`conf`: the populated Config's value,
    ns; without a spec the advertised value IS the Config's, so this is the identity) -/
def clientOwn (conf advMs : Int) : Int := max conf (if advMs < 0 then 0 else advMs * msNs)

/-- the idle timeout in force at an endpoint: `applyTransportParameters` on its own value and what it received -/
def inForce (own peerAdvMs : Int) : Int := (negotiate own (peerSeen peerAdvMs) 0).1

structure Ends where
  cConf : Int      -- client: populated Config.MaxIdleTimeout (ns)
  cAdv : Int       -- client: max_idle_timeout on the wire (ms; -1: not advertised)
  sOwn : Int       -- server: populated Config.MaxIdleTimeout (ns); the in-tree server always advertises it
deriving Repr, DecidableEq

def Ends.sAdv (e : Ends) : Int := e.sOwn / msNs

def Ends.client (e : Ends) : Int := inForce (clientOwn e.cConf e.cAdv) e.sAdv
def Ends.server (e : Ends) : Int := inForce e.sOwn e.cAdv

/-- the shorter of the two timers -/
def Ends.both (e : Ends) : Int := min e.client e.server

/-- slack for where exactly the idle period starts (the last packet received / first ack-eliciting packet sent after it:
    acknowledgements trail the last stream data by at most an ack delay and a round trip) -/
def slack : Int := 1000 * msNs

/-- an unused period of `pauseMs` certainly ends before either timer fires -/
def survives (e : Ends) (pauseMs : Int) : Bool := decide (pauseMs * msNs + slack < e.both)

/-- … certainly outlasts one of them (no keep-alive configured on either side) -/
def dies (e : Ends) (pauseMs : Int) : Bool := decide (e.both + slack < pauseMs * msNs)

end Uquic.Model.UQuic.DialIdle
