/-
Model of crypto_stream.go (send side): baseCryptoStream.Write / HasData / PopCryptoFrame and
initialCryptoStream.Write / HasData / PopCryptoFrame / PopAllCryptoData / DisableScrambling
(the anti-DPI ClientHello scrambler), plus wire.CryptoFrame.MaxDataLen (property C09).

`findSNIAndECH` is an environment input of `Write` (its result on the real buffer is passed in);
the cut state machine is modelled exactly, including the in-place "sort" of the two cuts.
`protocol.ByteCount` is `Int` (`InvalidByteCount = -1`).
-/
import Uquic.Model.UQuic.Frames

namespace Uquic.Model.UQuic.Scrambler
open Uquic.Model.UQuic.Frames

def invalid : Int := Uquic.Gen.Frames.InvalidByteCount

structure CS where
  /-- true: initialCryptoStream, false: cryptoStream -/
  initial : Bool := false
  buf : List UInt8 := []
  writeOffset : Int := 0
  scramble : Bool := false
  «end» : Int := 0
  c0s : Int := invalid
  c0e : Int := invalid
  c1s : Int := invalid
  c1e : Int := invalid
deriving Repr

def newInitial (isClient : Bool) : CS := { initial := true, scramble := isClient }
def newBase : CS := {}

/-- `wire.CryptoFrame{Offset}.MaxDataLen(maxSize)` -/
def maxDataLen (offset maxSize : Int) : Int :=
  let headerLen := 1 + varintLen offset + 1
  if headerLen > maxSize then 0
  else
    let m := maxSize - headerLen
    if varintLen m ≠ 1 then m - 1 else m

/-- Go slice expression `b[lo:hi]`; `none` = slice bounds out of range -/
def goSlice (b : List UInt8) (lo hi : Int) : Option (List UInt8) :=
  if lo < 0 ∨ hi < lo ∨ hi > b.length then none else some ((b.drop lo.toNat).take (hi - lo).toNat)

/-- result of a pop: `none` = nil frame -/
abbrev Pop := Option (Int × List UInt8)

/-- `baseCryptoStream.PopCryptoFrame` -/
def basePop (s : CS) (maxLen : Int) : CS × Pop :=
  let n := min (maxDataLen s.writeOffset maxLen) s.buf.length
  if n ≤ 0 then (s, none)
  else ({ s with buf := s.buf.drop n.toNat, writeOffset := s.writeOffset + n },
        some (s.writeOffset, s.buf.take n.toNat))

/-- result of findSNIAndECH on the write buffer: positions, and 0 = ok / 1 = io.ErrUnexpectedEOF / 2 = other error -/
structure Sni where
  sniPos : Int
  sniLen : Int
  echPos : Int
  err : Nat

/-- `Write`; the Bool is "an error was returned" -/
def write (s : CS) (p : List UInt8) (env : Sni) : CS × Bool :=
  let s := { s with buf := s.buf ++ p }
  if !s.initial || !s.scramble then (s, false)
  else if s.c0s = invalid then
    if env.err = 1 then (s, false)
    else if env.err ≠ 0 then (s, true)
    else if env.sniPos = -1 ∧ env.echPos = -1 then ({ s with scramble := false }, false)
    else
      let e : Int := s.buf.length
      let c0s := env.sniPos + env.sniLen / 2
      let c0e := env.sniPos + env.sniLen
      let (c1s, c1e) := if env.echPos > 0 then (env.echPos + 1, min (env.echPos + 1 + 16) e) else (s.c1s, s.c1e)
      -- slices.SortFunc on two elements: one insertion step, swap iff cmp(cuts[1], cuts[0]) < 0
      let swap := c1s ≠ invalid ∧ ¬ (c1s > c0s)
      if swap then ({ s with «end» := e, c0s := c1s, c0e := c1e, c1s := c0s, c1e := c0e }, false)
      else ({ s with «end» := e, c0s := c0s, c0e := c0e, c1s := c1s, c1e := c1e }, false)
  else (s, false)

/-- `HasData` -/
def hasData (s : CS) : Bool :=
  if s.initial && s.scramble && s.writeOffset = 0 && s.c0s = invalid then false
  else !s.buf.isEmpty

/-- `PopAllCryptoData`; `none` = nil returned because scrambling is on -/
def popAll (s : CS) : CS × Option (List UInt8) :=
  if s.scramble then (s, none)
  else ({ s with buf := [], writeOffset := s.writeOffset + s.buf.length }, some s.buf)

inductive PopOut where
  | frame (r : Pop)
  | panic

/-- `initialCryptoStream.PopCryptoFrame` -/
def pop (s : CS) (maxLen : Int) : CS × PopOut :=
  if !s.initial || !s.scramble then
    let (s', r) := basePop s maxLen
    (s', .frame r)
  else if s.writeOffset = s.«end» then
    -- send out the skipped parts: the first valid cut
    let first : Option (Bool × Int × Int) :=
      if s.c0s ≠ invalid then some (false, s.c0s, s.c0e)
      else if s.c1s ≠ invalid then some (true, s.c1s, s.c1e)
      else none
    match first with
    | none =>
      -- no cuts: done (`f` stays nil)
      match goSlice s.buf s.«end» s.buf.length with
      | none => (s, .panic)
      | some b => ({ s with buf := b, «end» := invalid, scramble := false }, .frame none)
    | some (second, cs, ce) =>
      let n := min (maxDataLen cs maxLen) (ce - cs)
      if n ≤ 0 then (s, .frame none)
      else
        match goSlice s.buf cs (cs + n) with
        | none => (s, .panic)
        | some data =>
          let consumed := cs + n = ce
          let s1 : CS :=
            if second then (if consumed then { s with c1s := invalid, c1e := invalid } else { s with c1s := cs + n })
            else (if consumed then { s with c0s := invalid, c0e := invalid } else { s with c0s := cs + n })
          -- foundCuts after the loop: false iff this cut was used up and no later cut is valid
          let laterValid := !second && s.c1s ≠ invalid
          if consumed && !laterValid then
            match goSlice s1.buf s1.«end» s1.buf.length with
            | none => (s1, .panic)
            | some b => ({ s1 with buf := b, «end» := invalid, scramble := false }, .frame (some (cs, data)))
          else (s1, .frame (some (cs, data)))
  else
    -- the next cut that starts after the write offset
    let next : Int × Int :=
      if s.c0s ≠ invalid ∧ s.c0s > s.writeOffset then (s.c0s, s.c0e)
      else if s.c1s ≠ invalid ∧ s.c1s > s.writeOffset then (s.c1s, s.c1e)
      else (invalid, invalid)
    let maxOffset := if next.1 = invalid then s.«end» else next.1
    let n := min (maxDataLen s.writeOffset maxLen) (maxOffset - s.writeOffset)
    if n ≤ 0 then (s, .frame none)
    else
      match goSlice s.buf s.writeOffset (s.writeOffset + n) with
      | none => (s, .panic)
      | some data =>
        let wo := s.writeOffset + n
        let wo' := if wo = next.1 then next.2 else wo
        ({ s with writeOffset := wo' }, .frame (some (s.writeOffset, data)))

end Uquic.Model.UQuic.Scrambler
