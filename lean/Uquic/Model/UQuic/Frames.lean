/-
Model of the uQUIC Initial frame builders (property C09):

  u_quic_frames.go     cryptoSafeRandUint64, QUICFrames.build, QUICRandomFrames.buildInternal,
                       QUICMultiDatagramFrames.BuildForDatagram
  u_flight_frames.go   QUICCryptoRange.resolve, QUICFrames.buildAbsolute, QUICFlightFrames.BuildFlight,
                       QUICRandomFlightDatagram.build, QUICRandomFlightFrames.BuildFlight, splitRange
  u_packet_packer.go   validateInitialFlight (with the clienthellod.ReadAllFrames contract),
                       MarshalInitialPacketPayload
  quicvarint           Append / Len

Every function mirrors the Go function of the same name branch for branch. Builders are pure
functions of (config, cryptoData, baseOffset, draws, permutation witness) and return
`ok payload | err name | panic`; a fourth outcome `wrap` marks the places where the Go code's
`uint64` arithmetic would wrap around (the theorems show it is unreachable; the oracle prints it as
`WRAP`, which never matches what the implementation prints).

Conventions: bytes are `List UInt8`; Go `int` / `uint64` quantities are `Int` / `Nat` without
overflow (assumption: configured offsets and lengths are far below 2^62), except the one place
where the code itself relies on `uint64` wrap-around (`uint64(offset) + baseOffset`).

Randomness (DESIGN.md §3.3): `crypto/rand.Int(rand.Reader, max)` is modelled exactly over a
scripted byte stream (`Draws`); `math/rand.Shuffle` is represented by a permutation witness.
-/
import Uquic.Generated.Frames

namespace Uquic.Model.UQuic.Frames

inductive Outcome (α : Type) where
  | ok (v : α)
  | err (e : String)
  | panic
  | wrap
deriving Repr, BEq, DecidableEq

def Outcome.bind {α β : Type} (x : Outcome α) (f : α → Outcome β) : Outcome β :=
  match x with
  | .ok v => f v
  | .err e => .err e
  | .panic => .panic
  | .wrap => .wrap

instance : Monad Outcome where
  pure := Outcome.ok
  bind := Outcome.bind

/-! ### quicvarint -/

def maxVarInt1 : Nat := Uquic.Gen.Frames.varint_maxVarInt1.toNat
def maxVarInt2 : Nat := Uquic.Gen.Frames.varint_maxVarInt2.toNat
def maxVarInt4 : Nat := Uquic.Gen.Frames.varint_maxVarInt4.toNat
def maxVarInt8 : Nat := Uquic.Gen.Frames.varint_maxVarInt8.toNat

/-- `quicvarint.Append`; `none` = the Go function panics (value above 2^62-1) -/
def appendVarint (v : Nat) : Option (List UInt8) :=
  if v ≤ maxVarInt1 then some [UInt8.ofNat v]
  else if v ≤ maxVarInt2 then some [UInt8.ofNat (64 + v / 256), UInt8.ofNat (v % 256)]
  else if v ≤ maxVarInt4 then
    some [UInt8.ofNat (128 + v / 16777216), UInt8.ofNat (v / 65536 % 256), UInt8.ofNat (v / 256 % 256),
          UInt8.ofNat (v % 256)]
  else if v ≤ maxVarInt8 then
    some [UInt8.ofNat (192 + v / 72057594037927936), UInt8.ofNat (v / 281474976710656 % 256),
          UInt8.ofNat (v / 1099511627776 % 256), UInt8.ofNat (v / 4294967296 % 256),
          UInt8.ofNat (v / 16777216 % 256), UInt8.ofNat (v / 65536 % 256), UInt8.ofNat (v / 256 % 256),
          UInt8.ofNat (v % 256)]
  else none

/-- `quicvarint.Len` for values the callers pass (non-negative, far below 2^62) -/
def varintLen (v : Int) : Int :=
  if v ≤ maxVarInt1 then 1 else if v ≤ maxVarInt2 then 2 else if v ≤ maxVarInt4 then 4 else 8

/-! ### QUICFrames.build -/

/-- QUICFrameCrypto{Offset,Length} | QUICFramePadding{Length} | QUICFramePing{} -/
inductive QFrame where
  | crypto (off : Int) (len : Int)
  | padding (len : Int)
  | ping
deriving Repr, BEq, DecidableEq

/-- first component of `CryptoFrameInfo()` -/
def QFrame.infoOff : QFrame → Int
  | .crypto off _ => off
  | _ => 0

/-- the first loop of `build`: `lowestOffset := math.MaxUint16`, then the minimum over ALL frames -/
def lowestOffset (qfs : List QFrame) : Int :=
  qfs.foldl (fun m f => if f.infoOff < m then f.infoOff else m) 65535

def u64 : Int := 18446744073709551616

/-- body of the second loop of `build` for one frame; `none` = panic (varint too large, negative
    `make`, slice bounds out of range) -/
def buildOne (lowest : Int) (data : List UInt8) (base : Nat) : QFrame → Option (List UInt8)
  | .crypto off len =>
    -- lengthOffset := min(offset-lowestOffset, len(cryptoData))
    let lengthOffset := min (off - lowest) (data.length : Int)
    -- if length == 0 || length > len(cryptoData)-lengthOffset { length = len(cryptoData) - lengthOffset }
    let length := if len = 0 ∨ len > (data.length : Int) - lengthOffset then (data.length : Int) - lengthOffset else len
    let wire := (off + (base : Int)) % u64          -- uint64(offset) + baseOffset wraps
    match appendVarint wire.toNat, (if length < 0 then none else appendVarint length.toNat) with
    | some a, some b =>
      if lengthOffset < 0 ∨ lengthOffset > data.length then none     -- cryptoData[lengthOffset:]
      else
        let avail := data.drop lengthOffset.toNat
        -- make([]byte, length); copy(...) copies at most `length` bytes, the rest stays zero
        some ([6] ++ a ++ b ++ avail.take length.toNat ++ List.replicate (length.toNat - avail.length) 0)
    | _, _ => none
  | .padding len => if len < 0 then none else some (List.replicate len.toNat 0)
  | .ping => some [1]

def buildAll (lowest : Int) (data : List UInt8) (base : Nat) : List QFrame → Option (List UInt8)
  | [] => some []
  | f :: fs =>
    match buildOne lowest data base f, buildAll lowest data base fs with
    | some a, some b => some (a ++ b)
    | _, _ => none

/-- `QUICFrames.build(cryptoData, baseOffset)` (it has no error path for PADDING/PING/CRYPTO frames) -/
def qfBuild (qfs : List QFrame) (data : List UInt8) (base : Nat) : Outcome (List UInt8) :=
  let qfs := if qfs.isEmpty then [QFrame.crypto 0 0] else qfs
  match buildAll (lowestOffset qfs) data base qfs with
  | some p => .ok p
  | none => .panic

/-! ### crypto/rand over a scripted reader -/

structure Draws where
  bytes : List UInt8
  /-- after the script: zeros for ever (true) or a read error (false) -/
  zero : Bool
deriving Repr

/-- `io.ReadFull(rand.Reader, k bytes)` -/
def Draws.read (d : Draws) (k : Nat) : Option (List UInt8 × Draws) :=
  if k ≤ d.bytes.length then some (d.bytes.take k, { d with bytes := d.bytes.drop k })
  else if d.zero then some (d.bytes ++ List.replicate (k - d.bytes.length) 0, { d with bytes := [] })
  else none

def bitLen (n : Nat) : Nat := if n = 0 then 0 else Nat.log2 n + 1

/-- `bytes[0] &= uint8(int(1<<b) - 1)` -/
def maskFirst (b : Nat) : List UInt8 → List UInt8
  | [] => []
  | x :: xs => UInt8.ofNat (x.toNat % 2 ^ b) :: xs

/-- the rejection loop of `crypto/rand.Int` -/
def randIntLoop : (fuel : Nat) → (max k b : Nat) → Draws → Option (Nat × Draws)
  | 0, _, _, _, _ => none
  | fuel + 1, max, k, b, d =>
    match d.read k with
    | none => none
    | some (bs, d') =>
      let v := (maskFirst b bs).foldl (fun a x => a * 256 + x.toNat) 0
      if v < max then some (v, d') else randIntLoop fuel max k b d'

/-- `crypto/rand.Int(rand.Reader, max)` for `max > 0`; `none` = the reader failed -/
def randInt (max : Nat) (d : Draws) : Option (Nat × Draws) :=
  let bl := bitLen (max - 1)
  if bl = 0 then some (0, d)
  else
    let k := (bl + 7) / 8
    let b := if bl % 8 = 0 then 8 else bl % 8
    randIntLoop (d.bytes.length + 2) max k b d

/-- `cryptoSafeRandUint64(min, max)`: a value in `[min, max)`, or `min` for a degenerate range -/
def cryptoSafeRand (mn mx : Nat) (d : Draws) : Option (Nat × Draws) :=
  if mx ≤ mn then some (mn, d)
  else
    match randInt (mx - mn) d with
    | some (v, d') => some (mn + v, d')
    | none => none

/-! ### QUICRandomFrames.buildInternal -/

structure RFCfg where
  minPing : Nat
  maxPing : Nat
  minCrypto : Nat
  maxCrypto : Nat
  minPad : Nat
  maxPad : Nat
  length : Nat
deriving Repr, BEq, DecidableEq

/-- The "select n-1 times" loops (CRYPTO and PADDING): `k` iterations are left, `remaining` is
    `lenCryptoData` / `lenPADDING`, `off` is `offsetCryptoData`. In iteration `i` of `n` the Go code
    draws from `[1, remaining-(n-i-2))` and `n-i-2 = k-1`. -/
def cutLoop (mk : Nat → Nat → QFrame) :
    (k : Nat) → (remaining off : Nat) → Draws → List QFrame → Outcome (List QFrame × Nat × Nat × Draws)
  | 0, remaining, off, d, acc => .ok (acc, off, remaining, d)
  | k + 1, remaining, off, d, acc =>
    if remaining < k then .wrap                       -- lenCryptoData-(numCRYPTO-i-2) would wrap
    else
      match cryptoSafeRand 1 (remaining - k) d with
      | none => .err "rand"
      | some (l, d') =>
        if remaining < l then .wrap                   -- lenCryptoData -= lenCRYPTO would wrap
        else cutLoop mk k (remaining - l) (off + l) d' (acc ++ [mk off l])

def checkBounds (c : RFCfg) : Option String :=
  if c.minPing > c.maxPing then some "minping"
  else if c.minCrypto < 1 then some "mincrypto1"
  else if c.minCrypto > c.maxCrypto then some "mincrypto"
  else if c.minPad < 1 ∧ c.length ≠ 0 then some "minpad1"
  else if c.minPad > c.maxPad ∧ c.length ≠ 0 then some "minpad"
  else none

/-- the PADDING part shared by buildInternal and QUICRandomFlightDatagram.build: `fl` is the frame
    list so far, `dryLen` the length of its dry-run serialisation -/
def addPadding (c : RFCfg) (fl : List QFrame) (dryLen : Nat) (d : Draws) : Outcome (List QFrame × Draws) :=
  if c.length > dryLen then
    let lenPad := c.length - dryLen
    match cryptoSafeRand c.minPad c.maxPad d with
    | none => .err "rand"
    | some (np, d) =>
      let numPad := min (max np 1) lenPad
      match cutLoop (fun _ l => QFrame.padding l) (numPad - 1) lenPad 0 d fl with
      | .ok (fl, _, rem, d) => .ok (fl ++ [QFrame.padding rem], d)
      | .err e => .err e
      | .panic => .panic
      | .wrap => .wrap
  else .ok (fl, d)

/-- buildInternal up to (not including) the shuffle: the frame list and the remaining draws -/
def rfPlan (c : RFCfg) (data : List UInt8) (d : Draws) : Outcome (List QFrame × Draws) :=
  match checkBounds c with
  | some e => .err e
  | none =>
    match cryptoSafeRand c.minPing c.maxPing d with
    | none => .err "rand"
    | some (numPing, d) =>
      match cryptoSafeRand c.minCrypto c.maxCrypto d with
      | none => .err "rand"
      | some (nc, d) =>
        let numCrypto := min (max nc 1) data.length
        match cutLoop (fun off l => QFrame.crypto off l) (numCrypto - 1) data.length 0 d
            (List.replicate numPing QFrame.ping) with
        | .ok (fl, off, _, d) =>
          let fl := fl ++ [QFrame.crypto off 0]       -- 0 means the remaining
          match qfBuild fl data 0 with                -- dry run
          | .ok dry => addPadding c fl dry.length d
          | .err e => .err e
          | .panic => .panic
          | .wrap => .wrap
        | .err e => .err e
        | .panic => .panic
        | .wrap => .wrap

/-- `perm` lists, for every output position, the index of the input element placed there -/
def isPerm (perm : List Nat) (n : Nat) : Bool :=
  perm.length == n && perm.all (· < n) && (List.range n).all (perm.contains ·)

def pick {α : Type} (l : List α) : List Nat → Option (List α)
  | [] => some []
  | i :: is =>
    match l[i]?, pick l is with
    | some x, some xs => some (x :: xs)
    | _, _ => none

def permute {α : Type} (l : List α) (perm : List Nat) : Option (List α) :=
  if isPerm perm l.length then pick l perm else none

/-- `QUICRandomFrames.buildInternal(cryptoData, baseOffset)` with the draws and the shuffle witness -/
def rfBuild (c : RFCfg) (data : List UInt8) (base : Nat) (d : Draws) (perm : List Nat) :
    Outcome (List UInt8) :=
  match rfPlan c data d with
  | .ok (fl, _) =>
    match permute fl perm with
    | some fl' => qfBuild fl' data base
    | none => .err "perm"
  | .err e => .err e
  | .panic => .panic
  | .wrap => .wrap

/-- `QUICMultiDatagramFrames.BuildForDatagram`: which spec is used (`none`: error, `some none`: index
    out of range panic for a negative index) -/
def mfSelect (per : List RFCfg) (idx : Int) : Outcome RFCfg :=
  if per.isEmpty then .err "empty"
  else
    let i := if idx ≥ per.length then (per.length : Int) - 1 else idx
    if i < 0 then .panic
    else match per[i.toNat]? with
      | some c => .ok c
      | none => .panic

/-! ### flight builders -/

/-- `QUICCryptoRange.resolve(streamLen)` -/
def resolve (off len : Int) (n : Nat) : Outcome (Nat × Nat) :=
  let start := if off < 0 then (n : Int) + off else off
  if start < 0 ∨ start > n then .err "offset"
  else
    let e := if len > 0 then start + len else (n : Int) + len
    if e > n ∨ e < start then .err "range"
    else .ok (start.toNat, e.toNat)

/-- one frame of `buildAbsolute` -/
def absOne (full : List UInt8) : QFrame → Outcome (List UInt8)
  | .ping => .ok [1]
  | .padding l => if l < 0 then .panic else .ok (List.replicate l.toNat 0)
  | .crypto off len =>
    match resolve off len full.length with
    | .ok (s, e) =>
      match appendVarint s, appendVarint (e - s) with
      | some a, some b => .ok ([6] ++ a ++ b ++ (full.drop s).take (e - s))
      | _, _ => .panic
    | .err e => .err e
    | .panic => .panic
    | .wrap => .wrap

/-- `QUICFrames.buildAbsolute(fullCrypto)`: frames in order, the first failure decides -/
def buildAbsolute (full : List UInt8) : List QFrame → Outcome (List UInt8)
  | [] => .ok []
  | f :: fs =>
    match absOne full f with
    | .ok a =>
      match buildAbsolute full fs with
      | .ok b => .ok (a ++ b)
      | o => o
    | o => o

def tagIdx (i : Nat) : Outcome (List UInt8) → Outcome (List UInt8)
  | .err e => .err (e ++ "@" ++ toString i)
  | o => o

def flightLoop (full : List UInt8) : Nat → List (List QFrame) → Outcome (List (List UInt8))
  | _, [] => .ok []
  | i, dg :: rest =>
    match tagIdx i (buildAbsolute full dg) with
    | .ok p =>
      match flightLoop full (i + 1) rest with
      | .ok ps => .ok (p :: ps)
      | o => o
    | .err e => .err e
    | .panic => .panic
    | .wrap => .wrap

/-- `QUICFlightFrames.BuildFlight` -/
def ffBuild (dgs : List (List QFrame)) (full : List UInt8) : Outcome (List (List UInt8)) :=
  if dgs.isEmpty then .err "empty" else flightLoop full 0 dgs

/-- `QUICFlightFrames.Build` (first datagram only) -/
def ffBuild1 (dgs : List (List QFrame)) (full : List UInt8) : Outcome (List UInt8) :=
  match dgs with
  | [] => .err "empty"
  | dg :: _ => buildAbsolute full dg

/-- the loop of `splitRange`: `k` cuts are left; the Go code draws from
    `[1, uint64(end-off-remainingFrames+1))` with `remainingFrames = k` -/
def splitLoop (e : Nat) : (k : Nat) → (off : Nat) → Draws → List QFrame → Outcome (List QFrame × Draws)
  | 0, off, d, acc => .ok (acc ++ [QFrame.crypto off ((e : Int) - off)], d)
  | k + 1, off, d, acc =>
    if (e : Int) - off - (k + 1) + 1 < 0 then .wrap
    else
      match cryptoSafeRand 1 (e - off - (k + 1) + 1) d with
      | none => .err "rand"
      | some (l, d') => splitLoop e k (off + l) d' (acc ++ [QFrame.crypto off l])

/-- `splitRange(start, end, minN, maxN)` -/
def splitRange (s e minN maxN : Nat) (d : Draws) : Outcome (List QFrame × Draws) :=
  match cryptoSafeRand minN maxN d with
  | none => .err "rand"
  | some (n, d) =>
    let n := min (max n 1) (e - s)
    splitLoop e (n - 1) s d []

structure RFDatagram where
  cfg : RFCfg
  ranges : List (Int × Int)
deriving Repr

def rangesLoop (c : RFCfg) (full : List UInt8) :
    List (Int × Int) → Draws → List QFrame → Outcome (List QFrame × Draws)
  | [], d, acc => .ok (acc, d)
  | (off, len) :: rest, d, acc =>
    match resolve off len full.length with
    | .ok (s, e) =>
      if e ≤ s then rangesLoop c full rest d acc
      else
        match splitRange s e (max c.minCrypto 1) (max c.maxCrypto 1) d with
        | .ok (pieces, d) => rangesLoop c full rest d (acc ++ pieces)
        | .err e => .err e
        | .panic => .panic
        | .wrap => .wrap
    | .err e => .err e
    | .panic => .panic
    | .wrap => .wrap

/-- `QUICRandomFlightDatagram.build` up to the shuffle -/
def rfdPlan (dg : RFDatagram) (full : List UInt8) (d : Draws) : Outcome (List QFrame × Draws) :=
  let c := dg.cfg
  if dg.ranges.isEmpty then .err "noranges"
  else if c.minCrypto > c.maxCrypto then .err "mincrypto"
  else if c.minPing > c.maxPing then .err "minping"
  else if c.length ≠ 0 ∧ c.minPad < 1 then .err "minpad1"
  else if c.length ≠ 0 ∧ c.minPad > c.maxPad then .err "minpad"
  else
    match rangesLoop c full dg.ranges d [] with
    | .ok (fl, d) =>
      if fl.isEmpty then .err "nobytes"
      else
        match cryptoSafeRand c.minPing c.maxPing d with
        | none => .err "rand"
        | some (numPing, d) =>
          let fl := fl ++ List.replicate numPing QFrame.ping
          match buildAbsolute full fl with
          | .ok dry => addPadding c fl dry.length d
          | .err e => .err e
          | .panic => .panic
          | .wrap => .wrap
    | .err e => .err e
    | .panic => .panic
    | .wrap => .wrap

def rfdBuild (dg : RFDatagram) (full : List UInt8) (d : Draws) (perm : List Nat) :
    Outcome (List UInt8 × Draws) :=
  match rfdPlan dg full d with
  | .ok (fl, d) =>
    match permute fl perm with
    | some fl' =>
      match buildAbsolute full fl' with
      | .ok p => .ok (p, d)
      | .err e => .err e
      | .panic => .panic
      | .wrap => .wrap
    | none => .err "perm"
  | .err e => .err e
  | .panic => .panic
  | .wrap => .wrap

def rffLoop (full : List UInt8) :
    Nat → List RFDatagram → Draws → List (List Nat) → Outcome (List (List UInt8))
  | _, [], _, _ => .ok []
  | i, dg :: rest, d, perms =>
    match rfdBuild dg full d (perms.headD []) with
    | .ok (p, d) =>
      match rffLoop full (i + 1) rest d perms.tail with
      | .ok ps => .ok (p :: ps)
      | o => o
    | .err e => .err (e ++ "@" ++ toString i)
    | .panic => .panic
    | .wrap => .wrap

/-- `QUICRandomFlightFrames.BuildFlight`: one permutation witness per datagram -/
def rffBuild (dgs : List RFDatagram) (full : List UInt8) (d : Draws) (perms : List (List Nat)) :
    Outcome (List (List UInt8)) :=
  if dgs.isEmpty then .err "empty" else rffLoop full 0 dgs d perms

/-! ### clienthellod.ReadAllFrames as used by validateInitialFlight

The reader works on a `bytes.Reader` wrapped, after every PADDING frame, into a "rewind reader"
holding the one non-zero byte that ended the padding. Its quirks are part of the contract:
* every error while reading a frame TYPE is `io.EOF` and ends the frame list without an error;
* a multi-byte varint or the CRYPTO data that is cut short by the end of the payload is NOT an
  error as long as at least one byte could be read (short read, zero filled);
* reading zero or more bytes at the very end of the payload is `io.EOF`, so a CRYPTO frame with
  empty data at the end of a payload is an error;
* a one-byte read served from the rewind buffer when nothing follows reports `io.EOF` although the
  byte was delivered: the last byte of a payload is dropped if it directly follows PADDING.
-/

inductive ChRes where
  /-- CRYPTO frames: offset, declared length, the bytes actually read (`f.data` is these bytes
      followed by zeros up to the declared length — not materialised here) -/
  | ok (fs : List (Nat × Nat × List UInt8))
  | err
  | panic
deriving Repr, BEq, DecidableEq

/-- `ReadNextVLI`; state = (pending rewind byte, rest of the payload); `none` = error -/
def chVLI (pending : Option UInt8) (rest : List UInt8) : Option (Nat × List UInt8) :=
  let first : Option (UInt8 × List UInt8) :=
    match pending with
    | some b => if rest.isEmpty then none else some (b, rest)     -- (1, io.EOF) is treated as an error
    | none => match rest with
      | [] => none
      | b :: r => some (b, r)
  match first with
  | none => none
  | some (b, r) =>
    let n := if b.toNat < 64 then 1 else if b.toNat < 128 then 2 else if b.toNat < 192 then 4 else 8
    if n = 1 then some (b.toNat % 64, r)
    else if r.isEmpty then none
    else
      let got := r.take (n - 1)
      let bytes := got ++ List.replicate (n - 1 - got.length) 0    -- short read: the rest stays zero
      some (bytes.foldl (fun a x => a * 256 + x.toNat) (b.toNat % 64), r.drop (n - 1))

/-- `make([]byte, f.Length)` panics ("len out of range") above the allocator's limit -/
def makeLimit : Nat := 281474976710656

def chFrames : (fuel : Nat) → Option UInt8 → List UInt8 → List (Nat × Nat × List UInt8) → ChRes
  | 0, _, _, acc => .ok acc
  | fuel + 1, pending, rest, acc =>
    match chVLI pending rest with
    | none => .ok acc                                   -- io.EOF on the frame type: done
    | some (t, r) =>
      if t = 0 then
        match r.dropWhile (· == 0) with
        | [] => .ok acc
        | b :: r' => chFrames fuel (some b) r' acc
      else if t = 1 then chFrames fuel none r acc
      else if t = 6 then
        match chVLI none r with
        | none => .err
        | some (off, r1) =>
          match chVLI none r1 with
          | none => .err
          | some (len, r2) =>
            if len ≥ makeLimit then .panic
            else if r2.isEmpty then .err                -- Read at the end of the payload: io.EOF
            else
              chFrames fuel none (r2.drop len) (acc ++ [(off, len, r2.take len)])
      else .err

def chReadAll (p : List UInt8) : ChRes := chFrames (p.length + 2) none p []

/-! ### validateInitialFlight -/

def firstUncovered (rs : List (Nat × Nat)) (n : Nat) : Option Nat :=
  (List.range n).find? fun i => !(rs.any fun r => decide (r.1 ≤ i) && decide (i < r.1 + r.2))

/-- the per-frame loop: `beyond` check, then marking -/
def markFrames (cryptoLen : Nat) : List (Nat × Nat × List UInt8) → List (Nat × Nat) → Option (List (Nat × Nat))
  | [], acc => some acc
  | (off, len, _) :: fs, acc =>
    if off + len > cryptoLen then none else markFrames cryptoLen fs (acc ++ [(off, len)])

def validateLoop (budgets : List Int) (cryptoLen : Nat) :
    Nat → List (List UInt8) → List (Nat × Nat) → Outcome (List (Nat × Nat))
  | _, [], acc => .ok acc
  | i, p :: ps, acc =>
    match budgets[min i (budgets.length - 1)]? with
    | none => .panic                                    -- budgets[-1]
    | some budget =>
      if budget > 0 ∧ (p.length : Int) > budget then .err ("toolarge@" ++ toString i)
      else
        match chReadAll p with
        | .err => .err ("parse@" ++ toString i)
        | .panic => .panic
        | .ok fs =>
          match markFrames cryptoLen fs acc with
          | none => .err ("beyond@" ++ toString i)
          | some acc => validateLoop budgets cryptoLen (i + 1) ps acc

/-- `validateInitialFlight(payloads, budgets, cryptoLen)`; `ok ranges` = nil error -/
def validate (payloads : List (List UInt8)) (budgets : List Int) (cryptoLen : Int) :
    Outcome (List (Nat × Nat)) :=
  if payloads.isEmpty then .err "nodatagrams"
  else if cryptoLen < 0 then .panic                     -- make([]bool, cryptoLen)
  else
    match validateLoop budgets cryptoLen.toNat 0 payloads [] with
    | .ok rs =>
      match firstUncovered rs cryptoLen.toNat with
      | some _ => .err "uncovered"
      | none => .ok rs
    | o => o

/-! ### MarshalInitialPacketPayload -/

/-- `wire.CryptoFrame.Append` -/
def wireCrypto (off : Nat) (data : List UInt8) : Option (List UInt8) :=
  match appendVarint off, appendVarint data.length with
  | some a, some b => some ([6] ++ a ++ b ++ data)
  | _, _ => none

def wireAll : List (Nat × List UInt8) → Option (List UInt8)
  | [] => some []
  | (off, d) :: fs =>
    match wireCrypto off d, wireAll fs with
    | some a, some b => some (a ++ b)
    | _, _ => none

/-- stable insertion by offset (`sort.Slice` is an insertion sort for fewer than 12 elements) -/
def insertByOff (x : Nat × Nat × List UInt8) : List (Nat × Nat × List UInt8) → List (Nat × Nat × List UInt8)
  | [] => [x]
  | y :: ys => if x.1 < y.1 then x :: y :: ys else y :: insertByOff x ys

def sortByOff (l : List (Nat × Nat × List UInt8)) : List (Nat × Nat × List UInt8) :=
  l.foldl (fun acc x => insertByOff x acc) []

/-- `clienthellod.ReassembleCRYPTOFrames` on sorted frames: `none` = "failed to reassemble" -/
def reassemble (first : Nat) : List (Nat × Nat × List UInt8) → List UInt8 → Option (List UInt8)
  | [], acc => some acc
  | (off, _, d) :: fs, acc => if first + acc.length = off then reassemble first fs (acc ++ d) else none

inductive Builder where
  | none                        -- nil FrameBuilder
  | frames (qfs : List QFrame)  -- QUICFrames
  | random (c : RFCfg)          -- *QUICRandomFrames
  | multi (per : List RFCfg)    -- *QUICMultiDatagramFrames
deriving Repr

/-- `MarshalInitialPacketPayload`: payload and the datagram index afterwards -/
def marshalInitial (fb : Builder) (idx : Int) (planned : Bool) (frames : List (Nat × List UInt8))
    (d : Draws) (perm : List Nat) : Outcome (List UInt8 × Int) :=
  match wireAll frames with
  | none => .panic
  | some orig =>
    if planned then .ok (orig, idx)
    else
      match chReadAll orig with
      | .err => .err "other"
      | .panic => .panic
      | .ok fs =>
        -- `frame.data`: the bytes read, zero-filled to the declared length
        let fs := fs.map fun f => (f.1, f.2.1, f.2.2 ++ List.replicate (f.2.1 - f.2.2.length) 0)
        let sorted := sortByOff fs
        match (match sorted with
               | [] => some []
               | f :: _ => reassemble f.1 sorted []) with
        | none =>
          -- not one contiguous range (a retransmission of non-adjacent datagrams): the tree decides
          -- whether that is an error or the frames go out as they are (generated fact)
          if Uquic.Gen.Frames.marshalReassembleFatal then .err "reassemble" else .ok (orig, idx + 1)
        | some cryptoData =>
          let baseOffset := fs.foldl (fun m f => if f.1 < m then f.1 else m) 18446744073709551615
          let baseOffset := if baseOffset = 18446744073709551615 then 0 else baseOffset
          let passThrough : Bool := match fb with
            | .none => true
            | .frames qfs => qfs.isEmpty
            | _ => false
          if passThrough then
            -- p.initialDatagramIdx++ on the pass-through path too: one Initial datagram has been built
            match qfBuild (fs.map fun f => QFrame.crypto f.1 f.2.1) cryptoData 0 with
            | .ok p => .ok (p, idx + 1)
            | .err e => .err e
            | .panic => .panic
            | .wrap => .wrap
          else
            let r : Outcome (List UInt8) := match fb with
              | .frames qfs => qfBuild qfs cryptoData baseOffset
              | .random c => rfBuild c cryptoData baseOffset d perm
              | .multi per =>
                match mfSelect per idx with
                | .ok c => rfBuild c cryptoData baseOffset d perm
                | .err e => .err e
                | .panic => .panic
                | .wrap => .wrap
              | .none => .panic
            match r with
            | .ok p => .ok (p, idx + 1)
            | .err e => .err e
            | .panic => .panic
            | .wrap => .wrap

end Uquic.Model.UQuic.Frames
