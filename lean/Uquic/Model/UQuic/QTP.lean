/-
Model of the uQUIC transport-parameter plumbing (property C11). Core-only.

Go code modelled (file: function):
* u_parrot.go: `IsGREASEQTPID`, `SuppressQUICTransportParameters`, `ShuffleQUICTransportParameters`
  (math/rand.Shuffle = Fisher–Yates, the draws are a parameter of the model);
* u_quic_spec.go: `(*QUICSpec).TransportParameterIDs`;
* uTLS u_quic_transport_parameters.go: `TransportParameters.Marshal` (contract: concat of
  varint id ‖ varint len ‖ value), QUIC varints as written by `quicvarint.Append`;
* internal/wire/u_transport_parameters.go: `(*TransportParameters).PopulateFromUQUIC`
  (its switch table is regenerated: `Uquic.Gen.UQuic.populateCases`);
* u_connection.go:110-140: the order suppress → (shuffle) → populate → marshal (`wireOf`).

A parameter is `(id, value bytes)`; `typed` says whether the Go value is uTLS's dedicated type for that
id (`tls.MaxIdleTimeout` …) or a raw one (`*tls.FakeQUICTransportParameter`, GREASE …): the type
assertions in `PopulateFromUQUIC` panic on the latter, and panics are outcomes.
-/
import Uquic.Generated.UQuic

namespace Uquic.Model.QTP
open Uquic.Gen.UQuic

structure Param where
  id : Nat
  val : List Nat          -- bytes, exactly what `Value()` returns
  typed : Bool := false   -- the uTLS type dedicated to this id (false: Fake / GREASE / raw)
deriving DecidableEq, Repr

/-! ## GREASE ids, suppression, reported ids -/

/-- `IsGREASEQTPID`: `id >= QTPGrease && (id-QTPGrease)%31 == 0` -/
def isGrease (id : Nat) : Bool :=
  decide (id ≥ QTPGrease) && (id - QTPGrease) % greaseModulus == 0

/-- whether `SuppressQUICTransportParameters` drops a parameter with this id: the entry `QTPGrease`
only switches `suppressGREASE` on (it is not put into the id set), every other entry matches exactly -/
def dropped (S : List Nat) (id : Nat) : Bool :=
  (id != QTPGrease && S.contains id) || (S.contains QTPGrease && isGrease id)

/-- `SuppressQUICTransportParameters(qtp, S)` (the early return for an empty list included) -/
def suppress (ps : List Param) (S : List Nat) : List Param :=
  if S.isEmpty then ps else ps.filter (fun p => !dropped S p.id)

/-- what a fingerprinter does with an id: every GREASE id is folded to `QTPGrease` -/
def canonID (id : Nat) : Nat := if isGrease id then QTPGrease else id

def canonIDs (ps : List Param) : List Nat := ps.map (fun p => canonID p.id)

/-- `slices.Sort` on `[]uint64` (insertion sort: any sorting function gives this list) -/
def insertSorted (x : Nat) : List Nat → List Nat
  | [] => [x]
  | y :: ys => if x ≤ y then x :: y :: ys else y :: insertSorted x ys

def sortIDs : List Nat → List Nat
  | [] => []
  | x :: xs => insertSorted x (sortIDs xs)

/-- `(*QUICSpec).TransportParameterIDs`: suppression applied, GREASE folded, sorted, duplicates kept -/
def transportParameterIDs (ps : List Param) (S : List Nat) : List Nat :=
  sortIDs (canonIDs (suppress ps S))

/-! ## Shuffle

`math/rand.Shuffle(n, swap)`: `for i := n-1; i > 0; i-- { j := rand in [0,i]; swap(i, j) }`.
The draws `js = [j_{n-1}, …, j_1]` are the witness. The model walks the *reversed* list from its head
(index `i` of the slice is index `n-1-i` of the reversed list): the step for `i` swaps the head of the
remaining suffix with the element at offset `i - j_i`. -/

/-- swap the head `a` of `a :: t` with the element at offset `k` (`k = 0`: stay) -/
def swapHead {α} (a : α) (t : List α) : Nat → α × List α
  | 0 => (a, t)
  | k+1 => if h : k < t.length then (t[k], t.set k a) else (a, t)

def fyRev {α} : Nat → List α → List Nat → List α
  | 0, l, _ => l
  | _+1, [], _ => []
  | n+1, a :: t, ks =>
    let r := swapHead a t (ks.headD 0)
    r.1 :: fyRev n r.2 ks.tail

/-- offsets for the reversed walk from Go's draws: step `t` fixes slice index `i = n-1-t` -/
def offsetsOf (n : Nat) (js : List Nat) : List Nat :=
  js.mapIdx (fun t j => (n - 1 - t) - j)

/-- the draws are what `rand.Shuffle` can produce: `0 ≤ j_i ≤ i` -/
def validDraws (n : Nat) (js : List Nat) : Prop :=
  ∀ t (h : t < js.length), js[t] ≤ n - 1 - t

def shuffleWith {α} (js : List Nat) (l : List α) : List α :=
  (fyRev l.length l.reverse (offsetsOf l.length js)).reverse

/-- recover offsets from an observed output (reversed lists): first occurrence of the wanted head -/
def recoverOffsets {α} [DecidableEq α] : List α → List α → List Nat
  | a :: t, b :: q =>
    if a = b then 0 :: recoverOffsets t q
    else
      let k := t.findIdx (· = b)
      if k < t.length then (k+1) :: recoverOffsets (t.set k a) q else 0 :: recoverOffsets t q
  | _, _ => []
termination_by l => l.length
decreasing_by all_goals simp_all

/-- recover Go's draws from input and observed output of a shuffle -/
def recoverDraws {α} [DecidableEq α] (l out : List α) : List Nat :=
  (recoverOffsets l.reverse out.reverse).mapIdx (fun t k => (l.length - 1 - t) - k)

/-! ## Wire format -/

/-- `quicvarint.Append` for `v < 2^62` (it panics above) -/
def varint (v : Nat) : List Nat :=
  if v < 64 then [v]
  else if v < 16384 then [64 + v / 256, v % 256]
  else if v < 1073741824 then [128 + v / 16777216, v / 65536 % 256, v / 256 % 256, v % 256]
  else [192 + v / 72057594037927936, v / 281474976710656 % 256, v / 1099511627776 % 256, v / 4294967296 % 256,
        v / 16777216 % 256, v / 65536 % 256, v / 256 % 256, v % 256]

/-- uTLS `TransportParameters.Marshal` -/
def marshalOne (p : Param) : List Nat := varint p.id ++ varint p.val.length ++ p.val

def marshal : List Param → List Nat
  | [] => []
  | p :: ps => marshalOne p ++ marshal ps

/-- the model's own reader (what a fingerprinter does first) -/
def readVarint : List Nat → Option (Nat × List Nat)
  | [] => none
  | b :: r =>
    if b < 64 then some (b, r)
    else if b < 128 then
      match r with
      | b1 :: r => some ((b - 64) * 256 + b1, r)
      | _ => none
    else if b < 192 then
      match r with
      | b1 :: b2 :: b3 :: r => some ((b - 128) * 16777216 + b1 * 65536 + b2 * 256 + b3, r)
      | _ => none
    else
      match r with
      | b1 :: b2 :: b3 :: b4 :: b5 :: b6 :: b7 :: r =>
        some ((b - 192) * 72057594037927936 + b1 * 281474976710656 + b2 * 1099511627776 + b3 * 4294967296
              + b4 * 16777216 + b5 * 65536 + b6 * 256 + b7, r)
      | _ => none

def parseFuel : Nat → List Nat → Option (List (Nat × List Nat))
  | 0, bs => if bs.isEmpty then some [] else none
  | f+1, bs =>
    if bs.isEmpty then some []
    else match readVarint bs with
      | none => none
      | some (id, r1) =>
        match readVarint r1 with
        | none => none
        | some (n, r2) =>
          if r2.length < n then none
          else match parseFuel f (r2.drop n) with
            | none => none
            | some rest => some ((id, r2.take n) :: rest)

/-- parse the body of a quic_transport_parameters extension into `(id, value)` pairs -/
def parseQTP (bs : List Nat) : Option (List (Nat × List Nat)) := parseFuel bs.length bs

def pairs (ps : List Param) : List (Nat × List Nat) := ps.map (fun p => (p.id, p.val))

/-! ## PopulateFromUQUIC -/

/-- 0 = not in the switch, 1 = panicking assertion, 2 = no assertion (flag), 3 = comma-ok assertion -/
def kindOf (id : Nat) : Nat :=
  match populateCases.find? (fun c => c.1 == id) with
  | none => 0
  | some (_, k, _) => if k == "assert" then 1 else if k == "flag" then 2 else if k == "okassert" then 3 else 0

/-- value of a typed integer parameter (its value bytes are one varint) -/
def numOf (val : List Nat) : Nat := ((readVarint val).map (·.1)).getD 0

def setNum (m : List (Nat × Nat)) (id v : Nat) : List (Nat × Nat) :=
  (id, v) :: m.filter (fun e => e.1 != id)

def getNum (m : List (Nat × Nat)) (id : Nat) : Option Nat := (m.find? (fun e => e.1 == id)).map (·.2)

/-- the connection's record of its own parameters, as far as `PopulateFromUQUIC` writes it -/
structure Own where
  nums : List (Nat × Nat) := []     -- integer fields by parameter id, wire units
  disableMigration : Bool := false
  scid : List Nat := []             -- InitialSourceConnectionID
  override : List Nat := []         -- ClientOverride
deriving DecidableEq, Repr

/-- one iteration of the loop; `none` = panic (failed type assertion / over-long connection id) -/
def popStep (own : Own) (p : Param) : Option (Own × Param) :=
  match kindOf p.id with
  | 1 => if p.typed then some ({ own with nums := setNum own.nums p.id (numOf p.val) }, p) else none
  | 2 => some ({ own with disableMigration := true }, p)
  | 3 =>
    if p.typed then
      if p.val.isEmpty then some (own, { p with val := own.scid })   -- write-back of the real SCID
      else if p.val.length > maxConnectionIDLen then none
      else some ({ own with scid := p.val }, p)
    else some (own, p)
  | _ => some (own, p)

def popLoop (own : Own) : List Param → Option (Own × List Param)
  | [] => some (own, [])
  | p :: ps =>
    match popStep own p with
    | none => none
    | some (own', p') =>
      match popLoop own' ps with
      | none => none
      | some (o, ps') => some (o, p' :: ps')

/-- `params.PopulateFromUQUIC(list)` with `params.InitialSourceConnectionID = scid` beforehand:
the record and the (rewritten in place) list; `none` = panic -/
def populate (scid : List Nat) (ps : List Param) : Option (Own × List Param) :=
  match popLoop { scid := scid } ps with
  | none => none
  | some (o, ps') => some ({ o with override := marshal ps' }, ps')

/-- u_connection.go:110-140: what reaches the TLS extension for one dial, given the shuffle draws
(`none` = no randomisation) -/
def wireOf (ps : List Param) (S : List Nat) (draws : Option (List Nat)) (scid : List Nat) :
    Option (Own × List Nat) :=
  let l := suppress ps S
  let l := match draws with | none => l | some js => shuffleWith js l
  match populate scid l with
  | none => none
  | some (own, l') => some (own, marshal l')

end Uquic.Model.QTP
