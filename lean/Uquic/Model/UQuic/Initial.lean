/-
Model of the spec-driven decisions behind a uQUIC client's first Initial flight (property C10):

* u_initial_packet_spec.go   `planFor`, `initialPN`, `tokenLength`, `getTokenStore`, `dummyTokenStore.Pop`
* u_transport.go             `dial` / `doDial`: connection ID generators
* u_connection.go            seeding of the per-packet packet-number lengths
* ackhandler/u_sent_packet_handler.go `PeekPacketNumber`
* wire/extended_header.go    `Append`, `GetLength` (long header; the Length varint always has width 2)
* u_packet_packer.go         `PackCoalescedPacket` (CRYPTO budget), `appendInitialPacketPayload`
                             (exact-size padding, Length field, buffer check, UDP minimum padding),
                             `flightBudgets`, `initialFrameBudget`, `MarshalInitialPacketPayload`
                             (which path advances the per-datagram plan index)
* crypto_stream.go / wire/crypto_frame.go  `PopCryptoFrame`, `MaxDataLen`

Every function mirrors the Go function named next to it, branch for branch.  Quantities are `Nat`
(Go `int`/`ByteCount` values that the code keeps non-negative) except where the Go code computes
with signed or wrapping 64-bit integers (`pnBase`, `wrap64`, flight ranges), which are `Int`.
Randomness is an explicit byte stream `s : Nat → Nat` (byte `k` read from crypto/rand.Reader).
-/
import Uquic.Generated.Protocol
import Uquic.Generated.Initial

namespace Uquic.Model.Initial

/-! ### constants (regenerated from /repo) -/

def maxPacketBufferSize : Nat := Uquic.Gen.Protocol.MaxPacketBufferSize.toNat
def defaultInitialPacketSize : Nat := Uquic.Gen.Protocol.InitialPacketSize.toNat
def minInitialPacketSize : Nat := Uquic.Gen.Protocol.MinInitialPacketSize.toNat
def minCIDLenInitial : Nat := Uquic.Gen.Protocol.MinConnectionIDLenInitial.toNat
def maxCIDLen : Nat := Uquic.Gen.Protocol.maxConnectionIDLen.toNat
def defaultUDPMin : Nat := Uquic.Gen.Initial.DefaultUDPDatagramMinSize.toNat
def paddingReserve : Nat := Uquic.Gen.Initial.paddingReserve.toNat
def maxPN : Nat := Uquic.Gen.Initial.maxPN.toNat
/-- width of the Length varint: `quicvarint.AppendWithLen(b, h.Length, 2)` -/
def lenW : Nat := Uquic.Gen.Initial.lengthVarintWidthAppend.toNat
/-- `GetLength` reserves the same number of bytes (checked by `Props.C10.length_width_consistent`) -/
def lenWGetLength : Nat := Uquic.Gen.Initial.lengthVarintWidthGetLength.toNat
/-- AEAD overhead of the Initial sealer (AES-128-GCM tag) -/
def tagLen : Nat := 16

/-! ### varints and big-endian bytes (quicvarint.Len / Append / AppendWithLen) -/

def varintLen (v : Nat) : Nat :=
  if v < 64 then 1 else if v < 16384 then 2 else if v < 1073741824 then 4 else 8

/-- `w` bytes, big endian, of `v mod 256^w` -/
def beBytes : Nat → Nat → List Nat
  | 0, _ => []
  | w + 1, v => (v / 256 ^ w % 256) :: beBytes w v

/-- two-bit length prefix of a varint of width `w` -/
def varintPrefix (w : Nat) : Nat := if w = 1 then 0 else if w = 2 then 1 else if w = 4 then 2 else 3

/-- `quicvarint.AppendWithLen b v w` for `w ∈ {1,2,4,8}` and `v < 2^(8w-2)` -/
def varintBytesW (w v : Nat) : List Nat :=
  match beBytes w v with
  | [] => []
  | b :: bs => (b + 64 * varintPrefix w) :: bs

def varintBytes (v : Nat) : List Nat := varintBytesW (varintLen v) v

/-! ### the spec (header / numbering / token / layout half of a `QUICSpec`) -/

structure Plan where
  cryptoLength : Nat := 0
  packetSize : Nat := 0
deriving Repr, BEq, DecidableEq

inductive TokenCfg
  | none
  /-- an explicit `TokenStore` whose `Pop` returns these bytes -/
  | explicit (b : List Nat)
  /-- `ClientTokenPrefix`, `ClientTokenLength` -/
  | synth (pre : List Nat) (len : Nat)
deriving Repr, BEq, DecidableEq

/-- `QUICFrame`: CRYPTO offsets/lengths are Go `int`s (negative values address a flight's stream from its end) -/
inductive QFrame
  | crypto (off len : Int)
  | padding (len : Nat)
  | ping
deriving Repr, BEq, DecidableEq

/-- `QUICRandomFrames` -/
structure RF where
  minPing : Nat := 0
  maxPing : Nat := 0
  minCrypto : Nat := 0
  maxCrypto : Nat := 0
  minPad : Nat := 0
  maxPad : Nat := 0
  length : Nat := 0
deriving Repr, BEq, DecidableEq

/-- `QUICRandomFlightDatagram` -/
structure RFD where
  ranges : List (Int × Int)
  frames : RF
deriving Repr, BEq, DecidableEq

inductive Builder
  | nil
  | frames (l : List QFrame)          -- QUICFrames
  | random (rf : RF)                  -- *QUICRandomFrames
  | multi (l : List RF)               -- *QUICMultiDatagramFrames
  | flight (ds : List (List QFrame))  -- *QUICFlightFrames
  | randFlight (ds : List RFD)        -- *QUICRandomFlightFrames
deriving Repr, BEq, DecidableEq

structure Spec where
  scidLen : Nat := 0
  dcidLen : Nat := 0
  /-- `InitPacketNumber` (a uint64) -/
  initPN : Nat := 0
  /-- deprecated single `InitPacketNumberLength` (0 = unset) -/
  pnLen1 : Nat := 0
  pnLens : List Nat := []
  token : TokenCfg := .none
  builder : Builder := .nil
  plans : List Plan := []
  udpMin : Nat := 0
deriving Repr, BEq, DecidableEq

/-! ### per-datagram plan -/

/-- `InitialPacketSpec.planFor` -/
def planFor (plans : List Plan) (idx : Nat) : Plan :=
  if plans.length = 0 then {} else plans.getD (if idx ≥ plans.length then plans.length - 1 else idx) {}

/-- the pass-through path of `MarshalInitialPacketPayload` (nil builder, empty `QUICFrames`): the popped
    CRYPTO frame is re-emitted as it is -/
def Builder.passThrough : Builder → Bool
  | .nil => true
  | .frames [] => true
  | _ => false

def Builder.isFlight : Builder → Bool
  | .flight _ => true
  | .randFlight _ => true
  | _ => false

/-- the plan index the packer uses for the `i`-th datagram of the first flight: `initialDatagramIdx` is
    advanced once per datagram on every path of `MarshalInitialPacketPayload` (Ex builders, the pass-through
    path and plain `Build` since /repo 2233b03) and by `packPlannedInitial` -/
def planIdx (_spec : Spec) (i : Nat) : Nat := i

def planOf (spec : Spec) (i : Nat) : Plan := planFor spec.plans (planIdx spec i)

/-! ### packet numbers -/

/-- two's-complement reinterpretation of an integer as an int64 -/
def wrap64 (x : Int) : Int := (x + 9223372036854775808) % 18446744073709551616 - 9223372036854775808

/-- `InitialPacketSpec.initialPN` -/
def initialPN (spec : Spec) : Nat := if spec.initPN > maxPN then 0 else spec.initPN

/-- the index base `SetInitialPacketNumberLengths` receives in u_connection.go: `initialPN()` (/repo e2b1c44) -/
def pnBase (spec : Spec) : Int := (initialPN spec : Nat)

/-- the Initial space uses the sequential generator seeded with `initialPN` -/
def pnFor (spec : Spec) (i : Nat) : Nat := initialPN spec + i

/-- `protocol.PacketNumberLengthForHeader(pn, InvalidPacketNumber)` -/
def defaultPnLen (pn : Nat) : Nat :=
  if pn + 1 < 32768 then 2 else if pn + 1 < 8388608 then 3 else 4

/-- `uSentPacketHandler.PeekPacketNumber` for the Initial space -/
def pnLenFor (spec : Spec) (i : Nat) : Nat :=
  let pn := pnFor spec i
  if spec.pnLens.length > 0 then
    let d := wrap64 ((pn : Int) - pnBase spec)
    let idx : Nat := if d < 0 then 0 else if d ≥ spec.pnLens.length then spec.pnLens.length - 1 else d.toNat
    spec.pnLens.getD idx 0
  else if spec.pnLen1 ≠ 0 then spec.pnLen1
  else defaultPnLen pn

/-- `protocol.DecodePacketNumber` (RFC 9000 A.3), on int64 values that do not overflow here -/
def decodePN (pnLen : Nat) (largest truncated : Int) : Int :=
  let expected := largest + 1
  let win : Int := 2 ^ (8 * pnLen)
  let hwin := win / 2
  let candidate := expected - expected % win + truncated
  if candidate ≤ expected - hwin ∧ candidate < 4611686018427387904 - win then candidate + win
  else if candidate > expected + hwin ∧ candidate ≥ win then candidate - win
  else candidate

/-- `InitialPacketSpec.firstPNLen`: entry 0 of the list, else the single override, else the default rule -/
def firstPNLen (spec : Spec) : Nat :=
  if spec.pnLens.length > 0 then spec.pnLens.getD 0 0
  else if spec.pnLen1 ≠ 0 then spec.pnLen1
  else defaultPnLen (initialPN spec)

/-- `UTransport.dial` (/repo 518b505) returns an error before anything is sent when the first packet number
    does not fit the encoding length the spec gives the first Initial packet -/
def dialRejects (spec : Spec) : Bool :=
  decide (1 ≤ firstPNLen spec ∧ firstPNLen spec ≤ 4 ∧ initialPN spec ≥ 2 ^ (8 * firstPNLen spec))

/-! ### randomness: connection IDs and the synthesised token -/

def takeStream (s : Nat → Nat) (off n : Nat) : List Nat := (List.range n).map (fun i => s (off + i))

/-- `doDial`: the source connection ID is drawn first (`GenerateConnectionID(SrcConnIDLength)`;
    length 0 = `ExpEmptyConnectionIDGenerator`, no draw) -/
def scidFor (spec : Spec) (s : Nat → Nat) : List Nat := takeStream s 0 spec.scidLen

/-- `doDial`: `generateConnectionIDForInitialWithLength(DestConnIDLength)` when positive, else
    `GenerateConnectionIDForInitial`: one byte `r`, length `8 + r % 13`, then that many bytes -/
def dcidFor (spec : Spec) (s : Nat → Nat) : List Nat :=
  if spec.dcidLen > 0 then takeStream s spec.scidLen spec.dcidLen
  else takeStream s (spec.scidLen + 1) (minCIDLenInitial + s spec.scidLen % (maxCIDLen - minCIDLenInitial + 1))

/-- `InitialPacketSpec.tokenLength` -/
def tokenLength (pre : List Nat) (len : Nat) : Nat := max len pre.length

/-- the Initial token: `getTokenStore` / `dummyTokenStore.Pop`; `tokOff` is the position in the random
    stream at which `Pop` reads -/
def tokenFor (spec : Spec) (s : Nat → Nat) (tokOff : Nat) : List Nat :=
  match spec.token with
  | .none => []
  | .explicit b => b
  | .synth pre len => pre ++ takeStream s tokOff (tokenLength pre len - pre.length)

/-! ### the caller's Config across dials (`UTransport.dial`) -/

/-- the part of a `quic.Config` the spec can override: the token source (`none` = `Config.TokenStore == nil`) -/
structure UserConf where
  tokenStore : TokenCfg := .none
deriving Repr, BEq, DecidableEq

/-- `UTransport.dial`: `populateConfig` makes the connection's private copy FIRST, then `QUICSpec.UpdateConfig`
    installs the spec's token source into that copy (a spec without token settings leaves it alone).
    Returns (the caller's Config after the dial, the connection's Config). -/
def dialConf (user : UserConf) (spec : Spec) : UserConf × UserConf :=
  (user, match spec.token with | .none => user | t => { tokenStore := t })

/-- the caller's Config after a sequence of dials through arbitrary specs -/
def afterDials (user : UserConf) (specs : List Spec) : UserConf :=
  specs.foldl (fun u sp => (dialConf u sp).1) user

/-! ### long header -/

/-- `ExtendedHeader.GetLength` for an Initial packet -/
def hdrLen (dcidLen scidLen tokenLen pnLen : Nat) : Nat :=
  1 + 4 + 1 + dcidLen + 1 + scidLen + pnLen + lenWGetLength + (varintLen tokenLen + tokenLen)

structure Hdr where
  version : Nat := 1
  dcid : List Nat
  scid : List Nat
  token : List Nat
  pn : Nat
  pnLen : Nat
deriving Repr, BEq, DecidableEq

def Hdr.len (h : Hdr) : Nat := hdrLen h.dcid.length h.scid.length h.token.length h.pnLen

/-- first byte of a version-1 Initial packet: `0xc0 | uint8(pnLen - 1)` -/
def firstByte (pnLen : Nat) : Nat := 192 + (pnLen - 1)

/-- `ExtendedHeader.Append` (version 1, Initial) with Length field `length` -/
def Hdr.bytes (h : Hdr) (length : Nat) : List Nat :=
  [firstByte h.pnLen] ++ beBytes 4 h.version ++ [h.dcid.length] ++ h.dcid ++ [h.scid.length] ++ h.scid ++
    varintBytes h.token.length ++ h.token ++ varintBytesW lenW length ++ beBytes h.pnLen h.pn

/-- the header `getLongHeader` builds for the `i`-th Initial of the flight of a dial with random stream `s` -/
def hdrOf (spec : Spec) (s : Nat → Nat) (tokOff : Nat) (i : Nat) : Hdr :=
  { dcid := dcidFor spec s, scid := scidFor spec s, token := tokenFor spec s tokOff, pn := pnFor spec i, pnLen := pnLenFor spec i }

/-! ### appendInitialPacketPayload -/

inductive Err
  | nofit         -- "does not fit the packet buffer"
  | badPnLen      -- "invalid packet number length"
deriving Repr, BEq, DecidableEq

structure Out where
  /-- unprotected header ++ plaintext payload (what the observer is given) -/
  plain : List Nat
  payloadLen : Nat
  lengthField : Nat
  packetLen : Nat
  datagramLen : Nat
deriving Repr, BEq, DecidableEq

/-- bytes of PADDING appended inside the AEAD to reach an exact `PacketSize` -/
def exactFill (plan : Plan) (hdrLen payloadLen : Nat) : Nat :=
  if plan.packetSize > 0 then plan.packetSize - (hdrLen + payloadLen + tagLen) else 0

/-- minimum-payload PADDING (/repo b853626, RFC 9001 §5.4.2): packet number + payload are at least 4 bytes -/
def samplePad (pnLen payloadLen : Nat) : Nat :=
  if pnLen + payloadLen < 4 then 4 - pnLen - payloadLen else 0

/-- the datagram size after the UDP minimum padding, which never goes beyond the packet buffer
    (/repo aedbf0e: `minUDPSize` is capped at `cap(buffer.Data)`) -/
def datagramLenOf (plan : Plan) (udpMin bufCap packetLen : Nat) : Nat :=
  if plan.packetSize = 0 then
    let m := if udpMin = 0 then defaultUDPMin else udpMin
    let m := if m > bufCap then bufCap else m
    if packetLen < m then m else packetLen
  else packetLen

/-- all PADDING `appendInitialPacketPayload` adds inside the AEAD: exact-size fill, then the sample minimum -/
def innerPad (plan : Plan) (hdrLen pnLen payloadLen : Nat) : Nat :=
  exactFill plan hdrLen payloadLen + samplePad pnLen (payloadLen + exactFill plan hdrLen payloadLen)

/-- `appendInitialPacketPayload`: header `h`, frame payload `uPayload` from the builder, the plan of this
    datagram, the spec's UDP minimum and the capacity of the packet buffer -/
def assemble (h : Hdr) (uPayload : List Nat) (plan : Plan) (udpMin bufCap : Nat) : Except Err Out :=
  let payload := uPayload ++ List.replicate (innerPad plan h.len h.pnLen uPayload.length) 0
  let lengthField := h.pnLen + tagLen + payload.length
  let packetLen := h.len + payload.length + tagLen
  if packetLen > bufCap then .error .nofit
  else if h.pnLen < 1 ∨ h.pnLen > 4 then .error .badPnLen
  else .ok { plain := h.bytes lengthField ++ payload, payloadLen := payload.length, lengthField := lengthField,
             packetLen := packetLen, datagramLen := datagramLenOf plan udpMin bufCap packetLen }

/-! ### how much CRYPTO data the packer pops for a datagram (non-flight builders) -/

/-- `populateConfig` + `Conn.maxPacketSize` before the handshake: `Config.InitialPacketSize` clamped -/
def maxSizeFor (ips : Nat) : Nat :=
  if ips = 0 then defaultInitialPacketSize
  else if ips < minInitialPacketSize then minInitialPacketSize
  else if ips > maxPacketBufferSize then maxPacketBufferSize else ips

/-- `CryptoFrame.MaxDataLen` for a frame at stream offset `off` -/
def maxDataLen (off maxSize : Nat) : Nat :=
  let headerLen := 1 + varintLen off + 1
  if headerLen > maxSize then 0
  else
    let m := maxSize - headerLen
    if varintLen m ≠ 1 then m - 1 else m

/-- the budget `initialMaxSize` that `PackCoalescedPacket` hands to `maybeGetCryptoPacket` -/
def cryptoBudget (spec : Spec) (plan : Plan) (hdrLen off maxSize : Nat) : Nat :=
  let initialMaxSize := maxSize - tagLen
  if plan.cryptoLength > 0 then
    let cf := 1 + varintLen off + varintLen plan.cryptoLength + plan.cryptoLength
    let budget := hdrLen + cf
    if budget < initialMaxSize then budget else initialMaxSize
  else
    match spec.builder with
    | .random rf =>
      if rf.length > 0 ∧ rf.minPad ≥ 1 then
        let budget := hdrLen + rf.length - paddingReserve
        if 0 < budget ∧ budget < initialMaxSize then budget else initialMaxSize
      else initialMaxSize
    | _ => initialMaxSize

/-- CRYPTO data bytes popped for one datagram (`baseCryptoStream.PopCryptoFrame`) -/
def popLen (spec : Spec) (plan : Plan) (hdrLen off remaining maxSize : Nat) : Nat :=
  min (maxDataLen off (cryptoBudget spec plan hdrLen off maxSize - hdrLen)) remaining

/-- bytes of one CRYPTO frame -/
def cryptoFrameLen (off len : Nat) : Nat := 1 + varintLen off + varintLen len + len

/-- `initialFrameBudget` -/
def initialFrameBudget (packetSize hdrLen : Nat) : Nat := packetSize - hdrLen - tagLen

end Uquic.Model.Initial
