/-
Model of the per-dial copy of the ClientHelloSpec (u_connection.go `cloneClientHelloSpecForDial`) and of what a
dial writes into the extension values it is handed (uTLS `ApplyPreset`: server name, key shares; `Len()`: the
cached marshalling of the transport parameters). Which fields the copy carries over is a regenerated fact
(`Uquic.Gen.UQuic.cloneCases`), not an assumption. Core-only.
-/
import Uquic.Model.UQuic.QTP

namespace Uquic.Model.CloneSpec
open Uquic.Model.QTP Uquic.Gen.UQuic

structure KeyShare where
  group : Nat
  data : List Nat            -- the public key: per-connection state (empty in a spec)
deriving DecidableEq, Repr

/-- an extension value of a ClientHelloSpec, as far as a dial reads or writes it -/
inductive Ext where
  | keyShare (shares : List KeyShare)
  | sni (name : List Nat)                                  -- [] = "take the tls.Config's ServerName"
  | qtp (ps : List Param) (cache : Option (List Nat))      -- `marshalResult`: set by the first `Len()`
  | other (typ : Nat) (body : List Nat)                    -- content fixed by the spec
deriving DecidableEq, Repr

/-- the fresh value made for extension type `t` copies the spec's field `f` -/
def copies (t f : String) : Bool := cloneCases.any fun c => c.1 == t && c.2.contains f

/-- `cloneClientHelloSpecForDial`, one extension: a fresh value carrying the copied fields and no
per-connection state; every other extension value is the spec's own (shared) -/
def cloneExt : Ext → Ext
  | .keyShare s => .keyShare (if copies "KeyShareExtension" "KeyShares" then s else [])
  | .sni n => .sni (if copies "SNIExtension" "ServerName" then n else [])
  | .qtp ps _ => .qtp (if copies "QUICTransportParametersExtension" "TransportParameters" then ps else []) none
  | .other t b => .other t b

def cloneSpec (es : List Ext) : List Ext := es.map cloneExt

/-- what the spec itself says (per-connection state dropped) -/
def specView : Ext → Ext
  | .qtp ps _ => .qtp ps none
  | e => e

/-- what a dial writes into the value it works on: `cfgName` is the tls.Config's ServerName, `keyFor` the
fresh public key per group -/
def dialExt (cfgName : List Nat) (keyFor : Nat → List Nat) : Ext → Ext
  | .sni n => .sni (if n.isEmpty then cfgName else n)
  | .keyShare s => .keyShare (s.map fun k => if k.data.length > 1 then k else { k with data := keyFor k.group })
  | .qtp ps cache => .qtp ps (some (cache.getD (marshal ps)))
  | .other t b => .other t b

/-- the content of the extension in the ClientHello -/
inductive Content where
  | groups (gs : List Nat)       -- key_share: the groups in order (the keys are fresh)
  | name (n : List Nat)
  | bytes (b : List Nat)
deriving DecidableEq, Repr

def wireContent : Ext → Content
  | .keyShare s => .groups (s.map (·.group))
  | .sni n => .name n
  | .qtp ps cache => .bytes (cache.getD (marshal ps))
  | .other _ b => .bytes b

/-- what uTLS produces for the spec's value of the extension -/
def specContent (cfgName : List Nat) : Ext → Content
  | .keyShare s => .groups (s.map (·.group))
  | .sni n => .name (if n.isEmpty then cfgName else n)
  | .qtp ps _ => .bytes (marshal ps)
  | .other _ b => .bytes b

/-- server_name extension body for a host name (RFC 6066 §3) -/
def sniBody (n : List Nat) : List Nat :=
  [(n.length + 3) / 256 % 256, (n.length + 3) % 256, 0, n.length / 256 % 256, n.length % 256] ++ n

end Uquic.Model.CloneSpec
