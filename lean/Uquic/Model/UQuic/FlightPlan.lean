/-
Model of the flight planners of `u_flight_frames.go` (property C02, "the same holds for every successive dial made with
the same spec value"): a `QUICFlightFrames` / `QUICRandomFlightFrames` VALUE sits inside the caller's `QUICSpec` and is
asked for a flight once per connection, each time with that connection's ClientHello (whose length is not a constant: it
follows the server name, ALPN, session tickets, …).

* `resolve`       — `QUICCryptoRange.resolve`: a range written relative to the start and/or the END of the stream turned
                    into concrete bounds for a stream of `n` bytes;
* `resolveAll`    — the loop over the ranges of one datagram (`QUICRandomFlightDatagram.build` / `QUICFrames.buildAbsolute`),
                    INCLUDING what it leaves behind in the plan: with `wb` a successfully resolved, non-empty range is
                    stored back in its absolute form (what an in-place `resolve` does), stopping at the first error;
* `buildDG`, `buildFlight`, `buildFirst` — `BuildFlight` / `Build` of both planners: value afterwards × result;
* `runBuilds`     — successive builds on ONE plan value.

Whether building writes into the plan is a parameter (`wb`); `buildTree` instantiates it with the write-effect facts
regenerated from the source tree (`Uquic.Gen.FlightPlan`). What is NOT modelled: how a random planner cuts a range into
CRYPTO frames, PING / PADDING placement and the shuffle — the model predicts which stream bytes every datagram carries.
-/
import Uquic.Generated.FlightPlan

namespace Uquic.Model.UQuic.FlightPlan

/-- `QUICCryptoRange` (also the `Offset`/`Length` of a `QUICFrameCrypto` inside a `QUICFlightFrames` plan) -/
structure Range where
  off : Int
  len : Int
deriving DecidableEq, Repr

inductive Err | offsetOOB | rangeOOB | emptyRanges | noBytes | emptyPlan | badCfg
deriving DecidableEq, Repr

inductive Res (α : Type) where
  | ok (a : α)
  | err (e : Err)
deriving DecidableEq, Repr

/-- the start of `r` in a stream of `n` bytes, before the bounds check -/
def startOf (r : Range) (n : Nat) : Int := if r.off < 0 then (n : Int) + r.off else r.off

/-- the end of `r`, before the bounds check: `Length > 0` counts from the start, `0` is "to the end of the stream", a
    negative one stops that far short of the end -/
def endOf (r : Range) (n : Nat) : Int := if 0 < r.len then startOf r n + r.len else (n : Int) + r.len

/-- `QUICCryptoRange.resolve` -/
def resolve (r : Range) (n : Nat) : Res (Nat × Nat) :=
  if startOf r n < 0 ∨ (n : Int) < startOf r n then .err .offsetOOB
  else if (n : Int) < endOf r n ∨ endOf r n < startOf r n then .err .rangeOOB
  else .ok ((startOf r n).toNat, (endOf r n).toNat)

/-- what a resolve that rewrites its receiver stores: the absolute form, except for an empty range (Length 0 would read
    as "to the end") -/
def freeze (r : Range) (s e : Nat) : Range := if s < e then ⟨(s : Int), ((e - s : Nat) : Int)⟩ else r

/-- the ranges of one datagram, in order: (the ranges afterwards, the non-empty intervals or the first error) -/
def resolveAll (wb : Bool) (n : Nat) : List Range → List Range × Res (List (Nat × Nat))
  | [] => ([], .ok [])
  | r :: rs =>
    match resolve r n with
    | .err e => (r :: rs, .err e)
    | .ok se =>
      let rest := resolveAll wb n rs
      ((if wb then freeze r se.1 se.2 else r) :: rest.1,
       match rest.2 with
       | .err x => .err x
       | .ok l => .ok (if se.1 < se.2 then se :: l else l))

/-- one Initial datagram of a plan: its CRYPTO ranges in the order written; `cfgOK`: the random planner's frame-count
    settings are consistent (Min ≤ Max, PADDING settings present when a Length is asked for) -/
structure DG where
  ranges : List Range
  cfgOK : Bool := true
deriving DecidableEq, Repr

/-- a flight plan value: `random` = `QUICRandomFlightFrames`, otherwise `QUICFlightFrames` -/
structure Plan where
  random : Bool
  dgs : List DG
deriving DecidableEq, Repr

/-- `QUICRandomFlightDatagram.build` / `QUICFrames.buildAbsolute` as far as the stream bytes go -/
def buildDG (wb random : Bool) (n : Nat) (d : DG) : DG × Res (List (Nat × Nat)) :=
  if random && d.ranges.isEmpty then (d, .err .emptyRanges)
  else if random && !d.cfgOK then (d, .err .badCfg)
  else
    let x := resolveAll wb n d.ranges
    ({ d with ranges := x.1 },
     match x.2 with
     | .ok [] => if random then .err .noBytes else .ok []
     | y => y)

/-- the datagrams of a flight in order, stopping at the first one that fails -/
def buildDGs (wb random : Bool) (n : Nat) : List DG → List DG × Res (List (List (Nat × Nat)))
  | [] => ([], .ok [])
  | d :: ds =>
    let x := buildDG wb random n d
    match x.2 with
    | .err e => (x.1 :: ds, .err e)
    | .ok iv =>
      let rest := buildDGs wb random n ds
      (x.1 :: rest.1, match rest.2 with | .err e => .err e | .ok l => .ok (iv :: l))

/-- `BuildFlight` on a plan value for a ClientHello of `n` bytes: (the plan value afterwards, per datagram the stream
    intervals it carries) -/
def buildFlight (wb : Bool) (p : Plan) (n : Nat) : Plan × Res (List (List (Nat × Nat))) :=
  if p.dgs.isEmpty then (p, .err .emptyPlan)
  else
    let x := buildDGs wb p.random n p.dgs
    ({ p with dgs := x.1 }, x.2)

/-- `Build` (the fallback for Initial packets outside the planned flight): the first datagram's layout -/
def buildFirst (wb : Bool) (p : Plan) (n : Nat) : Plan × Res (List (List (Nat × Nat))) :=
  match p.dgs with
  | [] => (p, .err .emptyPlan)
  | d :: ds =>
    let x := buildDG wb p.random n d
    ({ p with dgs := x.1 :: ds }, match x.2 with | .err e => .err e | .ok iv => .ok [iv])

/-- does building write into the plan, in the current source tree? -/
def treeWB (p : Plan) : Bool :=
  if p.random then Uquic.Gen.FlightPlan.randomFlightBuildWritesPlan else Uquic.Gen.FlightPlan.fixedFlightBuildWritesPlan

def buildTree (p : Plan) (n : Nat) : Plan × Res (List (List (Nat × Nat))) := buildFlight (treeWB p) p n

/-- successive connections on ONE plan value: the k-th flight is built from the value the (k-1)-th left behind -/
def runBuilds (wb : Bool) : Plan → List Nat → List (Res (List (List (Nat × Nat))))
  | _, [] => []
  | p, n :: ns => let x := buildFlight wb p n; x.2 :: runBuilds wb x.1 ns

/-- stream byte `i` is carried by some datagram -/
def Carried (ivs : List (List (Nat × Nat))) (i : Nat) : Prop := ∃ d ∈ ivs, ∃ iv ∈ d, iv.1 ≤ i ∧ i < iv.2

/-- the flight can be sent: every byte of the `n` byte ClientHello is carried, nothing reaches past its end (this is what
    `validateInitialFlight` insists on before anything goes on the wire) -/
def Sendable (ivs : List (List (Nat × Nat))) (n : Nat) : Prop :=
  (∀ i, i < n → Carried ivs i) ∧ ∀ d ∈ ivs, ∀ iv ∈ d, iv.1 < iv.2 ∧ iv.2 ≤ n

/-! ### executable coverage (for the oracle) -/

def insertIv (x : Nat × Nat) : List (Nat × Nat) → List (Nat × Nat)
  | [] => [x]
  | y :: ys => if x.1 ≤ y.1 then x :: y :: ys else y :: insertIv x ys

def sortIvs (l : List (Nat × Nat)) : List (Nat × Nat) := l.foldr insertIv []

/-- merge step: `acc` holds the merged intervals so far, the last one first -/
def mergeInto (acc : List (Nat × Nat)) (x : Nat × Nat) : List (Nat × Nat) :=
  match acc with
  | [] => [x]
  | y :: ys => if x.1 ≤ y.2 then (y.1, max y.2 x.2) :: ys else x :: y :: ys

/-- merge a list sorted by start: overlapping or adjacent intervals become one -/
def mergeSorted (l : List (Nat × Nat)) : List (Nat × Nat) := (l.foldl mergeInto []).reverse

/-- canonical form of the bytes one datagram (or the whole flight) carries -/
def normIvs (l : List (Nat × Nat)) : List (Nat × Nat) := mergeSorted (sortIvs (l.filter fun iv => iv.1 < iv.2))

/-- the flight carries exactly the bytes `[0, n)` -/
def coversAll (ivs : List (List (Nat × Nat))) (n : Nat) : Bool :=
  let u := normIvs ivs.flatten
  if n = 0 then u.isEmpty else u == [(0, n)]

end Uquic.Model.UQuic.FlightPlan
