/-
C11, round 5 — the ClientHello ON THE WIRE, over the whole life of the Initial packet number space.

What leaves the client is a set of CRYPTO frames `(offset, data)` spread over Initial packets: the first
flight, PTO probes, retransmissions after loss, the flight sent again after a Retry, the second
ClientHello after a HelloRetryRequest. A peer (or a fingerprinter) sees ANY subset of them, in ANY
order, possibly twice, and rebuilds the stream with its own overlap policy (first copy wins / last copy
wins). This file models that receiver and the one predicate under which every such receiver rebuilds
the bytes the TLS stack produced: every frame is FAITHFUL — its data is the slice of the stream at its
offset.

Polymorphic in the byte type: the oracle runs it on `Nat` (hex text of the line protocol), the
composition with the packer model of C09 instantiates it with `UInt8`.
-/
namespace Uquic.Model.ChWire

/-- a CRYPTO frame: (stream offset, data) -/
abbrev Frame (α : Type) := Nat × List α

section
variable {α : Type} [DecidableEq α]

/-- `f.data = S[f.off, f.off + |f.data|)` -/
def faithful (S : List α) (f : Frame α) : Bool :=
  decide (f.1 + f.2.length ≤ S.length) && decide ((S.drop f.1).take f.2.length = f.2)

/-- the byte the frame carries for stream offset `i` -/
def byteOf (f : Frame α) (i : Nat) : Option α :=
  if f.1 ≤ i then f.2[i - f.1]? else none

def covers (f : Frame α) (i : Nat) : Bool := decide (f.1 ≤ i) && decide (i < f.1 + f.2.length)

/-- a receiver's view of stream offset `i` after the frames `fs` ARRIVED IN THIS ORDER.
    `keep = true`: the first copy of a byte wins (quic-go's frame sorter); `false`: the last copy wins. -/
def recvAt (keep : Bool) : List (Frame α) → Nat → Option α
  | [], _ => none
  | f :: fs, i =>
    if keep then
      match byteOf f i with
      | some b => some b
      | none => recvAt keep fs i
    else
      match recvAt keep fs i with
      | some b => some b
      | none => byteOf f i

/-- the first `n` cells of the receiver's reassembly buffer -/
def reassembled (keep : Bool) (fs : List (Frame α)) (n : Nat) : List (Option α) :=
  (List.range n).map (recvAt keep fs)

/-! executable monitors (run by the oracle on every dial) -/

/-- the first frame that is not a slice of the stream at its offset -/
def firstUnfaithful (S : List α) (fs : List (Frame α)) : Option (Frame α) :=
  fs.find? (fun f => !faithful S f)

/-- the first offset below `n` that no frame carries -/
def firstGap (fs : List (Frame α)) (n : Nat) : Option Nat :=
  (List.range n).find? (fun i => !fs.any (covers · i))

/-- where a frame first departs from the stream (for the monitor's detail text) -/
def firstMismatch (S : List α) (f : Frame α) : Nat :=
  match (List.range f.2.length).find? (fun j => decide (S[f.1 + j]? ≠ f.2[j]?)) with
  | some j => f.1 + j
  | none => f.1

end

/-- a TLS handshake message header: type ClientHello (1), 24-bit length = the rest -/
def isClientHello (w : List Nat) : Bool :=
  match w with
  | 1 :: a :: b :: c :: rest => decide (a * 65536 + b * 256 + c = rest.length)
  | _ => false

end Uquic.Model.ChWire
