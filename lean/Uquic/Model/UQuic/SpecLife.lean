/-
Model of the LIFE of one QUICSpec value, as far as its transport parameters go (property C11, round 4):
what callers do to the value between dials — `TransportParameterIDs()` (which filters the spec's own list in
place), assigning / extending `SuppressTransportParameters`, appending a parameter, toggling
`RandomizeTransportParameters` — and what one `UTransport.Dial` does with it: one or more connection ATTEMPTS
(`UTransport.doDial` creates a second connection from the same spec after a Version Negotiation packet), each of
which runs `newUClientConnection`: suppress, shuffle, `PopulateFromUQUIC` on an extension VALUE, whose
marshalling uTLS caches on first use.

Which extension value an attempt works on is a regenerated fact (`Uquic.Gen.UQuic.attemptOnSpecValue`): the value
it was handed (then a second attempt finds the first attempt's rewritten list and cached bytes), or a copy made
per attempt (`cloneClientHelloSpecForDial`, shape regenerated as `cloneCases`). Core-only.
-/
import Uquic.Model.UQuic.QTP
import Uquic.Model.UQuic.CloneSpec

namespace Uquic.Model.SpecLife
open Uquic.Model.QTP Uquic.Model.CloneSpec Uquic.Gen.UQuic

/-- a `*tls.QUICTransportParametersExtension`: the parameter slice and uTLS's cached marshalling (`marshalResult`) -/
structure ExtVal where
  ps : List Param
  cache : Option (List Nat) := none
deriving DecidableEq, Repr

/-- the QUICSpec value -/
structure Spec where
  ext : ExtVal
  sup : List Nat := []      -- SuppressTransportParameters
  rand : Bool := false      -- RandomizeTransportParameters
deriving DecidableEq, Repr

/-- one connection attempt of a dial: the source connection id drawn for it and the shuffle's draws -/
structure Attempt where
  scid : List Nat
  draws : List Nat := []
deriving DecidableEq, Repr

/-- `newUClientConnection` on the extension value `e` (suppress, optional shuffle, `PopulateFromUQUIC`, all in
place) followed by uTLS writing the extension: the bytes are the cached ones when the value was used before.
`none` = panic. Returns the connection's record, the bytes in the ClientHello, and the value afterwards. -/
def setupOn (e : ExtVal) (S : List Nat) (draws : Option (List Nat)) (scid : List Nat) :
    Option ((Own × List Nat) × ExtVal) :=
  let l := suppress e.ps S
  let l := match draws with | none => l | some js => shuffleWith js l
  match populate scid l with
  | none => none
  | some (own, l') =>
    let bytes := e.cache.getD (marshal l')
    some ((own, bytes), { ps := l', cache := some bytes })

/-- `cloneClientHelloSpecForDial` on this extension (which fields the fresh value copies: `cloneCases`) -/
def cloneVal (e : ExtVal) : ExtVal :=
  match cloneExt (.qtp e.ps e.cache) with
  | .qtp ps c => { ps := ps, cache := c }
  | _ => e

/-- the value a connection attempt works on -/
def valueFor (shared : Bool) (cur : ExtVal) : ExtVal := if shared then cur else cloneVal cur

def drawsOf (rand : Bool) (a : Attempt) : Option (List Nat) := if rand then some a.draws else none

/-- the attempts of one dial in order; with `shared` each attempt leaves its writes in the value the next one gets -/
def runAttempts (shared : Bool) (S : List Nat) (rand : Bool) :
    ExtVal → List Attempt → List (Option (Own × List Nat)) × ExtVal
  | e, [] => ([], e)
  | e, a :: as =>
    match setupOn (valueFor shared e) S (drawsOf rand a) a.scid with
    | none => let r := runAttempts shared S rand e as; (none :: r.1, r.2)
    | some (w, e') =>
      let r := runAttempts shared S rand (if shared then e' else e) as
      (some w :: r.1, r.2)

inductive Op where
  | inspect                          -- `spec.TransportParameterIDs()`
  | setSup (S : List Nat)            -- `spec.SuppressTransportParameters = S`
  | addSup (S : List Nat)            -- `… = append(…, S...)`
  | addParam (p : Param)             -- append to the extension's list
  | setRand (b : Bool)
  | dial (as : List Attempt)         -- one `UTransport.Dial`
deriving Repr

inductive Out where
  | ids (l : List Nat)
  | wires (ws : List (Option (Own × List Nat)))
  | done
deriving DecidableEq, Repr

def step (shared : Bool) (s : Spec) : Op → Spec × Out
  | .inspect =>
    let l := suppress s.ext.ps s.sup
    ({ s with ext := { s.ext with ps := l } }, .ids (sortIDs (canonIDs l)))
  | .setSup S => ({ s with sup := S }, .done)
  | .addSup S => ({ s with sup := s.sup ++ S }, .done)
  | .addParam p => ({ s with ext := { s.ext with ps := s.ext.ps ++ [p] } }, .done)
  | .setRand b => ({ s with rand := b }, .done)
  | .dial as =>
    let r := runAttempts shared s.sup s.rand s.ext as
    ({ s with ext := r.2 }, .wires r.1)

def run (shared : Bool) : Spec → List Op → Spec × List Out
  | s, [] => (s, [])
  | s, o :: os =>
    let r := step shared s o
    let t := run shared r.1 os
    (t.1, r.2 :: t.2)

/-- the code as it is: which value an attempt works on is read off `newUClientConnection` -/
def life : Spec → Op → Spec × Out := step attemptOnSpecValue

def lifeRun : Spec → List Op → Spec × List Out := run attemptOnSpecValue

end Uquic.Model.SpecLife
