/-
C12 — what a client ADVERTISES in its transport parameters versus what its components ENFORCE.

Core-only (links into `oracle_limits`). Mirrors, by hand:
  * `wire.TransportParameters.PopulateFromUQUIC` (internal/wire/u_transport_parameters.go): the connection's
    own record of the parameters a QUICSpec lists (`populate`); which ids it recognises is a generated fact;
  * `newClientConnection` (connection.go): the record of the plain client (`plainParams`);
  * `populateConfig` (config.go);
  * what `preSetup` / `newFlowController` / `newStreamsMap` / `connIDManager.Add` / `wire.NewFrameParser` +
    `handleDatagramFrame` / `applyTransportParameters` enforce (`enforced`), all derived from quic.Config and
    constants — except the connection-ID bound which (after /repo 06daca1) is max(MaxActiveConnectionIDs, advertised)
    and, for a spec-driven client (after /repo c32d004), the receive window a new stream starts with, which
    `Conn.newFlowController` takes from the transport parameter advertised for that KIND of stream.
Units: bytes, counts, milliseconds.
-/
import Uquic.Generated.Protocol
import Uquic.Generated.Limits

namespace Uquic.Model.UQuic.Limits
open Uquic.Gen

/-! ## the record -/

/-- the fields of `wire.TransportParameters` this property is about (the connection's own record) -/
structure OwnParams where
  maxIdleTimeout : Int := 0                  -- ms
  maxUDPPayloadSize : Int := 0
  initialMaxData : Int := 0
  initialMaxStreamDataBidiLocal : Int := 0   -- streams opened by this endpoint
  initialMaxStreamDataBidiRemote : Int := 0  -- bidirectional streams opened by the peer
  initialMaxStreamDataUni : Int := 0
  maxBidiStreamNum : Int := 0
  maxUniStreamNum : Int := 0
  ackDelayExponent : Int := 0
  maxAckDelay : Int := 0                     -- ms
  disableActiveMigration : Bool := false
  activeConnectionIDLimit : Int := 0
  maxDatagramFrameSize : Int := 0            -- plain client: InvalidByteCount (-1) when datagrams are off
  deriving DecidableEq, Repr, Inhabited

/-- set the field that parameter `id` maps to (integer-valued parameters; a flag has value 1) -/
def OwnParams.set (p : OwnParams) (id v : Int) : OwnParams :=
  if id = Limits.maxIdleTimeoutParameterID then { p with maxIdleTimeout := v }
  else if id = Limits.maxUDPPayloadSizeParameterID then { p with maxUDPPayloadSize := v }
  else if id = Limits.initialMaxDataParameterID then { p with initialMaxData := v }
  else if id = Limits.initialMaxStreamDataBidiLocalParameterID then { p with initialMaxStreamDataBidiLocal := v }
  else if id = Limits.initialMaxStreamDataBidiRemoteParameterID then { p with initialMaxStreamDataBidiRemote := v }
  else if id = Limits.initialMaxStreamDataUniParameterID then { p with initialMaxStreamDataUni := v }
  else if id = Limits.initialMaxStreamsBidiParameterID then { p with maxBidiStreamNum := v }
  else if id = Limits.initialMaxStreamsUniParameterID then { p with maxUniStreamNum := v }
  else if id = Limits.ackDelayExponentParameterID then { p with ackDelayExponent := v }
  else if id = Limits.maxAckDelayParameterID then { p with maxAckDelay := v }
  else if id = Limits.disableActiveMigrationParameterID then { p with disableActiveMigration := true }
  else if id = Limits.activeConnectionIDLimitParameterID then { p with activeConnectionIDLimit := v }
  else if id = Limits.maxDatagramFrameSizeParameterID then { p with maxDatagramFrameSize := v }
  else p

/-- the integer-valued transport parameters a spec lists: (id, value), list order -/
abbrev ParamList := List (Int × Int)

/-- reading ALL standard integer parameters of a list (what a peer decoding the bytes sees, before defaults) -/
def recordAll (ps : ParamList) : OwnParams :=
  ps.foldl (fun r (iv : Int × Int) => r.set iv.1 iv.2) {}

/-- `PopulateFromUQUIC`: only the ids its switch has a case for are recorded (generated fact) -/
def populateWith (recognised : List Int) (ps : ParamList) : OwnParams :=
  ps.foldl (fun r (iv : Int × Int) => if recognised.contains iv.1 then r.set iv.1 iv.2 else r) {}

def populate (ps : ParamList) : OwnParams := populateWith Limits.populateRecognises ps

/-! ## limits -/

inductive StreamKind | bidiLocal | bidiRemote | uni
  deriving DecidableEq, Repr

/-- what a peer may do, respectively what the endpoint tolerates -/
structure Limits where
  connData : Int          -- bytes on the whole connection
  streamBidiLocal : Int   -- bytes on one stream, per kind
  streamBidiRemote : Int
  streamUni : Int
  streamsBidi : Int       -- concurrently open peer-initiated streams
  streamsUni : Int
  cids : Int              -- connection IDs the peer may have active at the same time
  datagram : Int          -- largest DATAGRAM frame (0: none)
  idle : Int              -- ms of silence (advertised: 0 = no timeout advertised)
  deriving DecidableEq, Repr

def Limits.stream (l : Limits) : StreamKind → Int
  | .bidiLocal => l.streamBidiLocal | .bidiRemote => l.streamBidiRemote | .uni => l.streamUni

def Limits.streams (l : Limits) (bidi : Bool) : Int := if bidi then l.streamsBidi else l.streamsUni

/-- largest DATAGRAM frame that can physically reach the frame handler: packets are read into buffers of
    `protocol.MaxPacketBufferSize` bytes, larger UDP datagrams are truncated and fail decryption -/
def receivable : Int := Protocol.MaxPacketBufferSize

/-- what the peer may rely on, read off the record (RFC 9000 §18.2 defaults where the record holds "unset") -/
def advertised (p : OwnParams) : Limits :=
  { connData := p.initialMaxData
    streamBidiLocal := p.initialMaxStreamDataBidiLocal
    streamBidiRemote := p.initialMaxStreamDataBidiRemote
    streamUni := p.initialMaxStreamDataUni
    streamsBidi := p.maxBidiStreamNum
    streamsUni := p.maxUniStreamNum
    cids := if p.activeConnectionIDLimit ≤ 0 then Protocol.DefaultActiveConnectionIDLimit else p.activeConnectionIDLimit
    datagram := if p.maxDatagramFrameSize ≤ 0 then 0 else min p.maxDatagramFrameSize receivable
    idle := if p.maxIdleTimeout ≤ 0 then 0 else p.maxIdleTimeout }

/-! ## quic.Config -/

structure Config where
  initialStreamReceiveWindow : Int := 0
  maxStreamReceiveWindow : Int := 0
  initialConnectionReceiveWindow : Int := 0
  maxConnectionReceiveWindow : Int := 0
  maxIncomingStreams : Int := 0
  maxIncomingUniStreams : Int := 0
  enableDatagrams : Bool := false
  maxIdleTimeout : Int := 0   -- ms
  deriving DecidableEq, Repr, Inhabited

/-- what the Go types guarantee about a user Config (uint64 windows; a duration that is not negative) -/
def Config.Valid (c : Config) : Prop :=
  0 ≤ c.initialStreamReceiveWindow ∧ 0 ≤ c.maxStreamReceiveWindow ∧ 0 ≤ c.initialConnectionReceiveWindow ∧
  0 ≤ c.maxConnectionReceiveWindow ∧ 0 ≤ c.maxIdleTimeout

instance (c : Config) : Decidable c.Valid := by unfold Config.Valid; exact inferInstance

def defaultIdleMs : Int := Protocol.DefaultIdleTimeout / 1000000

/-- config.go `populateConfig` -/
def populateConfig (c : Config) : Config :=
  { initialStreamReceiveWindow :=
      if c.initialStreamReceiveWindow = 0 then Protocol.DefaultInitialMaxStreamData else c.initialStreamReceiveWindow
    maxStreamReceiveWindow :=
      if c.maxStreamReceiveWindow = 0 then Protocol.DefaultMaxReceiveStreamFlowControlWindow else c.maxStreamReceiveWindow
    initialConnectionReceiveWindow :=
      if c.initialConnectionReceiveWindow = 0 then Protocol.DefaultInitialMaxData else c.initialConnectionReceiveWindow
    maxConnectionReceiveWindow :=
      if c.maxConnectionReceiveWindow = 0 then Protocol.DefaultMaxReceiveConnectionFlowControlWindow
      else c.maxConnectionReceiveWindow
    maxIncomingStreams :=
      if c.maxIncomingStreams = 0 then Protocol.DefaultMaxIncomingStreams
      else if c.maxIncomingStreams < 0 then 0 else c.maxIncomingStreams
    maxIncomingUniStreams :=
      if c.maxIncomingUniStreams = 0 then Protocol.DefaultMaxIncomingUniStreams
      else if c.maxIncomingUniStreams < 0 then 0 else c.maxIncomingUniStreams
    enableDatagrams := c.enableDatagrams
    maxIdleTimeout := if c.maxIdleTimeout = 0 then defaultIdleMs else c.maxIdleTimeout }

/-- connection.go `newClientConnection`: the plain client's record comes from the (populated) Config -/
def plainParams (c : Config) : OwnParams :=
  { maxIdleTimeout := c.maxIdleTimeout
    maxUDPPayloadSize := Protocol.MaxPacketBufferSize
    initialMaxData := c.initialConnectionReceiveWindow
    initialMaxStreamDataBidiLocal := c.initialStreamReceiveWindow
    initialMaxStreamDataBidiRemote := c.initialStreamReceiveWindow
    initialMaxStreamDataUni := c.initialStreamReceiveWindow
    maxBidiStreamNum := c.maxIncomingStreams
    maxUniStreamNum := c.maxIncomingUniStreams
    ackDelayExponent := Protocol.AckDelayExponent
    maxAckDelay := Protocol.MaxAckDelayInclGranularity / 1000000
    disableActiveMigration := false
    activeConnectionIDLimit := Protocol.MaxActiveConnectionIDs
    maxDatagramFrameSize := if c.enableDatagrams then Limits.MaxDatagramSize else -1 }

/-! ## what is enforced -/

/-- the raw per-kind value of the record (what a spec-driven client's `uAdvertisedStreamData.forStream` returns) -/
def OwnParams.streamData (p : OwnParams) : StreamKind → Int
  | .bidiLocal => p.initialMaxStreamDataBidiLocal
  | .bidiRemote => p.initialMaxStreamDataBidiRemote
  | .uni => p.initialMaxStreamDataUni

/-- `Conn.newFlowController`: the receive window a new stream of kind `k` starts with. `adv` = the record a
    spec-driven client keeps for this purpose (`none`: the plain client — one Config window for all kinds). -/
def streamWindow (c : Config) (adv : Option OwnParams) (k : StreamKind) : Int :=
  match adv with
  | some p => p.streamData k
  | none => c.initialStreamReceiveWindow

/-- … and the cap of its auto-tuning: never below the window itself for a spec-driven client -/
def streamWindowCap (c : Config) (adv : Option OwnParams) (k : StreamKind) : Int :=
  match adv with
  | some p => max c.maxStreamReceiveWindow (p.streamData k)
  | none => c.maxStreamReceiveWindow

/-- `enforced c adv cidLimitSet`, `c` the Config the components are built from, `adv` as in `streamWindow`,
    `cidLimitSet` the value given to `connIDManager.SetConnectionIDLimit` (the record's active_connection_id_limit
    for a spec-driven client, 0 for the plain client, which never calls it):
    * the connection flow controller starts with `InitialConnectionReceiveWindow` (preSetup), a stream flow
      controller with `streamWindow` (newFlowController);
    * `newStreamsMap` gets `MaxIncomingStreams` / `MaxIncomingUniStreams`;
    * `connIDManager.Add` fails when `len(queue) ≥ max(MaxActiveConnectionIDs, connIDLimit)`: the peer may
      have that many IDs active (the queue excludes the one in use);
    * DATAGRAM: the frame parser knows the type only if `EnableDatagrams`; `handleDatagramFrame` rejects
      frames longer than `wire.MaxDatagramSize`;
    * idle: `applyTransportParameters` starts from `Config.MaxIdleTimeout`. -/
def enforced (c : Config) (adv : Option OwnParams) (cidLimitSet : Int) : Limits :=
  { connData := c.initialConnectionReceiveWindow
    streamBidiLocal := streamWindow c adv .bidiLocal
    streamBidiRemote := streamWindow c adv .bidiRemote
    streamUni := streamWindow c adv .uni
    streamsBidi := c.maxIncomingStreams
    streamsUni := c.maxIncomingUniStreams
    cids := max Protocol.MaxActiveConnectionIDs cidLimitSet
    datagram := if c.enableDatagrams then Limits.MaxDatagramSize else 0
    idle := c.maxIdleTimeout }

/-- `applyTransportParameters` + `nextIdleTimeoutTime`: the silence after which the client gives up.
    `peerIdle` = the server's max_idle_timeout (0: none), `pto3` = 3·PTO. -/
def effectiveIdle (cfgIdle peerIdle pto3 : Int) : Int :=
  max (if peerIdle > 0 then min cfgIdle peerIdle else cfgIdle) pto3

/-- RFC 9000 §10.1: what a peer that advertised `peerIdle` and saw `advIdle` may count on (none: no timeout) -/
def promisedIdle (advIdle peerIdle : Int) : Option Int :=
  if advIdle > 0 then (if peerIdle > 0 then some (min advIdle peerIdle) else some advIdle)
  else if peerIdle > 0 then some peerIdle else none

/-- advertised ≤ enforced, componentwise (idle: an advertised timeout exists and is not above the local one) -/
def LimitsCovered (adv enf : Limits) : Prop :=
  adv.connData ≤ enf.connData ∧
  adv.streamBidiLocal ≤ enf.streamBidiLocal ∧ adv.streamBidiRemote ≤ enf.streamBidiRemote ∧
  adv.streamUni ≤ enf.streamUni ∧
  adv.streamsBidi ≤ enf.streamsBidi ∧ adv.streamsUni ≤ enf.streamsUni ∧
  adv.cids ≤ enf.cids ∧ adv.datagram ≤ enf.datagram ∧
  (0 < adv.idle ∧ adv.idle ≤ enf.idle)

instance (a e : Limits) : Decidable (LimitsCovered a e) := by unfold LimitsCovered; exact inferInstance

/-- u_connection.go `configCoveringAdvertised`: a copy of the populated Config in which every enforced limit
    is at least the advertised one. Which fields are taken from the advertised parameters ALONE (exact) is a
    regenerated shape fact: the two stream-count limits after /repo ad4f2a6, the connection window after /repo
    c32d004 — whatever the user Config says. -/
def coverConfig (c : Config) (p : OwnParams) : Config :=
  let icrw := if Limits.specConnWindowExact then p.initialMaxData
    else max c.initialConnectionReceiveWindow p.initialMaxData
  let isrw := max c.initialStreamReceiveWindow
    (max p.initialMaxStreamDataBidiLocal (max p.initialMaxStreamDataBidiRemote p.initialMaxStreamDataUni))
  { initialConnectionReceiveWindow := icrw
    maxConnectionReceiveWindow := max c.maxConnectionReceiveWindow icrw
    initialStreamReceiveWindow := isrw
    maxStreamReceiveWindow := max c.maxStreamReceiveWindow isrw
    maxIncomingStreams := if Limits.specStreamCountsExact then p.maxBidiStreamNum
      else max c.maxIncomingStreams p.maxBidiStreamNum
    maxIncomingUniStreams := if Limits.specStreamCountsExact then p.maxUniStreamNum
      else max c.maxIncomingUniStreams p.maxUniStreamNum
    enableDatagrams := c.enableDatagrams || decide (p.maxDatagramFrameSize > 0)
    maxIdleTimeout := max c.maxIdleTimeout p.maxIdleTimeout }

/-- the Config the components of a spec-driven client are built from: the populated user Config — or, when
    the generated shape fact `specConfigCoversAdvertised` says that newUClientConnection recomputes s.config
    from the populated transport parameters before preSetup, its `coverConfig` -/
def specConfig (user : Config) (own : OwnParams) : Config :=
  if Limits.specConfigCoversAdvertised then coverConfig (populateConfig user) own else populateConfig user

/-- a spec-driven client: spec parameter list + user Config -/
def specAdvertised (ps : ParamList) : Limits := advertised (populate ps)
/-- the per-kind record `newFlowController` consults: present when newUClientConnection recomputes the Config
    from the advertised parameters AND connection.go's caller of NewStreamFlowController makes the window depend
    on the stream id (regenerated shape facts) -/
def specStreamAdv (own : OwnParams) : Option OwnParams :=
  if Limits.specConfigCoversAdvertised && Limits.streamWindowPerKind then some own else none
def specEnforced (ps : ParamList) (user : Config) : Limits :=
  enforced (specConfig user (populate ps)) (specStreamAdv (populate ps)) (populate ps).activeConnectionIDLimit
def SpecCovered (ps : ParamList) (user : Config) : Prop := LimitsCovered (specAdvertised ps) (specEnforced ps user)
instance (ps : ParamList) (u : Config) : Decidable (SpecCovered ps u) := by unfold SpecCovered; exact inferInstance

def plainAdvertised (user : Config) : Limits := advertised (plainParams (populateConfig user))
def plainEnforced (user : Config) : Limits := enforced (populateConfig user) none 0

/-! ## the enforcing checks, as threshold predicates mirrored from the code -/

/-- what a peer does (observed at the receiving client) -/
inductive PeerEvent
  /-- flowcontrol `UpdateHighestReceived`: the highest offset on one stream of that kind reaches `highest` -/
  | streamData (kind : StreamKind) (highest : Int)
  /-- the sum of the highest offsets over all streams reaches `total` -/
  | connData (total : Int)
  /-- the peer opens its `num`-th stream of that type (1-based) while none was closed -/
  | openStream (bidi : Bool) (num : Int)
  /-- a NEW_CONNECTION_ID was accepted; the client now stores `queued` unused IDs (the peer has queued+1 active) -/
  | newConnID (queued : Int)
  /-- a DATAGRAM frame of `size` bytes arrives -/
  | datagram (size : Int)
  /-- nothing is sent or received for `ms`; the server advertised `peerIdle`; 3·PTO = `pto3` -/
  | silence (ms peerIdle pto3 : Int)
  deriving Repr

/-- the peer stays within what was advertised to it (and within physics: a frame fits a receivable packet) -/
def PeerEvent.within (adv : Limits) : PeerEvent → Prop
  | .streamData k h => h ≤ adv.stream k
  | .connData t => t ≤ adv.connData
  | .openStream b n => n ≤ adv.streams b
  | .newConnID q => q + 1 ≤ adv.cids
  | .datagram s => 0 < s ∧ s ≤ adv.datagram   -- a frame has at least its type byte
  | .silence ms peerIdle _ => match promisedIdle adv.idle peerIdle with
      | some t => ms < t
      | none => True

instance (adv : Limits) (ev : PeerEvent) : Decidable (ev.within adv) := by
  cases ev <;> simp only [PeerEvent.within] <;> first | exact inferInstance | (split <;> exact inferInstance)

/-- does the client's check fire (a locally generated error / a local close)?
    stream: `offset > receiveWindow` (stream_flow_controller.go); connection: `highestReceived > receiveWindow`;
    streams: `id > maxStream`, i.e. `num > maxNumStreams` before any stream was closed (streams_map_incoming.go);
    connection IDs: `len(queue) ≥ max(MaxActiveConnectionIDs, connIDLimit)` (conn_id_manager.go Add);
    DATAGRAM: unknown frame type unless enabled (frame_parser.go), `Length > MaxDatagramSize` (handleDatagramFrame);
    idle: `now ≥ idleStart + max(idleTimeout, 3·PTO)` (run loop). Windows and stream limits only grow later. -/
def PeerEvent.fires (enf : Limits) : PeerEvent → Bool
  | .streamData k h => decide (h > enf.stream k)
  | .connData t => decide (t > enf.connData)
  | .openStream b n => decide (n > enf.streams b)
  | .newConnID q => decide (q ≥ enf.cids)
  | .datagram s => decide (enf.datagram = 0) || decide (s > enf.datagram)
  | .silence ms peerIdle pto3 => decide (ms ≥ effectiveIdle enf.idle peerIdle pto3)

end Uquic.Model.UQuic.Limits
