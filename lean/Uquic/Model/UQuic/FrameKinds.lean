/-
The one part of the reference fingerprint outside the ClientHello that per-dial randomisation can change:
the *set* of frame types of the Initial flight. `QUICRandomFrames.buildInternal` (u_quic_frames.go) draws the
number of PING frames with `cryptoSafeRandUint64(MinPING, MaxPING)`; CRYPTO is always present (MinCRYPTO ≥ 1
is enforced) and PADDING comes from the datagram padding. Core-only.
-/
namespace Uquic.Model.FrameKinds

/-- the values `cryptoSafeRandUint64(min, max)` can return: `min` when `max ≤ min`, else `[min, max)` -/
def draws (mn mx : Nat) : List Nat := if mx ≤ mn then [mn] else List.range' mn (mx - mn)

/-- a PING frame type is in the flight's frame-type set -/
def hasPing (n : Nat) : Bool := decide (0 < n)

/-- the PING membership of the frame-type set does not depend on the draw -/
def pingStable (mn mx : Nat) : Prop := ∀ a ∈ draws mn mx, ∀ b ∈ draws mn mx, hasPing a = hasPing b

def pingStableB (mn mx : Nat) : Bool := decide (1 ≤ mn) || decide (mx ≤ 1)

end Uquic.Model.FrameKinds
