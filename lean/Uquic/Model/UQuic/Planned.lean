/-
Model of the glue between a pre-planned Initial flight and loss recovery (property C09):

  u_packet_packer.go   packPlannedInitial, plannedInitialPayload (which frames a planned datagram
                       registers with the Initial ack handler), MarshalInitialPacketPayload after the
                       flight (frames go out as they are)
  packet_packer.go     maybeGetCryptoPacket (retransmission branch)
  retransmission_queue.go  addInitial (OnLost), GetFrame; wire.CryptoFrame.MaybeSplitOffFrame

State: the planned payloads not yet sent, the Initial CRYPTO retransmission queue, and for every
PackCoalescedPacket call the frames registered with that packet (`none`: nothing was packed, or the
packet has been declared lost since).
-/
import Uquic.Model.UQuic.Frames
import Uquic.Model.UQuic.Scrambler

namespace Uquic.Model.UQuic.Planned
open Uquic.Model.UQuic.Frames Uquic.Model.UQuic.Scrambler

structure PF where
  payloads : List (List UInt8) := []
  queue : List (Nat × List UInt8) := []
  sent : List (Option (List (Nat × List UInt8))) := []
  /-- frame budget of a post-flight Initial packet: maxSize - AEAD overhead - long header length -/
  rb : Int := 0
deriving Repr

/-- `plannedInitialPayload`: ONE ackhandler.Frame PER CRYPTO frame of the planned payload, each with
    its own offset and data (`cf.Data()`: the bytes read, zero-filled to the declared length) -/
def registeredOf (u : List UInt8) : List (Nat × List UInt8) :=
  match chReadAll u with
  | .ok fs => fs.map fun f => (f.1, f.2.2 ++ List.replicate (f.2.1 - f.2.2.length) 0)
  | _ => []

/-- `wire.CryptoFrame.Length` -/
def wireLen (f : Nat × List UInt8) : Int :=
  1 + varintLen f.1 + varintLen f.2.length + f.2.length

/-- the `for { GetFrame … }` loop of maybeGetCryptoPacket over the CRYPTO retransmission queue -/
def getFrames : (fuel : Nat) → (budget : Int) → List (Nat × List UInt8) →
    List (Nat × List UInt8) × List (Nat × List UInt8)
  | 0, _, q => ([], q)
  | _, _, [] => ([], [])
  | fuel + 1, budget, f :: q =>
    if wireLen f ≤ budget then
      -- the whole frame fits
      let (fs, q') := getFrames fuel (budget - wireLen f) q
      (f :: fs, q')
    else
      -- MaybeSplitOffFrame: the first MaxDataLen(budget) bytes go out, the rest stays queued
      let n := maxDataLen f.1 budget
      if n ≤ 0 then ([], f :: q)
      else
        let head : Nat × List UInt8 := (f.1, f.2.take n.toNat)
        let rest : Nat × List UInt8 := (f.1 + n.toNat, f.2.drop n.toNat)
        let (fs, q') := getFrames fuel (budget - wireLen head) (rest :: q)
        (head :: fs, q')

inductive PackOut where
  | none
  | pkt (payload : List UInt8) (reg : List (Nat × List UInt8))
  | panic
deriving Repr

/-- one PackCoalescedPacket call once the flight has been planned -/
def pack (s : PF) : PF × PackOut :=
  match s.payloads with
  | u :: rest =>
    let reg := registeredOf u
    ({ s with payloads := rest, sent := s.sent ++ [some reg] }, .pkt u reg)
  | [] =>
    if s.queue.isEmpty then ({ s with sent := s.sent ++ [none] }, .none)
    else
      let (fs, q') := getFrames (s.queue.length + (s.queue.map (·.2.length)).sum + 1) s.rb s.queue
      if fs.isEmpty then ({ s with sent := s.sent ++ [none] }, .none)
      else
        match wireAll fs with
        | some p => ({ s with queue := q', sent := s.sent ++ [some fs] }, .pkt p fs)
        | none => (s, .panic)

/-- the `k`-th packet is declared lost: OnLost → retransmissionQueue.addInitial for every registered frame -/
def lose (s : PF) (k : Nat) : PF × Bool :=
  match s.sent[k]? with
  | some (some fs) => ({ s with queue := s.queue ++ fs, sent := s.sent.set k none }, true)
  | _ => (s, false)

end Uquic.Model.UQuic.Planned
