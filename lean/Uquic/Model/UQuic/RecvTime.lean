/-
C12 — where the receive time of a packet comes from: the socket wrappers of sys_conn.go / sys_conn_oob.go
(`basicConn.ReadPacket`, `oobConn.ReadPacket`). One call = the read is issued, a datagram arrives (now or earlier:
it may have waited in the socket buffer), the call returns it; the packet is stamped `rcvTime = monotime.Now()`
AFTER the blocking read returned. That stamp travels unchanged (Transport.listen → Conn.handlePacket →
handleUnpacked{Short,Long}HeaderPacket) into `lastPacketReceivedTime`, from which the idle timer counts
(`Uquic.Model.UQuic.LimitsGlue.Idle`).

Core-only. Times are readings of one monotonic clock.
-/
import Uquic.Model.UQuic.LimitsGlue

namespace Uquic.Model.UQuic.RecvTime
open Uquic.Model.UQuic.LimitsGlue

/-- one call of `ReadPacket` that returns a datagram -/
structure ReadCall where
  /-- the blocking read is issued (for `oobConn`: `ReadBatch`; a datagram popped from an earlier batch has
      `issued` = the instant it is popped) -/
  issued : Int
  /-- the datagram reaches the socket -/
  arrival : Int
  /-- the call returns -/
  returned : Int
  deriving Repr, DecidableEq

/-- physics: a call returns after it was issued, and a datagram is not returned before it arrived -/
def ReadCall.wf (r : ReadCall) : Prop := r.issued ≤ r.returned ∧ r.arrival ≤ r.returned

instance (r : ReadCall) : Decidable r.wf := by unfold ReadCall.wf; exact inferInstance

/-- `rcvTime: monotime.Now()` in the composite literal built after the read returned -/
def stamp (r : ReadCall) : Int := r.returned

/-- the variant that reads the clock BEFORE the blocking read ("one clock reading per batch") -/
def stampAtIssue (r : ReadCall) : Int := r.issued

/-- what happens on the wire of a connection -/
inductive WireEv
  | rcvd (r : ReadCall)
  | sent (t : Int) (ackEliciting : Bool)
  deriving Repr, DecidableEq

/-- the events the idle timer sees, under a stamping rule -/
def toIdle (stampOf : ReadCall → Int) : WireEv → IdleEv
  | .rcvd r => .recv (stampOf r)
  | .sent t ae => .sent t ae

end Uquic.Model.UQuic.RecvTime
