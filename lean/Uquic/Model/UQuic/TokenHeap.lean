/-
Memory model of the synthesised Initial token (property C10, "… synthesised with the given prefix and length
and FRESH PER DIAL"): which backing arrays `dummyTokenStore.Pop` (u_initial_packet_spec.go) reads and writes.

The value model (`Model.Initial.tokenFor`) says which bytes a token has at the moment it is made.  A token is
a Go slice, though: it stays alive in its connection's packer for every later Initial packet, while
`InitialPacketSpec.ClientTokenPrefix` is a slice the CALLER owns and that every dial with that spec value
reads.  Whether a later dial can change an earlier connection's token, or the caller's bytes behind the
prefix, is a question about aliasing, so slices are modelled as windows (`arr`, `off`, `len`, `cap`) on the
backing arrays of a heap, with Go's `make`, `copy` and `append` (in place when the capacity suffices).

* `pop`        mirrors the code: `data := make([]byte, tokenLength); rand.Read(data[copy(data, prefix):])`
* `popAppend`  is the tempting rewrite `append(prefix, make([]byte, n-len(prefix))...)`; it is kept here only
               as the negative witness of `Props.C10Alias` (it writes through the prefix's spare capacity)
-/
import Uquic.Model.UQuic.Initial

namespace Uquic.Model.TokenHeap

open Uquic.Model.Initial

/-- a Go byte slice: the window `[off, off+len)` of backing array `arr`, extensible in place up to `off+cap` -/
structure Slice where
  arr : Nat
  off : Nat := 0
  len : Nat
  cap : Nat
deriving Repr, DecidableEq, Inhabited

/-- backing array `a` of heap `h` (the heap is the list of arrays allocated so far) -/
def readArr (h : List (List Nat)) (a : Nat) : List Nat := h.getD a []

/-- the bytes of a slice -/
def bytesOf (h : List (List Nat)) (s : Slice) : List Nat := ((readArr h s.arr).drop s.off).take s.len

/-- the bytes behind a slice's length, up to its capacity (visible to whoever owns the backing array) -/
def slack (h : List (List Nat)) (s : Slice) : List Nat :=
  ((readArr h s.arr).drop (s.off + s.len)).take (s.cap - s.len)

/-- overwrite `l[pos ..]` with `bs` (clipped at the end of the array: Go never grows an array in place) -/
def overwrite (l : List Nat) (pos : Nat) (bs : List Nat) : List Nat :=
  l.take pos ++ bs.take (l.length - pos) ++ l.drop (pos + min bs.length (l.length - pos))

def writeAt (h : List (List Nat)) (a pos : Nat) (bs : List Nat) : List (List Nat) :=
  h.set a (overwrite (readArr h a) pos bs)

/-- `make([]byte, n)` -/
def alloc (h : List (List Nat)) (n : Nat) : List (List Nat) × Slice :=
  (h ++ [List.replicate n 0], { arr := h.length, off := 0, len := n, cap := n })

/-- `copy(dst, src)`: `min(len(dst), len(src))` bytes; returns the count -/
def goCopy (h : List (List Nat)) (dst src : Slice) : List (List Nat) × Nat :=
  (writeAt h dst.arr dst.off ((bytesOf h src).take (min dst.len src.len)), min dst.len src.len)

/-- `append(s, bs...)`: in place when `len+|bs| ≤ cap`, else into a fresh array (its rounded-up capacity is
    not modelled: `cap = len`) -/
def goAppend (h : List (List Nat)) (s : Slice) (bs : List Nat) : List (List Nat) × Slice :=
  if s.len + bs.length ≤ s.cap then
    (writeAt h s.arr (s.off + s.len) bs, { s with len := s.len + bs.length })
  else
    ((alloc h (s.len + bs.length)).1.set h.length (bytesOf h s ++ bs),
     { arr := h.length, off := 0, len := s.len + bs.length, cap := s.len + bs.length })

/-- `dummyTokenStore.Pop`: a fresh array of `tokenLength` bytes, the prefix copied to its front, the rest read
    from the random source (`s`, at position `off`) -/
def pop (h : List (List Nat)) (pre : Slice) (tokLen : Nat) (s : Nat → Nat) (off : Nat) : List (List Nat) × Slice :=
  ((writeAt (goCopy (alloc h tokLen).1 (alloc h tokLen).2 pre).1 h.length
      (goCopy (alloc h tokLen).1 (alloc h tokLen).2 pre).2
      (takeStream s off (tokLen - (goCopy (alloc h tokLen).1 (alloc h tokLen).2 pre).2))),
   (alloc h tokLen).2)

/-- NOT the code: the rewrite with `append` on the caller's prefix slice (negative witness only) -/
def popAppend (h : List (List Nat)) (pre : Slice) (tokLen : Nat) (s : Nat → Nat) (off : Nat) : List (List Nat) × Slice :=
  ((writeAt (goAppend h pre (List.replicate (tokLen - pre.len) 0)).1
      (goAppend h pre (List.replicate (tokLen - pre.len) 0)).2.arr
      ((goAppend h pre (List.replicate (tokLen - pre.len) 0)).2.off + pre.len)
      (takeStream s off (tokLen - pre.len))),
   (goAppend h pre (List.replicate (tokLen - pre.len) 0)).2)

/-! ### a sequence of dials with one spec value -/

/-- one dial's randomness: the stream and the position at which `Pop` reads it -/
structure Draw where
  s : Nat → Nat
  off : Nat

/-- the heap and the tokens handed out so far, each with the bytes it had when it was made -/
structure St where
  heap : List (List Nat)
  toks : List (Slice × List Nat) := []

/-- `InitialPacketSpec.UpdateConfig` + `Config.TokenStore.Pop` of one dial: `getTokenStore` hands the dummy store
    the spec's own prefix slice (`prefix: ps.ClientTokenPrefix`) and `tokenLength()` -/
def dial (pre : Slice) (clientTokenLength : Nat) (st : St) (d : Draw) : St :=
  { heap := (pop st.heap pre (max clientTokenLength pre.len) d.s d.off).1,
    toks := st.toks ++ [((pop st.heap pre (max clientTokenLength pre.len) d.s d.off).2,
                         bytesOf (pop st.heap pre (max clientTokenLength pre.len) d.s d.off).1
                              (pop st.heap pre (max clientTokenLength pre.len) d.s d.off).2)] }

def dials (pre : Slice) (clientTokenLength : Nat) (st : St) (ds : List Draw) : St :=
  ds.foldl (dial pre clientTokenLength) st

/-- the same with the `append` rewrite (negative witness only) -/
def dialAppend (pre : Slice) (clientTokenLength : Nat) (st : St) (d : Draw) : St :=
  { heap := (popAppend st.heap pre (max clientTokenLength pre.len) d.s d.off).1,
    toks := st.toks ++ [((popAppend st.heap pre (max clientTokenLength pre.len) d.s d.off).2,
                         bytesOf (popAppend st.heap pre (max clientTokenLength pre.len) d.s d.off).1
                              (popAppend st.heap pre (max clientTokenLength pre.len) d.s d.off).2)] }

end Uquic.Model.TokenHeap
