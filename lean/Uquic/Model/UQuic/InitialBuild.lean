/-
Model, continued (property C10): what the frame builders contribute to the SIZE and SHAPE of an
Initial datagram, and the flight plan of a `QUICFlightFrameBuilder`.

Only lengths, offsets and counts are modelled here — which ClientHello bytes a CRYPTO frame carries is
property C09's subject.  For the randomised builders the outcome of the draws (the list of CRYPTO
frames and the number of PINGs) is a *recovered witness* `W` read off the wire; the model computes the
payload length that this outcome implies (`QUICRandomFrames.buildInternal`'s dry-run / PADDING top-up).

* u_quic_frames.go   `QUICFrames.build`, `QUICRandomFrames.buildInternal`, `QUICMultiDatagramFrames`
* u_flight_frames.go `QUICCryptoRange.resolve`, `QUICFrames.buildAbsolute`, `QUICRandomFlightDatagram.build`
* u_packet_packer.go `flightBudgets`, `validateInitialFlight`
-/
import Uquic.Model.UQuic.Initial

namespace Uquic.Model.Initial

/-- outcome of a builder as far as sizes are concerned -/
structure W where
  /-- CRYPTO frames (wire offset, data length), in wire order -/
  crypto : List (Nat × Nat) := []
  pings : Nat := 0
  /-- PADDING bytes the builder itself emits -/
  padBytes : Nat := 0
deriving Repr, BEq, DecidableEq

def W.cryptoWireLen (w : W) : Nat := (w.crypto.map (fun f => cryptoFrameLen f.1 f.2)).sum
def W.payloadLen (w : W) : Nat := w.cryptoWireLen + w.pings + w.padBytes
def W.cryptoBytes (w : W) : Nat := (w.crypto.map (·.2)).sum

/-! ### QUICFrames.build (per-datagram layouts) -/

/-- `lowestOffset`: starts at `math.MaxUint16`; non-CRYPTO frames report offset 0 -/
def lowestOffset (l : List QFrame) : Int :=
  l.foldl (fun acc f => match f with
    | .crypto off _ => if off < acc then off else acc
    | _ => if 0 < acc then 0 else acc) 65535

/-- `QUICFrames.build cryptoData baseOffset` with `n = len(cryptoData)`: a CRYPTO frame never reads or
    announces more than the datagram's share holds (`lengthOffset` and `length` are clamped), while its wire
    offset stays `offset + baseOffset`.  `none`: a negative offset/length (the Go code would encode a
    negative varint / `make` a negative length and panic). -/
def qfBuild (l : List QFrame) (n base : Nat) : Option W :=
  let l := if l.length = 0 then [QFrame.crypto 0 0] else l
  let low := lowestOffset l
  l.foldl (fun (acc : Option W) (f : QFrame) => acc.bind fun w =>
    match f with
    | .crypto off len =>
      let lengthOffset := if off - low < n then off - low else (n : Int)
      let length := if len = 0 ∨ len > (n : Int) - lengthOffset then (n : Int) - lengthOffset else len
      if length < 0 ∨ lengthOffset < 0 ∨ off < 0 then none
      else some { w with crypto := w.crypto ++ [((off + base).toNat, length.toNat)] }
    | .padding k => some { w with padBytes := w.padBytes + k }
    | .ping => some { w with pings := w.pings + 1 }) (some {})

/-- the pass-through path re-emits the popped frame as it is -/
def passThroughW (off n : Nat) : W := { crypto := [(off, n)] }

/-! ### QUICRandomFrames / QUICMultiDatagramFrames -/

/-- the argument checks at the top of `buildInternal` -/
def RF.boundsOK (rf : RF) : Bool :=
  !(rf.minPing > rf.maxPing) && !(rf.minCrypto < 1) && !(rf.minCrypto > rf.maxCrypto) &&
  !(rf.minPad < 1 && rf.length ≠ 0) && !(rf.minPad > rf.maxPad && rf.length ≠ 0)

/-- the checks of `QUICRandomFlightDatagram.build` (MinCRYPTO 0 is allowed there) -/
def RF.flightBoundsOK (rf : RF) : Bool :=
  !(rf.minCrypto > rf.maxCrypto) && !(rf.minPing > rf.maxPing) &&
  !(rf.length ≠ 0 && (rf.minPad < 1 || rf.minPad > rf.maxPad))

/-- `MultiDatagramFrames.BuildForDatagram`: entry for datagram `i` (last repeats) -/
def rfFor (l : List RF) (i : Nat) : Option RF :=
  if l.length = 0 then none else l[if i ≥ l.length then l.length - 1 else i]?

/-- bytes of the dry run: CRYPTO offsets relative to `base` (the dry run uses `baseOffset = 0`) -/
def dryLen (crypto : List (Nat × Nat)) (pings base : Nat) : Nat :=
  (crypto.map (fun f => cryptoFrameLen (f.1 - base) f.2)).sum + pings

/-- PADDING that `buildInternal` adds: `Length - len(dryrun)` when positive -/
def rfPad (rf : RF) (crypto : List (Nat × Nat)) (pings base : Nat) : Nat := rf.length - dryLen crypto pings base

/-- the payload a random builder emits for the witnessed outcome (`base` = 0 for flight datagrams,
    whose dry run already uses absolute offsets) -/
def rfW (rf : RF) (crypto : List (Nat × Nat)) (pings base : Nat) : W :=
  { crypto := crypto, pings := pings, padBytes := rfPad rf crypto pings base }

/-- inclusive bounds of `cryptoSafeRandUint64(min, max)` -/
def drawHi (mn mx : Nat) : Nat := if mx ≤ mn then mn else mx - 1

/-! ### flight builders -/

/-- `QUICCryptoRange.resolve` -/
def resolve (off len : Int) (L : Nat) : Option (Nat × Nat) :=
  let start := if off < 0 then (L : Int) + off else off
  if start < 0 ∨ start > L then none
  else
    let «end» := if len > 0 then start + len else (L : Int) + len
    if «end» > L ∨ «end» < start then none else some (start.toNat, «end».toNat)

/-- `QUICFrames.buildAbsolute`; `none` also when the payload ENDS with an empty CRYPTO frame: the
    validating parser (`clienthellod.ReadAllFrames`, a `bytes.Reader` at EOF) reports EOF for it and
    `validateInitialFlight` rejects the plan -/
def endsWithEmptyCrypto (l : List QFrame) (L : Nat) : Bool :=
  match l.getLast? with
  | some (QFrame.crypto off len) =>
    (match resolve off len L with
     | some (s, e) => e == s
     | none => false)
  | _ => false

def ffBuild (l : List QFrame) (L : Nat) : Option W :=
  if endsWithEmptyCrypto l L then none else
  l.foldl (fun (acc : Option W) (f : QFrame) => acc.bind fun w =>
    match f with
    | .crypto off len =>
      match resolve off len L with
      | none => none
      | some (s, e) => some { w with crypto := w.crypto ++ [(s, e - s)] }
    | .padding k => some { w with padBytes := w.padBytes + k }
    | .ping => some { w with pings := w.pings + 1 }) (some {})

/-- number of datagrams `flightBudgets` describes, and the frame budget of each -/
def flightBudgets (plans : List Plan) (L maxSize hdrLen0 : Nat) : List Nat :=
  let n := if plans.length = 0 then
      let b := initialFrameBudget maxSize hdrLen0
      max (if b > 0 then (L + b - 1) / b else 0) 1
    else plans.length
  (List.range n).map fun i =>
    let plan := planFor plans i
    initialFrameBudget (if plan.packetSize > 0 then plan.packetSize else maxSize) hdrLen0

def covered (L : Nat) (rs : List (Nat × Nat)) : Bool :=
  (List.range L).all fun j => rs.any fun r => decide (r.1 ≤ j) && decide (j < r.1 + r.2)

/-- `validateInitialFlight` on the payload summaries (the payloads are well-formed frame sequences by
    construction of the built-in flight builders) -/
def validateFlight (ws : List W) (budgets : List Nat) (L : Nat) : Bool :=
  ws.length > 0 &&
  ((List.range ws.length).all fun i =>
    let w := ws.getD i {}
    let budget := budgets.getD (min i (budgets.length - 1)) 0
    !(budget > 0 && w.payloadLen > budget) && w.crypto.all (fun f => decide (f.1 + f.2 ≤ L))) &&
  covered L (ws.flatMap (·.crypto))

end Uquic.Model.Initial
