/-
C12 — the GLUE between what a client advertised and the components that enforce it, as connection.go wires it:

  * the idle timer: `handleUnpacked{Short,Long}HeaderPacket` (every received packet restarts it and clears
    `firstAckElicitingPacketAfterIdleSentTime`), `registerPackedShortHeaderPacket` / `sendPackedCoalescedPacket`
    (the first ack-eliciting packet sent after that sets it), `idleTimeoutStartTime`, `nextIdleTimeoutTime`;
  * `handleFrames`: the frames of one packet are handled in order, the first error closes the connection;
    NEW_CONNECTION_ID → `connIDManager.Add` (the limit is judged after the WHOLE frame, Retire Prior To included;
    `Cid` below: the manager without path probing and reset tokens), STREAM → streams map (stream-count limit,
    then the receive side of the stream and connection flow controllers, `RW` below), DATAGRAM → frame parser /
    `handleDatagramFrame`;
  * the receive side of the streams: `Read` → `AddBytesRead` → a queued MAX_STREAM_DATA, `sendPackets` → MAX_DATA,
    i.e. the credit the client grants later on top of what it advertised.

The connection-ID manager and the flow controllers are the subject of C16 / C04 (full models there); the small
self-contained renderings here carry exactly what C12 needs — WHEN the limit check runs, and how the credit a
peer holds evolves — so that this check does not depend on another property's extractors.

Core-only (links into `oracle_limglue`). Times are microseconds from the instant the handshake completed.
-/
import Uquic.Model.UQuic.Limits
import Uquic.Model.Streams.Incoming

namespace Uquic.Model.UQuic.LimitsGlue
open Uquic.Gen Uquic.Model.UQuic.Limits
open Uquic.Model.Streams (Incoming InOp InEv)

/-! ## the idle timer -/

/-- `lastPacketReceivedTime`, `firstAckElicitingPacketAfterIdleSentTime` (none = the zero time) -/
structure Idle where
  lastRecv : Int := 0
  firstAE : Option Int := none
  deriving Repr, DecidableEq

/-- a packet was received (any packet that decrypts: ack-eliciting or not, whatever its frames do later) -/
def Idle.recv (_ : Idle) (t : Int) : Idle := { lastRecv := t, firstAE := none }

/-- a packet was sent -/
def Idle.sent (s : Idle) (t : Int) (ackEliciting : Bool) : Idle :=
  match s.firstAE with
  | some _ => s
  | none => if ackEliciting then { s with firstAE := some t } else s

/-- `idleTimeoutStartTime` -/
def Idle.start (s : Idle) : Int :=
  match s.firstAE with
  | some t => if t > s.lastRecv then t else s.lastRecv
  | none => s.lastRecv

/-- `nextIdleTimeoutTime`: `idle` = c.idleTimeout (set by applyTransportParameters), `pto3` = 3·PTO -/
def Idle.deadline (s : Idle) (idle pto3 : Int) : Int := s.start + max idle pto3

/-- what happens on the wire, as far as the idle timer goes -/
inductive IdleEv
  | recv (t : Int)
  | sent (t : Int) (ackEliciting : Bool)
  deriving Repr, DecidableEq

def IdleEv.time : IdleEv → Int
  | .recv t => t
  | .sent t _ => t

def Idle.step (s : Idle) : IdleEv → Idle
  | .recv t => s.recv t
  | .sent t ae => s.sent t ae

def Idle.run (s : Idle) : List IdleEv → Idle
  | [] => s
  | e :: es => (s.step e).run es

/-- RFC 9000 §10.1, read off a history directly: the idle period starts at the last packet received, or at the
    first ack-eliciting packet sent after it, whichever is later. `pending` = the first ack-eliciting packet
    sent since the last receipt (if any). -/
def specStart : (lastRecv : Int) → (pending : Option Int) → List IdleEv → Int
  | r, none, [] => r
  | r, some t, [] => max r t
  | _, _, .recv t :: es => specStart t none es
  | r, none, .sent t true :: es => specStart r (some t) es
  | r, p, .sent _ _ :: es => specStart r p es

/-- times do not run backwards -/
def Monotone : Int → List IdleEv → Prop
  | _, [] => True
  | t0, e :: es => t0 ≤ e.time ∧ Monotone e.time es

/-! ## NEW_CONNECTION_ID: conn_id_manager.go `Add` / `add` (no path probing, no reset tokens) -/

structure Cid where
  active : Nat := 0
  /-- sequence numbers of the unused connection IDs, ascending -/
  queue : List Nat := []
  highestRetired : Nat := 0
  /-- `connIDLimit` (SetConnectionIDLimit; 0 for the plain client) -/
  limit : Nat := 0
  deriving Repr, DecidableEq

/-- `addConnectionID` on a sorted queue (fast path = the element lands at the end; a known number changes nothing) -/
def insertSorted (s : Nat) : List Nat → List Nat
  | [] => [s]
  | x :: xs => if x = s then x :: xs else if x > s then s :: x :: xs else x :: insertSorted s xs

/-- the early-out of `add`: a reordered or already retired sequence number is answered with RETIRE_CONNECTION_ID -/
def Cid.retireNow (m : Cid) (seq : Nat) : Bool :=
  decide (seq ≠ m.active) && (decide (seq < m.active) || decide (seq < m.highestRetired))

/-- the Retire-Prior-To block of `add`: queued IDs below `rpt` (not the active one) -/
def Cid.retireQueueBelow (m : Cid) (rpt : Nat) : Cid × List Nat :=
  if rpt > m.highestRetired then
    ({ m with queue := m.queue.filter (fun s => s ≥ rpt), highestRetired := rpt }, m.queue.filter (fun s => ¬ s ≥ rpt))
  else (m, [])

/-- `updateConnectionID` (the queue is not empty where `add` calls it) -/
def Cid.updateConnectionID (m : Cid) : Cid × List Nat :=
  match m.queue with
  | [] => (m, [])
  | f :: rest => ({ m with active := f, queue := rest, highestRetired := max m.highestRetired m.active }, [m.active])

/-- `add`: new state and the RETIRE_CONNECTION_ID frames queued, in order -/
def Cid.add (m : Cid) (seq rpt : Nat) : Cid × List Nat :=
  if m.retireNow seq then (m, [seq])
  else
    let r := m.retireQueueBelow rpt
    if seq = r.1.active then r
    else
      let m2 := { r.1 with queue := insertSorted seq r.1.queue }
      if m2.active < rpt then
        let u := m2.updateConnectionID
        (u.1, r.2 ++ u.2)
      else (m2, r.2)

def cidBound (m : Cid) : Nat := max Protocol.MaxActiveConnectionIDs.toNat m.limit

/-- `Add`: the limit is judged on the state AFTER the whole frame (Retire Prior To applied, the active
    connection ID replaced): (state, retire frames, CONNECTION_ID_LIMIT_ERROR?) -/
def Cid.addFrame (m : Cid) (seq rpt : Nat) : Cid × List Nat × Bool :=
  let r := m.add seq rpt
  (r.1, r.2, decide (r.1.queue.length ≥ cidBound r.1))

/-- connection IDs the client holds: the one in use and the queued ones -/
def Cid.inUse (m : Cid) : List Nat := m.active :: m.queue

/-! ## the receive side of a flow controller: base_flow_controller.go -/

structure RW where
  bytesRead : Int := 0
  highest : Int := 0
  /-- `receiveWindow`: the highest offset the peer may send (what the last MAX_(STREAM_)DATA said) -/
  window : Int
  /-- `receiveWindowSize` and its cap `maxReceiveWindowSize` -/
  size : Int
  cap : Int
  epochTime : Int := 0
  epochOff : Int := 0
  deriving Repr, DecidableEq

def RW.new (window cap : Int) : RW := { window := window, size := window, cap := cap }

/-- `float64(size) * (1 - WindowUpdateThreshold)` truncated: exact for sizes below 2^51 -/
def updateThreshold (size : Int) : Int := (3 * size) / 4

/-- `hasWindowUpdate` -/
def RW.hasUpdate (c : RW) : Bool := decide (c.window - c.bytesRead ≤ updateThreshold c.size)

def RW.startEpoch (c : RW) (now : Int) : RW := { c with epochTime := now, epochOff := c.bytesRead }

/-- the timing test of `maybeAdjustWindowSize`, `now - epochStart < 4 · (bytesReadInEpoch / size) · rtt`, in exact
    arithmetic (the code goes through float64: `nearThreshold` marks the inputs where rounding could decide) -/
def RW.fast (c : RW) (now rtt : Int) : Bool :=
  decide ((now - c.epochTime) * c.size < 4 * (c.bytesRead - c.epochOff) * rtt)

def RW.nearThreshold (c : RW) (now rtt : Int) : Bool :=
  let d := (now - c.epochTime) * c.size - 4 * (c.bytesRead - c.epochOff) * rtt
  -- (only where `adjust` gets as far as the timing test)
  c.hasUpdate && decide (c.bytesRead - c.epochOff > c.size / 2) && decide (rtt ≠ 0) && decide (d.natAbs ≤ (1000 * c.size).natAbs)

/-- the new size auto-tuning picks: `min(2·size, cap)`, taken only if it is LARGER than the current size -/
def RW.tuned (c : RW) : Int :=
  let n := min (2 * c.size) c.cap
  if n > c.size then n else c.size

/-- `maybeAdjustWindowSize` (the connection's `allowWindowIncrease` callback answers yes) -/
def RW.adjust (c : RW) (now rtt : Int) : RW :=
  if c.bytesRead - c.epochOff ≤ c.size / 2 then c
  else if rtt = 0 then c
  else if c.fast now rtt then ({ c with size := c.tuned }).startEpoch now
  else c.startEpoch now

/-- `getWindowUpdate`: the new limit to announce, 0 = nothing to announce -/
def RW.update (c : RW) (now rtt : Int) : RW × Int :=
  if !c.hasUpdate then (c, 0)
  else
    let c1 := c.adjust now rtt
    ({ c1 with window := c1.bytesRead + c1.size }, c1.bytesRead + c1.size)

/-- `EnsureMinimumWindowSize` of the connection controller -/
def RW.ensureMinimum (c : RW) (inc now : Int) : RW :=
  if inc ≤ c.size then c
  else
    let n := min inc c.cap
    if n > c.size then ({ c with size := n }).startEpoch now else c.startEpoch now

/-- the first data starts the auto-tuning epoch (`if c.highestReceived == 0 { c.startNewAutoTuningEpoch(now) }`) -/
def RW.noteFirst (c : RW) (now : Int) : RW := if c.highest = 0 then c.startEpoch now else c

/-- `UpdateHighestReceived` (stream) + `IncrementHighestReceived` (connection) for a new highest offset:
    (stream, connection, FLOW_CONTROL_ERROR?) -/
def recvData (st conn : RW) (offset now : Int) : RW × RW × Bool :=
  if offset ≤ st.highest then (st, conn, false)
  else if offset > st.window then ({ st.noteFirst now with highest := offset }, conn, true)
  else
    ({ st.noteFirst now with highest := offset },
     { conn.noteFirst now with highest := conn.highest + (offset - st.highest) },
     decide (conn.highest + (offset - st.highest) > conn.window))

/-- `AddBytesRead` (stream and connection); the Bool = a MAX_STREAM_DATA is now queued -/
def readData (st conn : RW) (n : Int) : RW × RW × Bool :=
  let st1 := { st with bytesRead := st.bytesRead + n }
  (st1, { conn with bytesRead := conn.bytesRead + n }, st1.hasUpdate)

/-- stream `GetWindowUpdate`: a grown stream window raises the connection window to 1.5 × as much -/
def streamUpdate (st conn : RW) (now rtt : Int) : RW × RW × Int :=
  let r := st.update now rtt
  if r.1.size > st.size then (r.1, conn.ensureMinimum ((3 * r.1.size) / 2) now, r.2) else (r.1, conn, r.2)

/-! ## stream identifiers -/

inductive SidKind | clientBidi | serverBidi | clientUni | serverUni
  deriving Repr, DecidableEq

def sidKind (sid : Int) : SidKind :=
  match sid % 4 with
  | 0 => .clientBidi | 1 => .serverBidi | 2 => .clientUni | _ => .serverUni

/-- 1-based stream number within its kind -/
def sidNum (sid : Int) : Int := sid / 4 + 1

/-- streams_map_incoming.go GetOrOpenStream on a map no stream of which was completed yet (maxStream is the limit
    the map was built with): `num > maxStream` → STREAM_LIMIT_ERROR. The connection model below runs the full
    map (`Uquic.Model.Streams.Incoming`: accept, completion, MAX_STREAMS); `Uquic.Props.C12Streams` proves that
    the two agree until the first completion and that the limit only ever rises afterwards. -/
def openFires (limit num : Int) : Bool := decide (num > limit)

/-! ## the life of a peer-initiated stream: accepted by the application, finished by both sides, deleted from the
    streams map (streams_map_incoming.go `AcceptStream`, `DeleteStream`), a MAX_STREAMS frame renews the count -/

/-- `AcceptStream(ctx)` with a context that is already cancelled: take the next stream if it is there, never wait
    (the atomic steps of the C15 model: enter, one pass under the mutex, the `select` takes `ctx.Done()`) -/
def acceptOps : List InOp := [.accCall 0, .accLocked 0, .cancelCtx 0, .accCtx 0]

/-- the MAX_STREAMS frames of a run: (unidirectional?, stream count) -/
def msOf (evs : List InEv) : List (Bool × Int) :=
  evs.flatMap fun ev => ev.frames.filterMap fun f => match f with
    | .maxStreams t n => some (decide (t = .uni), n)
    | _ => none

def acceptedOf (evs : List InEv) : Option Int :=
  (evs.flatMap (·.rets)).findSome? fun r => match r.2 with
    | .stream id => some id
    | _ => none

def acceptOne (m : Incoming) : Incoming × Option Int × List (Bool × Int) :=
  let r := m.run acceptOps
  (r.1, acceptedOf r.2, msOf r.2)

/-- the application accepts streams, in order, until it holds stream `sid` -/
def acceptUpTo (m : Incoming) (sid : Int) : Nat → Incoming × List (Bool × Int)
  | 0 => (m, [])
  | fuel + 1 =>
    if m.nextAccept > sid then (m, []) else
    let r := acceptOne m
    match r.2.1 with
    | none => (r.1, r.2.2)
    | some _ => let r2 := acceptUpTo r.1 sid fuel; (r2.1, r.2.2 ++ r2.2)

structure Life where
  /-- the incoming maps of the client: streams the server opens -/
  inB : Incoming
  inU : Incoming
  /-- stream id ↦ final offset (a STREAM frame with FIN was received) -/
  fin : List (Int × Int) := []
  /-- the receive half is done: the application read the EOF, or it cancelled reading and the final size is known -/
  recvDone : List Int := []
  /-- the application read the EOF -/
  eofRead : List Int := []
  /-- the application cancelled reading (`CancelRead`) -/
  cancelled : List Int := []
  /-- the application closed its send side; the FIN has not left yet -/
  sendClosed : List Int := []
  /-- the FIN was sent and acknowledged -/
  sendDone : List Int := []
  /-- MAX_STREAMS frames waiting in the framer -/
  ms : List (Bool × Int) := []

def Life.new (streamsBidi streamsUni : Int) : Life :=
  { inB := Incoming.new .bidi streamsBidi .client, inU := Incoming.new .uni streamsUni .client }

/-! ## one connection -/

inductive Frame
  | ping
  | ncid (seq rpt : Nat)
  | strm (sid off len : Int) (fin : Bool)
  | dgram (len : Int)
  deriving Repr, DecidableEq

structure Glue where
  /-- what the components were built from: `enforced` limits, the effective Config (window caps) and the
      per-kind record `newFlowController` consults (none: the plain client) -/
  enf : Limits
  cfg : Config
  adv : Option OwnParams
  idleTimeout : Int            -- µs, c.idleTimeout
  pto3 : Int                   -- µs
  idle : Idle := {}
  cid : Cid
  conn : RW
  /-- stream id ↦ the receive side of its flow controller -/
  streams : List (Int × RW) := []
  /-- streams with a queued MAX_STREAM_DATA, in queueing order -/
  queued : List Int := []
  /-- bidirectional streams opened by the application -/
  opened : Int := 0
  /-- RETIRE_CONNECTION_ID frames waiting in the framer -/
  retire : List Nat := []
  closed : Bool := false
  life : Life

def rttNs : Int := 100000000

def Glue.new (enf : Limits) (cfg : Config) (adv : Option OwnParams) (cidLimit : Nat) (idleUs pto3 : Int) : Glue :=
  { enf := enf, cfg := cfg, adv := adv, idleTimeout := idleUs, pto3 := pto3,
    cid := { limit := cidLimit },
    conn := RW.new cfg.initialConnectionReceiveWindow cfg.maxConnectionReceiveWindow,
    life := Life.new enf.streamsBidi enf.streamsUni }

def Glue.stream? (g : Glue) (sid : Int) : Option RW := (g.streams.find? (·.1 == sid)).map (·.2)

def Glue.setStream (g : Glue) (sid : Int) (st : RW) : Glue :=
  if g.streams.any (·.1 == sid) then { g with streams := g.streams.map fun e => if e.1 == sid then (sid, st) else e }
  else { g with streams := g.streams ++ [(sid, st)] }

def streamKindOf (sid : Int) : StreamKind :=
  match sidKind sid with
  | .clientBidi => .bidiLocal
  | .serverBidi => .bidiRemote
  | _ => .uni

/-- the flow controller of a stream, created on first use (`Conn.newFlowController`) -/
def Glue.getStream (g : Glue) (sid : Int) : RW :=
  match g.stream? sid with
  | some st => st
  | none => let k := streamKindOf sid; RW.new (streamWindow g.cfg g.adv k) (streamWindowCap g.cfg g.adv k)

def errText (code : Int) : String := s!"local:0x{String.ofList (Nat.toDigits 16 code.toNat)}"

/-- one frame; `none` = handled, `some e` = the error that closes the connection; `gray` = not predicted -/
inductive FrameOut | ok | err (e : String) | gray
  deriving Repr, DecidableEq

def Glue.finOf (g : Glue) (sid : Int) : Option Int := (g.life.fin.find? (·.1 == sid)).map (·.2)

/-- `Conn.onStreamCompleted` once both halves of a stream are done (a receive-only stream has one half):
    `DeleteStream` on the incoming map; a MAX_STREAMS frame is queued when the stream had been accepted -/
def Glue.checkCompleted (g : Glue) (sid : Int) : Glue :=
  match sidKind sid with
  | .serverUni =>
    if g.life.recvDone.contains sid then
      let r := g.life.inU.deleteStream sid
      { g with life := { g.life with inU := r.1, ms := g.life.ms ++ msOf [{ frames := r.2.2 }] } }
    else g
  | .serverBidi =>
    if g.life.recvDone.contains sid && g.life.sendDone.contains sid then
      let r := g.life.inB.deleteStream sid
      { g with life := { g.life with inB := r.1, ms := g.life.ms ++ msOf [{ frames := r.2.2 }] } }
    else g
  | _ => g   -- a stream of the client: the outgoing map, nothing the peer was promised

/-- the receive half of a cancelled stream completes once its final size is known: `Abandon` hands the unread
    bytes back to the connection's window, then `onStreamCompleted` -/
def Glue.abandon (g : Glue) (sid : Int) : Glue :=
  match g.stream? sid with
  | none => g
  | some st =>
    let unread := st.highest - st.bytesRead
    let g1 := { g.setStream sid { st with bytesRead := st.highest } with
                conn := { g.conn with bytesRead := g.conn.bytesRead + (if unread > 0 then unread else 0) } }
    ({ g1 with life := { g1.life with recvDone := g1.life.recvDone ++ [sid] } }).checkCompleted sid

/-- a STREAM frame for a stream that exists: the receive side of the flow controllers, the final offset -/
def Glue.accept (g : Glue) (nowUs sid off len : Int) (fin : Bool) : Glue × FrameOut × List String :=
  let st := g.getStream sid
  -- (a peer that goes on after its FIN, or whose FIN does not extend the data: FINAL_SIZE_ERROR territory, C04)
  if let some f := g.finOf sid then
    -- a retransmission within the final size changes nothing
    (if off + len ≤ f && (!fin || off + len == f) then (g, .ok, ["f:strm:dup"]) else (g, .gray, ["f:strm:after-fin"])) else
  if fin && (decide (len ≤ 0) || decide (off + len ≤ st.highest)) then (g, .gray, ["f:strm:odd-fin"]) else
  if len = 0 then (g.setStream sid st, .ok, ["f:strm:open"]) else
  let r := recvData st g.conn (off + len) (nowUs * 1000)
  let g1 := { g.setStream sid r.1 with conn := r.2.1 }
  if r.2.2 then (g1, .err (errText Limits.FlowControlError), ["f:strm:flow"])
  else if fin then
    let g2 := { g1 with life := { g1.life with fin := g1.life.fin ++ [(sid, off + len)] } }
    -- (a stream the application stopped reading completes here: the final size is what was missing)
    if g2.life.cancelled.contains sid && !g2.life.recvDone.contains sid then (g2.abandon sid, .ok, ["f:strm:fin", "life:abandoned-at-fin"])
    else (g2, .ok, ["f:strm:fin"])
  else (g1, .ok, ["f:strm:data"])

/-- a STREAM frame for a stream of the server: `GetOrOpenStream` of the incoming map first -/
def Glue.strmServer (g : Glue) (uni : Bool) (nowUs sid off len : Int) (fin : Bool) : Glue × FrameOut × List String :=
  let r := (if uni then g.life.inU else g.life.inB).getOrOpen sid
  let g1 := { g with life := if uni then { g.life with inU := r.1 } else { g.life with inB := r.1 } }
  match r.2 with
  | .err _ => (g, .err (errText Limits.StreamLimitError), ["f:strm:limit"])
  | .nil => (g1, .ok, ["f:strm:gone"])       -- completed and deleted: the frame is ignored
  | .panicLocked => (g1, .gray, ["f:strm:panic"])
  | .stream _ => g1.accept nowUs sid off len fin

def Glue.frame (g : Glue) (nowUs : Int) : Frame → Glue × FrameOut × List String
  | .ping => (g, .ok, ["f:ping"])
  | .ncid seq rpt =>
    let r := g.cid.addFrame seq rpt
    let g' := { g with cid := r.1, retire := g.retire ++ r.2.1 }
    if r.2.2 then (g', .err (errText Limits.ConnectionIDLimitError), ["f:ncid:limit"])
    else (g', .ok, [if g.cid.retireNow seq then "f:ncid:old" else if rpt > g.cid.highestRetired then "f:ncid:rpt" else "f:ncid"])
  | .strm sid off len fin =>
    match sidKind sid with
    | .clientBidi =>
      if fin then (g, .gray, ["f:strm:clientbidi-fin"])
      else if sidNum sid ≤ g.opened then g.accept nowUs sid off len fin else (g, .gray, ["f:strm:unopened"])
    | .clientUni => (g, .gray, ["f:strm:clientuni"])
    | .serverBidi => g.strmServer false nowUs sid off len fin
    | .serverUni => g.strmServer true nowUs sid off len fin
  | .dgram len =>
    if g.enf.datagram = 0 then (g, .err (errText Limits.FrameEncodingError), ["f:dgram:disabled"])
    else if len + 3 > g.enf.datagram then (g, .gray, ["f:dgram:big"])
    else (g, .ok, ["f:dgram"])

/-- `handleFrames`: in order, the first error wins (later frames are not handled) -/
def Glue.frames (g : Glue) (nowUs : Int) : List Frame → Glue × FrameOut × List String
  | [] => (g, .ok, [])
  | f :: fs =>
    let r := g.frame nowUs f
    match r.2.1 with
    | .ok => let r2 := Glue.frames r.1 nowUs fs; (r2.1, r2.2.1, r.2.2 ++ r2.2.2)
    | o => (r.1, o, r.2.2)

/-- a 1-RTT packet of the peer arrives -/
def Glue.packet (g : Glue) (nowUs : Int) (fs : List Frame) : Glue × FrameOut × List String :=
  let g1 := { g with idle := g.idle.recv nowUs }
  let r := g1.frames nowUs fs
  match r.2.1 with
  | .ok => r
  | o => ({ r.1 with closed := true }, o, r.2.2)

def Glue.sentPacket (g : Glue) (nowUs : Int) (ae : Bool) : Glue := { g with idle := g.idle.sent nowUs ae }

def Glue.deadline (g : Glue) : Int := g.idle.deadline g.idleTimeout g.pto3

/-- the application opens a bidirectional stream -/
def Glue.openBidi (g : Glue) : Glue × Int :=
  let sid := 4 * g.opened
  let g1 := { g with opened := g.opened + 1 }
  (g1.setStream sid (g1.getStream sid), sid)

/-- the application accepts the streams of `sid`'s kind, in order, until it holds `sid` -/
def Glue.acceptFor (g : Glue) (sid : Int) : Glue :=
  match sidKind sid with
  | .serverBidi =>
    let r := acceptUpTo g.life.inB sid (g.life.inB.streams.length + 1)
    { g with life := { g.life with inB := r.1, ms := g.life.ms ++ r.2 } }
  | .serverUni =>
    let r := acceptUpTo g.life.inU sid (g.life.inU.streams.length + 1)
    { g with life := { g.life with inU := r.1, ms := g.life.ms ++ r.2 } }
  | _ => g

/-- `acc b|u`: one non-blocking AcceptStream / AcceptUniStream -/
def Glue.acceptNext (g : Glue) (uni : Bool) : Glue × Option Int :=
  let r := acceptOne (if uni then g.life.inU else g.life.inB)
  ({ g with life := if uni then { g.life with inU := r.1, ms := g.life.ms ++ r.2.2 }
                    else { g.life with inB := r.1, ms := g.life.ms ++ r.2.2 } }, r.2.1)

/-- the application reads up to `n` bytes; returns the number read and whether it saw the EOF
    (`none`: no such stream) -/
def Glue.read (g : Glue) (sid n : Int) : Glue × Option (Int × Bool) :=
  match g.stream? sid with
  | none => (g, none)
  | some st =>
    let g := g.acceptFor sid
    if n ≤ 0 then (g, some (0, false)) else
    if g.life.eofRead.contains sid then (g, some (0, true)) else
    if g.life.cancelled.contains sid then (g, some (0, false)) else
    let got := min n (st.highest - st.bytesRead)
    if got ≤ 0 then (g, some (0, false)) else
    let r := readData st g.conn got
    -- (`shouldQueueWindowUpdate`: no MAX_STREAM_DATA once the final offset is known)
    let q := if r.2.2 && (g.finOf sid).isNone && !g.queued.contains sid then g.queued ++ [sid] else g.queued
    let g1 := { g.setStream sid r.1 with conn := r.2.1, queued := q }
    if g.finOf sid == some r.1.bytesRead then
      (({ g1 with life := { g1.life with recvDone := g1.life.recvDone ++ [sid], eofRead := g1.life.eofRead ++ [sid] } }).checkCompleted sid,
       some (got, true))
    else (g1, some (got, false))

/-- the application closes the send side of a bidirectional stream it holds (`none`: no such stream) -/
def Glue.closeSend (g : Glue) (sid : Int) : Glue × Bool :=
  match sidKind sid, g.stream? sid with
  | .clientBidi, some _ | .serverBidi, some _ =>
    let g := g.acceptFor sid
    if g.life.sendClosed.contains sid || g.life.sendDone.contains sid then (g, true)
    else ({ g with life := { g.life with sendClosed := g.life.sendClosed ++ [sid] } }, true)
  | _, _ => (g, false)

/-- the application cancels reading (`CancelRead`; false: no such stream) -/
def Glue.stopRead (g : Glue) (sid : Int) : Glue × Bool :=
  match sidKind sid, g.stream? sid with
  | .clientUni, _ | _, none => (g, false)
  | _, some _ =>
    let g := g.acceptFor sid
    if g.life.cancelled.contains sid then (g, true) else
    let g1 := { g with life := { g.life with cancelled := g.life.cancelled ++ [sid] } }
    if g1.life.recvDone.contains sid then (g1, true)
    else if (g1.finOf sid).isSome then (g1.abandon sid, true)
    else (g1, true)

/-- what the next packet carries: MAX_DATA (0: none), MAX_STREAM_DATA per queued stream, MAX_STREAMS,
    RETIRE_CONNECTION_ID -/
structure PackOut where
  maxData : Int
  maxStreamData : List (Int × Int)
  maxStreams : List (Bool × Int)
  retire : List Nat
  /-- a float64 rounding could have decided an auto-tuning step: the model does not predict from here on -/
  gray : Bool
  deriving Repr

def Glue.packStreams (g : Glue) (nowNs : Int) : List Int → Glue × List (Int × Int) × Bool
  | [] => (g, [], false)
  | sid :: rest =>
    match g.stream? sid with
    | none => Glue.packStreams g nowNs rest
    | some st =>
      if (g.finOf sid).isSome then
        -- (`GetWindowUpdate` answers 0 once the final offset is known; the frame queued earlier still leaves)
        let r2 := Glue.packStreams g nowNs rest
        (r2.1, (sid, 0) :: r2.2.1, r2.2.2)
      else
      let near := st.nearThreshold nowNs rttNs
      let r := streamUpdate st g.conn nowNs rttNs
      let r2 := Glue.packStreams { g.setStream sid r.1 with conn := r.2.1 } nowNs rest
      (r2.1, (sid, r.2.2) :: r2.2.1, near || r2.2.2)

/-- the FINs of the closed send sides leave and are acknowledged: those halves are done -/
def Glue.finishSends (g : Glue) : List Int → Glue
  | [] => g
  | sid :: rest =>
    Glue.finishSends (({ g with life := { g.life with sendDone := g.life.sendDone ++ [sid] } }).checkCompleted sid) rest

/-- `sendPackets`: MAX_DATA first, then the framer asks the queued streams; FINs leave; what completes thereby
    queues its MAX_STREAMS, which leaves with the same flight -/
def Glue.pack (g : Glue) (nowUs : Int) : Glue × PackOut :=
  let nowNs := nowUs * 1000
  let near := g.conn.nearThreshold nowNs rttNs
  let c := g.conn.update nowNs rttNs
  let r := Glue.packStreams { g with conn := c.1 } nowNs g.queued
  let g2 := Glue.finishSends { r.1 with life := { r.1.life with sendClosed := [] } } r.1.life.sendClosed
  ({ g2 with queued := [], retire := [], life := { g2.life with ms := [] } },
   { maxData := c.2, maxStreamData := r.2.1, maxStreams := g2.life.ms, retire := g.retire, gray := near || r.2.2 })

end Uquic.Model.UQuic.LimitsGlue
