/-
Model of the per-datagram Initial path of uPacketPacker under loss recovery (property C09): the glue
between the Initial CRYPTO stream, the Initial retransmission queue and the spec's per-datagram frame
builder (nil / QUICFrames / QUICRandomFrames / QUICMultiDatagramFrames).

  u_packet_packer.go   PackCoalescedPacket (the CRYPTO budget: InitialPackets[idx].CryptoLength, the
                       QUICRandomFrames padding reserve), appendInitialPacket,
                       MarshalInitialPacketPayload (Frames.marshalInitial: reassembly, base offset,
                       builder call, datagram index)
  packet_packer.go     maybeGetCryptoPacket: retransmissions first (GetFrame loop), else the
                       PopCryptoFrame loop; the frames handed over are the frames registered with the
                       packet for loss recovery
  retransmission_queue.go  addInitial (OnLost), GetFrame; wire.CryptoFrame.MaybeSplitOffFrame
  crypto_stream.go     initialCryptoStream with scrambling disabled (u_connection.go does that whenever
                       a QUICSpec is in force): Write, HasData, PopCryptoFrame

Environment inputs: the maximum packet size, the long header length as maybeGetCryptoPacket computes
it, the AEAD overhead (16).
-/
import Uquic.Model.UQuic.Planned

namespace Uquic.Model.UQuic.PerDatagram
open Uquic.Model.UQuic.Frames Uquic.Model.UQuic.Scrambler
open Uquic.Model.UQuic.Planned (wireLen getFrames)

abbrev CF := Nat × List UInt8

structure PD where
  fb : Builder := .none
  /-- `CryptoLength` of the spec's InitialPackets (PacketSize 0) -/
  cls : List Int := []
  maxSize : Int := 0
  hdrLen : Int := 0
  /-- the Initial CRYPTO stream (scrambling disabled) -/
  cs : CS := { initial := true }
  queue : List CF := []
  /-- per PackCoalescedPacket call: the CRYPTO frames registered with the packet; `none`: nothing
      was packed, or the packet has been declared lost since -/
  sent : List (Option (List CF)) := []
  /-- `initialDatagramIdx` -/
  idx : Int := 0
deriving Repr

/-- `InitialPacketSpec.planFor(idx).CryptoLength` (last entry repeats; 0 when nothing is configured) -/
def planCL (cls : List Int) (idx : Int) : Int :=
  match cls with
  | [] => 0
  | _ => cls.getD (min idx.toNat (cls.length - 1)) 0

/-- the frame budget PackCoalescedPacket hands to maybeGetCryptoPacket, after the long header has been
    subtracted: `initialMaxSize - hdrLen` -/
def cryptoBudget (s : PD) : Int :=
  let initialMax := s.maxSize - 16
  let cl := planCL s.cls s.idx
  let capped : Int :=
    if cl > 0 then
      let cryptoFrame := 1 + varintLen s.cs.writeOffset + varintLen cl + cl
      let b := s.hdrLen + cryptoFrame
      if b > 0 ∧ b < initialMax then b else initialMax
    else
      match s.fb with
      | .random c =>
        if c.length > 0 ∧ c.minPad ≥ 1 then
          let b := s.hdrLen + c.length - 16
          if b > 0 ∧ b < initialMax then b else initialMax
        else initialMax
      | _ => initialMax
  capped - s.hdrLen

/-- `for hasCryptoData() { cf := popCryptoFrame(max); if cf == nil { break }; … max -= cf.Length }` -/
def popLoop : (fuel : Nat) → CS → Int → CS × List CF
  | 0, s, _ => (s, [])
  | fuel + 1, s, budget =>
    if s.buf.isEmpty then (s, [])
    else
      match basePop s budget with
      | (_, none) => (s, [])
      | (s', some (off, data)) =>
        let r := popLoop fuel s' (budget - wireLen (off.toNat, data))
        (r.1, (off.toNat, data) :: r.2)

/-- maybeGetCryptoPacket(EncryptionInitial) with a given frame budget: retransmissions first (and then
    nothing else), otherwise fresh data from the stream -/
def takeWith (s : PD) (budget : Int) : PD × List CF :=
  if !s.queue.isEmpty then
    let r := getFrames (s.queue.length + (s.queue.map (·.2.length)).sum + 1) budget s.queue
    ({ s with queue := r.2 }, r.1)
  else
    let r := popLoop (s.cs.buf.length + 1) s.cs budget
    ({ s with cs := r.1 }, r.2)

/-- the frames of the next Initial packet of PackCoalescedPacket -/
def takeFrames (s : PD) : PD × List CF := takeWith s (cryptoBudget s)

/-- the frame budget of PackPTOProbePacket(Initial): the whole packet, no CryptoLength / padding-reserve cap -/
def probeBudget (s : PD) : Int := s.maxSize - 16 - s.hdrLen

inductive PackOut where
  | none
  | pkt (payload : List UInt8) (reg : List CF)
  | err (e : String)
  | panic
deriving Repr

/-- appendInitialPacket on the frames taken: MarshalInitialPacketPayload, registration -/
def finish (s : PD) (frames : List CF) (d : Draws) (perm : List Nat) : PD × PackOut :=
  if frames.isEmpty then ({ s with sent := s.sent ++ [none] }, .none)
  else
    match marshalInitial s.fb s.idx false frames d perm with
    | .ok (p, idx') => ({ s with idx := idx', sent := s.sent ++ [some frames] }, .pkt p frames)
    | .err e => ({ s with sent := s.sent ++ [none] }, .err e)
    | _ => ({ s with sent := s.sent ++ [none] }, .panic)

/-- one PackCoalescedPacket call -/
def pack (s : PD) (d : Draws) (perm : List Nat) : PD × PackOut :=
  finish (takeFrames s).1 (takeFrames s).2 d perm

/-- PackPTOProbePacket(EncryptionInitial, addPingIfEmpty = true): when neither the stream nor the queue
    holds anything the packet is a PING as far as the packer is concerned — MarshalInitialPacketPayload
    sees no CRYPTO frame and builds the payload from an empty share; nothing is registered -/
def probe (s : PD) (d : Draws) (perm : List Nat) : PD × PackOut :=
  let t := takeWith s (probeBudget s)
  if t.2.isEmpty && !(s.queue.isEmpty && s.cs.buf.isEmpty) then
    ({ t.1 with sent := t.1.sent ++ [none] }, .none)
  else
    match marshalInitial t.1.fb t.1.idx false t.2 d perm with
    | .ok (p, idx') => ({ t.1 with idx := idx', sent := t.1.sent ++ [some t.2] }, .pkt p t.2)
    | .err e => ({ t.1 with sent := t.1.sent ++ [none] }, .err e)
    | _ => ({ t.1 with sent := t.1.sent ++ [none] }, .panic)

/-- the `k`-th packet is declared lost: OnLost → retransmissionQueue.addInitial for every registered frame -/
def lose (s : PD) (k : Nat) : PD × Bool :=
  match s.sent[k]? with
  | some (some fs) => ({ s with queue := s.queue ++ fs, sent := s.sent.set k none }, true)
  | _ => (s, false)

/-- more handshake data is written to the Initial stream (scrambling is off: a plain append) -/
def writeMore (s : PD) (p : List UInt8) : PD :=
  { s with cs := { s.cs with buf := s.cs.buf ++ p } }

end Uquic.Model.UQuic.PerDatagram
