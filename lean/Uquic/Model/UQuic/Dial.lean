/-
Model of the LOGIC of a spec-driven dial as far as property C02 is concerned (core-only imports):

* `u_transport.go`  `UTransport.dial` / `doDial`: the per-connection draws (source / destination connection ID) and
  which constructor is called with which arguments (`uDial` vs `plainDial`, section "nil spec");
* `u_connection.go` `newUClientConnection` + `internal/wire/u_transport_parameters.go` `PopulateFromUQUIC`: the
  transport-parameter pipeline as far as `initial_source_connection_id` is concerned, INCLUDING what connection
  setup writes into the caller's spec value (`connectWith`): the source connection ID stored in the parameter list,
  the suppressed parameters removed from it, and the key shares uTLS' ApplyPreset stores in the key_share extension;
* `server.go` (`handlePacketImpl`: Initial datagram ≥ MinInitialPacketSize; `handleInitialImpl`: DCID ≥
  MinConnectionIDLenInitial unless a token is present) and `connection.go` `checkTransportParameters` (server
  perspective): `ServerAccepts`.

Whether connection setup works on the spec's own extension objects (`sh`) and whether `PopulateFromUQUIC` fills in an
empty InitialSourceConnectionID entry (`wb`) are parameters of the model; `dial` instantiates them with the shape
facts regenerated from the source tree (`Uquic.Gen.Dial`), so the model follows the tree.

Not modelled (exercised end to end by the `dial` driver only): the TLS handshake, packet protection, loss recovery,
Retry, stream data.
-/
import Uquic.Generated.Protocol
import Uquic.Generated.Dial

namespace Uquic.Model.UQuic.Dial

/-- a connection ID is its byte string -/
abbrev ConnID := List Nat

def minInitialSize : Nat := Uquic.Gen.Protocol.MinInitialPacketSize.toNat
def minDCIDLen : Nat := Uquic.Gen.Protocol.MinConnectionIDLenInitial.toNat
def maxConnIDLen : Nat := Uquic.Gen.Protocol.MaxConnIDLen.toNat

/-- The part of a `QUICSpec` VALUE that matters here. `iscid` is the `tls.InitialSourceConnectionID` entry of the
    spec's QUICTransportParametersExtension list: `none` = not listed, `some []` = listed empty ("fill in the real
    one"), `some v` = a caller-chosen value that is advertised as is. -/
structure Spec where
  scidLen : Nat            -- InitialPacketSpec.SrcConnIDLength
  dcidLen : Nat            -- InitialPacketSpec.DestConnIDLength (0: library default, a random length in 8..20)
  hasQTP : Bool            -- ClientHelloSpec lists a QUICTransportParametersExtension
  iscid : Option ConnID
  suppIscid : Bool         -- SuppressTransportParameters contains initial_source_connection_id (0x0f)
  ksPinned : Bool          -- the key_share extension already carries key material (uTLS then generates no private key)
  tokLen : Nat             -- length of the token the first Initial carries (ClientTokenLength / prefix)
deriving DecidableEq, Repr

/-- what one connection attempt draws / what the packer produced for its first flight -/
structure DialEnv where
  scid : ConnID            -- t.connIDGenerator.GenerateConnectionID()
  dcid : ConnID            -- generateConnectionIDForInitial[WithLength]
  sizes : List Nat         -- sizes of the datagrams that carry an Initial packet
deriving DecidableEq, Repr

/-- what a server can see of the first flight, as far as the modelled checks go -/
structure Flight where
  hdrScid : ConnID             -- source connection ID in the long header
  dcidLen : Nat
  tokLen : Nat
  sizes : List Nat
  advIscid : Option ConnID     -- initial_source_connection_id inside the ClientHello (`none`: absent)
deriving DecidableEq, Repr

/-- the connection's own view -/
structure OwnParams where
  iscid : ConnID               -- `params.InitialSourceConnectionID` the connection believes it advertised
  hasPrivKey : Bool            -- the TLS stack holds the private keys of the key shares it sends
deriving DecidableEq, Repr

/-- the parameter list after `SuppressQUICTransportParameters` -/
def effIscid (s : Spec) : Option ConnID := if s.suppIscid then none else s.iscid

/-- `PopulateFromUQUIC` on the (filtered) list: the entry as it is afterwards — an empty one is overwritten with the
    connection's source connection ID when `wb` -/
def listedAfter (wb : Bool) (s : Spec) (scid : ConnID) : Option ConnID :=
  match effIscid s with
  | some [] => if wb then some scid else some []
  | x => x

/-- `params.InitialSourceConnectionID`: preset to the real one, replaced by a non-empty listed value -/
def ownIscid (s : Spec) (scid : ConnID) : ConnID :=
  match effIscid s with
  | some (b :: bs) => b :: bs
  | _ => scid

/-- One connection attempt (`newUClientConnection` + ApplyPreset): the spec value afterwards, the flight, the
    connection's own parameters. `sh`: setup works on the spec's own extension objects. -/
def connectWith (sh wb : Bool) (s : Spec) (e : DialEnv) : Spec × Flight × OwnParams :=
  let listed := listedAfter wb s e.scid
  let s' : Spec := if sh then { s with iscid := listed, ksPinned := true } else s
  (s',
   { hdrScid := e.scid, dcidLen := e.dcid.length, tokLen := s.tokLen, sizes := e.sizes, advIscid := listed },
   { iscid := ownIscid s e.scid, hasPrivKey := !s.ksPinned })

/-- the model of the current source tree -/
def dial (s : Spec) (e : DialEnv) : Spec × Flight × OwnParams :=
  connectWith Uquic.Gen.Dial.specExtsShared Uquic.Gen.Dial.populateWritesBack s e

/-- the checks of a conformant server that depend on the modelled fields -/
def ServerAccepts (f : Flight) : Bool :=
  f.sizes.all (fun n => decide (minInitialSize ≤ n)) &&
  (decide (0 < f.tokLen) || decide (minDCIDLen ≤ f.dcidLen)) &&
  (f.advIscid == some f.hdrScid)

/-- the dial completes: the server accepts the flight and the client can use the server's key share -/
def DialOK (r : Spec × Flight × OwnParams) : Bool := ServerAccepts r.2.1 && r.2.2.hasPrivKey

/-- a spec value as the built-in parrots (and the derivations that keep what the peer requires) provide it -/
def wellFormed (s : Spec) : Bool :=
  s.hasQTP && !s.suppIscid && (s.iscid == some []) && !s.ksPinned &&
  (decide (s.dcidLen = 0) || decide (minDCIDLen ≤ s.dcidLen)) && decide (s.dcidLen ≤ maxConnIDLen) &&
  decide (s.scidLen ≤ maxConnIDLen)

/-- draws as the generators produce them for `s`, and first-flight datagrams of legal size -/
def wellFormedEnv (s : Spec) (e : DialEnv) : Bool :=
  decide (e.scid.length = s.scidLen) &&
  (if s.dcidLen = 0 then decide (minDCIDLen ≤ e.dcid.length) && decide (e.dcid.length ≤ maxConnIDLen)
   else decide (e.dcid.length = s.dcidLen)) &&
  e.sizes.all (fun n => decide (minInitialSize ≤ n))

/-- successive connection attempts on ONE spec value (successive dials, or the attempts of one dial that follows a
    Version Negotiation): attempt k+1 starts from the spec value attempt k left behind -/
def runWith (sh wb : Bool) : Spec → List DialEnv → List (Spec × Flight × OwnParams)
  | _, [] => []
  | s, e :: es => let r := connectWith sh wb s e; r :: runWith sh wb r.1 es

def run : Spec → List DialEnv → List (Spec × Flight × OwnParams) :=
  runWith Uquic.Gen.Dial.specExtsShared Uquic.Gen.Dial.populateWritesBack

/-- the spec value after a sequence of attempts -/
def specAfter (sh wb : Bool) : Spec → List DialEnv → Spec
  | s, [] => s
  | s, e :: es => specAfter sh wb (connectWith sh wb s e).1 es

/-! ### nil spec: `UTransport{QUICSpec: nil}` versus `Transport` -/

/-- which constructor `doDial` calls -/
inductive Ctor | plain | uquic
deriving DecidableEq, Repr

/-- the caller's input and the draws of one dial; configs are opaque values (`populateConfig` is a parameter) -/
structure DialIn (Cfg : Type) where
  conf : Cfg
  scidDraw : ConnID          -- connIDGenerator output
  dcidDefault : ConnID       -- generateConnectionIDForInitial()
  dcidSized : Nat → ConnID   -- generateConnectionIDForInitialWithLength(n)
  use0RTT : Bool

/-- the constructor call `doDial` makes -/
structure CtorCall (Cfg : Type) where
  ctor : Ctor
  destConnID : ConnID
  srcConnID : ConnID
  conf : Cfg
  initialPN : Nat
  use0RTT : Bool
  hasNegotiatedVersion : Bool
  withSpec : Bool            -- the extra `t.QUICSpec` argument

/-- `Transport.dial` + `Transport.doDial` -/
def plainDial {Cfg} (populate : Cfg → Cfg) (i : DialIn Cfg) : CtorCall Cfg :=
  { ctor := .plain, destConnID := i.dcidDefault, srcConnID := i.scidDraw, conf := populate i.conf,
    initialPN := 0, use0RTT := i.use0RTT, hasNegotiatedVersion := false, withSpec := false }

/-- the spec-dependent inputs of `UTransport.dial`: `UpdateConfig`, `initialPN()`, `DestConnIDLength` -/
structure USpec (Cfg : Type) where
  updateConfig : Cfg → Cfg
  initialPN : Nat
  dcidLen : Nat

/-- `UTransport.dial` + `UTransport.doDial`: Transport's statements plus the ones guarded by `t.QUICSpec != nil` -/
def uDial {Cfg} (populate : Cfg → Cfg) (spec : Option (USpec Cfg)) (i : DialIn Cfg) : CtorCall Cfg :=
  let conf := populate i.conf
  let conf := match spec with | some s => s.updateConfig conf | none => conf
  let pn := match spec with | some s => s.initialPN | none => 0
  let dcid := match spec with
    | some s => if 0 < s.dcidLen then i.dcidSized s.dcidLen else i.dcidDefault
    | none => i.dcidDefault
  match spec with
  | none => { ctor := .plain, destConnID := dcid, srcConnID := i.scidDraw, conf := conf, initialPN := pn,
              use0RTT := i.use0RTT, hasNegotiatedVersion := false, withSpec := false }
  | some _ => { ctor := .uquic, destConnID := dcid, srcConnID := i.scidDraw, conf := conf, initialPN := pn,
                use0RTT := i.use0RTT, hasNegotiatedVersion := false, withSpec := true }

/-- the shape facts (regenerated from u_transport.go / transport.go) that make `uDial`/`plainDial` a model of the code -/
def nilSpecShapeFacts : Bool :=
  Uquic.Gen.Dial.nilBranchCallsPlainCtor && Uquic.Gen.Dial.nilBranchArgsMatch &&
  Uquic.Gen.Dial.specBranchCallsUCtor && Uquic.Gen.Dial.dcidDefaultWhenNoSpec &&
  Uquic.Gen.Dial.doDialRestEqual && Uquic.Gen.Dial.dialHasPlainStmtsInOrder &&
  Uquic.Gen.Dial.dialExtrasGuardedBySpec

/-! ### the built-in parrots as data -/

/-- the `Spec` of a row of the regenerated parrot table (a fresh value: nothing pinned, no token, nothing suppressed) -/
def ofParrot (p : String × Nat × Nat × Nat × Bool × Bool × Bool × Nat × Nat) : Spec :=
  { scidLen := p.2.1, dcidLen := p.2.2.1, hasQTP := p.2.2.2.2.2.1,
    iscid := if p.2.2.2.2.1 then some [] else none, suppIscid := false, ksPinned := false, tokLen := 0 }

def builtins : List Spec := Uquic.Gen.Dial.parrots.map ofParrot

/-- (initial_max_streams_uni, initial_max_streams_bidi) a parrot row advertises -/
def parrotStreams (p : String × Nat × Nat × Nat × Bool × Bool × Bool × Nat × Nat) : Nat × Nat :=
  (p.2.2.2.2.2.2.2.1, p.2.2.2.2.2.2.2.2)

end Uquic.Model.UQuic.Dial
