import Uquic.Model.Conn.Timer
/-
Model of the idle-period bookkeeping of `Conn` (/repo/connection.go, RFC 9000 10.1): which instant the idle
timeout is measured from.

* receiving ANY packet that was processed successfully (`handleUnpackedShortHeaderPacket`,
  `handleUnpackedLongHeaderPacket`) sets `lastPacketReceivedTime` and clears
  `firstAckElicitingPacketAfterIdleSentTime` — whether or not the packet was ack-eliciting;
* sending a packet (`registerPackedShortHeaderPacket`, `sendPackedCoalescedPacket`) sets
  `firstAckElicitingPacketAfterIdleSentTime` if it is unset and the packet is ack-eliciting;
* `idleTimeoutStartTime` = the later of the two.

Times are `Int` (any unit). Core-only.
-/
namespace Uquic.Model.Conn.Idle

structure St where
  lastRecv : Int
  firstAE : Option Int       -- firstAckElicitingPacketAfterIdleSentTime (`none` = zero time)
deriving Repr, DecidableEq, Inhabited

inductive Op where
  | recv (t : Int)               -- a packet (of any kind) was received and processed at t
  | sent (t : Int) (ae : Bool)   -- a packet was sent at t; ae: it is ack-eliciting
deriving Repr, DecidableEq, Inhabited

def Op.isRecv : Op → Bool
  | .recv _ => true
  | .sent _ _ => false

def Op.isAESent : Op → Bool
  | .recv _ => false
  | .sent _ ae => ae

def Op.time : Op → Int
  | .recv t => t
  | .sent t _ => t

def step (s : St) : Op → St
  | .recv t => { lastRecv := t, firstAE := none }
  | .sent t ae => if s.firstAE.isNone && ae then { s with firstAE := some t } else s

def run (s : St) (ops : List Op) : St := ops.foldl step s

/-- `idleTimeoutStartTime` -/
def idleStart (s : St) : Int :=
  match s.firstAE with
  | some t => if t > s.lastRecv then t else s.lastRecv
  | none => s.lastRecv

/-- the state as `maybeResetTimer` sees it (everything else supplied by the caller) -/
def toTimer (s : St) (i : Timer.Input) : Timer.Input := { i with lastRecv := s.lastRecv, firstAE := s.firstAE }

theorem idleStart_toTimer (s : St) (i : Timer.Input) : Timer.idleStart (toTimer s i) = idleStart s := rfl

end Uquic.Model.Conn.Idle
