/-
Model of `Conn.maybeResetTimer` (/repo/connection.go): which deadlines are folded into the run-loop timer
under which blocking mode. Times are `Int` milliseconds; the three optional deadlines are `Option`
(`monotime.Time.IsZero` = `none`). Core-only.
-/
namespace Uquic.Model.Conn.Timer

inductive Blocked where
  | none | congestionLimited | hardBlocked
deriving Repr, DecidableEq, Inhabited

structure Input where
  handshakeComplete : Bool
  blocked : Blocked
  created : Int
  lastRecv : Int
  firstAE : Option Int              -- firstAckElicitingPacketAfterIdleSentTime
  idleTimeout : Int
  hsIdleTimeout : Int
  keepAlivePeriod : Int             -- 0 = keep-alives off
  keepAlivePingSent : Bool
  keepAliveInterval : Int
  pto : Int                         -- rttStats.PTO(true)
  ackAlarm : Option Int             -- receivedPacketHandler.GetAlarmTimeout()
  loss : Option Int                 -- sentPacketHandler.GetLossDetectionTimeout()
  pacing : Option Int               -- pacingDeadline
deriving Repr, Inhabited

/-- `idleTimeoutStartTime` -/
def idleStart (i : Input) : Int :=
  match i.firstAE with
  | some t => if t > i.lastRecv then t else i.lastRecv
  | none => i.lastRecv

/-- `nextIdleTimeoutTime` -/
def nextIdle (i : Input) : Int := idleStart i + max i.idleTimeout (i.pto * 3)

/-- `nextKeepAliveTime` (`none` = zero time) -/
def nextKeepAlive (i : Input) : Option Int :=
  if i.keepAlivePeriod == 0 || i.keepAlivePingSent then none
  else some (i.lastRecv + max i.keepAliveInterval (i.pto * 3 / 2))

/-- the first part: handshake / keep-alive / idle deadline -/
def baseDeadline (i : Input) : Int :=
  if !i.handshakeComplete then
    let d := i.created + 2 * i.hsIdleTimeout
    let t := idleStart i + i.hsIdleTimeout
    if t < d then t else d
  else if i.blocked != .none then nextIdle i
  else match nextKeepAlive i with
    | some t => t
    | none => nextIdle i

def fold (d : Int) : Option Int → Int
  | some t => if t < d then t else d
  | none => d

/-- the deadline `maybeResetTimer` arms the timer with -/
def deadline (i : Input) : Int :=
  let d := baseDeadline i
  if i.blocked == .hardBlocked then d
  else
    let d := fold d i.ackAlarm
    let d := fold d i.loss
    if i.blocked == .congestionLimited then d
    else fold d i.pacing

end Uquic.Model.Conn.Timer
