/-
Model of the anti-amplification accounting slice of
internal/ackhandler/sent_packet_handler.go (property C14):

  NewSentPacketHandler   (peerAddressValidated := pers == Client || clientAddressValidated)
  ReceivedBytes          (bytesReceived += n          — called by connection.go handleOnePacket for EVERY
                          datagram attributed to the connection, before any parsing or decryption, so
                          undecryptable / garbage datagrams count as received bytes as well)
  ReceivedPacket         (server ∧ level = Handshake ∧ ¬validated ⇒ validated := true; called only after a
                          packet was decrypted and its frames were handled without error)
  SentPacket             (bytesSent += size — unconditionally the first statement: EVERY packet counts,
                          ack-eliciting or not, path probes and MTU probes included)
  isAmplificationLimited (¬validated ∧ bytesSent >= amplificationFactor * bytesReceived)
  SendMode               (the amplification test is the FIRST test: when limited the answer is SendNone,
                          whatever the PTO / congestion / pacing state is — PTO probes and ACK-only packets
                          are blocked too)

Everything else `SendMode` looks at (number of tracked packets, numProbesToSend/ptoMode, congestion window,
pacing budget) is the environment input `wants : Mode`: the answer the rest of the function gives.

Byte counts are Go `protocol.ByteCount` (int64).  No quantity is ever subtracted in this slice, so `Nat` is
faithful as long as `3 * bytesReceived` stays below 2^63 (8 EiB received on one connection); that range
assumption is recorded in checks/C14.json.
-/
import Uquic.Generated.Ackhandler

namespace Uquic.Model.Amp

/-- `amplificationFactor` of sent_packet_handler.go (regenerated from the source) -/
def amplificationFactor : Nat := Uquic.Gen.Ackhandler.amplificationFactor.toNat

inductive Persp | client | server
deriving Repr, DecidableEq

inductive Level | initial | handshake | zeroRTT | oneRTT
deriving Repr, DecidableEq

/-- ackhandler.SendMode -/
inductive Mode | none | ack | ptoInitial | ptoHandshake | ptoAppData | pacingLimited | any
deriving Repr, DecidableEq

/-- numeric value of the Go constant (send_mode.go), regenerated -/
def Mode.code : Mode → Int
  | .none => Uquic.Gen.Ackhandler.SendNone
  | .ack => Uquic.Gen.Ackhandler.SendAck
  | .ptoInitial => Uquic.Gen.Ackhandler.SendPTOInitial
  | .ptoHandshake => Uquic.Gen.Ackhandler.SendPTOHandshake
  | .ptoAppData => Uquic.Gen.Ackhandler.SendPTOAppData
  | .pacingLimited => Uquic.Gen.Ackhandler.SendPacingLimited
  | .any => Uquic.Gen.Ackhandler.SendAny

def Mode.ofCode (c : Int) : Option Mode :=
  [Mode.none, .ack, .ptoInitial, .ptoHandshake, .ptoAppData, .pacingLimited, .any].find? (·.code == c)

/-- the accounting slice of `sentPacketHandler` -/
structure H where
  persp : Persp
  bytesSent : Nat := 0
  bytesReceived : Nat := 0
  /-- `peerAddressValidated` -/
  validated : Bool
deriving Repr, DecidableEq

/-- `NewSentPacketHandler(…, clientAddressValidated, …, pers, …)` -/
def H.new (pers : Persp) (clientAddressValidated : Bool) : H :=
  { persp := pers, validated := pers == .client || clientAddressValidated }

/-- `isAmplificationLimited` -/
def H.isAmplificationLimited (h : H) : Bool :=
  if h.validated then false
  else decide (h.bytesSent ≥ amplificationFactor * h.bytesReceived)

/-- `ReceivedBytes(n, t)` (the timer re-arm is outside this slice) -/
def H.receivedBytes (h : H) (n : Nat) : H :=
  { h with bytesReceived := h.bytesReceived + n }

/-- `ReceivedPacket(l, t)` -/
def H.receivedPacket (h : H) (l : Level) : H :=
  if h.persp = .server ∧ l = .handshake ∧ h.validated = false then { h with validated := true } else h

/-- `SentPacket(…, size, …)`: the first statement `h.bytesSent += size` -/
def H.sentPacket (h : H) (size : Nat) : H :=
  { h with bytesSent := h.bytesSent + size }

/-- one datagram = the coalesced packets are registered one after the other (connection.go
    `sendPackedCoalescedPacket`) -/
def H.sentDatagram (h : H) (sizes : List Nat) : H :=
  sizes.foldl H.sentPacket h

/-- `SendMode(now)`; `wants` = what the function answers once the amplification test is passed -/
def H.sendMode (h : H) (wants : Mode) : Mode :=
  if h.isAmplificationLimited then .none else wants

/-! ### histories of the handler API (the slice) -/

inductive Op
  /-- `ReceivedBytes(n)`: a datagram of `n` bytes was attributed to the connection -/
  | rcvBytes (n : Nat)
  /-- `ReceivedPacket(l)`: a packet of level `l` was decrypted and processed -/
  | rcvPacket (l : Level)
  /-- `SendMode()` consulted; `wants` is the environment's answer for the non-amplification part -/
  | mode (wants : Mode)
  /-- one datagram sent: `SentPacket(size)` for each coalesced packet -/
  | sent (sizes : List Nat)
deriving Repr, DecidableEq

/-- run state: the handler plus ghosts used by the statements -/
structure St where
  h : H
  /-- ghost: the last `SendMode` answer was ≠ SendNone and no datagram was sent since -/
  permitted : Bool := false
  /-- ghost: size of the last datagram sent (0 if none) -/
  last : Nat := 0
  /-- ghost: true iff every `sent` so far happened while `permitted` -/
  disciplined : Bool := true
  /-- ghost: bytes put on the wire / taken from the wire according to the ops -/
  wireOut : Nat := 0
  wireIn : Nat := 0
deriving Repr, DecidableEq

def sum (l : List Nat) : Nat := l.foldl (· + ·) 0

def St.step (s : St) : Op → St
  | .rcvBytes n => { s with h := s.h.receivedBytes n, wireIn := s.wireIn + n }
  | .rcvPacket l => { s with h := s.h.receivedPacket l }
  | .mode wants => { s with permitted := s.h.sendMode wants != .none }
  | .sent sizes =>
    { s with h := s.h.sentDatagram sizes, permitted := false, last := sum sizes,
             disciplined := s.disciplined && s.permitted, wireOut := s.wireOut + sum sizes }

def St.init (pers : Persp) (clientAddressValidated : Bool) : St := { h := H.new pers clientAddressValidated }

def run (pers : Persp) (cav : Bool) (ops : List Op) : St := ops.foldl St.step (St.init pers cav)

end Uquic.Model.Amp
