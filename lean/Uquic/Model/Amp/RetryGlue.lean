/-
Model of the GLUE between the token decision and the connection (property C14):

  server.go      handleInitialImpl:  tok, err := s.tokenGenerator.DecodeToken(hdr.Token)
                                     origDestConnID = tok.OriginalDestConnectionID      (a VALUE, copied)
                                     retrySrcConnID = &tok.RetrySrcConnectionID         (a POINTER into *tok)
                                     clientAddrVerified = s.validateToken(token, p.remoteAddr)
                                     conn = s.newConn(…, origDestConnID, retrySrcConnID, …, clientAddrVerified, rtt, …)
  connection.go  newConnection:      sentPacketHandler = NewSentPacketHandler(…, clientAddressValidated, …, server)
                                     params.OriginalDestinationConnectionID = origDestConnID
                                     params.RetrySourceConnectionID         = retrySrcConnID   (still the pointer)
  crypto_setup.go handleEvent:       QUICTransportParametersRequired ⇒ ourParams.Marshal()  — LATER, on the
                                     connection's goroutine, when the ClientHello has been processed; meanwhile the
                                     server's receive goroutine goes on decoding the tokens of other Initial packets.

The decision itself is `Tok.handleInitial` (a pure function).  Here the Go heap is made explicit: every `*Token` is
an address into `Srv.heap`; a connection keeps the ADDRESS of the token its Retry source connection ID lives in and
dereferences it at the time of use.  `Alloc.fresh` is token_generator.go as it is (`token := &Token{…}`: a new
object per call); `Alloc.scratch` is the tempting allocation-free rewrite (decode into a generator-owned Token and
return a pointer to it) — it exists so that the theorems can be shown to tell the two apart.
-/
import Uquic.Model.Amp.Token
import Uquic.Model.Amp.Limit

namespace Uquic.Model.RetryGlue

open Uquic.Model.Tok Uquic.Model.Amp

/-- one Initial packet that reaches `handleInitialImpl`, with the environment at that moment -/
structure IPkt where
  hdrToken : Bytes
  hdrDCID : Bytes
  remote : Addr
  now : Int
  /-- `s.verifySourceAddress != nil && s.verifySourceAddress(p.remoteAddr)` -/
  wantsRetry : Bool
deriving Repr, DecidableEq

/-- server-wide configuration -/
structure Cfg where
  E : Crypto
  C : Codec
  secret : Bytes
  maxTokenAge : Int
  maxRetryAge : Int

/-- the pure decision for one packet -/
def decide1 (cfg : Cfg) (p : IPkt) : InitialOutcome :=
  handleInitial cfg.E cfg.C cfg.secret p.hdrToken p.hdrDCID p.remote p.now cfg.maxTokenAge cfg.maxRetryAge p.wantsRetry

/-- a server connection as `newConnection` leaves it -/
structure Conn where
  /-- `params.OriginalDestinationConnectionID` (copied at creation) -/
  odcid : Bytes
  /-- `params.RetrySourceConnectionID`: `none` = nil, `some a` = the address of the Token object whose
      `RetrySrcConnectionID` field it points into -/
  rscidRef : Option Nat
  /-- the `clientAddressValidated` argument -/
  av : Bool
  rtt : Int
  /-- `NewSentPacketHandler(…, clientAddressValidated, …, PerspectiveServer, …)` -/
  h : H
deriving Repr, DecidableEq

/-- `newConnection(…, origDestConnID, retrySrcConnID, …, clientAddressValidated, rtt, …)` -/
def newConnection (odcid : Bytes) (rscidRef : Option Nat) (av : Bool) (rtt : Int) : Conn :=
  { odcid := odcid, rscidRef := rscidRef, av := av, rtt := rtt, h := H.new .server av }

structure Srv where
  /-- the `Token` objects `DecodeToken` handed out, by address -/
  heap : List Token := []
  /-- the connections created so far, oldest first -/
  conns : List Conn := []
deriving Repr, DecidableEq

inductive Alloc
  /-- `token := &Token{…}` — a new object per call (token_generator.go) -/
  | fresh
  /-- `token := &g.decoded; *token = Token{…}` — one generator-owned object, overwritten by every call -/
  | scratch
deriving Repr, DecidableEq

/-- where `DecodeToken` puts its result, and the address it returns -/
def place (al : Alloc) (heap : List Token) (t : Token) : List Token × Nat :=
  match al with
  | .fresh => (heap ++ [t], heap.length)
  | .scratch => (t :: heap.drop 1, 0)

/-- `if len(hdr.Token) > 0 { tok, err := s.tokenGenerator.DecodeToken(hdr.Token) … }` as a value -/
def decOf (cfg : Cfg) (p : IPkt) : Decoded :=
  if p.hdrToken.length > 0 then decodeToken cfg.E cfg.C cfg.secret p.hdrToken else .absent

/-- the heap effect of that call and the pointer `retrySrcConnID` that `handleInitialImpl` derives from its result
    (`&tok.RetrySrcConnectionID` for a Retry token, nil otherwise) -/
def decodeStep (al : Alloc) (heap : List Token) : Decoded → List Token × Option Nat
  | .ok tok => ((place al heap tok).1, if tok.isRetryToken then some (place al heap tok).2 else none)
  | _ => (heap, none)

/-- `handleInitialImpl` for one packet -/
def Srv.initial (al : Alloc) (cfg : Cfg) (s : Srv) (p : IPkt) : Srv :=
  let hr := decodeStep al s.heap (decOf cfg p)
  match decide1 cfg p with
  | .proceed av o _ rtt => { heap := hr.1, conns := s.conns ++ [newConnection o hr.2 av rtt] }
  | _ => { s with heap := hr.1 }

def run (al : Alloc) (cfg : Cfg) (pkts : List IPkt) : Srv := pkts.foldl (Srv.initial al cfg) {}

/-- what the connection puts into its transport parameters when the TLS stack asks for them, in server state `s`
    (`none` in the second component: no retry_source_connection_id parameter) -/
def paramsAtUse (s : Srv) (c : Conn) : Bytes × Option Bytes :=
  (c.odcid, c.rscidRef.bind fun a => (s.heap[a]?).map (·.rscid))

/-- the reference: what the pure decision says each accepted packet's connection carries -/
def pureConn : InitialOutcome → Option (Bytes × Option Bytes × Bool)
  | .proceed av o r _ => some (o, r, av)
  | _ => none

def pureConns (cfg : Cfg) (pkts : List IPkt) : List (Bytes × Option Bytes × Bool) :=
  pkts.filterMap fun p => pureConn (decide1 cfg p)

end Uquic.Model.RetryGlue
