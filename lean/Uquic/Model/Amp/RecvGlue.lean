import Uquic.Model.Amp.Limit
import Uquic.Generated.Protocol

/-!
# The receive path of the connection, as far as the sent packet handler is concerned (C14 glue, round 5)

connection.go `handleOnePacket` / `handleLongHeaderPacket` / `handleShortHeaderPacket` / `handleUnpackError` /
`tryQueueingUndecryptablePacket` / the re-processing loop of `run`:

* a datagram attributed to the connection is credited (`ReceivedBytes(size)`) BEFORE anything is parsed;
* then its coalesced packets are walked.  A packet is described here by what an observer who knows the connection's
  keys can say about it: its header type, whether the AEAD tag verifies under the connection's read key of that level
  (`authentic` — only the peer can produce such a packet), whether its packet number is new, whether its frames are
  acceptable.  What the walk does with it depends on the key state of the level:
    keys not yet available → buffered (`undecryptablePackets`, at most MaxUndecryptablePackets),
    keys dropped           → dropped,
    keys available         → dropped when not authentic (`ErrDecryptionFailed`) or a duplicate; otherwise its frames are
                             handled and ONLY THEN `ReceivedPacket(level)` is called (the call that validates the
                             client's address at Handshake level);
* when the TLS stack installs read keys (`EventReceivedReadKeys`) every buffered packet is handled again by
  `handleOnePacket`.  `creditAgain` is the regenerated fact `Gen.AmpRecv.requeuedPacketsCreditedAgain`: does that second
  handling call `ReceivedBytes` again.

Nothing here is about sending; the handler `h` is `Model.Amp.H`, so every theorem about handler histories applies to the
calls this model makes.
-/
namespace Uquic.Model.Recv

open Uquic.Model.Amp

inductive Kind | initial | zeroRTT | handshake | short
deriving Repr, DecidableEq

def Kind.level : Kind → Level
  | .initial => .initial
  | .zeroRTT => .zeroRTT
  | .handshake => .handshake
  | .short => .oneRTT

/-- one coalesced packet as the walk meets it -/
structure RawPkt where
  kind : Kind
  size : Nat
  /-- the AEAD tag verifies under the connection's read key of its level -/
  authentic : Bool
  /-- packet number not received before -/
  fresh : Bool := true
  /-- frames allowed at this level and handled without error -/
  framesOk : Bool := true
  /-- header parses, version matches, destination connection ID equals the first packet's -/
  headerOk : Bool := true
deriving Repr, DecidableEq

/-- the packet that validates an address: a Handshake packet only the peer can have made, accepted by the connection -/
def RawPkt.good (p : RawPkt) : Bool :=
  p.kind == .handshake && p.authentic && p.fresh && p.framesOk && p.headerOk

/-- read keys of the crypto setup (`initialOpener`, `handshakeOpener`, `zeroRTTOpener`, `has1RTTOpener`) -/
structure Keys where
  initial : Bool := true
  handshake : Bool := false
  zeroRTT : Bool := false
  oneRTT : Bool := false
deriving Repr, DecidableEq

inductive KeyState | notYet | avail | dropped
deriving Repr, DecidableEq

/-- `GetInitialOpener` / `Get0RTTOpener` / `GetHandshakeOpener` / `Get1RTTOpener` -/
def Keys.state (k : Keys) : Kind → KeyState
  | .initial => if k.initial then .avail else .dropped
  | .zeroRTT => if k.zeroRTT then .avail else if k.initial then .notYet else .dropped
  | .handshake => if k.handshake then .avail else if k.initial then .notYet else .dropped
  | .short => if k.oneRTT then .avail else .notYet

inductive Outcome
  /-- unpacked, frames handled: `ReceivedPacket(level)` -/
  | processed (l : Level)
  /-- `ErrKeysNotYetAvailable`: queued for later -/
  | buffered
  /-- keys dropped / decryption failed / duplicate: the walk continues -/
  | dropped
  /-- header error / other connection ID: the walk ends -/
  | stop
  /-- a frame error closes the connection -/
  | closeErr
deriving Repr, DecidableEq

def outcome (k : Keys) (p : RawPkt) : Outcome :=
  if !p.headerOk then .stop
  else match k.state p.kind with
    | .notYet => .buffered
    | .dropped => .dropped
    | .avail =>
      if !p.authentic then .dropped
      else if !p.fresh then .dropped
      else if !p.framesOk then .closeErr
      else .processed p.kind.level

def maxUndecryptable : Nat := Uquic.Gen.Protocol.MaxUndecryptablePackets.toNat

structure C where
  h : H
  keys : Keys := {}
  /-- `undecryptablePackets` -/
  queue : List RawPkt := []
  closed : Bool := false
  /-- ghost: `ReceivedPacket` calls made (= ConnectionStats.PacketsReceived) -/
  packets : Nat := 0
deriving Repr, DecidableEq

/-- the walk of `handleOnePacket` over the coalesced packets -/
def C.walk (c : C) : List RawPkt → C
  | [] => c
  | p :: rest =>
    match outcome c.keys p with
    | .stop => c
    | .closeErr => { c with closed := true }
    | .dropped => c.walk rest
    | .buffered => ({ c with queue := if c.queue.length < maxUndecryptable then c.queue ++ [p] else c.queue }).walk rest
    | .processed l =>
      -- a server drops its Initial keys when it has processed the first Handshake packet
      let keys := if l = .handshake ∧ c.h.persp = .server then { c.keys with initial := false } else c.keys
      ({ c with h := c.h.receivedPacket l, keys := keys, packets := c.packets + 1 }).walk rest

/-- `handleOnePacket(datagram)`: credit first, then walk -/
def C.datagram (c : C) (size : Nat) (pkts : List RawPkt) : C :=
  if c.closed then c else ({ c with h := c.h.receivedBytes size }).walk pkts

/-- one buffered packet handled again (run loop, `undecryptablePacketsToProcess`) -/
def C.again (creditAgain : Bool) (c : C) (p : RawPkt) : C :=
  if c.closed then c
  else (if creditAgain then { c with h := c.h.receivedBytes p.size } else c).walk [p]

inductive Ev
  /-- a datagram of `size` bytes with these coalesced packets is attributed to the connection -/
  | datagram (size : Nat) (pkts : List RawPkt)
  /-- the TLS stack installs read keys of this level (`EventReceivedReadKeys`): buffered packets are handled again -/
  | readKeys (k : Kind)
deriving Repr, DecidableEq

def Keys.install (k : Keys) : Kind → Keys
  | .initial => k
  | .zeroRTT => { k with zeroRTT := true }
  | .handshake => { k with handshake := true }
  | .short => { k with oneRTT := true }

def C.step (creditAgain : Bool) (c : C) : Ev → C
  | .datagram size pkts => c.datagram size pkts
  | .readKeys k =>
    let q := c.queue
    q.foldl (C.again creditAgain) { c with keys := c.keys.install k, queue := [] }

def run (creditAgain : Bool) (c : C) (evs : List Ev) : C := evs.foldl (C.step creditAgain) c

/-- bytes that arrived -/
def arrived : List Ev → Nat
  | [] => 0
  | .datagram size _ :: r => size + arrived r
  | _ :: r => arrived r

/-- every packet the events carry -/
def packetsOf : List Ev → List RawPkt
  | [] => []
  | .datagram _ pkts :: r => pkts ++ packetsOf r
  | _ :: r => packetsOf r

/-! ### the seeded alternative: the handler is told about the packet BEFORE it is unpacked (level from the header type) -/

def C.walkEarly (c : C) : List RawPkt → C
  | [] => c
  | p :: rest =>
    if !p.headerOk then c
    else
      let c := { c with h := c.h.receivedPacket p.kind.level, packets := c.packets + 1 }
      match outcome c.keys p with
      | .stop => c
      | .closeErr => { c with closed := true }
      | .buffered => ({ c with queue := if c.queue.length < maxUndecryptable then c.queue ++ [p] else c.queue }).walkEarly rest
      | _ => c.walkEarly rest

def C.datagramEarly (c : C) (size : Nat) (pkts : List RawPkt) : C :=
  if c.closed then c else ({ c with h := c.h.receivedBytes size }).walkEarly pkts

end Uquic.Model.Recv
