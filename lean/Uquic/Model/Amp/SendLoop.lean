/-
Model of the sending part of connection.go's run loop, as far as it decides WHEN a datagram may be handed
to the send queue (property C14, theorem `send_loop_consults_mode`).

What is there (connection.go):

  run loop           → `triggerSending(now)` is the only caller of the packet-sending functions.
  triggerSending     → `mode := SendMode(now)`; then
      SendNone            : mark hard-blocked, return                        (nothing sent)
      SendAny             : `sendPackets`
      SendPacingLimited,
      SendAck             : `maybeSendAckOnlyPacket`  (at most ONE datagram, no further consultation)
      SendPTO*            : `sendProbePacket` (exactly ONE coalesced datagram or an error), then
                            `triggerSending(now)` again — i.e. a fresh consultation — unless the send
                            queue would block (then `scheduleSending`, the run loop calls triggerSending).
  sendPackets, handshake NOT confirmed
                     → `PackCoalescedPacket` (≤ maxPacketSize, Initial+Handshake+1-RTT packets coalesced),
                       `sendPackedCoalescedPacket` registers every coalesced packet with `SentPacket`,
                       ONE datagram; then `SendMode` is consulted again only to set the pacing deadline
                       and the function returns.  The next datagram needs the next `triggerSending`.
  sendPackets, handshake confirmed (GSO or not)
                     → loop: append ONE short-header packet (`SentPacket`), consult `SendMode`; continue
                       only on SendAny.  (MTU probe / path probe: one packet, then `scheduleSending`.)
                       With GSO several packets travel in one syscall, but each packet after the first is
                       appended only after a consultation that answered SendAny.

So: one consultation permits at most one datagram before confirmation, and at most one packet after it.
The environment (packer, congestion controller, pacer, PTO state) is a list of `Env` records consumed one
per consultation: what the rest of `SendMode` would answer, and what the packer produces.

NOT covered by this loop, because the code does not route it through `SendMode`/`SentPacket`:
`sendConnectionClose` (handleCloseError → one CONNECTION_CLOSE datagram written directly with
`c.conn.Write`, neither checked against the amplification limit nor added to `bytesSent`), its
retransmissions by `closedLocalConn`, and the stateless packets of server.go (Retry, Version Negotiation,
CONNECTION_REFUSED / INVALID_TOKEN).  `LoopOp.closeLocal` makes the first one explicit (ghost
`unaccounted`) so that the statements can say precisely what they bound.

The loop's output is the list of calls it makes on the handler (`Op` of Limit.lean), so that the theorems
about handler histories apply to it by refinement.
-/
import Uquic.Model.Amp.Limit
import Uquic.Spec.AmpWire

namespace Uquic.Model.Amp
open Uquic.Spec.AmpMon

/-- the environment's contribution to one `SendMode` consultation and the packing around it -/
structure Env where
  /-- answer of the non-amplification part of `SendMode` -/
  wants : Mode
  /-- sizes of the packets the packer puts into the datagram (`[]`: nothing to pack) -/
  pack : List Nat
deriving Repr, DecidableEq

/-- the post-confirmation loop of `sendPacketsWithoutGSO` / `sendPacketsWithGSO`, entered after
    `triggerSending` got SendAny: append ONE packet (`pack`, `[]` = errNothingToPack), then consult
    `SendMode` (next environment record), continue with that record's packet only on SendAny.
    Returns the handler and the calls made on it. -/
def sendPacketsConfirmed (h : H) (pack : List Nat) : List Env → H × List Op
  | [] => if pack = [] then (h, []) else (h.sentDatagram pack, [.sent pack])
  | e :: rest =>
    if pack = [] then (h, [])
    else
      let h' := h.sentDatagram pack
      if h'.sendMode e.wants = .any then
        let r := sendPacketsConfirmed h' e.pack rest
        (r.1, [.sent pack, .mode e.wants] ++ r.2)
      else (h', [.sent pack, .mode e.wants])

/-- `triggerSending`.  Structural recursion over the environment list (the PTO branch calls
    `triggerSending` again).  `confirmed` = `c.handshakeConfirmed`. -/
def triggerSending (confirmed : Bool) (h : H) : List Env → H × List Op
  | [] => (h, [])
  | e :: rest =>
    match h.sendMode e.wants with
    | .none => (h, [.mode e.wants])                                     -- blockModeHardBlocked
    | .any =>
      if confirmed then
        let r := sendPacketsConfirmed h e.pack rest
        (r.1, [.mode e.wants] ++ r.2)
      else if e.pack = [] then (h, [.mode e.wants])                     -- PackCoalescedPacket returned nil
      else
        let h' := h.sentDatagram e.pack
        -- the second consultation only sets the pacing deadline
        match rest with
        | [] => (h', [.mode e.wants, .sent e.pack])
        | e2 :: _ => (h', [.mode e.wants, .sent e.pack, .mode e2.wants])
    | .ack | .pacingLimited =>                                          -- maybeSendAckOnlyPacket
      if e.pack = [] then (h, [.mode e.wants])
      else (h.sentDatagram e.pack, [.mode e.wants, .sent e.pack])
    | .ptoInitial | .ptoHandshake | .ptoAppData =>                      -- sendProbePacket, then recurse
      if e.pack = [] then (h, [.mode e.wants])                          -- "connection BUG: couldn't pack": error, nothing sent
      else
        let r := triggerSending confirmed (h.sentDatagram e.pack) rest
        (r.1, [.mode e.wants, .sent e.pack] ++ r.2)

/-! ### connection.go `handleOnePacket`: how a received datagram is credited

`handleOnePacket(rp)` FIRST calls `sentPacketHandler.ReceivedBytes(rp.Size())` — once, with the size of the whole
datagram, before anything is parsed — and only then walks over the coalesced packets (`for len(data) > 0`):
a packet with another destination connection ID or an unparsable header ends the walk, an unsupported version
or an undecryptable packet is skipped, a short-header packet consumes the rest; every packet that was decrypted
and whose frames were handled without error ends in `ReceivedPacket(level)`.  None of these iterations touches
the byte counters. -/

/-- what the walk does with one coalesced packet -/
inductive Pkt
  /-- decrypted and processed at this level: `ReceivedPacket(l)` -/
  | processed (l : Level)
  /-- skipped (undecryptable / buffered / duplicate / unsupported version): the walk continues -/
  | skipped
  /-- wrong connection ID, header parse error, or trailing garbage: the walk ends -/
  | stop
deriving Repr, DecidableEq

/-- the calls the walk over the coalesced packets makes on the handler -/
def walkCalls : List Pkt → List Op
  | [] => []
  | .processed l :: rest => .rcvPacket l :: walkCalls rest
  | .skipped :: rest => walkCalls rest
  | .stop :: _ => []

/-- the calls `handleOnePacket` makes on the handler for a datagram of `size` bytes containing `pkts` -/
def handleOnePacketCalls (size : Nat) (pkts : List Pkt) : List Op :=
  .rcvBytes size :: walkCalls pkts

/-- events of the connection as seen by the run loop -/
inductive LoopOp
  /-- a datagram of `size` bytes with these coalesced packets is handled by `handleOnePacket` -/
  | datagram (size : Nat) (pkts : List Pkt)
  /-- a datagram of `n` bytes arrives and is attributed to the connection (`handleOnePacket`) -/
  | arrive (n : Nat)
  /-- one of its packets is decrypted and processed at level `l` -/
  | processed (l : Level)
  /-- the run loop calls `triggerSending` with this environment -/
  | trigger (confirmed : Bool) (envs : List Env)
  /-- local close: `sendConnectionClose` writes one datagram (not accounted, not checked) -/
  | closeLocal (size : Nat)
deriving Repr

structure LoopSt where
  h : H
  /-- the calls made on the handler so far, oldest first -/
  calls : List Op := []
  /-- ghost: what an observer of the socket sees: arrivals, EVERY datagram written (CONNECTION_CLOSE
      included), and the moment of validation -/
  wire : List WireEv := []
deriving Repr

def LoopSt.step (s : LoopSt) : LoopOp → LoopSt
  | .arrive n => { h := s.h.receivedBytes n, calls := s.calls ++ [.rcvBytes n], wire := s.wire ++ [.inn n] }
  | .processed l =>
    { h := s.h.receivedPacket l, calls := s.calls ++ [.rcvPacket l], wire := s.wire ++ opWire s.h (.rcvPacket l) }
  | .trigger confirmed envs =>
    let r := triggerSending confirmed s.h envs
    { h := r.1, calls := s.calls ++ r.2, wire := s.wire ++ wireOfCalls s.h r.2 }
  | .closeLocal size => { s with wire := s.wire ++ [.out size] }
  | .datagram size pkts =>
    let calls := handleOnePacketCalls size pkts
    { h := calls.foldl H.apply s.h, calls := s.calls ++ calls, wire := s.wire ++ wireOfCalls s.h calls }

def LoopOp.isClose : LoopOp → Bool
  | .closeLocal _ => true
  | _ => false

def runLoop (pers : Persp) (cav : Bool) (ops : List LoopOp) : LoopSt :=
  ops.foldl LoopSt.step { h := H.new pers cav }

end Uquic.Model.Amp
