import Uquic.Model.Amp.Token
import Uquic.Generated.AmpToken

/-!
# A Transport that is used, reconfigured and listened on again (C14, state carried across re-use)

`quic.Transport` is a long-lived object: `Listen`, close the listener, change `MaxTokenAge` /
`TokenGeneratorKey` / `VerifySourceAddress`, `Listen` again; or `Dial` / `WriteTo` / `ReadNonQUICPacket` first and
`Listen` later.  `Transport.init` runs ONCE (sync.Once) at the first use; `createServer` runs at EVERY `Listen` and
reads the three exported fields THEN:

```go
maxTokenAge := t.MaxTokenAge; if maxTokenAge == 0 { maxTokenAge = 24 * time.Hour }
s := newServer(…, *t.TokenGeneratorKey, maxTokenAge, t.VerifySourceAddress, …)
```

The only token-related thing `init` leaves behind is the random key it stores INTO the exported field when that
field is nil.  The model keeps exactly this state: the three exported fields and whether `init` ran.
-/
namespace Uquic.Model.Reuse

/-- the key a Transport draws for itself (`rand.Read`): an identifier no issued token was sealed under -/
def randomKey : Nat := 999

/-- the exported fields the token part of a server is made from -/
structure Cfg where
  /-- `TokenGeneratorKey` (`none` = nil pointer); keys are identified by a number -/
  key : Option Nat := none
  /-- `MaxTokenAge` in ns (0 = not set) -/
  maxTokenAge : Int := 0
  /-- `VerifySourceAddress != nil` (the harness' callback answers true for every address) -/
  verify : Bool := false
deriving Repr, DecidableEq

structure T where
  f : Cfg := {}
  inited : Bool := false
  /-- the listener, if one is open: what `newServer` was given -/
  srv : Option Cfg := none
deriving Repr, DecidableEq

inductive Op
  | setKey (k : Nat)
  | setAge (a : Int)
  | setVerify (b : Bool)
  /-- `WriteTo` / `ReadNonQUICPacket` / `Dial`: `init` only -/
  | use
  /-- `Listen` -/
  | listen
  /-- `Listener.Close` -/
  | closeListener
deriving Repr, DecidableEq

/-- `Transport.init`: the body of the `sync.Once` -/
def T.init (t : T) : T :=
  if t.inited then t
  else { t with inited := true, f := { t.f with key := some (t.f.key.getD randomKey) } }

/-- what `createServer` hands to `newServer`: the fields as they are NOW, the lifetime defaulted -/
def effective (f : Cfg) : Cfg :=
  { key := some (f.key.getD randomKey),
    maxTokenAge := if f.maxTokenAge = 0 then Uquic.Gen.AmpToken.defaultMaxTokenAge else f.maxTokenAge,
    verify := f.verify }

def T.step (t : T) : Op → T
  | .setKey k => { t with f := { t.f with key := some k } }
  | .setAge a => { t with f := { t.f with maxTokenAge := a } }
  | .setVerify b => { t with f := { t.f with verify := b } }
  | .use => t.init
  | .listen =>
    if t.srv.isSome then t   -- errListenerAlreadySet
    else let t' := t.init; { t' with srv := some (effective t'.f) }
  | .closeListener => { t with srv := none }

def run (ops : List Op) : T := ops.foldl T.step {}

/-- the configuration an application has written, ignoring every use: the last value of each field -/
def written : List Op → Cfg → Cfg
  | [], f => f
  | .setKey k :: r, f => written r { f with key := some k }
  | .setAge a :: r, f => written r { f with maxTokenAge := a }
  | .setVerify b :: r, f => written r { f with verify := b }
  | _ :: r, f => written r f

/-! ### the seeded alternative: the lifetime is defaulted and cached by `init` -/

structure TC where
  f : Cfg := {}
  inited : Bool := false
  cachedAge : Int := 0
  srv : Option Cfg := none
deriving Repr, DecidableEq

def TC.init (t : TC) : TC :=
  if t.inited then t
  else { t with inited := true, f := { t.f with key := some (t.f.key.getD randomKey) },
                cachedAge := if t.f.maxTokenAge = 0 then Uquic.Gen.AmpToken.defaultMaxTokenAge else t.f.maxTokenAge }

def TC.step (t : TC) : Op → TC
  | .setKey k => { t with f := { t.f with key := some k } }
  | .setAge a => { t with f := { t.f with maxTokenAge := a } }
  | .setVerify b => { t with f := { t.f with verify := b } }
  | .use => t.init
  | .listen =>
    if t.srv.isSome then t
    else let t' := t.init; { t' with srv := some { key := some (t'.f.key.getD randomKey), maxTokenAge := t'.cachedAge, verify := t'.f.verify } }
  | .closeListener => { t with srv := none }

def runCached (ops : List Op) : TC := ops.foldl TC.step {}

end Uquic.Model.Reuse
