/-
Model of address-validation tokens (property C14):

  internal/handshake/token_generator.go   NewRetryToken, NewToken, DecodeToken, encodeRemoteAddr,
                                          Token.ValidateRemoteAddr
  internal/handshake/token_protector.go   NewToken / DecodeToken: `nonce(32) ‖ AEAD_seal(HKDF(secret, nonce), data)`
  server.go                               validateToken (address + age rules), the token part of handleInitialImpl
  config.go                               maxRetryTokenAge = handshakeTimeout = 2 * HandshakeIdleTimeout

Abstract (trusted) parts, each a parameter:
  * `Crypto`: HKDF-SHA256 key/nonce derivation + AES-256-GCM, folded into `aeadSeal secret nonce data` and
    `aeadOpen secret nonce cipher`.  The IDEAL-AEAD hypothesis used by the theorems is `Crypto.Ideal`:
    `aeadOpen` succeeds exactly on outputs of `aeadSeal` under the same secret and nonce.
  * `Codec`: encoding/asn1 Marshal / Unmarshal(+"no rest" check) of the 6-field struct `token`, as an
    encode/decode pair with the round-trip law `Codec.RoundTrip`.

Times are `Int` nanoseconds (Unix time for `SentTime`/`now`, durations for ages and RTT).  `time.Since`
saturates only beyond ±292 years; that range is assumed.
-/
import Uquic.Generated.AmpToken
import Uquic.Generated.Protocol

namespace Uquic.Model.Tok

abbrev Bytes := List UInt8

def tokenPrefixIP : UInt8 := Uquic.Gen.AmpToken.tokenPrefixIP.toNat.toUInt8
def tokenPrefixString : UInt8 := Uquic.Gen.AmpToken.tokenPrefixString.toNat.toUInt8
def tokenNonceSize : Nat := Uquic.Gen.AmpToken.tokenNonceSize.toNat
def maxConnectionIDLen : Nat := Uquic.Gen.Protocol.maxConnectionIDLen.toNat

/-- a `net.Addr` as far as `encodeRemoteAddr` looks at it -/
inductive Addr
  /-- `*net.UDPAddr{IP, Port, Zone}`: `IP` is the raw slice (4 or 16 bytes, or anything else the caller put there) -/
  | udp (ip : Bytes) (port : Nat) (zone : Bytes)
  /-- any other implementation of `net.Addr`: the bytes of its `String()` -/
  | other (str : Bytes)
deriving Repr, DecidableEq

/-- `encodeRemoteAddr`: the port (and zone) of a UDP address is NOT covered -/
def encodeRemoteAddr : Addr → Bytes
  | .udp ip _ _ => tokenPrefixIP :: ip
  | .other s => tokenPrefixString :: s

/-- the struct `token` that is ASN.1-serialised -/
structure Fields where
  isRetryToken : Bool
  remoteAddr : Bytes
  timestamp : Int      -- UnixNano
  rtt : Int            -- microseconds
  odcid : Bytes
  rscid : Bytes
deriving Repr, DecidableEq

/-- the exported `Token` -/
structure Token where
  isRetryToken : Bool
  sentTime : Int                 -- ns since the epoch (`time.Unix(0, Timestamp)`)
  encodedRemoteAddr : Bytes
  rtt : Int := 0                 -- ns; only for non-retry tokens
  odcid : Bytes := []            -- only for retry tokens
  rscid : Bytes := []
deriving Repr, DecidableEq

structure Crypto where
  aeadSeal : (secret nonce data : Bytes) → Bytes
  aeadOpen : (secret nonce cipher : Bytes) → Option Bytes

/-- AES-GCM decrypts what it encrypted (functional correctness of crypto/cipher, trusted) -/
def Crypto.Correct (E : Crypto) : Prop := ∀ s n d, E.aeadOpen s n (E.aeadSeal s n d) = some d
/-- IDEAL AEAD: only outputs of `aeadSeal` under the same secret and nonce open (no forgery, no mauling) -/
def Crypto.Ideal (E : Crypto) : Prop := ∀ s n c d, E.aeadOpen s n c = some d → c = E.aeadSeal s n d

structure Codec where
  enc : Fields → Bytes
  /-- `asn1.Unmarshal` succeeded and left no rest -/
  dec : Bytes → Option Fields

def Codec.RoundTrip (C : Codec) : Prop := ∀ f, C.dec (C.enc f) = some f

/-! ### token_protector.go -/

/-- `tokenProtector.NewToken(data)` with the 32 random bytes `nonce` -/
def protect (E : Crypto) (secret nonce data : Bytes) : Bytes := nonce ++ E.aeadSeal secret nonce data

/-- `tokenProtector.DecodeToken(p)` -/
def unprotect (E : Crypto) (secret p : Bytes) : Option Bytes :=
  if p.length < tokenNonceSize then none
  else E.aeadOpen secret (p.take tokenNonceSize) (p.drop tokenNonceSize)

/-! ### token_generator.go -/

/-- `NewRetryToken(raddr, origDestConnID, retrySrcConnID)` at wall-clock `now`, random `nonce` -/
def newRetryToken (E : Crypto) (C : Codec) (secret nonce : Bytes) (raddr : Addr) (odcid rscid : Bytes) (now : Int) : Bytes :=
  protect E secret nonce (C.enc { isRetryToken := true, remoteAddr := encodeRemoteAddr raddr, timestamp := now,
                                  rtt := 0, odcid := odcid, rscid := rscid })

/-- `NewToken(raddr, rtt)` (NEW_TOKEN frame); `rttMicros = rtt.Microseconds()` -/
def newToken (E : Crypto) (C : Codec) (secret nonce : Bytes) (raddr : Addr) (rttMicros : Int) (now : Int) : Bytes :=
  protect E secret nonce (C.enc { isRetryToken := false, remoteAddr := encodeRemoteAddr raddr, timestamp := now,
                                  rtt := rttMicros, odcid := [], rscid := [] })

inductive Decoded
  /-- `(nil, nil)`: no token bytes at all -/
  | absent
  /-- `(nil, err)` -/
  | err
  /-- `protocol.ParseConnectionID` panics on more than 20 bytes -/
  | panic
  | ok (t : Token)
deriving Repr, DecidableEq

def Token.ofFields (f : Fields) : Token :=
  if f.isRetryToken then
    { isRetryToken := true, sentTime := f.timestamp, encodedRemoteAddr := f.remoteAddr, odcid := f.odcid, rscid := f.rscid }
  else
    { isRetryToken := false, sentTime := f.timestamp, encodedRemoteAddr := f.remoteAddr, rtt := f.rtt * 1000 }

/-- `TokenGenerator.DecodeToken(encrypted)` -/
def decodeToken (E : Crypto) (C : Codec) (secret encrypted : Bytes) : Decoded :=
  if encrypted.length = 0 then .absent
  else match unprotect E secret encrypted with
    | none => .err
    | some data => match C.dec data with
      | none => .err
      | some f =>
        if f.isRetryToken ∧ (f.odcid.length > maxConnectionIDLen ∨ f.rscid.length > maxConnectionIDLen) then .panic
        else .ok (Token.ofFields f)

/-- `Token.ValidateRemoteAddr` -/
def Token.validateRemoteAddr (t : Token) (a : Addr) : Bool := encodeRemoteAddr a == t.encodedRemoteAddr

/-! ### server.go / config.go -/

/-- `Config.maxRetryTokenAge()` = `handshakeTimeout()` = factor * HandshakeIdleTimeout -/
def maxRetryTokenAge (handshakeIdleTimeout : Int) : Int :=
  if Uquic.Gen.AmpToken.maxRetryTokenAgeIsHandshakeTimeout then Uquic.Gen.AmpToken.handshakeTimeoutFactor * handshakeIdleTimeout
  else 0

/-- `baseServer.validateToken(token, addr)` at wall-clock `now` -/
def validateToken (t : Option Token) (a : Addr) (now maxTokenAge maxRetryAge : Int) : Bool :=
  match t with
  | none => false
  | some t =>
    if !t.validateRemoteAddr a then false
    else if !t.isRetryToken ∧ now - t.sentTime > maxTokenAge then false
    else if t.isRetryToken ∧ now - t.sentTime > maxRetryAge then false
    else true

/-- what the token part of `handleInitialImpl` decides -/
inductive InitialOutcome
  /-- queued on `invalidTokenQueue` (INVALID_TOKEN is sent if the packet can be unprotected); no connection -/
  | invalidToken
  /-- queued on `retryQueue`: a Retry is sent; no connection -/
  | retry
  /-- `newConn(…, origDestConnID, retrySrcConnID, …, clientAddrVerified, rtt, …)` -/
  | proceed (clientAddrVerified : Bool) (origDestConnID : Bytes) (retrySrcConnID : Option Bytes) (rtt : Int)
  | panic
deriving Repr, DecidableEq

/-- the token part of `handleInitialImpl`; `hdrToken` = `hdr.Token`, `hdrDCID` = `hdr.DestConnectionID`,
    `wantsRetry` = `s.verifySourceAddress != nil && s.verifySourceAddress(p.remoteAddr)` -/
def handleInitial (E : Crypto) (C : Codec) (secret hdrToken hdrDCID : Bytes) (remote : Addr)
    (now maxTokenAge maxRetryAge : Int) (wantsRetry : Bool) : InitialOutcome :=
  -- `if len(hdr.Token) > 0 { tok, err := DecodeToken(hdr.Token); if err == nil { … token = tok } }`
  let dec := if hdrToken.length > 0 then decodeToken E C secret hdrToken else .absent
  match dec with
  | .panic => .panic
  | .ok tok =>
    let origDestConnID := if tok.isRetryToken then tok.odcid else hdrDCID
    let retrySrc := if tok.isRetryToken then some tok.rscid else none
    if validateToken (some tok) remote now maxTokenAge maxRetryAge then
      .proceed true origDestConnID retrySrc (if tok.isRetryToken then 0 else tok.rtt)
    else if tok.isRetryToken then .invalidToken
    else
      -- invalid or expired non-retry token: "act as if there was no token on this packet at all"
      if wantsRetry then .retry else .proceed false origDestConnID retrySrc 0
  | .absent | .err =>
    -- an undecodable token is treated exactly like an absent one
    if wantsRetry then .retry else .proceed false hdrDCID none 0

end Uquic.Model.Tok
