/-
Model of the glue between a connection's packet loop and its flow controllers (property C04):

* `Conn.handleFrames` (connection.go): the frames of ONE packet are handled in order; `handleErr` /
  `skipHandling`, traced (qlog on, `log != nil`: the loop keeps PARSING after an error) or not.  The loop
  is the one modelled for C15 (`Uquic.Model.Streams.frameLoop`, generic in the handler); whether each
  dispatch branch (the inlined STREAM fast path, ACK, DATAGRAM, everything else → `handleFrame`) has its
  `if skipHandling { continue }` guard is the regenerated fact `Uquic.Gen.Streams.skipGuards`.
* the handlers behind it, as far as flow control is concerned: a STREAM frame and a RESET_STREAM frame
  reach `UpdateHighestReceived` of the stream's controller (which counts the increment at the ONE
  connection controller), MAX_STREAM_DATA / MAX_DATA reach `UpdateSendWindow`; every other frame leaves
  the flow controllers alone.

The state is the C04 model's `State` (one connection controller, stream `i` = index `i`).
Driven on the real code by the `pkt` operation of the `flowcall` driver (real constructors, real
`handleShortHeaderPacket` → `handleFrames` → `handleFrame`, traced or not).
-/
import Uquic.Model.FlowControl
import Uquic.Model.Streams.Glue

namespace Uquic.Model.FlowGlue
open Uquic.Model.FlowControl
open Uquic.Model.Streams (frameLoop handleFramesG firstErrorSpec branchGuard)

/-- the frames of a 1-RTT packet, as far as flow control sees them -/
inductive PFrame where
  | stream (id : Nat) (endOff : Int) (fin : Bool)     -- STREAM: offset + length, FIN
  | reset (id : Nat) (finalSize : Int)                -- RESET_STREAM / RESET_STREAM_AT
  | maxStreamData (id : Nat) (v : Int)
  | maxData (v : Int)
  | other                                             -- PING, *_BLOCKED, …: the controllers are not touched
deriving Repr, DecidableEq

/-- dispatch branch of `handleFrames` a frame takes -/
def PFrame.branch : PFrame → String
  | .stream .. => "stream"
  | _ => "other"

/-- `if skipHandling { continue }` present in the branch this frame takes (regenerated fact) -/
def PFrame.guarded (f : PFrame) : Bool := branchGuard f.branch

inductive PErr where
  | flowControl | finalSize
deriving Repr, DecidableEq

def errOf : Out → Option PErr
  | .recv .flowControl => some .flowControl
  | .recv .finalSize => some .finalSize
  | _ => none

/-- handling ONE frame (`streamsMap.HandleStreamFrame` / `HandleResetStreamFrame` → the receive stream →
    `UpdateHighestReceived`; `Conn.handleFrame` for MAX_DATA / MAX_STREAM_DATA) at receive time `now` -/
def handleOne (now : Int) (s : State) : PFrame → State × Option PErr
  | .stream id e fin => ((step s (.recv id e fin now)).1, errOf (step s (.recv id e fin now)).2)
  | .reset id fs => ((step s (.recv id fs true now)).1, errOf (step s (.recv id fs true now)).2)
  | .maxStreamData id v => ((step s (.smax id v)).1, none)
  | .maxData v => ((step s (.cmax v)).1, none)
  | .other => (s, none)

/-- `Conn.handleFrames` on this model: the C15 frame loop around `handleOne` -/
def handlePacket (now : Int) (trace : Bool) (s : State) (fs : List PFrame) : State × Option PErr :=
  handleFramesG (handleOne now) PFrame.guarded trace s fs

end Uquic.Model.FlowGlue
